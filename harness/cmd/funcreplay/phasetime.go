package main

import (
	"time"

	"go.brendoncarroll.net/p2p/p/mbapp"
	"verifharness/trace"
)

// The model's period is P ticks; the real period is units * 2^31 ns, so one tick is
// units * 2^31 / P ns and one stored unit is P / 2^31 ticks.  Every instant of the model is an
// exact time.Time; every result is an exact multiple of the tick (or the event says it is not).

type ptCase struct {
	X   int64 `json:"x"`
	Now int64 `json:"now"`
}

type ptEvent struct {
	Ev    string  `json:"ev"`
	U     string  `json:"u"`
	X     int64   `json:"x"`
	Now   int64   `json:"now"`
	Odd   bool    `json:"odd"`
	D     int64   `json:"d"`   // stored distance, in ticks
	Dec   int64   `json:"dec"` // UTC(New(x), now), in ticks
	Le    int64   `json:"le"`
	Lo    int64   `json:"lo"`
	No    int64   `json:"no"`
	Exact bool    `json:"exact"` // every value above was an exact multiple of the tick
	Sub   []int64 `json:"sub"`   // UTC(New(x+delta), now) - UTC(New(x), now) in units, delta = 1ns, units-1ns, units, 2*units-1ns
	SubEx bool    `json:"subex"`
	// adversarial 32-bit patterns decoded at `now`: max |decode - now| < period for all of them
	Near  bool   `json:"near"`
	Panic bool   `json:"panic"`
	What  string `json:"what"`
}

func floorDiv(a, b int64) (q, r int64) {
	q = a / b
	r = a % b
	if r < 0 {
		q--
		r += b
	}
	return q, r
}

func runPhaseTime(in string, w *trace.Writer, P int64) {
	unitsList := []struct {
		name string
		u    time.Duration
	}{{"1ms", time.Millisecond}, {"1us", time.Microsecond}, {"2ms", 2 * time.Millisecond}, {"250ms", 250 * time.Millisecond}}
	quarter := P / 4
	readLines(in, func(line []byte) {
		var c ptCase
		mustUnmarshal(line, &c)
		for ui, un := range unitsList {
			if ui > 0 {
				// the other units: only at the interesting skews
				s := c.Now - c.X
				if !(s == 0 || s == quarter || s == -quarter || s == quarter+1 || s == -quarter-1 || s == 2*quarter || s == -2*quarter) {
					continue
				}
			}
			ev := ptEvent{Ev: "pt", U: un.name, X: c.X, Now: c.Now, Sub: []int64{}}
			p, what := guard(func() { phaseTimeCase(&ev, c, un.u, P) })
			if p {
				ev.Panic, ev.What = true, what
			}
			w.Emit(ev)
		}
	})
}

func phaseTimeCase(ev *ptEvent, c ptCase, units time.Duration, P int64) {
	period := mbapp.VerifPeriod32(units)
	tick := period / P
	unitsPerTick := (int64(1) << 31) / P
	exact := period%P == 0 && period == int64(units)*(1<<31)
	xns, nowns := c.X*tick, c.Now*tick
	x, now := time.Unix(0, xns), time.Unix(0, nowns)
	pt := mbapp.NewPhaseTime32(x, units)
	ev.Odd = pt&0x80000000 != 0
	d := int64(pt & 0x7FFFFFFF)
	var r int64
	ev.D, r = floorDiv(d, unitsPerTick)
	exact = exact && r == 0
	dec := pt.UTC(now, units)
	ev.Dec, r = floorDiv(dec.UnixNano(), tick)
	exact = exact && r == 0
	ev.Le, r = floorDiv(mbapp.VerifLastEvenEpoch(now, period), tick)
	exact = exact && r == 0
	ev.Lo, r = floorDiv(mbapp.VerifLastOddEpoch(now, period), tick)
	exact = exact && r == 0
	ev.No, r = floorDiv(mbapp.VerifNextOddEpoch(now, period), tick)
	exact = exact && r == 0
	ev.Exact = exact
	// resolution: sub-unit offsets are truncated to the unit
	ev.SubEx = true
	u := int64(units)
	for _, delta := range []int64{1, u - 1, u, 2*u - 1} {
		d2 := mbapp.NewPhaseTime32(time.Unix(0, xns+delta), units).UTC(now, units)
		q, r := floorDiv(d2.UnixNano()-dec.UnixNano(), u)
		ev.Sub = append(ev.Sub, q)
		ev.SubEx = ev.SubEx && r == 0
	}
	// whatever the 32 bits, the decoded time is less than one period from the receiver's clock
	ev.Near = true
	if c.X == c.Now && nowns >= 0 {
		for _, bits := range []uint32{0, 1, 0x7FFFFFFF, 0x80000000, 0x80000001, 0xFFFFFFFF, 0x3FFFFFFF, 0x40000000, 0xC0000000, 0x5A5A5A5A, 0xA5A5A5A5} {
			diff := mbapp.PhaseTime32(bits).UTC(now, units).UnixNano() - nowns
			if diff < 0 {
				diff = -diff
			}
			if diff >= period {
				ev.Near = false
			}
		}
	}
}
