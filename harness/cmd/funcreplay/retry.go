package main

import (
	"context"
	"errors"
	"math"
	"sync"
	"time"

	"go.brendoncarroll.net/p2p/s/swarmutil/retry"
	"verifharness/trace"
)

// ---------------------------------------------------------------------------
// loop cases: Retry driven by a Waiter whose channels the harness controls (retry.VerifWithWaiter),
// so that no real time is involved.  The script says, per fn call, what it returns and whether the
// context is cancelled while it runs, and per Wait, whether the timer is ready and/or the context
// is cancelled before Retry's select looks.

type loopCall struct {
	Out          string `json:"out"` // nil | fatal | retry
	CancelInside bool   `json:"cancelInside"`
}

type loopWait struct {
	Fire   bool `json:"fire"`
	Cancel bool `json:"cancel"`
}

type retryCase struct {
	Kind string `json:"kind"` // loop | bf | bfbig | rt
	ID   int    `json:"id"`
	// loop
	CancelBefore bool       `json:"cancelBefore"`
	Calls        []loopCall `json:"calls"`
	Waits        []loopWait `json:"waits"`
	ExpRet       string     `json:"expRet"`
	ExpCalls     int        `json:"expCalls"`
	Tie          bool       `json:"tie"`
	// bf
	K        string `json:"k"`
	N        int    `json:"n"`
	ExpInit  int64  `json:"expInit"`
	ExpEvery int    `json:"expEvery"`
	CapAt    int64  `json:"capAt"`
	LinM     int64  `json:"linM"`
	LinB     int64  `json:"linB"`
	FloorAt  int64  `json:"floorAt"`
	// rt
	Name string `json:"name"`
}

type obsCall struct {
	Out     string `json:"out"`
	CtxDone bool   `json:"ctxdone"`
	Idx     int    `json:"idx"`
}

type obsWait struct {
	N        int    `json:"n"`
	CtxReady bool   `json:"ctxReady"`
	TmReady  bool   `json:"tmReady"`
	Took     string `json:"took"` // timer | ctx | none
}

type loopEvent struct {
	Ev        string    `json:"ev"`
	ID        int       `json:"id"`
	Calls     []obsCall `json:"calls"`
	Waits     []obsWait `json:"waits"`
	Ret       string    `json:"ret"` // nil | fatal | ctx | hang | other
	CtxDone   bool      `json:"ctxDone"`
	NClosed   int       `json:"nclosed"`
	StartSame bool      `json:"startSame"` // every Wait got the same startTime
	ExpRet    string    `json:"expRet"`
	ExpCalls  int       `json:"expCalls"`
	Tie       bool      `json:"tie"`
	Panic     bool      `json:"panic"`
	What      string    `json:"what"`
}

type fakeWaiter struct {
	mu      sync.Mutex
	script  []loopWait
	cancel  context.CancelFunc
	ctx     context.Context
	waits   []obsWait
	starts  []time.Time
	nclosed int
}

func (fw *fakeWaiter) Wait(n int, start time.Time) <-chan time.Time {
	fw.mu.Lock()
	defer fw.mu.Unlock()
	j := len(fw.waits)
	ch := make(chan time.Time, 1)
	var sw loopWait
	if j < len(fw.script) {
		sw = fw.script[j]
	} else {
		// beyond the script (a tie went the other way, or a defect): end the context so that Retry ends
		sw = loopWait{Cancel: true}
	}
	if sw.Fire {
		ch <- time.Now()
	}
	if sw.Cancel {
		fw.cancel()
	}
	fw.waits = append(fw.waits, obsWait{N: n, CtxReady: fw.ctx.Err() != nil, TmReady: sw.Fire, Took: "none"})
	fw.starts = append(fw.starts, start)
	return ch
}

func (fw *fakeWaiter) Close() error {
	fw.mu.Lock()
	defer fw.mu.Unlock()
	fw.nclosed++
	return nil
}

var (
	errRetryable = errors.New("retryable")
	errFatal     = errors.New("fatal")
)

func runLoop(c retryCase) loopEvent {
	ev := loopEvent{Ev: "loop", ID: c.ID, Calls: []obsCall{}, Waits: []obsWait{}, ExpRet: c.ExpRet, ExpCalls: c.ExpCalls, Tie: c.Tie}
	ctx, cancel := context.WithCancel(context.Background())
	defer cancel()
	if c.CancelBefore {
		cancel()
	}
	fw := &fakeWaiter{script: c.Waits, cancel: cancel, ctx: ctx}
	var mu sync.Mutex
	calls := []obsCall{}
	fn := func() error {
		mu.Lock()
		defer mu.Unlock()
		j := len(calls)
		sc := loopCall{Out: "retry"}
		if j < len(c.Calls) {
			sc = c.Calls[j]
		}
		calls = append(calls, obsCall{Out: sc.Out, CtxDone: ctx.Err() != nil, Idx: j})
		if sc.CancelInside {
			cancel()
		}
		switch sc.Out {
		case "nil":
			return nil
		case "fatal":
			return errFatal
		}
		return errRetryable
	}
	done := make(chan error, 1)
	var pan string
	go func() {
		p, what := guard(func() {
			done <- retry.Retry(ctx, fn, retry.VerifWithWaiter(fw), retry.WithPredicate(func(err error) bool { return err != errFatal }))
		})
		if p {
			pan = what
			done <- errors.New("panic")
		}
	}()
	var err error
	select {
	case err = <-done:
		switch {
		case pan != "":
			ev.Ret, ev.Panic, ev.What = "other", true, pan
		case err == nil:
			ev.Ret = "nil"
		case err == errFatal:
			ev.Ret = "fatal"
		case ctx.Err() != nil && err == ctx.Err():
			ev.Ret = "ctx"
		default:
			ev.Ret, ev.What = "other", err.Error()
		}
	case <-time.After(20 * time.Second):
		ev.Ret = "hang"
		cancel()
	}
	mu.Lock()
	ev.Calls = append(ev.Calls, calls...)
	mu.Unlock()
	fw.mu.Lock()
	ev.Waits = append(ev.Waits, fw.waits...)
	ev.NClosed = fw.nclosed
	ev.StartSame = true
	for _, s := range fw.starts {
		if !s.Equal(fw.starts[0]) {
			ev.StartSame = false
		}
	}
	fw.mu.Unlock()
	ev.CtxDone = ctx.Err() != nil
	for j := range ev.Waits {
		if j+1 < len(ev.Calls) {
			ev.Waits[j].Took = "timer"
		} else if ev.Ret == "ctx" {
			ev.Waits[j].Took = "ctx"
		}
	}
	return ev
}

// ---------------------------------------------------------------------------
// backoff constructors

type bfEvent struct {
	Ev  string `json:"ev"`
	K   string `json:"k"`
	N   int    `json:"n"`
	V   int64  `json:"v"`   // value at n (ns)
	W   int64  `json:"w"`   // value at n+1
	Raw int64  `json:"raw"` // the wrapped function's value at n (expmax, linmin)
	Fit bool   `json:"fit"` // all three fit in 31 bits
}

func clip(v int64) (int64, bool) {
	if v > math.MaxInt32 {
		return math.MaxInt32, false
	}
	if v < math.MinInt32 {
		return math.MinInt32, false
	}
	return v, true
}

func runBf(c retryCase) bfEvent {
	exp := retry.NewExponentialBackoff(time.Duration(c.ExpInit), c.ExpEvery)
	lin := retry.NewLinearBackoff(time.Duration(c.LinM), time.Duration(c.LinB))
	var f, raw retry.BackoffFunc
	switch c.K {
	case "const":
		f = retry.NewConstantBackoff(time.Duration(c.LinB))
		raw = f
	case "linear":
		f, raw = lin, lin
	case "exp":
		f, raw = exp, exp
	case "expmax":
		f, raw = retry.MaxBackoff(exp, time.Duration(c.CapAt)), exp
	case "linmin":
		f, raw = retry.MinBackoff(lin, time.Duration(c.FloorAt)), lin
	default:
		fatal(errors.New("unknown backoff kind " + c.K))
	}
	ev := bfEvent{Ev: "bf", K: c.K, N: c.N}
	var a, b, d bool
	ev.V, a = clip(int64(f(c.N, time.Duration(c.N)*time.Second)))
	ev.W, b = clip(int64(f(c.N+1, 0)))
	ev.Raw, d = clip(int64(raw(c.N, 0)))
	ev.Fit = a && b && d
	return ev
}

// bfbig: the shapes that do not fit the scaled model: the default backoff
// MaxBackoff(NewExponentialBackoff(100ms, 2), 30s) and the plain exponential at large retry counts.
type bfBigEvent struct {
	Ev      string `json:"ev"`
	N       int    `json:"n"`
	ExpNeg  bool   `json:"expNeg"`  // exponential(n) < 0
	ExpMono bool   `json:"expMono"` // exponential(n+1) >= exponential(n)
	CapNeg  bool   `json:"capNeg"`  // capped(n) < 0
	CapLe   bool   `json:"capLe"`   // capped(n) <= cap
	CapMono bool   `json:"capMono"` // capped(n+1) >= capped(n)
	CapEq   bool   `json:"capEq"`   // capped(n) == cap
	Beyond  bool   `json:"beyond"`  // 100ms * 2^(n/2) >= 30s: the cap must have been reached
}

func runBfBig(c retryCase) bfBigEvent {
	exp := retry.NewExponentialBackoff(100*time.Millisecond, 2)
	capd := retry.MaxBackoff(exp, 30*time.Second)
	n := c.N
	return bfBigEvent{Ev: "bfbig", N: n,
		ExpNeg: exp(n, 0) < 0, ExpMono: exp(n+1, 0) >= exp(n, 0),
		CapNeg: capd(n, 0) < 0, CapLe: capd(n, 0) <= 30*time.Second, CapMono: capd(n+1, 0) >= capd(n, 0),
		CapEq: capd(n, 0) == 30*time.Second, Beyond: n >= 17}
}

// ---------------------------------------------------------------------------
// real time: Retry with its own backoffWaiter (time.After), millisecond-scale delays.
// Only lower bounds (always safe) and generous upper bounds (>= 10x healthy, <= 1/10 of stuck).

type rtEvent struct {
	Ev      string  `json:"ev"`
	Name    string  `json:"name"`
	Ret     string  `json:"ret"`
	NCalls  int     `json:"ncalls"`
	GapUs   []int64 `json:"gapUs"`   // call j returned -> call j+1 started
	WantUs  []int64 `json:"wantUs"`  // the delay the backoff function asked for
	ArgN    []int   `json:"argN"`    // numRetries the backoff function was called with
	ElUs    []int64 `json:"elUs"`    // elapsed the backoff function was called with
	LatUs   int64   `json:"latUs"`   // context ended -> Retry returned
	SlackUs int64   `json:"slackUs"` // allowed lateness
	Retried bool    `json:"retried"`
}

func us(d time.Duration) int64 {
	v := d.Microseconds()
	if v > math.MaxInt32 {
		return math.MaxInt32
	}
	return v
}

const rtSlack = 3 * time.Second

func runRT(c retryCase) rtEvent {
	ev := runRTOnce(c)
	if !rtOK(ev) {
		// re-measure once: the machine is shared
		ev = runRTOnce(c)
		ev.Retried = true
	}
	return ev
}

func rtOK(ev rtEvent) bool {
	for j := range ev.GapUs {
		if j < len(ev.WantUs) && (ev.GapUs[j] < ev.WantUs[j] || ev.GapUs[j] > ev.WantUs[j]+ev.SlackUs) {
			return false
		}
	}
	return ev.LatUs <= ev.SlackUs && ev.Ret != "hang"
}

func runRTOnce(c retryCase) rtEvent {
	ev := rtEvent{Ev: "rt", Name: c.Name, GapUs: []int64{}, WantUs: []int64{}, ArgN: []int{}, ElUs: []int64{}, SlackUs: us(rtSlack)}
	var mu sync.Mutex
	var lastRet time.Time
	ncalls := 0
	failures := 0
	fn := func() error {
		mu.Lock()
		defer mu.Unlock()
		now := time.Now()
		if ncalls > 0 {
			ev.GapUs = append(ev.GapUs, us(now.Sub(lastRet)))
		}
		ncalls++
		var err error
		if ncalls <= failures {
			err = errRetryable
		}
		lastRet = time.Now()
		return err
	}
	record := func(want time.Duration) retry.BackoffFunc {
		return func(n int, el time.Duration) time.Duration {
			mu.Lock()
			defer mu.Unlock()
			d := want
			if want < 0 {
				d = time.Duration(n+1) * 3 * time.Millisecond
			}
			ev.ArgN = append(ev.ArgN, n)
			ev.ElUs = append(ev.ElUs, us(el))
			ev.WantUs = append(ev.WantUs, us(d))
			return d
		}
	}
	ctx, cancel := context.WithCancel(context.Background())
	defer cancel()
	var opts []retry.RetryOption
	var ended time.Time // when the context ended
	switch c.Name {
	case "gaps":
		failures = 4
		opts = append(opts, retry.WithBackoff(record(-1)))
	case "default":
		failures = 2
		ev.WantUs = []int64{100000, 141421}
	case "cancel-in-wait":
		failures = 1 << 30
		opts = append(opts, retry.WithBackoff(record(30*time.Second)))
		go func() {
			time.Sleep(40 * time.Millisecond)
			mu.Lock()
			ended = time.Now()
			mu.Unlock()
			cancel()
		}()
	case "deadline-in-wait":
		failures = 1 << 30
		opts = append(opts, retry.WithBackoff(record(30*time.Second)))
		var cf context.CancelFunc
		dl := time.Now().Add(40 * time.Millisecond)
		ctx, cf = context.WithDeadline(ctx, dl)
		defer cf()
		ended = dl
	default:
		fatal(errors.New("unknown rt case " + c.Name))
	}
	done := make(chan error, 1)
	go func() { done <- retry.Retry(ctx, fn, opts...) }()
	limit := 10 * time.Second
	select {
	case err := <-done:
		ret := time.Now()
		switch {
		case err == nil:
			ev.Ret = "nil"
		case ctx.Err() != nil && err == ctx.Err():
			ev.Ret = "ctx"
			mu.Lock()
			if !ended.IsZero() && ret.After(ended) {
				ev.LatUs = us(ret.Sub(ended))
			}
			mu.Unlock()
		default:
			ev.Ret = "other"
		}
	case <-time.After(limit):
		ev.Ret = "hang"
		ev.LatUs = us(limit)
		cancel()
	}
	mu.Lock()
	ev.NCalls = ncalls
	ev.GapUs = append([]int64{}, ev.GapUs...)
	mu.Unlock()
	return ev
}

func runRetry(in string, w *trace.Writer) {
	readLines(in, func(line []byte) {
		var c retryCase
		mustUnmarshal(line, &c)
		switch c.Kind {
		case "loop":
			w.Emit(runLoop(c))
		case "bf":
			w.Emit(runBf(c))
		case "bfbig":
			w.Emit(runBfBig(c))
		case "rt":
			w.Emit(runRT(c))
		default:
			fatal(errors.New("unknown retry case kind " + c.Kind))
		}
	})
}
