// funcreplay replays TLC-generated cases of the G02 specifications on the real functions and
// records what they returned; the ndjson logs are validated by spec/PhaseTimeTrace.tla,
// spec/RetryTrace.tla, spec/PacketConnTrace.tla and spec/KadWouldTrace.tla.
//
//	-mode phasetime   mbapp.PhaseTime32 (NewPhaseTime32, UTC, lastEvenEpoch, lastOddEpoch, nextOddEpoch)
//	-mode retry       retry.Retry (fake waiter and real time) and the backoff constructors
//	-mode packetconn  p2pconn.NewPacketConn over s/memswarm
//	-mode would       kademlia.Cache WouldPut / WouldAdd / AcceptingPrefixLen versus Put
package main

import (
	"bufio"
	"encoding/json"
	"flag"
	"fmt"
	"os"

	"verifharness/trace"
)

func readLines(path string, fn func(line []byte)) {
	f, err := os.Open(path)
	if err != nil {
		fatal(err)
	}
	defer f.Close()
	sc := bufio.NewScanner(f)
	sc.Buffer(make([]byte, 1<<20), 1<<26)
	for sc.Scan() {
		if len(sc.Bytes()) == 0 {
			continue
		}
		fn(append([]byte{}, sc.Bytes()...))
	}
	if err := sc.Err(); err != nil {
		fatal(err)
	}
}

func fatal(err error) {
	fmt.Fprintln(os.Stderr, "funcreplay:", err)
	os.Exit(3)
}

func mustUnmarshal(data []byte, v any) {
	if err := json.Unmarshal(data, v); err != nil {
		fatal(fmt.Errorf("%v in %s", err, string(data)))
	}
}

// guard runs fn and reports a panic instead of crashing.
func guard(fn func()) (panicked bool, what string) {
	defer func() {
		if r := recover(); r != nil {
			panicked, what = true, fmt.Sprint(r)
		}
	}()
	fn()
	return false, ""
}

func main() {
	mode := flag.String("mode", "", "phasetime | retry | packetconn | would")
	in := flag.String("in", "", "cases (ndjson)")
	out := flag.String("out", "", "trace (ndjson)")
	period := flag.Int64("P", 16, "phasetime: the model's period in ticks (a power of two)")
	par := flag.Int("par", 16, "packetconn: behaviours executed concurrently")
	flag.Parse()
	w, err := trace.Create(*out)
	if err != nil {
		fatal(err)
	}
	switch *mode {
	case "phasetime":
		runPhaseTime(*in, w, *period)
	case "retry":
		runRetry(*in, w)
	case "packetconn":
		runPacketConn(*in, w, *par)
	case "would":
		runWould(*in, w)
	default:
		fatal(fmt.Errorf("unknown mode %q", *mode))
	}
	n := w.Count()
	if err := w.Close(); err != nil {
		fatal(err)
	}
	fmt.Printf("mode=%s events=%d\n", *mode, n)
}
