// dhtreplay runs TLC-generated cases of spec/DHT.tla against the real iterative DHT
// operations (kademlia.DHTFindNode / DHTJoin / DHTGet / DHTPut) and records, per case, the
// Ask invocations in order, the result struct, the error flag, panics and non-termination.
// The resulting ndjson trace is validated by spec/DHTTrace.tla.
//
// Family "adv": a stateless adversarial topology (what a node answers is a function of its
// id only), node ids are 32-byte PeerIDs built from the model's small ids so that the XOR
// distance order to the target equals the model's order.
// Family "honest": a small network of real kademlia.DHTNode handlers (plus dead and
// adversarial members); what every contacted node answered is recorded, and the ids involved
// are renamed to their rank by distance to the key (0 = the key itself).
package main

import (
	"bufio"
	"bytes"
	"encoding/json"
	"errors"
	"flag"
	"fmt"
	"io"
	"log"
	"math/rand"
	"os"
	"sort"
	"strings"
	"sync"
	"time"

	"go.brendoncarroll.net/p2p"
	"go.brendoncarroll.net/p2p/p/kademlia"
	"verifharness/trace"
)

type Responder struct {
	ID     int   `json:"id"`
	Reply  []int `json:"reply"`
	Fail   bool  `json:"fail"`
	Accept bool  `json:"accept"`
	Val    int   `json:"val"` // value class: 0 nil, 1 well-formed, 2 malformed, 3 empty but non-nil, 4 well-formed bytes shared by several nodes
	Bad    bool  `json:"bad"` // FindNode's Validate rejects this node's info
	Adv    bool  `json:"adv"` // not a real DHTNode handler
}

type Case struct {
	ID  int    `json:"id"`
	Fam string `json:"fam"`
	Op  string `json:"op"`
	Min int    `json:"min"`
	// the caller's Validate (get): 0 none given (accept all), 1 reject malformed, 2 reject malformed and empty, 3 reject everything
	VMode int `json:"vmode"`
	// length of the get / put key in bytes (a key shorter than a PeerID makes distinct peers tie); 0 means 32
	KLen int `json:"klen"`
	// adv: dist[m] is the distance class of node m (the identity when the key has 32 bytes)
	Dist []int `json:"dist"`
	// adv
	N     int         `json:"n"`
	Init  []int       `json:"init"`
	Topo  []Responder `json:"topo"`
	Emb   string      `json:"emb"`
	TSeed int64       `json:"tseed"`
	// honest
	Size    int   `json:"size"`
	Peers   int   `json:"peers"`
	Data    int   `json:"data"`
	Dead    int   `json:"dead"`
	AdvN    int   `json:"advn"`
	NInit   int   `json:"ninit"`
	Dup     bool  `json:"dup"`
	Holders int   `json:"holders"`
	Poison  int   `json:"poison"`
	Prefill int   `json:"prefill"`
	Exists  bool  `json:"exists"`
	Seed    int64 `json:"seed"`
}

type Result struct {
	Closest   int   `json:"closest"`
	Contacted int   `json:"contacted"`
	Responded int   `json:"responded"`
	Accepted  int   `json:"accepted"`
	From      int   `json:"from"`
	HasVal    bool  `json:"hasval"`
	ValOK     bool  `json:"valok"` // ground truth: the case's Validate accepts exactly the returned bytes
	ValSrc    []int `json:"valsrc"`
	Added     int   `json:"added"`
}

type Event struct {
	Ev       string      `json:"ev"`
	ID       int         `json:"id"`
	Fam      string      `json:"fam"`
	Op       string      `json:"op"`
	Min      int         `json:"min"`
	VMode    int         `json:"vmode"`
	KLen     int         `json:"klen"`
	Dist     []int       `json:"dist"` // distance class of every model id 0..universe-1
	Init     []int       `json:"init"`
	Topo     []Responder `json:"topo"`
	Contacts []int       `json:"contacts"`
	Res      Result      `json:"res"`
	Err      bool        `json:"err"`
	Panic    bool        `json:"panic"`
	PanicV   string      `json:"panicv"`
	NonTerm  bool        `json:"nonterm"`
	Universe int         `json:"universe"`
}

const (
	none    = -1 // the zero PeerID
	unknown = -2 // a PeerID that is not part of the case
)

// world is what one case looks like to the generic runner: PeerIDs in, recorded contacts out.
type world struct {
	mu       sync.Mutex
	contacts []p2p.PeerID
	bound    int
	nonterm  bool
	served   map[p2p.PeerID][]byte // get: the value bytes a node served at its first contact
}

var errStepBound = errors.New("verif: step bound exceeded")

// contact records one Ask invocation; it reports false once the step bound is exceeded.
func (w *world) contact(id p2p.PeerID) bool {
	w.mu.Lock()
	defer w.mu.Unlock()
	if len(w.contacts) >= w.bound {
		w.nonterm = true
		return false
	}
	w.contacts = append(w.contacts, id)
	return true
}

type rawResult struct {
	closest, from                         p2p.PeerID
	contacted, responded, accepted, added int
	value                                 []byte
	err                                   bool
}

// ops is the per-case behaviour of the network.
type ops struct {
	target   p2p.PeerID // findnode / join target
	key      []byte     // get / put key
	initial  []kademlia.NodeInfo
	findNode func(dst kademlia.NodeInfo, req kademlia.FindNodeReq) (kademlia.FindNodeRes, error)
	get      func(dst kademlia.NodeInfo, req kademlia.GetReq) (kademlia.GetRes, error)
	put      func(dst kademlia.NodeInfo, req kademlia.PutReq) (kademlia.PutRes, error)
	validN   func(kademlia.NodeInfo) bool
	validV   func([]byte) bool
	addPeer  func(p2p.PeerID, []byte) bool
}

func runOp(op string, min int, w *world, o *ops) (rr rawResult) {
	switch op {
	case "findnode":
		res, err := kademlia.DHTFindNode(kademlia.DHTFindNodeParams{
			Initial: o.initial, Target: o.target, Validate: o.validN,
			Ask: func(dst kademlia.NodeInfo, req kademlia.FindNodeReq) (kademlia.FindNodeRes, error) {
				if !w.contact(dst.ID) {
					return kademlia.FindNodeRes{}, errStepBound
				}
				return o.findNode(dst, req)
			},
		})
		rr.err = err != nil
		if res != nil {
			rr.closest, rr.contacted = res.Closest, res.Contacted
		}
	case "join":
		rr.added = kademlia.DHTJoin(kademlia.DHTJoinParams{
			Initial: o.initial, Target: o.target, AddPeer: o.addPeer,
			Ask: func(dst kademlia.NodeInfo, req kademlia.FindNodeReq) (kademlia.FindNodeRes, error) {
				if !w.contact(dst.ID) {
					return kademlia.FindNodeRes{}, errStepBound
				}
				return o.findNode(dst, req)
			},
		})
	case "get":
		res, err := kademlia.DHTGet(kademlia.DHTGetParams{
			Key: append([]byte{}, o.key...), Initial: o.initial, Validate: o.validV,
			Ask: func(dst kademlia.NodeInfo, req kademlia.GetReq) (kademlia.GetRes, error) {
				if !w.contact(dst.ID) {
					return kademlia.GetRes{}, errStepBound
				}
				r, err := o.get(dst, req)
				if err == nil {
					w.mu.Lock()
					if _, seen := w.served[dst.ID]; !seen {
						w.served[dst.ID] = append([]byte{}, r.Value...) // an empty value stays non-nil
						if r.Value == nil {
							w.served[dst.ID] = nil
						}
					}
					w.mu.Unlock()
				}
				return r, err
			},
		})
		rr.err = err != nil
		if res != nil {
			rr.closest, rr.from, rr.contacted, rr.responded, rr.value = res.Closest, res.From, res.NumContacted, res.NumResponded, res.Value
		}
	case "put":
		res, err := kademlia.DHTPut(kademlia.DHTPutParams{
			Initial: o.initial, Key: append([]byte{}, o.key...), Value: []byte("ok:put"), TTL: time.Hour, MinAccepted: min,
			Ask: func(dst kademlia.NodeInfo, req kademlia.PutReq) (kademlia.PutRes, error) {
				if !w.contact(dst.ID) {
					return kademlia.PutRes{}, errStepBound
				}
				return o.put(dst, req)
			},
		})
		rr.err = err != nil
		if res != nil {
			rr.closest, rr.accepted, rr.contacted, rr.responded = res.Closest, res.Accepted, res.Contacted, res.Responded
		}
	default:
		panic("unknown op " + op)
	}
	return rr
}

// guarded runs the operation in its own goroutine, recovers a panic and gives up after `patience`
// (a run that neither returns nor invokes Ask any more; healthy runs take well under a millisecond).
func guarded(op string, min int, w *world, o *ops, patience time.Duration) (rr rawResult, panicked bool, what string, hung bool) {
	type out struct {
		rr       rawResult
		panicked bool
		what     string
	}
	ch := make(chan out, 1)
	go func() {
		var x out
		defer func() {
			if r := recover(); r != nil {
				x.panicked, x.what = true, fmt.Sprint(r)
			}
			ch <- x
		}()
		x.rr = runOp(op, min, w, o)
	}()
	select {
	case x := <-ch:
		return x.rr, x.panicked, x.what, false
	case <-time.After(patience):
		return rawResult{}, false, "", true
	}
}

// ---------------------------------------------------------------------------------------------
// family "adv"

type embedding struct {
	t    p2p.PeerID // the target; the key is its first klen bytes
	pos  int        // the byte (inside the key) that carries the distance class
	klen int
	ids  []p2p.PeerID
	back map[p2p.PeerID]int
}

// newEmbedding maps model node m to a PeerID whose XOR distance to the key is dist[m] (in byte pos) and,
// when the key is shorter than the id, whose last byte (outside the key) tells tied nodes apart.
func newEmbedding(kind string, seed int64, klen int, dist []int) embedding {
	rng := rand.New(rand.NewSource(seed))
	if klen <= 0 || klen > 32 {
		klen = 32
	}
	e := embedding{klen: klen, back: map[p2p.PeerID]int{}}
	for i := range e.t {
		e.t[i] = byte(1 + rng.Intn(255)) // no zero bytes: no PeerID of the case is the zero id
	}
	switch kind {
	case "lo":
		e.pos = klen - 1
	case "mid":
		e.pos = klen / 2
	default: // "hi": the zero PeerID is nearer to the key than every node at a distance > 0
		e.pos = 0
		if klen > 1 {
			e.t[0] = 0
		}
	}
	for m, d := range dist {
		p := e.t
		p[e.pos] ^= byte(d)
		if klen < 32 {
			p[31] ^= byte(m + 1)
		}
		if _, dup := e.back[p]; dup {
			panic("embedding: two model nodes share a PeerID (a 32-byte key needs an injective dist)")
		}
		e.ids = append(e.ids, p)
		e.back[p] = m
	}
	return e
}

func (e embedding) id(m int) p2p.PeerID { return e.ids[m] }

func (e embedding) model(p p2p.PeerID, n int) int {
	if p.IsZero() {
		return none
	}
	if m, ok := e.back[p]; ok {
		return m
	}
	return unknown
}

func valueOf(m int, class int) []byte {
	switch class {
	case 1:
		return []byte(fmt.Sprintf("ok:%d", m))
	case 2:
		return []byte(fmt.Sprintf("bad:%d", m))
	case 3:
		return []byte{} // present but empty, what `{"value":""}` decodes to
	case 4:
		return []byte("ok:shared")
	}
	return nil
}

func malformed(v []byte) bool { return bytes.HasPrefix(v, []byte("bad:")) }

// validator is the Validate function the case passes to DHTGet (nil: none, DHTGet then accepts every value).
func validator(vmode int) func([]byte) bool {
	switch vmode {
	case 1:
		return func(v []byte) bool { return !malformed(v) }
	case 2:
		return func(v []byte) bool { return !malformed(v) && len(v) > 0 }
	case 3:
		return func(v []byte) bool { return false }
	}
	return nil
}

// groundTruth: would the case's Validate accept exactly these bytes (nil is "no value")?
func groundTruth(vmode int, v []byte) bool {
	if v == nil {
		return false
	}
	f := validator(vmode)
	return f == nil || f(v)
}

// classOf is the value class of bytes served by a real handler
func classOf(v []byte) int {
	switch {
	case v == nil:
		return 0
	case len(v) == 0:
		return 3
	case malformed(v):
		return 2
	}
	return 1
}

func runAdv(c *Case, patience time.Duration) Event {
	if c.N > 200 {
		panic("universe too large for the one-byte embedding")
	}
	dist := c.Dist
	if len(dist) != c.N {
		dist = make([]int, c.N)
		for m := range dist {
			dist[m] = m
		}
	}
	e := newEmbedding(c.Emb, c.TSeed, c.KLen, dist)
	topo := make(map[int]Responder, len(c.Topo))
	for _, r := range c.Topo {
		topo[r.ID] = r
	}
	info := func(m int) kademlia.NodeInfo {
		return kademlia.NodeInfo{ID: e.id(m), Info: []byte{byte(m)}}
	}
	infos := func(ms []int) []kademlia.NodeInfo {
		out := make([]kademlia.NodeInfo, 0, len(ms)) // a fresh slice per answer: the callers filter in place
		for _, m := range ms {
			out = append(out, info(m))
		}
		return out
	}
	lookup := func(dst kademlia.NodeInfo) (Responder, error) {
		m := e.model(dst.ID, c.N)
		r, ok := topo[m]
		if !ok || r.Fail {
			return Responder{}, fmt.Errorf("node %d unreachable", m)
		}
		return r, nil
	}
	w := &world{bound: 10*(c.N+len(c.Init)) + 10, served: map[p2p.PeerID][]byte{}}
	seen := map[p2p.PeerID]bool{}
	o := &ops{
		target:  e.t,
		key:     e.t[:e.klen],
		initial: infos(c.Init),
		findNode: func(dst kademlia.NodeInfo, req kademlia.FindNodeReq) (kademlia.FindNodeRes, error) {
			r, err := lookup(dst)
			if err != nil {
				return kademlia.FindNodeRes{}, err
			}
			return kademlia.FindNodeRes{Nodes: infos(r.Reply)}, nil
		},
		get: func(dst kademlia.NodeInfo, req kademlia.GetReq) (kademlia.GetRes, error) {
			r, err := lookup(dst)
			if err != nil {
				return kademlia.GetRes{}, err
			}
			return kademlia.GetRes{Value: valueOf(r.ID, r.Val), Closer: infos(r.Reply)}, nil
		},
		put: func(dst kademlia.NodeInfo, req kademlia.PutReq) (kademlia.PutRes, error) {
			r, err := lookup(dst)
			if err != nil {
				return kademlia.PutRes{}, err
			}
			return kademlia.PutRes{Accepted: r.Accept, Closer: infos(r.Reply)}, nil
		},
		validN: func(ni kademlia.NodeInfo) bool {
			r, ok := topo[e.model(ni.ID, c.N)]
			return !ok || !r.Bad
		},
		validV: validator(c.VMode),
		addPeer: func(id p2p.PeerID, _ []byte) bool {
			if seen[id] {
				return false
			}
			seen[id] = true
			return true
		},
	}
	rr, panicked, what, hung := guarded(c.Op, c.Min, w, o, patience)
	ev := Event{Ev: "case", ID: c.ID, Fam: c.Fam, Op: c.Op, Min: c.Min, VMode: c.VMode, KLen: e.klen, Dist: dist, Init: append([]int{}, c.Init...),
		Topo: make([]Responder, 0, len(c.Topo)), Contacts: []int{}, Panic: panicked, PanicV: what, Universe: c.N}
	for _, r := range c.Topo {
		r.Adv = true
		if r.Reply == nil {
			r.Reply = []int{}
		}
		ev.Topo = append(ev.Topo, r)
	}
	w.mu.Lock()
	for _, p := range w.contacts {
		ev.Contacts = append(ev.Contacts, e.model(p, c.N))
	}
	ev.NonTerm = w.nonterm || hung
	w.mu.Unlock()
	ev.Res = Result{Closest: e.model(rr.closest, c.N), From: e.model(rr.from, c.N), Contacted: rr.contacted,
		Responded: rr.responded, Accepted: rr.accepted, Added: rr.added, HasVal: rr.value != nil,
		ValOK: groundTruth(c.VMode, rr.value), ValSrc: []int{}}
	if rr.value != nil {
		for m, r := range topo {
			if !r.Fail && r.Val != 0 && bytes.Equal(valueOf(m, r.Val), rr.value) {
				ev.Res.ValSrc = append(ev.Res.ValSrc, m)
			}
		}
		sort.Ints(ev.Res.ValSrc)
	}
	ev.Err = rr.err
	if hung {
		ev.PanicV = "watchdog: the operation neither returned nor invoked Ask"
	}
	return ev
}

// ---------------------------------------------------------------------------------------------
// family "honest"

type member struct {
	id   p2p.PeerID
	node *kademlia.DHTNode
	dead bool
	adv  bool
}

type observed struct {
	reply  []p2p.PeerID
	fail   bool
	accept bool
	val    int
	adv    bool
}

func randID(rng *rand.Rand) (p p2p.PeerID) {
	rng.Read(p[:])
	if p.IsZero() {
		p[0] = 1
	}
	return p
}

func runHonest(c *Case, patience time.Duration) Event {
	rng := rand.New(rand.NewSource(c.Seed))
	size := c.Size
	if size < 2 {
		size = 2
	}
	// get / put with a key shorter than a PeerID: only the first klen bytes count for the distance, and
	// the members' ids are drawn so that many of them tie (they share those bytes up to two of them)
	klen := 32
	if (c.Op == "get" || c.Op == "put") && c.KLen > 0 && c.KLen < 32 {
		klen = c.KLen
	}
	base := randID(rng)
	alphabet := []byte{byte(rng.Intn(256)), byte(rng.Intn(256)), byte(rng.Intn(256)), byte(rng.Intn(256))}
	memberID := func() p2p.PeerID {
		id := randID(rng)
		if klen < 32 {
			copy(id[:klen], base[:klen])
			id[klen-1] = alphabet[rng.Intn(4)]
			if klen >= 2 {
				id[0] = alphabet[rng.Intn(2)]
			}
		}
		return id
	}
	members := make([]*member, size)
	byID := map[p2p.PeerID]*member{}
	for i := range members {
		id := memberID()
		for byID[id] != nil {
			id = memberID()
		}
		members[i] = &member{id: id, node: kademlia.NewDHTNode(kademlia.DHTNodeParams{LocalID: id, PeerCacheSize: c.Peers, DataCacheSize: c.Data})}
		byID[id] = members[i]
	}
	for _, a := range members {
		for _, b := range members {
			a.node.AddPeer(b.id, []byte("i"))
			b.node.AddPeer(a.id, []byte("i"))
		}
	}
	perm := rng.Perm(size)
	src := members[perm[0]]
	k := 1
	for i := 0; i < c.Dead && k < size; i, k = i+1, k+1 {
		members[perm[k]].dead = true
	}
	for i := 0; i < c.AdvN && k < size; i, k = i+1, k+1 {
		members[perm[k]].adv = true
	}
	var key p2p.PeerID
	switch {
	case c.Op == "join":
		key = src.id
	case c.Op == "findnode" && c.Exists:
		key = members[perm[1+rng.Intn(size-1)]].id
	default:
		key = randID(rng)
		if klen < 32 {
			copy(key[:klen], base[:klen])
			key[klen-1] = byte(rng.Intn(256))
		}
	}
	kb := key[:klen]
	byDist := func(ids []p2p.PeerID) {
		sort.Slice(ids, func(i, j int) bool {
			if c := kademlia.DistanceCmp(kb, ids[i][:], ids[j][:]); c != 0 {
				return c < 0
			}
			return bytes.Compare(ids[i][:], ids[j][:]) < 0
		})
	}
	if c.Op == "get" {
		ids := make([]p2p.PeerID, 0, size)
		for _, m := range members {
			ids = append(ids, m.id)
		}
		byDist(ids)
		for i := 0; i < c.Holders && i < len(ids); i++ {
			byID[ids[i]].node.Put(kb, []byte("ok:stored"), time.Hour)
		}
		for i := 0; i < c.Poison; i++ {
			poison := []byte("bad:stored")
			if rng.Intn(2) == 0 {
				poison = []byte{} // a present but empty entry
			}
			members[rng.Intn(size)].node.Put(kb, poison, time.Hour)
		}
	}
	if c.Op == "put" {
		for _, m := range members {
			for i := 0; i < c.Prefill; i++ {
				k := randID(rng)
				m.node.Put(k[:], []byte("ok:prefill"), time.Hour)
			}
		}
	}
	initial := src.node.ListNodeInfos(kb, c.NInit)
	if c.Dup && len(initial) > 0 {
		initial = append(initial, initial[0])
	}
	initIDs := make([]p2p.PeerID, 0, len(initial))
	for _, ni := range initial {
		initIDs = append(initIDs, ni.ID)
	}

	obs := map[p2p.PeerID]*observed{}
	var omu sync.Mutex
	record := func(id p2p.PeerID, o *observed) {
		omu.Lock()
		if _, seen := obs[id]; !seen {
			obs[id] = o
		}
		omu.Unlock()
	}
	idsOf := func(nis []kademlia.NodeInfo) []p2p.PeerID {
		out := make([]p2p.PeerID, 0, len(nis))
		for _, ni := range nis {
			out = append(out, ni.ID)
		}
		return out
	}
	// what an adversarial member answers is a function of its id only
	junk := func(m *member) (list []kademlia.NodeInfo, accept bool, val int) {
		r := rand.New(rand.NewSource(c.Seed ^ int64(m.id[0])<<8 ^ int64(m.id[1])<<16 ^ int64(m.id[2])<<24))
		n := r.Intn(13)
		for i := 0; i < n; i++ {
			var id p2p.PeerID
			switch r.Intn(5) {
			case 0:
				id = m.id // self-reference
			case 1:
				id = randID(r) // fabricated
			case 2:
				if len(list) > 0 {
					id = list[r.Intn(len(list))].ID // duplicate
				} else {
					id = members[r.Intn(size)].id
				}
			default:
				id = members[r.Intn(size)].id
			}
			list = append(list, kademlia.NodeInfo{ID: id, Info: []byte("j")})
		}
		return list, r.Intn(2) == 0, r.Intn(5)
	}
	reach := func(dst kademlia.NodeInfo) (*member, error) {
		m, ok := byID[dst.ID]
		if !ok || m.dead {
			record(dst.ID, &observed{fail: true, adv: !ok})
			return nil, fmt.Errorf("node %v unreachable", dst.ID)
		}
		return m, nil
	}
	w := &world{bound: 10*(size+40) + 10, served: map[p2p.PeerID][]byte{}}
	seen := map[p2p.PeerID]bool{}
	o := &ops{
		target:  key,
		key:     kb,
		initial: initial,
		findNode: func(dst kademlia.NodeInfo, req kademlia.FindNodeReq) (kademlia.FindNodeRes, error) {
			m, err := reach(dst)
			if err != nil {
				return kademlia.FindNodeRes{}, err
			}
			if m.adv {
				list, _, _ := junk(m)
				record(dst.ID, &observed{reply: idsOf(list), adv: true})
				return kademlia.FindNodeRes{Nodes: list}, nil
			}
			if c.Op == "join" {
				m.node.AddPeer(src.id, []byte("i"))
			}
			res, err := m.node.HandleFindNode(src.id, req)
			record(dst.ID, &observed{reply: idsOf(res.Nodes), fail: err != nil})
			return res, err
		},
		get: func(dst kademlia.NodeInfo, req kademlia.GetReq) (kademlia.GetRes, error) {
			m, err := reach(dst)
			if err != nil {
				return kademlia.GetRes{}, err
			}
			if m.adv {
				list, _, val := junk(m)
				record(dst.ID, &observed{reply: idsOf(list), val: val, adv: true})
				return kademlia.GetRes{Value: valueOf(int(m.id[0]), val), Closer: list}, nil
			}
			res, err := m.node.HandleGet(src.id, req)
			val := classOf(res.Value)
			record(dst.ID, &observed{reply: idsOf(res.Closer), fail: err != nil, val: val})
			return res, err
		},
		put: func(dst kademlia.NodeInfo, req kademlia.PutReq) (kademlia.PutRes, error) {
			m, err := reach(dst)
			if err != nil {
				return kademlia.PutRes{}, err
			}
			if m.adv {
				list, accept, _ := junk(m)
				record(dst.ID, &observed{reply: idsOf(list), accept: accept, adv: true})
				return kademlia.PutRes{Accepted: accept, Closer: list}, nil
			}
			res, err := m.node.HandlePut(src.id, req)
			record(dst.ID, &observed{reply: idsOf(res.Closer), fail: err != nil, accept: res.Accepted})
			return res, err
		},
		validN: nil,
		validV: validator(c.VMode),
		addPeer: func(id p2p.PeerID, info []byte) bool {
			src.node.AddPeer(id, info)
			if seen[id] {
				return false
			}
			seen[id] = true
			return true
		},
	}
	rr, panicked, what, hung := guarded(c.Op, c.Min, w, o, patience)

	// rename the ids involved to their rank by distance to the key (0 = the key itself)
	w.mu.Lock()
	contacts := append([]p2p.PeerID{}, w.contacts...)
	nonterm := w.nonterm
	served := w.served
	w.mu.Unlock()
	omu.Lock()
	defer omu.Unlock()
	involved := map[p2p.PeerID]bool{}
	for _, id := range initIDs {
		involved[id] = true
	}
	for _, id := range contacts {
		involved[id] = true
		if ob := obs[id]; ob != nil {
			for _, x := range ob.reply {
				involved[x] = true
			}
		}
	}
	all := make([]p2p.PeerID, 0, len(involved))
	for id := range involved {
		if klen < 32 || id != key {
			all = append(all, id)
		}
	}
	byDist(all)
	// model id 0 is the peer whose id equals a 32-byte target; the others are numbered by distance, and
	// dist[m] is the class of m's distance (peers that tie under a short key share it)
	rank := map[p2p.PeerID]int{}
	if klen == 32 {
		rank[key] = 0
	}
	dist := []int{0}
	for i, id := range all {
		rank[id] = i + 1
		d := 1
		if i > 0 {
			d = dist[i]
			if kademlia.DistanceCmp(kb, all[i-1][:], id[:]) != 0 {
				d++
			}
		}
		dist = append(dist, d)
	}
	model := func(id p2p.PeerID) int {
		if id.IsZero() {
			return none
		}
		if r, ok := rank[id]; ok {
			return r
		}
		return unknown
	}
	models := func(ids []p2p.PeerID) []int {
		out := make([]int, 0, len(ids))
		for _, id := range ids {
			out = append(out, model(id))
		}
		return out
	}
	ev := Event{Ev: "case", ID: c.ID, Fam: c.Fam, Op: c.Op, Min: c.Min, VMode: c.VMode, KLen: klen, Dist: dist, Init: models(initIDs), Topo: []Responder{},
		Contacts: models(contacts), Panic: panicked, PanicV: what, NonTerm: nonterm || hung, Universe: len(all) + 1}
	done := map[p2p.PeerID]bool{}
	for _, id := range contacts {
		ob := obs[id]
		if done[id] || ob == nil {
			continue
		}
		done[id] = true
		ev.Topo = append(ev.Topo, Responder{ID: model(id), Reply: models(ob.reply), Fail: ob.fail, Accept: ob.accept, Val: ob.val, Adv: ob.adv})
	}
	sort.Slice(ev.Topo, func(i, j int) bool { return ev.Topo[i].ID < ev.Topo[j].ID })
	ev.Res = Result{Closest: model(rr.closest), From: model(rr.from), Contacted: rr.contacted, Responded: rr.responded,
		Accepted: rr.accepted, Added: rr.added, HasVal: rr.value != nil, ValOK: groundTruth(c.VMode, rr.value), ValSrc: []int{}}
	if rr.value != nil {
		for id, v := range served {
			if v != nil && bytes.Equal(v, rr.value) {
				ev.Res.ValSrc = append(ev.Res.ValSrc, model(id))
			}
		}
		sort.Ints(ev.Res.ValSrc)
	}
	ev.Err = rr.err
	if hung {
		ev.PanicV = "watchdog: the operation neither returned nor invoked Ask"
	}
	return ev
}

func main() {
	in := flag.String("in", "", "cases (ndjson)")
	out := flag.String("out", "", "trace output (ndjson)")
	patience := flag.Duration("patience", 20*time.Second, "give up on one case after this long")
	flag.Parse()
	log.SetOutput(io.Discard) // DHTFindNode / DHTGet log every failed Ask
	f, err := os.Open(*in)
	if err != nil {
		fmt.Fprintln(os.Stderr, err)
		os.Exit(2)
	}
	defer f.Close()
	w, err := trace.Create(*out)
	if err != nil {
		fmt.Fprintln(os.Stderr, err)
		os.Exit(2)
	}
	sc := bufio.NewScanner(f)
	sc.Buffer(make([]byte, 1<<20), 1<<26)
	n, skipped := 0, 0
	hungOnce := false
	for sc.Scan() {
		line := strings.TrimSpace(sc.Text())
		if line == "" {
			continue
		}
		if hungOnce {
			skipped++ // a hung run keeps a CPU busy: do not start further cases
			continue
		}
		var c Case
		if err := json.Unmarshal([]byte(line), &c); err != nil {
			fmt.Fprintln(os.Stderr, "bad case:", err)
			os.Exit(2)
		}
		var ev Event
		switch c.Fam {
		case "adv":
			ev = runAdv(&c, *patience)
		case "honest":
			ev = runHonest(&c, *patience)
		default:
			fmt.Fprintln(os.Stderr, "unknown family:", c.Fam)
			os.Exit(2)
		}
		if strings.HasPrefix(ev.PanicV, "watchdog") {
			hungOnce = true
		}
		w.Emit(ev)
		n++
	}
	if err := w.Close(); err != nil {
		fmt.Fprintln(os.Stderr, err)
		os.Exit(2)
	}
	fmt.Printf("replayed=%d events=%d skipped=%d\n", n, n, skipped)
}
