// pkswarmreplay replays behaviours generated from spec/P2pkeSwarmGen.tla on REAL p2pkeswarm nodes
// (two honest nodes A and B and a third transport address x behind which nobody answers) wired
// through the harness-owned inner swarm (verifharness/netsim, one node per swarm) and records what
// spec/P2pkeSwarmTrace.tla needs.
//
// TIME.  The binary must be built with the Go runtime's virtual clock (`-tags verif,faketime`,
// CGO_ENABLED=0): time.Now, timers and tickers run on a clock that advances only when every
// goroutine is blocked.  The real cleanupLoop (ticker of KeepAliveTimeout/2 = 7.5 s, grace 30 s,
// timeout 15 s), the real keep-alive expiry and the real handshake timers therefore run unchanged,
// a behaviour of several virtual minutes takes milliseconds, and whenever the driver wakes up from
// a sleep everything the swarms could do without time passing has been done (deterministic
// quiescence).  One model tick is 3.75 s; the swarms of a behaviour are created at the same
// instant T0, so their cleanup passes happen at T0 + 7.5 s * k, i.e. at the beginning of every
// second tick; the i-th environment action of a behaviour happens at (its tick) + i * 2 ms, which
// is the ordering the specification assumes (later actions at later offsets inside a tick).
//
// NETWORK.  Every directed link a->b, b->a is a FIFO queue owned by the harness: a packet the
// swarm hands to its inner swarm is appended, a pump feeds the head to the destination's Receive
// callers (one packet at a time) unless the link is held (latency) or the head is dropped.
// Packets to x vanish.  Junk from x is fed directly.
package main

import (
	"bufio"
	"bytes"
	"context"
	"crypto/ed25519"
	"encoding/binary"
	"encoding/json"
	"errors"
	"flag"
	"fmt"
	"os"
	"runtime/debug"
	"sort"
	"strconv"
	"sync"
	"time"

	"go.brendoncarroll.net/p2p"
	"go.brendoncarroll.net/p2p/f/x509"
	"go.brendoncarroll.net/p2p/s/p2pkeswarm"
	"golang.org/x/crypto/blake2b"
	"verifharness/attacker"
	"verifharness/netsim"
	"verifharness/trace"
)

const (
	tickDur = 3750 * time.Millisecond
	slotDur = 2 * time.Millisecond
	kIdle   = 5 // cap of the lastReceived / lastSent ages in the model's projection
	tellTO  = 3 // ticks after which a Tell's context ends (TellTO of the generator configs)
)

type pkAddr = p2pkeswarm.Addr[netsim.Addr]

// ---- behaviours -------------------------------------------------------------------------------

type Act struct {
	A    string `json:"a"`
	N    string `json:"n,omitempty"`
	ID   string `json:"id,omitempty"`
	T    string `json:"t,omitempty"`
	E    bool   `json:"e,omitempty"`
	Tid  int    `json:"tid,omitempty"`
	From string `json:"from,omitempty"`
	To   string `json:"to,omitempty"`
}

type Step struct {
	Act   Act             `json:"act"`
	Pre   json.RawMessage `json:"pre"`
	Chain bool            `json:"chain"`
}

type Behaviour struct {
	ID     int      `json:"id"`
	Family string   `json:"family"`
	WLA    []string `json:"wla"`
	WLB    []string `json:"wlb"`
	Hist   []Step   `json:"hist"`
}

// ---- events -----------------------------------------------------------------------------------

type Slot struct {
	P     bool   `json:"p"`
	Same  bool   `json:"same"`
	Ready bool   `json:"ready"`
	Bound string `json:"bound"`
	Lr    int    `json:"lr"`
	Ls    int    `json:"ls"`
	Hs    bool   `json:"hs"`
}

type Real struct {
	St        map[string]string          `json:"st"`
	Store     map[string]map[string]Slot `json:"store"`
	Rets      []string                   `json:"rets"`
	Delivered [][]any                    `json:"delivered"`
}

type TellRow struct {
	Tid        int    `json:"tid"`
	N          string `json:"n"`
	ID         string `json:"id"`
	T          string `json:"t"`
	E          bool   `json:"e"`
	Ret        string `json:"ret"`
	CallTick   int    `json:"calltick"`
	RetTick    int    `json:"rettick"`
	AfterClose bool   `json:"afterclose"` // called after the node's Close had returned
	Fed        bool   `json:"fed"`        // its data packet was handed to the destination's handler
	NetDrop    bool   `json:"netdrop"`    // the harness dropped its data packet
	Delivered  bool   `json:"delivered"`
	SrcKey     string `json:"srckey"`    // Src identity the receiver saw ("" if not delivered)
	SrcAddr    string `json:"srcaddr"`   // Src transport address the receiver saw
	LastFault  int    `json:"lastfault"` // last tick (<= rettick) in which a link was held or a packet dropped; -9 if never
}

type Event struct {
	Ev     string          `json:"ev"` // "init", "step", "end"
	Beh    int             `json:"beh"`
	Family string          `json:"family"`
	WLA    []string        `json:"wla,omitempty"`
	WLB    []string        `json:"wlb,omitempty"`
	I      int             `json:"i"`
	Act    Act             `json:"act"`
	Tick   int             `json:"tick"`
	Real   *Real           `json:"real,omitempty"`
	Exp    json.RawMessage `json:"exp,omitempty"`
	Valid  bool            `json:"valid"`
	// what happened in the interval that ended with this observation
	Emit      [][]string `json:"emit"`      // <<node, address>> pairs whose Send callback fired
	EmitFirst [][]string `json:"emitfirst"` // ... and fired before the node was handed any packet from that address in this interval
	Ihs       [][]any    `json:"ihs"`       // <<node, address, number of DISTINCT InitHello packets emitted>>
	Pend      [][]string `json:"pend"`      // <<node, address>> with a Tell in flight at some moment of the interval
	PendBad   [][]any    `json:"pendbad"`   // <<node, address, number of wrong-identity Tells in flight>>
	Inc       [][]string `json:"inc"`       // <<node, address>>: the node's handler was given a packet from that address
	Closed    []string   `json:"closed"`    // nodes whose Close had returned before the interval began
	PreCl     [][]string `json:"precl"`     // <<node, address>> with a Tell that was called before the node's Close returned and was in flight
	Panic     string     `json:"panic"`
	// end
	Tells    []TellRow `json:"tells,omitempty"`
	HeldTick bool      `json:"heldtick"` // some tick passed while a link was held
	Faults   int       `json:"faults"`   // holds + drops
	BadDial  bool      `json:"baddial"`  // some Tell dialled a live address with another identity
	Closes   int       `json:"closes"`
	Stall    int       `json:"stall_ms"`
}

// ---- keys -------------------------------------------------------------------------------------

var names = []string{"A", "B"}

func edKey(name string) ed25519.PrivateKey {
	seed := make([]byte, 32)
	copy(seed, "pkswarmreplay-"+name)
	return ed25519.NewKeyFromSeed(seed)
}

func pkID(name string) p2p.PeerID {
	pk := attacker.X509Public(edKey(name))
	return p2pkeswarm.DefaultFingerprinter(&pk)
}

func idName(id p2p.PeerID) string {
	for _, n := range names {
		if pkID(n) == id {
			return n
		}
	}
	return "other"
}

func keyName(pk x509.PublicKey) string {
	if pk.IsZero() {
		return "none"
	}
	data := x509.MarshalPublicKey(nil, &pk)
	for _, n := range names {
		if bytes.Equal(data, attacker.X509PublicBytes(edKey(n))) {
			return n
		}
	}
	return "other"
}

var addrNum = map[string]int{"a": 1, "b": 2, "x": 9}
var numAddr = map[int]string{1: "a", 2: "b", 9: "x"}
var nodeAddr = map[string]string{"A": "a", "B": "b"}
var addrNode = map[string]string{"a": "A", "b": "B"}

// ---- world ------------------------------------------------------------------------------------

type packet struct {
	pkt     netsim.Packet
	dataIdx int // >= 0: index into world.dataPkts
}

type link struct {
	from, to string
	mu       sync.Mutex
	cond     *sync.Cond
	q        []packet
	held     bool
	stop     bool
}

type dataPkt struct {
	from, to string
	fed      bool
	dropped  bool
}

type tellState struct {
	row      TellRow
	done     bool
	callStep int
	retStep  int
	preClose bool
}

type world struct {
	b      *Behaviour
	t0     time.Time
	ctx    context.Context
	cf     context.CancelFunc
	net    *netsim.Net
	nodes  map[string]*netsim.Node
	swarms map[string]*p2pkeswarm.Swarm[netsim.Addr]
	links  map[string]*link
	wg     sync.WaitGroup

	mu         sync.Mutex
	tick       int
	step       int
	tells      []*tellState
	dataPkts   []*dataPkt
	dataByLink map[string][]int // emission order of data packets per link
	okByLink   map[string][]int // tells that returned nil, per link, in order of return
	emptyQ     map[string][]int // tids of empty tells per link, in call order
	delivered  [][]any
	emit       map[string]bool
	emitFirst  map[string]bool
	ihs        map[string]map[[32]byte]bool
	inc        map[string]bool
	closedRet  map[string]bool // Close returned
	closedPrev map[string]bool // ... before the current interval began
	prevPtr    map[string]map[string]any
	heldTick   bool
	faults     int
	lastFault  int
	badDial    bool
	closes     int
	panicMsg   string
}

// inner is the p2p.Swarm the p2pkeswarm node sits on: the netsim node for Receive, the harness links for Tell.
type inner struct {
	*netsim.Node
	w    *world
	name string
}

func (in inner) Tell(ctx context.Context, dst netsim.Addr, v p2p.IOVec) error {
	data := p2p.VecBytes(nil, v)
	in.w.onEmit(in.name, dst, data)
	if err := in.Node.Tell(ctx, dst, v); err != nil { // closed / MTU, exactly like the netsim node
		return err
	}
	in.w.route(in.name, dst, data)
	return nil
}

func (w *world) onEmit(name string, dst netsim.Addr, data []byte) {
	t := numAddr[dst.N]
	k := name + ">" + t
	w.mu.Lock()
	defer w.mu.Unlock()
	if !w.emit[k] && !w.inc[k] {
		w.emitFirst[k] = true
	}
	w.emit[k] = true
	if len(data) >= 4 && binary.BigEndian.Uint32(data[:4]) == 0 {
		if w.ihs[k] == nil {
			w.ihs[k] = map[[32]byte]bool{}
		}
		w.ihs[k][blake2b.Sum256(data)] = true
	}
}

func (w *world) route(name string, dst netsim.Addr, data []byte) {
	t := numAddr[dst.N]
	l := w.links[nodeAddr[name]+">"+t]
	if l == nil {
		return // the third address: nobody there
	}
	p := packet{pkt: netsim.Packet{Src: netsim.Addr{N: addrNum[nodeAddr[name]]}, Dst: dst, Data: data}, dataIdx: -1}
	if len(data) >= 4 && binary.BigEndian.Uint32(data[:4]) >= 4 {
		w.mu.Lock()
		w.dataPkts = append(w.dataPkts, &dataPkt{from: name, to: addrNode[t]})
		p.dataIdx = len(w.dataPkts) - 1
		w.dataByLink[l.from+">"+l.to] = append(w.dataByLink[l.from+">"+l.to], p.dataIdx)
		w.mu.Unlock()
	}
	l.mu.Lock()
	// a repetition of a packet that is still queued changes nothing (the specification leaves it out too)
	for _, q := range l.q {
		if bytes.Equal(q.pkt.Data, data) {
			l.mu.Unlock()
			return
		}
	}
	l.q = append(l.q, p)
	l.cond.Broadcast()
	l.mu.Unlock()
}

func (l *link) pump(w *world) {
	defer w.wg.Done()
	for {
		l.mu.Lock()
		for !l.stop && (l.held || len(l.q) == 0) {
			l.cond.Wait()
		}
		if l.stop {
			l.mu.Unlock()
			return
		}
		p := l.q[0]
		l.q = l.q[1:]
		l.mu.Unlock()
		dstNode := addrNode[l.to]
		w.mu.Lock()
		w.inc[dstNode+">"+l.from] = true
		w.mu.Unlock()
		err := w.nodes[dstNode].Feed(w.ctx, p.pkt)
		if p.dataIdx >= 0 && err == nil {
			w.mu.Lock()
			w.dataPkts[p.dataIdx].fed = true
			w.mu.Unlock()
		}
	}
}

func newWorld(b *Behaviour) *world {
	w := &world{b: b, net: netsim.NewNet(1 << 16), nodes: map[string]*netsim.Node{}, swarms: map[string]*p2pkeswarm.Swarm[netsim.Addr]{},
		links: map[string]*link{}, dataByLink: map[string][]int{}, okByLink: map[string][]int{}, emptyQ: map[string][]int{},
		emit: map[string]bool{}, emitFirst: map[string]bool{}, ihs: map[string]map[[32]byte]bool{}, inc: map[string]bool{}, closedRet: map[string]bool{}, closedPrev: map[string]bool{},
		prevPtr: map[string]map[string]any{"A": {}, "B": {}}, lastFault: -9}
	w.ctx, w.cf = context.WithCancel(context.Background())
	for _, lk := range [][2]string{{"a", "b"}, {"b", "a"}} {
		l := &link{from: lk[0], to: lk[1]}
		l.cond = sync.NewCond(&l.mu)
		w.links[lk[0]+">"+lk[1]] = l
	}
	wl := map[string]map[string]bool{"A": {}, "B": {}}
	for _, k := range b.WLA {
		wl["A"][k] = true
	}
	for _, k := range b.WLB {
		wl["B"][k] = true
	}
	w.t0 = time.Now()
	for _, n := range names {
		n := n
		nd := w.net.Node(addrNum[nodeAddr[n]])
		w.nodes[n] = nd
		allow := wl[n]
		sw := p2pkeswarm.New[netsim.Addr](inner{nd, w, n}, attacker.X509Private(edKey(n)),
			p2pkeswarm.WithWhitelist[netsim.Addr](func(a pkAddr) bool { return allow[idName(a.ID)] }))
		w.swarms[n] = sw
		w.wg.Add(1)
		go func() {
			defer w.wg.Done()
			for {
				err := sw.Receive(w.ctx, func(m p2p.Message[pkAddr]) {
					w.onDeliver(n, m)
				})
				if err != nil {
					return
				}
			}
		}()
	}
	for _, l := range w.links {
		w.wg.Add(1)
		go l.pump(w)
	}
	return w
}

func (w *world) onDeliver(n string, m p2p.Message[pkAddr]) {
	srcAddr := numAddr[m.Src.Addr.N]
	w.mu.Lock()
	defer w.mu.Unlock()
	tid := 0
	if len(m.Payload) == 0 {
		// an empty payload carries no id: it belongs to the oldest empty Tell on this link that did not fail
		k := srcAddr + ">" + nodeAddr[n]
		q := w.emptyQ[k]
		for len(q) > 0 && w.tells[q[0]-1].done && w.tells[q[0]-1].row.Ret != "ok" {
			q = q[1:]
		}
		if len(q) > 0 {
			tid = q[0]
			q = q[1:]
		}
		w.emptyQ[k] = q
	} else if len(m.Payload) > 1 && m.Payload[0] == 't' {
		tid, _ = strconv.Atoi(string(m.Payload[1:]))
	}
	w.delivered = append(w.delivered, []any{tid, n})
	if tid >= 1 && tid <= len(w.tells) {
		r := &w.tells[tid-1].row
		r.Delivered = true
		r.SrcKey = idName(m.Src.ID)
		r.SrcAddr = srcAddr
	}
}

func retName(err error) string {
	switch {
	case err == nil:
		return "ok"
	case errors.Is(err, context.DeadlineExceeded), errors.Is(err, context.Canceled):
		return "ctx"
	case errors.Is(err, p2p.ErrClosed):
		return "closed"
	default:
		return "err:" + err.Error()
	}
}

// startTell starts the Tell in its own goroutine; with a gate, the call waits until the gate is closed (the Tells of
// one chain are released together: concurrent callers).
func (w *world) startTell(a Act, gate chan struct{}) {
	w.mu.Lock()
	ts := &tellState{row: TellRow{Tid: len(w.tells) + 1, N: a.N, ID: a.ID, T: a.T, E: a.E, Ret: "none", CallTick: w.tick, RetTick: -1,
		AfterClose: w.closedRet[a.N], LastFault: -9}, callStep: w.step, retStep: -1, preClose: !w.closedRet[a.N]}
	w.tells = append(w.tells, ts)
	lk := nodeAddr[a.N] + ">" + a.T
	if a.E {
		w.emptyQ[lk] = append(w.emptyQ[lk], ts.row.Tid)
	}
	if a.T != "x" && a.ID != addrNode[a.T] {
		w.badDial = true
	}
	w.mu.Unlock()
	dst := pkAddr{ID: pkID(a.ID), Addr: netsim.Addr{N: addrNum[a.T]}}
	var payload p2p.IOVec
	if !a.E {
		payload = p2p.IOVec{[]byte("t" + strconv.Itoa(ts.row.Tid))}
	}
	sw := w.swarms[a.N]
	w.wg.Add(1)
	go func() {
		defer w.wg.Done()
		if gate != nil {
			<-gate
		}
		ctx, cf := context.WithTimeout(w.ctx, tellTO*tickDur)
		defer cf()
		err := sw.Tell(ctx, dst, payload)
		w.mu.Lock()
		ts.row.Ret = retName(err)
		ts.row.RetTick = w.tick
		ts.row.LastFault = w.lastFault
		ts.done = true
		ts.retStep = w.step
		if err == nil {
			w.okByLink[lk] = append(w.okByLink[lk], ts.row.Tid)
		}
		w.mu.Unlock()
	}()
}

func sortedPairs(m map[string]bool) [][]string {
	out := [][]string{}
	for k, v := range m {
		if v {
			i := bytes.IndexByte([]byte(k), '>')
			out = append(out, []string{k[:i], k[i+1:]})
		}
	}
	sort.Slice(out, func(i, j int) bool { return out[i][0]+out[i][1] < out[j][0]+out[j][1] })
	return out
}

// observe builds the event for the interval that ends now.
func (w *world) observe(ev *Event) {
	// the stores first, without the harness lock (a Send callback may be waiting for it under the store's lock)
	entries := map[string][]p2pkeswarm.VerifEntry{}
	for _, n := range names {
		entries[n] = w.swarms[n].VerifStore()
	}
	w.mu.Lock()
	defer w.mu.Unlock()
	real := &Real{St: map[string]string{}, Store: map[string]map[string]Slot{}, Rets: []string{}, Delivered: append([][]any{}, w.delivered...)}
	for _, n := range names {
		if w.closedRet[n] {
			real.St[n] = "closed"
		} else {
			real.St[n] = "open"
		}
		m := map[string]Slot{"a": {}, "b": {}, "x": {}}
		for t := range m {
			m[t] = Slot{Bound: "none"}
		}
		now := map[string]any{}
		for _, e := range entries[n] {
			ad, err := netsim.ParseAddr([]byte(e.Key))
			if err != nil {
				continue
			}
			t := numAddr[ad.N]
			sn := e.Channel.VerifSnapshot()
			age := func(x time.Time) int {
				if x.IsZero() {
					return kIdle
				}
				a := w.tick - int(x.Sub(w.t0)/tickDur)
				if a > kIdle {
					a = kIdle
				}
				return a
			}
			m[t] = Slot{P: true, Same: w.prevPtr[n][t] == any(e.Channel), Ready: sn.Slots[1].Present, Bound: keyName(e.Channel.RemoteKey()),
				Lr: age(e.Channel.LastReceived()), Ls: age(e.Channel.LastSent()), Hs: sn.Slots[2].Present}
			now[t] = any(e.Channel)
		}
		w.prevPtr[n] = now
		real.Store[n] = m
	}
	pend := map[string]bool{}
	precl := map[string]bool{}
	bad := map[string]int{}
	for _, ts := range w.tells {
		real.Rets = append(real.Rets, ts.row.Ret)
		// in flight at some moment of the interval (w.step-1 .. w.step)
		if !ts.done || ts.retStep >= w.step-1 {
			k := ts.row.N + ">" + ts.row.T
			pend[k] = true
			if ts.preClose {
				precl[k] = true
			}
			if ts.row.T != "x" && ts.row.ID != addrNode[ts.row.T] {
				bad[k]++
			}
		}
	}
	ev.Real = real
	ev.Emit = sortedPairs(w.emit)
	ev.EmitFirst = sortedPairs(w.emitFirst)
	ev.Pend = sortedPairs(pend)
	ev.PreCl = sortedPairs(precl)
	ev.Inc = sortedPairs(w.inc)
	ev.Ihs = [][]any{}
	for k, hs := range w.ihs {
		i := bytes.IndexByte([]byte(k), '>')
		ev.Ihs = append(ev.Ihs, []any{k[:i], k[i+1:], len(hs)})
	}
	sort.Slice(ev.Ihs, func(i, j int) bool { return fmt.Sprint(ev.Ihs[i]) < fmt.Sprint(ev.Ihs[j]) })
	ev.PendBad = [][]any{}
	for k, c := range bad {
		i := bytes.IndexByte([]byte(k), '>')
		ev.PendBad = append(ev.PendBad, []any{k[:i], k[i+1:], c})
	}
	sort.Slice(ev.PendBad, func(i, j int) bool { return fmt.Sprint(ev.PendBad[i]) < fmt.Sprint(ev.PendBad[j]) })
	ev.Closed = []string{}
	for _, n := range names {
		if w.closedPrev[n] {
			ev.Closed = append(ev.Closed, n)
		}
	}
	ev.Tick = w.tick
	ev.Panic = w.panicMsg
	// next interval
	w.emit = map[string]bool{}
	w.emitFirst = map[string]bool{}
	w.ihs = map[string]map[[32]byte]bool{}
	w.inc = map[string]bool{}
	for n, v := range w.closedRet {
		w.closedPrev[n] = v
	}
}

func (w *world) sleepUntil(t time.Time) int {
	d := time.Until(t)
	if d <= 0 {
		return int(-d / time.Millisecond)
	}
	time.Sleep(d)
	return int(time.Since(t) / time.Millisecond)
}

func runBehaviour(b *Behaviour, tw *trace.Writer) {
	w := newWorld(b)
	stall := 0
	tw.Emit(Event{Ev: "init", Beh: b.ID, Family: b.Family, WLA: b.WLA, WLB: b.WLB, Emit: [][]string{}, EmitFirst: [][]string{}, Ihs: [][]any{}, Pend: [][]string{}, PendBad: [][]any{}, Inc: [][]string{}, Closed: []string{}, PreCl: [][]string{}})
	// after a hold / release / drop the driver waits 300 ms more: the handshake timers (250 ms) fire at least once
	// before the next action, inside the same tick (at most 8 such actions per behaviour: 2.4 s < one tick)
	extra := time.Duration(0)
	var gate chan struct{}
	at := func(i int) time.Time {
		return w.t0.Add(time.Duration(w.tick)*tickDur + time.Duration(i+1)*slotDur + extra)
	}
	for i, st := range b.Hist {
		ev := Event{Ev: "step", Beh: b.ID, Family: b.Family, I: i, Act: st.Act, Exp: st.Pre, Valid: true}
		if i > 0 && b.Hist[i-1].Chain {
			// called together with the previous Tell (concurrent callers): no observation in between
			w.mu.Lock()
			w.step = i
			w.mu.Unlock()
			ev.Ev, ev.Valid, ev.Exp = "skip", false, nil
			ev.Emit, ev.Ihs, ev.Pend, ev.PendBad, ev.Inc, ev.Closed, ev.PreCl = [][]string{}, [][]any{}, [][]string{}, [][]any{}, [][]string{}, []string{}, [][]string{}
			ev.EmitFirst = [][]string{}
		} else {
			// the observation: everything before action i has settled
			if s := w.sleepUntil(at(i)); s > stall {
				stall = s
			}
			w.mu.Lock()
			w.step = i
			w.mu.Unlock()
			w.observe(&ev)
		}
		if st.Act.A == "end" {
			ev.Ev = "end"
			w.mu.Lock()
			// which data packet belongs to which Tell: per link, the k-th Tell that returned nil sent the k-th data packet
			for lk, tids := range w.okByLink {
				for k, tid := range tids {
					if k < len(w.dataByLink[lk]) {
						dp := w.dataPkts[w.dataByLink[lk][k]]
						w.tells[tid-1].row.Fed = dp.fed
						w.tells[tid-1].row.NetDrop = dp.dropped
					}
				}
			}
			for _, ts := range w.tells {
				ev.Tells = append(ev.Tells, ts.row)
			}
			ev.HeldTick, ev.Faults, ev.BadDial, ev.Closes, ev.Stall = w.heldTick, w.faults, w.badDial, w.closes, stall
			w.mu.Unlock()
			tw.Emit(ev)
			break
		}
		tw.Emit(ev)
		a := st.Act
		func() {
			defer func() {
				if e := recover(); e != nil {
					w.mu.Lock()
					w.panicMsg = fmt.Sprint(e)
					w.mu.Unlock()
				}
			}()
			switch a.A {
			case "tell":
				if st.Chain || gate != nil {
					if gate == nil {
						gate = make(chan struct{})
					}
					w.startTell(a, gate)
					if !st.Chain { // the last one of the chain: go
						close(gate)
						gate = nil
					}
				} else {
					w.startTell(a, nil)
				}
			case "tick":
				w.mu.Lock()
				for _, l := range w.links {
					l.mu.Lock()
					if l.held {
						w.heldTick = true
						w.lastFault = w.tick + 1
					}
					l.mu.Unlock()
				}
				w.tick++
				w.mu.Unlock()
			case "close":
				w.mu.Lock()
				w.closes++
				w.mu.Unlock()
				done := make(chan struct{})
				go func() {
					w.swarms[a.N].Close()
					w.mu.Lock()
					w.closedRet[a.N] = true
					w.mu.Unlock()
					close(done)
				}()
				select {
				case <-done:
				case <-time.After(slotDur / 2):
				}
			case "junk":
				pkt := netsim.Packet{Src: netsim.Addr{N: 9}, Dst: netsim.Addr{N: addrNum[nodeAddr[a.N]]}, Data: []byte("junk from nowhere, not a p2pke message at all")}
				w.mu.Lock()
				w.inc[a.N+">x"] = true
				w.mu.Unlock()
				ctx, cf := context.WithTimeout(w.ctx, slotDur/2)
				w.nodes[a.N].Feed(ctx, pkt)
				cf()
			case "hold", "release":
				extra += 300 * time.Millisecond
				l := w.links[a.From+">"+a.To]
				l.mu.Lock()
				l.held = a.A == "hold"
				l.cond.Broadcast()
				l.mu.Unlock()
				w.mu.Lock()
				w.faults++
				w.lastFault = w.tick
				w.mu.Unlock()
			case "drop":
				extra += 300 * time.Millisecond
				l := w.links[a.From+">"+a.To]
				l.mu.Lock()
				if len(l.q) > 0 {
					p := l.q[0]
					l.q = l.q[1:]
					if p.dataIdx >= 0 {
						w.mu.Lock()
						w.dataPkts[p.dataIdx].dropped = true
						w.mu.Unlock()
					}
				}
				l.mu.Unlock()
				w.mu.Lock()
				w.faults++
				w.lastFault = w.tick
				w.mu.Unlock()
			}
		}()
	}
	// tear down
	w.cf()
	for _, l := range w.links {
		l.mu.Lock()
		l.stop = true
		l.cond.Broadcast()
		l.mu.Unlock()
	}
	for _, n := range names {
		w.swarms[n].Close()
	}
	w.wg.Wait()
}

func main() {
	in := flag.String("in", "", "behaviours (ndjson)")
	out := flag.String("out", "", "trace (ndjson)")
	flag.Parse()
	// The virtual-clock runtime can deadlock in GC mark termination (observed with go1.23: forEachP waits while
	// the clock, which only advances when every thread is idle, never does). A run allocates little: no GC.
	debug.SetGCPercent(-1)
	if time.Now().Year() != 2009 {
		fmt.Fprintln(os.Stderr, "pkswarmreplay: must be built with -tags faketime (virtual clock)")
		os.Exit(3)
	}
	f, err := os.Open(*in)
	if err != nil {
		fmt.Fprintln(os.Stderr, err)
		os.Exit(2)
	}
	tw, err := trace.Create(*out)
	if err != nil {
		fmt.Fprintln(os.Stderr, err)
		os.Exit(2)
	}
	sc := bufio.NewScanner(f)
	sc.Buffer(make([]byte, 1<<20), 1<<28)
	n := 0
	for sc.Scan() {
		var b Behaviour
		if err := json.Unmarshal(sc.Bytes(), &b); err != nil {
			fmt.Fprintln(os.Stderr, "bad behaviour:", err)
			os.Exit(2)
		}
		runBehaviour(&b, tw)
		n++
	}
	tw.Close()
	// (stdout is framed by the virtual-clock runtime; the result file is what counts)
	rf, _ := os.Create(*out + ".done")
	fmt.Fprintf(rf, "%d behaviours, %d events\n", n, tw.Count())
	rf.Close()
}
