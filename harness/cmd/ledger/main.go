// ledger drives clusters of real swarm nodes of every stack kind with concurrent senders and
// concurrent receivers and records a Tell/Receive ledger (C01): what was told (digest, length,
// addresses), what every receiver callback saw at entry and at exit. spec/SwarmLedgerTrace.tla decides
// whether every delivery is byte-identical to something told to that receiver by that sender.
// With -hammer it also calls Ask/ServeAsk/LookupPublicKey/LocalAddrs/MTU/Close concurrently; built
// with -race this is the observer of C14.
package main

import (
	"context"
	"crypto/sha256"
	"encoding/json"
	"flag"
	"fmt"
	"math/rand"
	"os"
	"strings"
	"sync"
	"sync/atomic"
	"time"

	"go.brendoncarroll.net/p2p"
	"verifharness/stacks"
	"verifharness/trace"
)

type Case struct {
	ID        int    `json:"id"`
	Kind      string `json:"kind"`
	Senders   int    `json:"senders"`
	Receivers int    `json:"receivers"`
	Messages  int    `json:"messages"`
	Sizes     []int  `json:"sizes"` // per mille of MTU (0..1000), negative = absolute small sizes
}

type Event struct {
	Seq    uint64   `json:"seq"`
	Ev     string   `json:"ev"`
	Case   int      `json:"beh"`
	Kind   string   `json:"kind"`
	Node   int      `json:"node"`
	To     int      `json:"to"`
	ID     string   `json:"id"`
	Len    int      `json:"len"`
	Digest string   `json:"digest"`
	DigOut string   `json:"digestout"`
	Src    string   `json:"src"`
	Dst    string   `json:"dst"`
	SrcOK  bool     `json:"srcok"`
	DstOK  bool     `json:"dstok"`
	Err    string   `json:"err"`
	MTU    int      `json:"mtu"`
	Addrs  []string `json:"addrs"`
	Vec    bool     `json:"vec"`
	Panic  bool     `json:"panic"`
	PanicV string   `json:"panicv"`
}

var seq atomic.Uint64

func digest(b []byte) string {
	h := sha256.Sum256(b)
	return fmt.Sprintf("%x", h[:8])
}

func errClass(err error) string {
	switch {
	case err == nil:
		return ""
	case p2p.IsErrMTUExceeded(err):
		return "mtu"
	case err == context.DeadlineExceeded || err == context.Canceled:
		return "ctx"
	}
	return "other"
}

// idPart returns the identity part of an id@transport address text (secure swarms).
func idPart(a string) string {
	if i := strings.IndexByte(a, '@'); i >= 0 {
		return a[:i]
	}
	return a
}

func runCase(c *Case, w *trace.Writer, seed int64, hammer bool) {
	emit := func(ev Event) {
		ev.Seq, ev.Case, ev.Kind = seq.Add(1), c.ID, c.Kind
		if ev.Addrs == nil {
			ev.Addrs = []string{}
		}
		w.Emit(ev)
	}
	cl, err := stacks.NewCluster(c.Kind, c.Senders+1)
	if err != nil {
		emit(Event{Ev: "case", Err: "build: " + err.Error()})
		return
	}
	recvNode := cl.Nodes[0]
	mtu := recvNode.MTU()
	var toldMu sync.Mutex
	toldBy := map[string][]int{} // digest -> nodes that told it
	emit(Event{Ev: "case", MTU: mtu, Addrs: recvNode.LocalAddrs(), Node: 0, Src: recvNode.Addr})
	ctx, cancel := context.WithCancel(context.Background())
	var wg sync.WaitGroup
	// receivers: concurrent Receive loops on node 0
	for r := 0; r < c.Receivers; r++ {
		wg.Add(1)
		go func() {
			defer wg.Done()
			for ctx.Err() == nil {
				func() {
					defer func() {
						if x := recover(); x != nil {
							emit(Event{Ev: "recv", Panic: true, PanicV: fmt.Sprint(x)})
						}
					}()
					recvNode.Receive(ctx, func(src, dst string, payload []byte) {
						in := digest(payload)
						n := len(payload)
						id := "?"
						if parts := strings.SplitN(string(payload[:min(n, 40)]), "|", 4); len(parts) >= 3 && parts[0] == "L" {
							id = parts[1] + "." + parts[2]
						}
						// who does the address claim? (the harness knows every node's address)
						srcOK, dstOK := false, false
						toldMu.Lock()
						tellers := toldBy[in]
						toldMu.Unlock()
						for _, ti := range tellers {
							nd := cl.Nodes[ti]
							if src == nd.Addr || (strings.Contains(nd.Addr, "@") && idPart(src) == idPart(nd.Addr)) {
								srcOK = true
							}
						}
						for _, a := range recvNode.LocalAddrs() {
							if dst == a || (strings.Contains(a, "@") && idPart(dst) == idPart(a)) {
								dstOK = true
							}
						}
						time.Sleep(time.Duration(rand.Intn(50)) * time.Microsecond) // keep the callback open for a moment
						out := digest(payload)
						// "All of the message's fields may be modified inside fn": the callback owns the buffer until it
						// returns. Overwrite it: a swarm that hands the same buffer to another callback (now or later) or
						// reads it again shows up as a delivery of bytes nobody told.
						for i := range payload {
							payload[i] = 0xA5
						}
						emit(Event{Ev: "recv", Node: 0, ID: id, Len: n, Digest: in, DigOut: out, Src: src, Dst: dst, SrcOK: srcOK, DstOK: dstOK})
					})
				}()
			}
		}()
	}
	// senders
	var swg sync.WaitGroup
	for s := 1; s <= c.Senders; s++ {
		swg.Add(1)
		go func(s int) {
			defer swg.Done()
			rng := rand.New(rand.NewSource(seed*7919 + int64(c.ID)*131 + int64(s)))
			nd := cl.Nodes[s]
			for m := 0; m < c.Messages; m++ {
				sz := c.Sizes[(m+s)%len(c.Sizes)]
				size := sz
				if sz >= 0 {
					size = mtu * sz / 1000
				} else {
					size = -sz
				}
				if size > mtu {
					size = mtu
				}
				hdr := fmt.Sprintf("L|%d|%d|", s, m)
				buf := make([]byte, max(size, 0))
				for i := range buf {
					buf[i] = byte(rng.Intn(256))
				}
				copy(buf, hdr) // a payload shorter than its header is identified by digest only
				id := fmt.Sprintf("%d.%d", s, m)
				vec := m%3 == 2 && len(buf) > 4
				dg := digest(buf)
				toldMu.Lock()
				toldBy[dg] = append(toldBy[dg], s)
				toldMu.Unlock()
				emit(Event{Ev: "tell", Node: s, To: 0, ID: id, Len: len(buf), Digest: dg, Src: nd.Addr, Dst: recvNode.Addr, Vec: vec})
				// every 6th message is told with a deadline that may end while the payload is still being
				// written: whatever Tell returns, nothing but a told payload may ever be delivered
				to := 3 * time.Second
				if m%6 == 5 {
					to = time.Duration(50+rng.Intn(400)) * time.Microsecond
				}
				tctx, cf := context.WithTimeout(ctx, to)
				var err error
				func() {
					defer func() {
						if x := recover(); x != nil {
							emit(Event{Ev: "tellret", Node: s, ID: id, Panic: true, PanicV: fmt.Sprint(x)})
						}
					}()
					if vec {
						k := len(buf) / 3
						err = nd.TellVec(tctx, 0, p2p.IOVec{buf[:k], buf[k : 2*k], buf[2*k:]})
					} else {
						err = nd.Tell(tctx, 0, buf)
					}
				}()
				cf()
				// the buffer belongs to the sender again: overwrite it at once
				for i := range buf {
					buf[i] = 0xEE
				}
				emit(Event{Ev: "tellret", Node: s, ID: id, Err: errClass(err)})
				if m%8 == 7 {
					time.Sleep(time.Millisecond)
				}
			}
		}(s)
	}
	if hammer {
		// C14: every other API concurrently with the traffic
		for g := 0; g < 4; g++ {
			wg.Add(1)
			go func(g int) {
				defer wg.Done()
				defer func() { recover() }()
				nd := cl.Nodes[g%len(cl.Nodes)]
				for ctx.Err() == nil {
					nd.LocalAddrs()
					nd.MTU()
					if nd.Lookup != nil {
						lctx, cf := context.WithTimeout(ctx, 200*time.Millisecond)
						nd.Lookup(lctx, (g+1)%len(cl.Nodes))
						cf()
					}
					if nd.Ask != nil && g%2 == 0 {
						// asks whose context may end while the handler is still running; the response buffer is
						// the asker's again as soon as Ask has returned
						resp := make([]byte, 64)
						actx, cf := context.WithTimeout(ctx, time.Duration(100+rand.Intn(1500))*time.Microsecond)
						nd.Ask(actx, 0, []byte(fmt.Sprintf("hammer-ask-%d-0123456789abcdef", g)), resp)
						cf()
						for i := range resp {
							resp[i] = 0xAA
						}
					}
					time.Sleep(200 * time.Microsecond)
				}
			}(g)
		}
		if recvNode.ServeAsk != nil {
			wg.Add(1)
			go func() {
				defer wg.Done()
				defer func() { recover() }()
				for ctx.Err() == nil {
					recvNode.ServeAsk(ctx, func(src, dst string, req, resp []byte) int {
						// the handler owns req and resp until it returns
						in := digest(req)
						time.Sleep(time.Duration(rand.Intn(1200)) * time.Microsecond)
						n := copy(resp, "handled:"+in)
						if out := digest(req); out != in {
							emit(Event{Ev: "askbuf", Node: 0, Digest: in, DigOut: out, Len: len(req)})
						}
						// the handler owns the request until it returns and may modify it
						for i := range req {
							req[i] = 0x5A
						}
						return n
					})
				}
			}()
		}
	}
	swg.Wait()
	time.Sleep(150 * time.Millisecond) // let deliveries in flight arrive
	if hammer {
		// Close concurrently with everything still running
		var cwg sync.WaitGroup
		for _, nd := range cl.Nodes {
			cwg.Add(1)
			go func(nd *stacks.Node) { defer cwg.Done(); defer func() { recover() }(); nd.Close() }(nd)
		}
		done := make(chan struct{})
		go func() { cwg.Wait(); close(done) }()
		select {
		case <-done:
		case <-time.After(3 * time.Second):
		}
	}
	cancel()
	fin := make(chan struct{})
	go func() { wg.Wait(); close(fin) }()
	select {
	case <-fin:
	case <-time.After(3 * time.Second):
	}
	if !hammer {
		for _, nd := range cl.Nodes {
			nd := nd
			go func() { defer func() { recover() }(); nd.Close() }()
		}
	}
	cl.Cleanup()
	emit(Event{Ev: "end"})
}

func main() {
	in := flag.String("in", "", "cases (ndjson)")
	out := flag.String("out", "", "trace output")
	seed := flag.Int64("seed", 1, "seed")
	hammer := flag.Bool("hammer", false, "also hammer every other API and Close concurrently (C14)")
	par := flag.Int("par", 6, "cases run concurrently")
	flag.Parse()
	data, err := os.ReadFile(*in)
	if err != nil {
		fmt.Fprintln(os.Stderr, err)
		os.Exit(2)
	}
	w, err := trace.Create(*out)
	if err != nil {
		fmt.Fprintln(os.Stderr, err)
		os.Exit(2)
	}
	var cases []*Case
	for _, line := range strings.Split(strings.TrimSpace(string(data)), "\n") {
		var c Case
		if err := json.Unmarshal([]byte(line), &c); err != nil {
			fmt.Fprintln(os.Stderr, "bad case:", err)
			os.Exit(2)
		}
		cases = append(cases, &c)
	}
	sem := make(chan struct{}, *par)
	var wg sync.WaitGroup
	for _, c := range cases {
		wg.Add(1)
		sem <- struct{}{}
		go func(c *Case) {
			defer wg.Done()
			defer func() { <-sem }()
			runCase(c, w, *seed, *hammer)
		}(c)
	}
	wg.Wait()
	w.Close()
	fmt.Printf("replayed=%d events=%d\n", len(cases), w.Count())
}
