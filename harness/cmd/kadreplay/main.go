// kadreplay replays TLC-generated behaviours of spec/KadCache.tla on the real
// kademlia.Cache and records, after every operation, the operation's results and
// the projection of the real object's state. The resulting ndjson trace is
// validated by spec/KadCacheTrace.tla.
package main

import (
	"bufio"
	"encoding/json"
	"flag"
	"fmt"
	"os"
	"sort"
	"sync"
	"time"

	"go.brendoncarroll.net/p2p"

	"go.brendoncarroll.net/p2p/p/kademlia"
	"verifharness/trace"
)

type Key = []int

type Op struct {
	Op  string `json:"op"`
	Key Key    `json:"key"`
	V   int    `json:"v"`
	T   int    `json:"t"`
	E   int    `json:"e"`
}

type Behaviour struct {
	ID      int   `json:"id"`
	Locus   Key   `json:"locus"`
	Max     int   `json:"max"`
	Min     int   `json:"min"`
	Prefill []Key `json:"prefill"`
	Keys    []Key `json:"keys"`
	Queries []Key `json:"queries"`
	Ops     []Op  `json:"ops"`
	// Silent: number of leading operations that are executed without logging (their transitions are
	// validated through other behaviours); the "init" event then carries the state reached.
	Silent int `json:"silent"`
}

const epoch = 1_000_000

// prefix lengths exercised by ForEachMatching (byte boundaries and their neighbours)
var matchBits = map[int]bool{0: true, 1: true, 2: true, 5: true, 7: true, 8: true, 9: true, 15: true, 16: true, 17: true, 24: true}

func toBytes(k Key) []byte {
	out := make([]byte, len(k))
	for i, x := range k {
		out[i] = byte(x)
	}
	return out
}

func fromBytes(b []byte) Key {
	out := make(Key, len(b))
	for i, x := range b {
		out[i] = int(x)
	}
	return out
}

func toTime(t int) time.Time {
	if t == 0 {
		return time.Time{}
	}
	return time.Unix(epoch+int64(t), 0)
}

func fromTime(t time.Time) int {
	if t.IsZero() {
		return 0
	}
	return int(t.Unix() - epoch)
}

type Ent struct {
	K Key `json:"k"`
	V int `json:"v"`
	C int `json:"c"`
	E int `json:"e"`
}

type QS struct {
	Q Key   `json:"q"`
	N int   `json:"n"`
	S []Key `json:"s"`
}

type KV struct {
	K Key  `json:"k"`
	V int  `json:"v"`
	B bool `json:"b"`
}

type Event struct {
	Ev      string `json:"ev"`
	Beh     int    `json:"beh"`
	Max     int    `json:"max"`
	Min     int    `json:"min"`
	Key     Key    `json:"key"`
	V       int    `json:"v"`
	T       int    `json:"t"`
	E       int    `json:"e"`
	HasEv   bool   `json:"hasEv"`
	Evicted Key    `json:"evicted"`
	Added   bool   `json:"added"`
	Deleted bool   `json:"deleted"`
	Out     []Key  `json:"out"`
	Panic   bool   `json:"panic"`
	PanicV  string `json:"panicv"`
	PanicRd bool   `json:"panicread"`
	// universe (init events only)
	Keys    []Key `json:"keys"`
	Queries []Key `json:"queries"`
	Jump    bool  `json:"jump"` // init event emitted after a silent prefix
	// state projection
	Count   int   `json:"count"`
	CountFn int   `json:"countfn"`
	NB      int   `json:"nb"`
	Ents    []Ent `json:"ents"`
	MinExp  []int `json:"minexp"`
	// reads
	Get      []KV `json:"get"`
	ForEach  []QS `json:"foreach"`
	Closest  []QS `json:"closest"`
	Closer   []QS `json:"closer"`
	Matching []QS `json:"matching"`
	WouldPut []KV `json:"wouldput"`
}

func keyLess(a, b Key) bool {
	for i := 0; i < len(a) && i < len(b); i++ {
		if a[i] != b[i] {
			return a[i] < b[i]
		}
	}
	return len(a) < len(b)
}

type replayer struct {
	b *Behaviour
	c *kademlia.Cache[int]
}

// guard runs fn, turning a panic into (true, description).
func guard(fn func()) (panicked bool, what string) {
	defer func() {
		if r := recover(); r != nil {
			panicked = true
			what = fmt.Sprint(r)
		}
	}()
	fn()
	return false, ""
}

func (r *replayer) project(ev *Event, nbuckets int) {
	count, buckets := r.c.VerifDump()
	ev.Count = count
	ev.CountFn = r.c.Count()
	ev.NB = len(buckets)
	ev.Ents = []Ent{}
	ev.MinExp = make([]int, nbuckets)
	for i, b := range buckets {
		if i < nbuckets {
			ev.MinExp[i] = fromTime(b.MinExpiresAt)
		}
		for _, e := range b.Entries {
			ev.Ents = append(ev.Ents, Ent{K: fromBytes(e.Key), V: e.Value, C: fromTime(e.CreatedAt), E: fromTime(e.ExpiresAt)})
		}
	}
	sort.Slice(ev.Ents, func(i, j int) bool { return keyLess(ev.Ents[i].K, ev.Ents[j].K) })
	now := toTime(1)
	ev.Get = []KV{}
	ev.WouldPut = []KV{}
	for _, k := range r.b.Keys {
		kb := toBytes(k)
		p, what := guard(func() {
			v, ok := r.c.Get(kb, now)
			if !ok {
				v = 0
			}
			ev.Get = append(ev.Get, KV{K: k, V: v, B: ok})
			ev.WouldPut = append(ev.WouldPut, KV{K: k, B: r.c.WouldPut(kb)})
		})
		if p {
			ev.Panic, ev.PanicRd, ev.PanicV = true, true, "Get/WouldPut: "+what
		}
	}
	ev.ForEach, ev.Closest, ev.Closer, ev.Matching = []QS{}, []QS{}, []QS{}, []QS{}
	for _, q := range r.b.Queries {
		qb := toBytes(q)
		p, what := guard(func() {
			s := []Key{}
			r.c.ForEach(qb, func(e kademlia.Entry[int]) bool { s = append(s, fromBytes(e.Key)); return true })
			ev.ForEach = append(ev.ForEach, QS{Q: q, S: s})
		})
		if p {
			ev.Panic, ev.PanicRd, ev.PanicV = true, true, "ForEach: "+what
		}
		p, what = guard(func() {
			s := []Key{}
			if e := r.c.Closest(qb); e != nil {
				s = append(s, fromBytes(e.Key))
			}
			ev.Closest = append(ev.Closest, QS{Q: q, S: s})
		})
		if p {
			ev.Panic, ev.PanicRd, ev.PanicV = true, true, "Closest: "+what
		}
		p, what = guard(func() {
			s := []Key{}
			r.c.ForEachCloser(qb, func(e kademlia.Entry[int]) bool { s = append(s, fromBytes(e.Key)); return true })
			ev.Closer = append(ev.Closer, QS{Q: q, S: s})
		})
		if p {
			ev.Panic, ev.PanicRd, ev.PanicV = true, true, "ForEachCloser: "+what
		}
		for nbits := 0; nbits <= 8*len(q); nbits++ {
			if !matchBits[nbits] {
				continue
			}
			p, what = guard(func() {
				s := []Key{}
				r.c.ForEachMatching(qb, nbits, func(e kademlia.Entry[int]) bool { s = append(s, fromBytes(e.Key)); return true })
				ev.Matching = append(ev.Matching, QS{Q: q, N: nbits, S: s})
			})
			if p {
				ev.Panic, ev.PanicRd, ev.PanicV = true, true, fmt.Sprintf("ForEachMatching(nbits=%d): %s", nbits, what)
			}
		}
	}
}

// apply executes one operation on the real cache and records what it reported in ev.
func (r *replayer) apply(op Op, evp *Event) {
	ev := evp
	kb := toBytes(op.Key)
	switch op.Op {
	case "put":
		evicted, added := r.c.Put(kb, op.V, toTime(op.T), toTime(op.E))
		ev.Added = added
		if evicted != nil {
			ev.HasEv, ev.Evicted = true, fromBytes(evicted.Key)
		}
	case "touch":
		evicted, added := r.c.Update(kb, func(e kademlia.Entry[int], exists bool) kademlia.Entry[int] {
			e2 := e
			if !exists {
				e2.Key = kb
				e2.CreatedAt = toTime(op.T)
			}
			e2.ExpiresAt = toTime(op.E)
			e2.Value = op.V
			return e2
		})
		ev.Added = added
		if evicted != nil {
			ev.HasEv, ev.Evicted = true, fromBytes(evicted.Key)
		}
	case "delete":
		before := r.c.Contains(kb, toTime(1))
		e := r.c.Delete(kb)
		// Delete returns a pointer to a zero entry when the key is absent; "deleted" is
		// reported from the returned entry's key.
		ev.Deleted = e != nil && e.Key != nil
		_ = before
	case "expire":
		out := r.c.Expire(nil, toTime(op.T))
		for _, e := range out {
			ev.Out = append(ev.Out, fromBytes(e.Key))
		}
		sort.Slice(ev.Out, func(i, j int) bool { return keyLess(ev.Out[i], ev.Out[j]) })
	default:
		panic("unknown op " + op.Op)
	}
}

func (r *replayer) run(w *trace.Writer) {
	b := r.b
	nbuckets := 8*len(b.Locus) + 1
	ev := Event{Ev: "init", Beh: b.ID, Max: b.Max, Min: b.Min, Evicted: Key{}, Key: Key{}, Out: []Key{}, Keys: b.Keys, Queries: b.Queries}
	p, what := guard(func() {
		r.c = kademlia.NewCache[int](toBytes(b.Locus), b.Max, b.Min)
		for _, k := range b.Prefill {
			r.c.Put(toBytes(k), 1, toTime(1), time.Time{})
		}
		for _, op := range b.Ops[:b.Silent] {
			r.apply(op, &Event{})
		}
	})
	ev.Jump = b.Silent > 0
	if p {
		ev.Panic, ev.PanicV = true, "NewCache/prefill: "+what
		ev.Ents, ev.MinExp = []Ent{}, make([]int, nbuckets)
		ev.Get, ev.WouldPut, ev.ForEach, ev.Closest, ev.Closer, ev.Matching = []KV{}, []KV{}, []QS{}, []QS{}, []QS{}, []QS{}
		w.Emit(ev)
		return
	}
	r.project(&ev, nbuckets)
	w.Emit(ev)
	for _, op := range b.Ops[b.Silent:] {
		ev := Event{Ev: op.Op, Beh: b.ID, Max: b.Max, Min: b.Min, Key: op.Key, V: op.V, T: op.T, E: op.E, Evicted: Key{}, Out: []Key{}, Keys: []Key{}, Queries: []Key{}}
		if ev.Key == nil {
			ev.Key = Key{}
		}
		p, what := guard(func() { r.apply(op, &ev) })
		if p {
			ev.Panic, ev.PanicV = true, op.Op+": "+what
		}
		opPanic := ev.Panic
		r.project(&ev, nbuckets)
		w.Emit(ev)
		if opPanic {
			return
		}
	}
}

// DistCase is one (x, a, b) triple from spec/KadDist.tla.
type DistCase struct {
	X Key `json:"x"`
	A Key `json:"a"`
	B Key `json:"b"`
}

type DistEvent struct {
	Ev     string `json:"ev"`
	X      Key    `json:"x"`
	A      Key    `json:"a"`
	B      Key    `json:"b"`
	Cmp    int    `json:"cmp"`
	CmpBA  int    `json:"cmpba"`
	Lt     bool   `json:"lt"`
	Gt     bool   `json:"gt"`
	Dist   Key    `json:"dist"`
	DistAX Key    `json:"distax"`
	Lz     int    `json:"lz"`
	LzFn   int    `json:"lzfn"`
	Hp     []bool `json:"hp"`
	Panic  bool   `json:"panic"`
	PanicV string `json:"panicv"`
}

func runDist(in *os.File, w *trace.Writer) int {
	sc := bufio.NewScanner(in)
	n := 0
	for sc.Scan() {
		var c DistCase
		if err := json.Unmarshal(sc.Bytes(), &c); err != nil {
			fmt.Fprintln(os.Stderr, "bad case:", err)
			os.Exit(2)
		}
		x, a, b := toBytes(c.X), toBytes(c.A), toBytes(c.B)
		ev := DistEvent{Ev: "dist", X: fromBytes(x), A: fromBytes(a), B: fromBytes(b), Dist: Key{}, DistAX: Key{}, Hp: []bool{}}
		p, what := guard(func() {
			ev.Cmp = kademlia.DistanceCmp(x, a, b)
			ev.CmpBA = kademlia.DistanceCmp(x, b, a)
			ev.Lt = kademlia.DistanceLt(x, a, b)
			ev.Gt = kademlia.DistanceGt(x, a, b)
			ev.Dist = fromBytes(kademlia.Distance(x, a))
			ev.DistAX = fromBytes(kademlia.Distance(a, x))
			ev.Lz = kademlia.LeadingZeros(kademlia.Distance(x, a))
			ev.LzFn = kademlia.DistanceLz(x, a)
			for nbits := 0; nbits <= 8*len(x); nbits++ {
				ev.Hp = append(ev.Hp, kademlia.HasPrefix(a, x, nbits))
			}
		})
		if p {
			ev.Panic, ev.PanicV = true, what
		}
		w.Emit(ev)
		n++
	}
	return n
}

// runHammer calls every Cache and DHTNode method concurrently for a short while.
func runHammer() {
	locus := make([]byte, 32)
	c := kademlia.NewCache[int](locus, 64, 0)
	var id p2p.PeerID
	id[0] = 1
	node := kademlia.NewDHTNode(kademlia.DHTNodeParams{LocalID: id, PeerCacheSize: 256, DataCacheSize: 64})
	stop := time.Now().Add(400 * time.Millisecond)
	var wg sync.WaitGroup
	for g := 0; g < 8; g++ {
		wg.Add(1)
		go func(g int) {
			defer wg.Done()
			defer func() { recover() }()
			for i := 0; time.Now().Before(stop); i++ {
				k := make([]byte, 32)
				k[0], k[1], k[31] = byte(1<<uint(i%8)), byte(g), byte(i)
				now := time.Unix(1_000_000+int64(i), 0)
				switch (i + g) % 8 {
				case 0:
					c.Put(k, i, now, now.Add(time.Second))
				case 1:
					c.Get(k, now)
				case 2:
					c.Count()
					c.IsFull()
					c.AcceptingPrefixLen()
				case 3:
					c.ForEach(k, func(kademlia.Entry[int]) bool { return true })
				case 4:
					c.Delete(k)
				case 5:
					c.Expire(nil, now)
					c.WouldAdd(k, now)
				case 6:
					var pid p2p.PeerID
					copy(pid[:], k)
					node.AddPeer(pid, []byte("info"))
					node.HandleFindNode(pid, kademlia.FindNodeReq{Target: pid, Limit: 3})
					node.ListPeers(4)
				default:
					var pid p2p.PeerID
					copy(pid[:], k)
					node.HandlePut(pid, kademlia.PutReq{Key: k, Value: []byte("v"), TTLms: 1000})
					node.HandleGet(pid, kademlia.GetReq{Key: k})
					node.Count()
					node.WouldAdd(k)
					_ = node.String()
				}
			}
		}(g)
	}
	wg.Wait()
	fmt.Println("hammer done")
}

func main() {
	in := flag.String("in", "", "behaviours (ndjson)")
	out := flag.String("out", "", "trace output (ndjson)")
	dist := flag.Bool("dist", false, "input is a list of distance triples")
	hammer := flag.Bool("hammer", false, "concurrent use of one Cache and one DHTNode (observer: -race build, C14)")
	flag.Parse()
	if *hammer {
		runHammer()
		return
	}
	f, err := os.Open(*in)
	if err != nil {
		fmt.Fprintln(os.Stderr, err)
		os.Exit(2)
	}
	defer f.Close()
	w, err := trace.Create(*out)
	if err != nil {
		fmt.Fprintln(os.Stderr, err)
		os.Exit(2)
	}
	if *dist {
		n := runDist(f, w)
		if err := w.Close(); err != nil {
			fmt.Fprintln(os.Stderr, err)
			os.Exit(2)
		}
		fmt.Printf("replayed=%d events=%d\n", n, n)
		return
	}
	sc := bufio.NewScanner(f)
	sc.Buffer(make([]byte, 1<<20), 1<<26)
	n := 0
	for sc.Scan() {
		var b Behaviour
		if err := json.Unmarshal(sc.Bytes(), &b); err != nil {
			fmt.Fprintln(os.Stderr, "bad behaviour:", err)
			os.Exit(2)
		}
		r := &replayer{b: &b}
		r.run(w)
		n++
	}
	if err := w.Close(); err != nil {
		fmt.Fprintln(os.Stderr, err)
		os.Exit(2)
	}
	fmt.Printf("replayed=%d events=%d\n", n, w.Count())
}
