package main

import (
	"go.brendoncarroll.net/p2p/p2ptest"
	"verifharness/trace"
)

type topoEvent struct {
	Ev    string  `json:"ev"`
	Kind  string  `json:"kind"`
	N     int     `json:"n"`
	Adj   [][]int `json:"adj"`
	Panic bool    `json:"panic"`
}

// runTopology logs the adjacency lists the real constructors return for n in 0..maxN.
func runTopology(w *trace.Writer, maxN int) {
	mk := []struct {
		kind string
		fn   func(int) p2ptest.AdjList
	}{{"chain", p2ptest.MakeChain}, {"ring", p2ptest.MakeRing}, {"cluster", p2ptest.MakeCluster}, {"hub", p2ptest.MakeHubAndSpoke}}
	for _, m := range mk {
		for n := 0; n <= maxN; n++ {
			ev := topoEvent{Ev: "topo", Kind: m.kind, N: n, Adj: [][]int{}}
			ev.Panic = guard(func() {
				for _, row := range m.fn(n) {
					ev.Adj = append(ev.Adj, append([]int{}, row...))
				}
			})
			w.Emit(ev)
		}
	}
}
