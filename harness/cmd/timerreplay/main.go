// timerreplay binds the G08 specifications to the real code (built with -tags verif):
//
//	-mode replay   TLC-generated schedules (spec/P2pkeTimerGen.tla: sequences of groups of operations
//	               released together) executed on the real p2pke.Timer
//	-mode hammer   goroutines doing seeded random operations on one real p2pke.Timer
//	-mode bitmap   every (n, set) state of spec/MbappBitmap.tla built on the real mbapp.bitMap and probed
//	-mode topology the adjacency lists of p2ptest.MakeChain / MakeRing / MakeCluster / MakeHubAndSpoke
//
// Timer logs: every call is a "call" and a "ret" event, fn logs "fs" / "fe"; all carry one global
// atomic sequence number (taken before the call / after the return / as fn's first and last
// statement).  The events of one behaviour are written contiguously, sorted by that number.
// Validated by spec/P2pkeTimerTrace.tla and spec/MbappBitmapTrace.tla.
package main

import (
	"bufio"
	"encoding/json"
	"flag"
	"fmt"
	"math/rand"
	"os"
	"runtime"
	"sort"
	"sync"
	"sync/atomic"
	"time"

	"go.brendoncarroll.net/p2p/p/mbapp"
	"go.brendoncarroll.net/p2p/p/p2pke"
	"verifharness/trace"
)

func fatal(err error) {
	fmt.Fprintln(os.Stderr, "timerreplay:", err)
	os.Exit(3)
}

func readLines(path string, fn func(line []byte)) {
	f, err := os.Open(path)
	if err != nil {
		fatal(err)
	}
	defer f.Close()
	sc := bufio.NewScanner(f)
	sc.Buffer(make([]byte, 1<<20), 1<<26)
	for sc.Scan() {
		if len(sc.Bytes()) > 0 {
			fn(append([]byte{}, sc.Bytes()...))
		}
	}
}

var gseq atomic.Uint64

type event struct {
	Beh int    `json:"beh"`
	Seq uint64 `json:"seq"`
	Ev  string `json:"ev"` // call | ret | fs | fe
	Op  string `json:"op"` // reset | stop | stopsync | ispending | wait | fn
	ID  int    `json:"id"`
	D   string `json:"d"` // reset: "s" short, "l" long
	Res bool   `json:"res"`
}

type rec struct {
	beh      int
	mu       sync.Mutex
	evs      []event
	ids      atomic.Int64
	fnStarts atomic.Int64
	mark     atomic.Int64 // fnStarts at the latest Reset call
	slow     func() time.Duration
	t        *p2pke.Timer
}

func (r *rec) add(ev, op string, id int, d string, res bool) {
	e := event{Beh: r.beh, Seq: gseq.Add(1), Ev: ev, Op: op, ID: id, D: d, Res: res}
	r.mu.Lock()
	r.evs = append(r.evs, e)
	r.mu.Unlock()
}

func newRec(beh int, slow func() time.Duration) *rec {
	r := &rec{beh: beh, slow: slow}
	r.t = p2pke.VerifNewTimer(func() {
		id := int(r.ids.Add(1))
		r.add("fs", "fn", id, "", false)
		r.fnStarts.Add(1)
		if d := r.slow(); d > 0 {
			time.Sleep(d)
		}
		r.add("fe", "fn", id, "", false)
	})
	return r
}

const waitTimeout = 80 * time.Millisecond

func (r *rec) do(op string, short time.Duration) {
	id := int(r.ids.Add(1))
	switch op {
	case "RS":
		r.mark.Store(r.fnStarts.Load())
		r.add("call", "reset", id, "s", false)
		r.t.Reset(short)
		r.add("ret", "reset", id, "s", false)
	case "RL":
		r.mark.Store(r.fnStarts.Load())
		r.add("call", "reset", id, "l", false)
		r.t.Reset(time.Hour)
		r.add("ret", "reset", id, "l", false)
	case "ST":
		r.add("call", "stop", id, "", false)
		r.t.Stop()
		r.add("ret", "stop", id, "", false)
	case "SS":
		r.add("call", "stopsync", id, "", false)
		r.t.StopSync()
		r.add("ret", "stopsync", id, "", false)
	case "IP":
		r.add("call", "ispending", id, "", false)
		v := r.t.IsPending()
		r.add("ret", "ispending", id, "", v)
	case "W": // wait until fn started after the latest Reset call, or give up
		r.add("call", "wait", id, "", false)
		dl := time.Now().Add(waitTimeout)
		fired := r.fnStarts.Load() > r.mark.Load()
		for !fired && time.Now().Before(dl) {
			time.Sleep(200 * time.Microsecond)
			fired = r.fnStarts.Load() > r.mark.Load()
		}
		r.add("ret", "wait", id, "", fired)
	default:
		fatal(fmt.Errorf("unknown op %q", op))
	}
}

// finish: a last StopSync, a pause in which a late fn would show, then the sorted events.
func (r *rec) finish() []event {
	r.do("SS", 0)
	time.Sleep(3 * time.Millisecond)
	r.mu.Lock()
	defer r.mu.Unlock()
	evs := append([]event{}, r.evs...)
	sort.Slice(evs, func(i, j int) bool { return evs[i].Seq < evs[j].Seq })
	return evs
}

type sched struct {
	ID     int        `json:"id"`
	Slow   bool       `json:"slow"`
	Groups [][]string `json:"groups"`
}

func runSched(s sched) []event {
	slow := func() time.Duration { return 0 }
	if s.Slow {
		slow = func() time.Duration { return 2 * time.Millisecond }
	}
	r := newRec(s.ID, slow)
	for _, g := range s.Groups {
		var wg sync.WaitGroup
		gate := make(chan struct{})
		for _, op := range g {
			wg.Add(1)
			go func(op string) {
				defer wg.Done()
				<-gate
				r.do(op, time.Millisecond)
			}(op)
		}
		close(gate)
		wg.Wait()
	}
	return r.finish()
}

func runReplay(in string, w *trace.Writer, par int) {
	var ss []sched
	readLines(in, func(line []byte) {
		var s sched
		if err := json.Unmarshal(line, &s); err != nil {
			fatal(err)
		}
		ss = append(ss, s)
	})
	out := make([][]event, len(ss))
	sem := make(chan struct{}, par)
	var wg sync.WaitGroup
	for i := range ss {
		wg.Add(1)
		sem <- struct{}{}
		go func(i int) {
			defer wg.Done()
			out[i] = runSched(ss[i])
			<-sem
		}(i)
	}
	wg.Wait()
	for _, evs := range out {
		for _, e := range evs {
			w.Emit(e)
		}
	}
}

func runHammer(w *trace.Writer, seed int64, behs, gor, nops int) {
	for b := 1; b <= behs; b++ {
		var ctr atomic.Uint64
		slowMax := []int{0, 30, 200, 1000}[b%4] // microseconds
		r := newRec(b, func() time.Duration {
			if slowMax == 0 {
				return 0
			}
			x := (ctr.Add(1)*2654435761 + uint64(seed)) % uint64(slowMax)
			return time.Duration(x) * time.Microsecond
		})
		var wg sync.WaitGroup
		for g := 0; g < gor; g++ {
			wg.Add(1)
			go func(g int) {
				defer wg.Done()
				rng := rand.New(rand.NewSource(seed*1000003 + int64(b)*1009 + int64(g)))
				for k := 0; k < nops; k++ {
					switch x := rng.Intn(100); {
					case x < 35:
						r.do("RS", time.Duration(rng.Intn(60))*time.Microsecond)
					case x < 50:
						r.do("ST", 0)
					case x < 70:
						r.do("SS", 0)
					case x < 85:
						r.do("IP", 0)
					case x < 93:
						runtime.Gosched()
					default:
						time.Sleep(time.Duration(rng.Intn(150)) * time.Microsecond)
					}
				}
			}(g)
		}
		wg.Wait()
		for _, e := range r.finish() {
			w.Emit(e)
		}
	}
}

// ---------------------------------------------------------------------------- bitmap

type bmCase struct {
	ID int   `json:"id"`
	N  int   `json:"n"`
	S  []int `json:"s"`
}

type bmSet struct {
	I      int    `json:"i"`
	V      bool   `json:"v"`
	Panic  bool   `json:"panic"`
	Buf    []int  `json:"buf"`
	Gets   []bool `json:"gets"`
	AllSet bool   `json:"allSet"`
}

type bmEvent struct {
	Ev       string  `json:"ev"`
	ID       int     `json:"id"`
	N        int     `json:"n"`
	S        []int   `json:"s"`
	Len      int     `json:"len"`
	Buf      []int   `json:"buf"`
	Gets     []bool  `json:"gets"`
	AllSet   bool    `json:"allSet"`
	OorPanic []bool  `json:"oorPanic"` // get(-1), get(n), get(n+8)
	Sets     []bmSet `json:"sets"`
	Broken   string  `json:"broken"`
}

func guard(fn func()) (panicked bool) {
	defer func() {
		if r := recover(); r != nil {
			panicked = true
		}
	}()
	fn()
	return false
}

func ints(b []byte) []int {
	r := make([]int, len(b))
	for i, x := range b {
		r[i] = int(x)
	}
	return r
}

func build(c bmCase) mbapp.VerifBitMap {
	bm := mbapp.VerifNewBitMap(c.N)
	for _, i := range c.S {
		bm.Set(i, true)
	}
	return bm
}

func gets(bm mbapp.VerifBitMap, n int) []bool {
	r := make([]bool, n)
	for j := 0; j < n; j++ {
		r[j] = bm.Get(j)
	}
	return r
}

func runBitmap(in string, w *trace.Writer) {
	readLines(in, func(line []byte) {
		var c bmCase
		if err := json.Unmarshal(line, &c); err != nil {
			fatal(err)
		}
		ev := bmEvent{Ev: "bm", ID: c.ID, N: c.N, S: append([]int{}, c.S...), Sets: []bmSet{}, Gets: []bool{}, Buf: []int{}, OorPanic: []bool{}}
		if guard(func() {
			bm := build(c)
			ev.Len, ev.Buf, ev.Gets, ev.AllSet = bm.Len(), ints(bm.Buf()), gets(bm, c.N), bm.AllSet()
			for _, i := range []int{-1, c.N, c.N + 8} {
				ev.OorPanic = append(ev.OorPanic, guard(func() { bm.Get(i) }))
			}
			for i := -1; i <= c.N; i++ {
				for _, v := range []bool{false, true} {
					b2 := build(c)
					p := guard(func() { b2.Set(i, v) })
					ev.Sets = append(ev.Sets, bmSet{I: i, V: v, Panic: p, Buf: ints(b2.Buf()), Gets: gets(b2, c.N), AllSet: b2.AllSet()})
				}
			}
		}) {
			ev.Broken = "panic while building or probing in range"
		}
		w.Emit(ev)
	})
}

func main() {
	mode := flag.String("mode", "", "replay | hammer | bitmap | topology")
	in := flag.String("in", "", "cases (ndjson)")
	out := flag.String("out", "", "trace (ndjson)")
	par := flag.Int("par", 8, "replay: schedules executed concurrently")
	seed := flag.Int64("seed", 1, "hammer: seed")
	behs := flag.Int("behs", 4, "hammer: behaviours")
	gor := flag.Int("g", 4, "hammer: goroutines")
	nops := flag.Int("ops", 60, "hammer: operations per goroutine")
	maxN := flag.Int("maxn", 6, "topology: largest n")
	flag.Parse()
	w, err := trace.Create(*out)
	if err != nil {
		fatal(err)
	}
	switch *mode {
	case "replay":
		runReplay(*in, w, *par)
	case "hammer":
		runHammer(w, *seed, *behs, *gor, *nops)
	case "bitmap":
		runBitmap(*in, w)
	case "topology":
		runTopology(w, *maxN)
	default:
		fatal(fmt.Errorf("unknown mode %q", *mode))
	}
	n := w.Count()
	if err := w.Close(); err != nil {
		fatal(err)
	}
	fmt.Printf("mode=%s events=%d\n", *mode, n)
}
