package main

import (
	"context"
	"fmt"
	"sync"
	"time"

	"go.brendoncarroll.net/p2p"
	"go.brendoncarroll.net/p2p/f/x509"
	"go.brendoncarroll.net/p2p/s/memswarm"
	"go.brendoncarroll.net/p2p/s/multiswarm"
	"go.brendoncarroll.net/p2p/s/p2pkeswarm"
	"go.brendoncarroll.net/p2p/s/quicswarm"
	"go.brendoncarroll.net/p2p/s/sshswarm"
	"go.brendoncarroll.net/p2p/s/udpswarm"

	"verifharness/trace"
)

// FpEvent: one observation of "the peer id of key K as computed at site S of swarm kind KIND".
type FpEvent struct {
	Ev   string `json:"ev"` // "fp"
	Kind string `json:"kind"`
	Key  string `json:"key"` // hex of the canonical DER of the key
	Site string `json:"site"`
	ID   []int  `json:"id"`
}

type harvester struct {
	w, fw  *trace.Writer
	n, nfp int
	skips  []string
}

const hvTimeout = 8 * time.Second

func idInts(id p2p.PeerID) []int {
	out := make([]int, len(id))
	for i, b := range id {
		out[i] = int(b)
	}
	return out
}

func (h *harvester) fp(kind string, key *x509.PublicKey, site string, id p2p.PeerID) {
	h.fw.Emit(FpEvent{Ev: "fp", Kind: kind, Key: keyID(key), Site: site, ID: idInts(id)})
	h.nfp++
}

func rec[A p2p.Addr](h *harvester, stack, site, dir string, a A, parse func([]byte) (A, error)) {
	ev := RtEvent{Ev: "rt", Src: "harvest", Reach: true, Mrt: true, Stack: stack, Site: site, Dir: dir}
	roundTrip(&ev, a, parse)
	h.w.Emit(ev)
	h.n++
}

func (h *harvester) skip(stack string, err any) {
	h.skips = append(h.skips, fmt.Sprintf("%s: %v", stack, err))
	h.w.Emit(RtEvent{Ev: "skip", Src: "harvest", Stack: stack, PErrMsg: clip(fmt.Sprint(err), 100)})
}

// recvOne receives one message on s (the swarm must be told to concurrently).
func recvOne[A p2p.Addr](s p2p.Swarm[A]) (m p2p.Message[A], err error) {
	ctx, cf := context.WithTimeout(context.Background(), hvTimeout)
	defer cf()
	err = s.Receive(ctx, func(x p2p.Message[A]) {
		m = p2p.Message[A]{Src: x.Src, Dst: x.Dst, Payload: append([]byte{}, x.Payload...)}
	})
	return m, err
}

func tellBg[A p2p.Addr](s p2p.Swarm[A], dst A, payload string) chan error {
	ch := make(chan error, 1)
	go func() {
		ctx, cf := context.WithTimeout(context.Background(), hvTimeout)
		defer cf()
		ch <- s.Tell(ctx, dst, p2p.IOVec{[]byte(payload)})
	}()
	return ch
}

// exchange records the local addresses of a and b, sends a -> b (to dst, one of b's local addresses)
// and records Src/Dst as b saw them, then lets b reply to the Src it saw (the reply travels in the
// reverse direction over whatever connection a opened) and records Src/Dst as a saw them.
func exchange[A p2p.Addr](h *harvester, stack string, a, b p2p.Swarm[A], dst A) (mb, ma p2p.Message[A], err error) {
	for _, x := range a.LocalAddrs() {
		rec(h, stack, "LocalAddrs", "a", x, a.ParseAddr)
	}
	for _, x := range b.LocalAddrs() {
		rec(h, stack, "LocalAddrs", "b", x, b.ParseAddr)
	}
	terr := tellBg(a, dst, "ping")
	mb, err = recvOne(b)
	if err != nil {
		return mb, ma, fmt.Errorf("b did not receive: %w (tell: %v)", err, firstErr(terr))
	}
	rec(h, stack, "Src", "a->b", mb.Src, b.ParseAddr)
	rec(h, stack, "Dst", "a->b", mb.Dst, b.ParseAddr)
	// the address b saw must also be usable by a: it names a
	rec(h, stack, "Src-parsed-by-sender", "a->b", mb.Src, a.ParseAddr)
	terr = tellBg(b, mb.Src, "pong")
	ma, err = recvOne(a)
	if err != nil {
		return mb, ma, fmt.Errorf("a did not receive the reply: %w (tell: %v)", err, firstErr(terr))
	}
	rec(h, stack, "Src", "b->a(reply)", ma.Src, a.ParseAddr)
	rec(h, stack, "Dst", "b->a(reply)", ma.Dst, a.ParseAddr)
	return mb, ma, nil
}

func firstErr(ch chan error) error {
	select {
	case err := <-ch:
		return err
	default:
		return nil
	}
}

// askExchange does the same over the ask path.
func askExchange[A p2p.Addr](h *harvester, stack string, a, b p2p.AskSwarm[A], dst A) error {
	var mu sync.Mutex
	var got *p2p.Message[A]
	ctx, cf := context.WithTimeout(context.Background(), hvTimeout)
	defer cf()
	go b.ServeAsk(ctx, func(ctx context.Context, resp []byte, req p2p.Message[A]) int {
		mu.Lock()
		got = &p2p.Message[A]{Src: req.Src, Dst: req.Dst}
		mu.Unlock()
		return copy(resp, "ok")
	})
	buf := make([]byte, 16)
	if _, err := a.Ask(ctx, buf, dst, p2p.IOVec{[]byte("q")}); err != nil {
		return err
	}
	mu.Lock()
	defer mu.Unlock()
	if got == nil {
		return fmt.Errorf("ask handler not called")
	}
	rec(h, stack, "Src", "ask a->b", got.Src, b.ParseAddr)
	rec(h, stack, "Dst", "ask a->b", got.Dst, b.ParseAddr)
	return nil
}

func pickUDP(addrs []udpswarm.Addr, want func(udpswarm.Addr) bool) (udpswarm.Addr, bool) {
	for _, a := range addrs {
		if want(a) {
			return a, true
		}
	}
	return udpswarm.Addr{}, false
}

func isLoop4(a udpswarm.Addr) bool { return a.IP.Unmap().Is4() && a.IP.Unmap().IsLoopback() }
func isLoop6(a udpswarm.Addr) bool { return a.IP.Is6() && !a.IP.Is4In6() && a.IP.IsLoopback() }

func closeAll(xs ...interface{ Close() error }) {
	for _, x := range xs {
		x := x
		go func() {
			defer func() { recover() }()
			x.Close()
		}()
	}
}

func runHarvest(w, fw *trace.Writer) string {
	h := &harvester{w: w, fw: fw}
	try := func(stack string, fn func() error) {
		var err error
		p, what := guard(func() { err = fn() })
		if p {
			h.skip(stack, "panic: "+what)
		} else if err != nil {
			h.skip(stack, err)
		}
	}

	// ---- memswarm
	try("memswarm", func() error {
		r := memswarm.NewRealm()
		a, b := r.NewSwarm(), r.NewSwarm()
		_, _, err := exchange[memswarm.Addr](h, "memswarm", a, b, b.LocalAddrs()[0])
		if err == nil {
			err = askExchange[memswarm.Addr](h, "memswarm", a, b, b.LocalAddrs()[0])
		}
		return err
	})

	// ---- udpswarm: IPv4 loopback, IPv6 loopback, dual-stack receiver reached over IPv4 and over IPv6
	type udpCfg struct {
		name, la, lb string
		want         func(udpswarm.Addr) bool
	}
	udpCfgs := []udpCfg{
		{"udpswarm/v4", "127.0.0.1:0", "127.0.0.1:0", isLoop4},
		{"udpswarm/v6", "[::1]:0", "[::1]:0", isLoop6},
		{"udpswarm/dual<-v4", "127.0.0.1:0", ":0", isLoop4},
		{"udpswarm/dual<-v6", "[::1]:0", ":0", isLoop6},
		{"udpswarm/dual<-dual", ":0", ":0", isLoop4},
	}
	for _, c := range udpCfgs {
		c := c
		try(c.name, func() error {
			a, err := udpswarm.New(c.la)
			if err != nil {
				return err
			}
			b, err := udpswarm.New(c.lb)
			if err != nil {
				return err
			}
			defer closeAll(a, b)
			dst, ok := pickUDP(b.LocalAddrs(), c.want)
			if !ok {
				return fmt.Errorf("no suitable local address in %v", b.LocalAddrs())
			}
			dst.IP = dst.IP.Unmap() // a v4 socket cannot send to a v4-mapped destination
			if c.la == ":0" {
				dst = udpswarm.Addr{IP: b.LocalAddrs()[0].IP, Port: dst.Port}
				if d, ok := pickUDP(b.LocalAddrs(), c.want); ok {
					dst = d
				}
			}
			_, _, err = exchange[udpswarm.Addr](h, c.name, a, b, dst)
			return err
		})
	}

	// ---- p2pkeswarm over udp (v4, v6) and memswarm
	keOver := func(name string, mk func() (p2p.Swarm[udpswarm.Addr], p2p.Swarm[udpswarm.Addr], error), want func(udpswarm.Addr) bool) {
		try(name, func() error {
			ia, ib, err := mk()
			if err != nil {
				return err
			}
			var wlMu sync.Mutex
			var wlSeen []p2pkeswarm.Addr[udpswarm.Addr]
			ka, kb := testKey(1), testKey(2)
			a := p2pkeswarm.New[udpswarm.Addr](ia, ka)
			b := p2pkeswarm.New[udpswarm.Addr](ib, kb, p2pkeswarm.WithWhitelist[udpswarm.Addr](func(x p2pkeswarm.Addr[udpswarm.Addr]) bool {
				wlMu.Lock()
				wlSeen = append(wlSeen, x)
				wlMu.Unlock()
				return true
			}))
			defer closeAll(a, b)
			var dst p2pkeswarm.Addr[udpswarm.Addr]
			found := false
			for _, x := range b.LocalAddrs() {
				if want(x.Addr) {
					dst, found = x, true
					break
				}
			}
			if !found {
				return fmt.Errorf("no suitable local address")
			}
			dst.Addr.IP = dst.Addr.IP.Unmap()
			mb, ma, err := exchange[p2pkeswarm.Addr[udpswarm.Addr]](h, name, a, b, dst)
			if err != nil {
				return err
			}
			pa, pb := a.PublicKey(), b.PublicKey()
			h.fp("p2pkeswarm", &pa, "DefaultFingerprinter(PublicKey())", p2pkeswarm.DefaultFingerprinter(&pa))
			h.fp("p2pkeswarm", &pb, "DefaultFingerprinter(PublicKey())", p2pkeswarm.DefaultFingerprinter(&pb))
			h.fp("p2pkeswarm", &pa, "LocalAddrs.ID", a.LocalAddrs()[0].ID)
			h.fp("p2pkeswarm", &pb, "LocalAddrs.ID", b.LocalAddrs()[0].ID)
			h.fp("p2pkeswarm", &pa, "Src.ID at receiver", mb.Src.ID)
			h.fp("p2pkeswarm", &pb, "Dst.ID at receiver", mb.Dst.ID)
			h.fp("p2pkeswarm", &pb, "Src.ID at receiver (reply)", ma.Src.ID)
			h.fp("p2pkeswarm", &pa, "Dst.ID at receiver (reply)", ma.Dst.ID)
			h.fp("p2pkeswarm", &pb, "dial check (Tell to this id succeeded)", dst.ID)
			ctx, cf := context.WithTimeout(context.Background(), hvTimeout)
			defer cf()
			if k, err := b.LookupPublicKey(ctx, mb.Src); err == nil {
				h.fp("p2pkeswarm", &k, "id of the address whose LookupPublicKey returned this key", mb.Src.ID)
			}
			wlMu.Lock()
			for _, x := range wlSeen {
				h.fp("p2pkeswarm", &pa, "whitelist predicate argument", x.ID)
			}
			wlMu.Unlock()
			return nil
		})
	}
	keOver("p2pkeswarm/udp4", func() (p2p.Swarm[udpswarm.Addr], p2p.Swarm[udpswarm.Addr], error) {
		a, err := udpswarm.New("127.0.0.1:0")
		if err != nil {
			return nil, nil, err
		}
		b, err := udpswarm.New("127.0.0.1:0")
		return a, b, err
	}, isLoop4)
	keOver("p2pkeswarm/udp6", func() (p2p.Swarm[udpswarm.Addr], p2p.Swarm[udpswarm.Addr], error) {
		a, err := udpswarm.New("[::1]:0")
		if err != nil {
			return nil, nil, err
		}
		b, err := udpswarm.New("[::1]:0")
		return a, b, err
	}, isLoop6)
	try("p2pkeswarm/mem", func() error {
		r := memswarm.NewRealm()
		a := p2pkeswarm.New[memswarm.Addr](r.NewSwarm(), testKey(3))
		b := p2pkeswarm.New[memswarm.Addr](r.NewSwarm(), testKey(4))
		defer closeAll(a, b)
		_, _, err := exchange[p2pkeswarm.Addr[memswarm.Addr]](h, "p2pkeswarm/mem", a, b, b.LocalAddrs()[0])
		return err
	})

	// ---- quicswarm over udp (v4, v6) and memswarm; tell and ask
	quicUDP := func(name, laddr string, want func(udpswarm.Addr) bool) {
		try(name, func() error {
			var wlMu sync.Mutex
			var wlSeen []p2p.PeerID
			ka, kb := testKey(5), testKey(6)
			a, err := quicswarm.NewOnUDP(laddr, ka, quicswarm.WithMTU[udpswarm.Addr](1<<12))
			if err != nil {
				return err
			}
			b, err := quicswarm.NewOnUDP(laddr, kb, quicswarm.WithMTU[udpswarm.Addr](1<<12), quicswarm.WithWhilelist[udpswarm.Addr](func(x p2p.Addr) bool {
				wlMu.Lock()
				wlSeen = append(wlSeen, p2p.ExtractPeerID(x))
				wlMu.Unlock()
				return true
			}))
			if err != nil {
				return err
			}
			defer closeAll(a, b)
			var dst quicswarm.Addr[udpswarm.Addr]
			found := false
			for _, x := range b.LocalAddrs() {
				if want(x.Addr) {
					dst, found = x, true
					break
				}
			}
			if !found {
				return fmt.Errorf("no suitable local address")
			}
			mb, ma, err := exchange[quicswarm.Addr[udpswarm.Addr]](h, name, a, b, dst)
			if err != nil {
				return err
			}
			if err := askExchange[quicswarm.Addr[udpswarm.Addr]](h, name, a, b, dst); err != nil {
				return err
			}
			pa, pb := a.PublicKey(), b.PublicKey()
			h.fp("quicswarm", &pa, "DefaultFingerprinter(PublicKey())", quicswarm.DefaultFingerprinter(pa))
			h.fp("quicswarm", &pb, "DefaultFingerprinter(PublicKey())", quicswarm.DefaultFingerprinter(pb))
			h.fp("quicswarm", &pa, "LocalID()", a.LocalID())
			h.fp("quicswarm", &pb, "LocalAddrs.ID", b.LocalAddrs()[0].ID)
			h.fp("quicswarm", &pa, "Src.ID at receiver", mb.Src.ID)
			h.fp("quicswarm", &pb, "Dst.ID at receiver", mb.Dst.ID)
			h.fp("quicswarm", &pb, "Src.ID at receiver (reply)", ma.Src.ID)
			h.fp("quicswarm", &pa, "Dst.ID at receiver (reply)", ma.Dst.ID)
			h.fp("quicswarm", &pb, "dial check (Tell to this id succeeded)", dst.ID)
			ctx, cf := context.WithTimeout(context.Background(), hvTimeout)
			defer cf()
			if k, err := b.LookupPublicKey(ctx, mb.Src); err == nil {
				h.fp("quicswarm", &k, "id of the address whose LookupPublicKey returned this key", mb.Src.ID)
			}
			wlMu.Lock()
			for _, x := range wlSeen {
				h.fp("quicswarm", &pa, "whitelist predicate argument", x)
			}
			wlMu.Unlock()
			return nil
		})
	}
	quicUDP("quicswarm/udp4", "127.0.0.1:0", isLoop4)
	quicUDP("quicswarm/udp6", "[::1]:0", isLoop6)
	try("quicswarm/mem", func() error {
		r := memswarm.NewRealm()
		a, err := quicswarm.New[memswarm.Addr](r.NewSwarm(), testKey(7), quicswarm.WithMTU[memswarm.Addr](1<<12))
		if err != nil {
			return err
		}
		b, err := quicswarm.New[memswarm.Addr](r.NewSwarm(), testKey(8), quicswarm.WithMTU[memswarm.Addr](1<<12))
		if err != nil {
			return err
		}
		defer closeAll(a, b)
		_, _, err = exchange[quicswarm.Addr[memswarm.Addr]](h, "quicswarm/mem", a, b, b.LocalAddrs()[0])
		return err
	})

	// ---- sshswarm, IPv4 and IPv6: the reply travels over a's OUTBOUND connection
	for _, c := range []struct{ name, laddr string }{{"sshswarm/v4", "127.0.0.1:0"}, {"sshswarm/v6", "[::1]:0"}} {
		c := c
		try(c.name, func() error {
			a, err := sshswarm.New(c.laddr, sshSigner(11))
			if err != nil {
				return err
			}
			b, err := sshswarm.New(c.laddr, sshSigner(12))
			if err != nil {
				return err
			}
			defer closeAll(a, b)
			_, _, err = exchange[sshswarm.Addr](h, c.name, a, b, b.LocalAddrs()[0])
			if err == nil {
				err = askExchange[sshswarm.Addr](h, c.name, a, b, b.LocalAddrs()[0])
			}
			return err
		})
	}

	// ---- multiswarm over {udp, mem}
	try("multiswarm/{udp,mem}", func() error {
		mk := func(r *memswarm.Realm) (p2p.Swarm[multiswarm.Addr], error) {
			u, err := udpswarm.New("127.0.0.1:0")
			if err != nil {
				return nil, err
			}
			return multiswarm.New(map[string]multiswarm.DynSwarm{
				"udp": multiswarm.WrapSwarm[udpswarm.Addr](u),
				"mem": multiswarm.WrapSwarm[memswarm.Addr](r.NewSwarm()),
			}), nil
		}
		r := memswarm.NewRealm()
		a, err := mk(r)
		if err != nil {
			return err
		}
		b, err := mk(r)
		if err != nil {
			return err
		}
		defer closeAll(a, b)
		for _, dst := range b.LocalAddrs() {
			if _, _, err := exchange[multiswarm.Addr](h, "multiswarm/{udp,mem}/"+dst.Scheme, a, b, dst); err != nil {
				return err
			}
		}
		return nil
	})

	// ---- multiswarm (secure) over {ke+udp: p2pkeswarm/udp, quic: quicswarm/udp}
	try("multiswarm/{ke+udp,quic}", func() error {
		mk := func(i int) (p2p.SecureSwarm[multiswarm.Addr, x509.PublicKey], error) {
			u, err := udpswarm.New("127.0.0.1:0")
			if err != nil {
				return nil, err
			}
			q, err := quicswarm.NewOnUDP("127.0.0.1:0", testKey(i), quicswarm.WithMTU[udpswarm.Addr](1<<12))
			if err != nil {
				return nil, err
			}
			return multiswarm.NewSecure[x509.PublicKey](map[string]multiswarm.DynSecureSwarm[x509.PublicKey]{
				"ke+udp": multiswarm.WrapSecureSwarm[p2pkeswarm.Addr[udpswarm.Addr], x509.PublicKey](p2pkeswarm.New[udpswarm.Addr](u, testKey(i))),
				"quic":   multiswarm.WrapSecureSwarm[quicswarm.Addr[udpswarm.Addr], x509.PublicKey](q),
			}), nil
		}
		a, err := mk(21)
		if err != nil {
			return err
		}
		b, err := mk(22)
		if err != nil {
			return err
		}
		defer closeAll(a, b)
		for _, dst := range b.LocalAddrs() {
			if _, _, err := exchange[multiswarm.Addr](h, "multiswarm/{ke+udp,quic}/"+dst.Scheme, a, b, dst); err != nil {
				return err
			}
		}
		return nil
	})

	// ---- p2pkeswarm over multiswarm over {udp, mem}
	try("p2pkeswarm/multiswarm{udp,mem}", func() error {
		mk := func(r *memswarm.Realm, i int) (*p2pkeswarm.Swarm[multiswarm.Addr], error) {
			u, err := udpswarm.New("127.0.0.1:0")
			if err != nil {
				return nil, err
			}
			ms := multiswarm.New(map[string]multiswarm.DynSwarm{
				"udp": multiswarm.WrapSwarm[udpswarm.Addr](u),
				"mem": multiswarm.WrapSwarm[memswarm.Addr](r.NewSwarm()),
			})
			return p2pkeswarm.New[multiswarm.Addr](ms, testKey(i)), nil
		}
		r := memswarm.NewRealm()
		a, err := mk(r, 31)
		if err != nil {
			return err
		}
		b, err := mk(r, 32)
		if err != nil {
			return err
		}
		defer closeAll(a, b)
		for _, dst := range b.LocalAddrs() {
			if _, _, err := exchange[p2pkeswarm.Addr[multiswarm.Addr]](h, "p2pkeswarm/multiswarm{udp,mem}/"+dst.Addr.Scheme, a, b, dst); err != nil {
				return err
			}
		}
		return nil
	})
	return fmt.Sprintf("harvested=%d fp_events=%d skipped=%d %v", h.n, h.nfp, len(h.skips), h.skips)
}
