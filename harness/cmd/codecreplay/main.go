// codecreplay binds spec/Addr.tla (C16) and spec/Keys.tla (C17) to the real codecs.
//
//	-mode addr     every abstract address printed by TLC (ndjson) is concretised with seeded
//	               instances per token class and round-tripped through the real MarshalText /
//	               ParseAddr of real nested swarms (built per shape); mutated texts exercise ParseTotal.
//	-mode harvest  real swarm stacks are run; LocalAddrs and Src/Dst of delivered messages in both
//	               directions are round-tripped through the swarm that produced them; fingerprints
//	               computed at every site of one swarm kind are logged for C17.
//	-mode keys     abstract key / DER / peer-id-text cases are run through x509.MarshalPublicKey,
//	               ParsePublicKey, EqualPublicKeys, both DefaultFingerprinters and PeerID text methods.
//
// The ndjson outputs are validated by spec/AddrTrace.tla and spec/KeysTrace.tla.
package main

import (
	"flag"
	"fmt"
	"os"

	"verifharness/trace"
)

func guard(fn func()) (panicked bool, what string) {
	defer func() {
		if r := recover(); r != nil {
			panicked = true
			what = fmt.Sprint(r)
		}
	}()
	fn()
	return false, ""
}

func fatal(a ...any) {
	fmt.Fprintln(os.Stderr, a...)
	os.Exit(2)
}

func main() {
	mode := flag.String("mode", "", "addr | harvest | keys")
	in := flag.String("in", "", "cases (ndjson)")
	out := flag.String("out", "", "trace output (ndjson)")
	fpout := flag.String("fpout", "", "harvest: fingerprint-site events (ndjson)")
	seed := flag.Int64("seed", 1, "seed for concretisation")
	variants := flag.Int("variants", 2, "addr/keys: concrete instances per abstract case (variant 0 = the model's representative)")
	muts := flag.Int("muts", 1, "addr: mutated texts per abstract case")
	flag.Parse()
	if *mode == "fpone" { // helper process of the keys mode (fingerprints of one key without any history)
		fmt.Println(runFpOne(*in))
		return
	}
	w, err := trace.Create(*out)
	if err != nil {
		fatal(err)
	}
	var summary string
	switch *mode {
	case "addr":
		summary = runAddr(*in, w, *seed, *variants, *muts)
	case "harvest":
		fw, err := trace.Create(*fpout)
		if err != nil {
			fatal(err)
		}
		summary = runHarvest(w, fw)
		if err := fw.Close(); err != nil {
			fatal(err)
		}
	case "keys":
		summary = runKeys(*in, w, *seed, *variants)
	default:
		fatal("unknown -mode")
	}
	if err := w.Close(); err != nil {
		fatal(err)
	}
	fmt.Println(summary)
}
