package main

import (
	"bufio"
	"crypto/ed25519"
	"crypto/sha256"
	"encoding/base64"
	"encoding/binary"
	"encoding/json"
	"fmt"
	"math/rand"
	"net/netip"
	"os"
	"reflect"
	"sort"
	"strings"
	"time"

	"go.brendoncarroll.net/p2p"
	"go.brendoncarroll.net/p2p/f/x509"
	"go.brendoncarroll.net/p2p/s/memswarm"
	"go.brendoncarroll.net/p2p/s/multiswarm"
	"go.brendoncarroll.net/p2p/s/p2pkeswarm"
	"go.brendoncarroll.net/p2p/s/quicswarm"
	"go.brendoncarroll.net/p2p/s/sshswarm"
	"go.brendoncarroll.net/p2p/s/udpswarm"
	"golang.org/x/crypto/ssh"

	"verifharness/trace"
)

// CAddr is a class-level abstract address as printed by spec/Addr.tla.
type CAddr struct {
	K      string `json:"k"`
	N      int    `json:"n"`
	IP     string `json:"ip"`
	Port   int    `json:"port"`
	Fp     string `json:"fp"`
	ID     string `json:"id"`
	Scheme string `json:"scheme"`
	Inner  *CAddr `json:"inner"`
}

type AddrCase struct {
	ID    int    `json:"id"`
	A     *CAddr `json:"a"`
	Reach bool   `json:"reach"`
	Mrt   bool   `json:"mrt"`
	MText string `json:"mtext"`
}

// RtEvent is one line of the trace validated by spec/AddrTrace.tla.
type RtEvent struct {
	Ev      string `json:"ev"`  // "rt" (address produced by a swarm / generated) or "pt" (arbitrary text)
	Src     string `json:"src"` // gen | mut | harvest
	Case    int    `json:"case"`
	Var     int    `json:"var"`
	Shape   string `json:"shape"`
	Classes string `json:"classes"`
	Reach   bool   `json:"reach"`
	Mrt     bool   `json:"mrt"`
	MText   string `json:"mtext"`
	Text    string `json:"text"`
	MErr    bool   `json:"merr"`
	PErr    bool   `json:"perr"`
	PErrMsg string `json:"perrmsg"`
	Eq      bool   `json:"eq"`
	Text2   string `json:"text2"`
	P2Err   bool   `json:"p2err"`
	Eq2     bool   `json:"eq2"`
	Panic   bool   `json:"panic"`
	PanicV  string `json:"panicv"`
	Stack   string `json:"stack"`
	Site    string `json:"site"`
	Dir     string `json:"dir"`
}

func shapeKey(a *CAddr) string {
	switch a.K {
	case "ke", "quic":
		return a.K + "(" + shapeKey(a.Inner) + ")"
	case "multi":
		return fmt.Sprintf("multi{%q}(%s)", a.Scheme, shapeKey(a.Inner))
	default:
		return a.K
	}
}

func classKey(a *CAddr) string {
	switch a.K {
	case "mem":
		return fmt.Sprintf("mem[%d]", a.N)
	case "udp":
		return fmt.Sprintf("udp[%s,%d]", a.IP, a.Port)
	case "ssh":
		return fmt.Sprintf("ssh[%s,%s,%d]", a.Fp, a.IP, a.Port)
	case "ke", "quic":
		return fmt.Sprintf("%s[%s]/%s", a.K, a.ID, classKey(a.Inner))
	case "multi":
		return fmt.Sprintf("multi[%q]/%s", a.Scheme, classKey(a.Inner))
	}
	return "?"
}

func testKey(i int) x509.PrivateKey {
	seed := make([]byte, 32)
	binary.BigEndian.PutUint64(seed[24:], uint64(i))
	algoID, signer := x509.SignerFromStandard(ed25519.NewKeyFromSeed(seed))
	pk, err := x509.DefaultRegistry().StoreSigner(algoID, signer)
	if err != nil {
		fatal("StoreSigner:", err)
	}
	return pk
}

func sshSigner(i int) ssh.Signer {
	seed := make([]byte, 32)
	binary.BigEndian.PutUint64(seed[24:], uint64(i))
	s, err := ssh.NewSignerFromSigner(ed25519.NewKeyFromSeed(seed))
	if err != nil {
		fatal("ssh signer:", err)
	}
	return s
}

var memRealm = memswarm.NewRealm()
var keyCounter = 100

// buildStack builds the real nested swarm whose addresses have a's shape.
func buildStack(a *CAddr) (multiswarm.DynSwarm, error) {
	keyCounter++
	switch a.K {
	case "mem":
		return multiswarm.WrapSwarm[memswarm.Addr](memRealm.NewSwarm()), nil
	case "udp":
		s, err := udpswarm.New("127.0.0.1:0")
		if err != nil {
			return nil, err
		}
		return multiswarm.WrapSwarm[udpswarm.Addr](s), nil
	case "ssh":
		s, err := sshswarm.New("127.0.0.1:0", sshSigner(keyCounter))
		if err != nil {
			return nil, err
		}
		return multiswarm.WrapSwarm[sshswarm.Addr](s), nil
	case "ke":
		inner, err := buildStack(a.Inner)
		if err != nil {
			return nil, err
		}
		return multiswarm.WrapSwarm[p2pkeswarm.Addr[p2p.Addr]](p2pkeswarm.New[p2p.Addr](inner, testKey(keyCounter))), nil
	case "quic":
		inner, err := buildStack(a.Inner)
		if err != nil {
			return nil, err
		}
		s, err := quicswarm.New[p2p.Addr](inner, testKey(keyCounter))
		if err != nil {
			return nil, err
		}
		return multiswarm.WrapSwarm[quicswarm.Addr[p2p.Addr]](s), nil
	case "multi":
		inner, err := buildStack(a.Inner)
		if err != nil {
			return nil, err
		}
		m := map[string]multiswarm.DynSwarm{a.Scheme: inner}
		if a.Scheme != "m" {
			m["m"] = multiswarm.WrapSwarm[memswarm.Addr](memRealm.NewSwarm())
		}
		return multiswarm.WrapSwarm[multiswarm.Addr](multiswarm.New(m)), nil
	}
	return nil, fmt.Errorf("unknown kind %q", a.K)
}

func closeLater(s multiswarm.DynSwarm) {
	go func() {
		defer func() { recover() }()
		s.Close()
	}()
}

// ---- concretiser: class -> instance (variant 0 = the representative used by the model)

var ipRep = map[string]string{"v4": "203.0.113.7", "v4lo": "127.0.0.1", "v6": "2001:db8::1", "v6zone": "fe80::1%eth0",
	"v4mapped": "::ffff:192.0.2.1", "unspec4": "0.0.0.0", "unspec6": "::"}

var fpRep = map[string]string{
	"alnum":     "SHA256:nThbg6kXUpJWGl7E1IGOCspRomTxdCARLviKw6E5SY8",
	"plus":      "SHA256:nThbg6kXUpJ+Gl7E1IGOCspRomTxdCARLviKw6E5SY8",
	"slash":     "SHA256:nThbg6kXUpJ/Gl7E1IGOCspRomTxdCARLviKw6E5SY8",
	"slash2":    "SHA256://hbg6kXUpJWGl7E1IGOCspRomTxdCARLviKw6E5SY8",
	"plusslash": "SHA256:+/hbg6kXUpJ+Gl7E1IGOCspRomTxdCARLviKw6E5S+/",
	"eq":        "SHA256:nThbg6kXUpJWGl7E1IGOCspRomTxdCARLviKw6E5SY8=",
	"dash":      "SHA256:nThbg6kXUpJ-Gl7E1IGOCspRomTxdCARLviKw6E5SY8",
	"under":     "SHA256:nThbg6kXUpJ_Gl7E1IGOCspRomTxdCARLviKw6E5SY8",
}

var zones = []string{"eth0", "lo", "en0.100", "1", "wlan-0", "br_x"}

func concIP(class string, v int, r *rand.Rand) netip.Addr {
	if v == 0 {
		return netip.MustParseAddr(ipRep[class])
	}
	switch class {
	case "v4":
		for {
			b := [4]byte{byte(1 + r.Intn(223)), byte(r.Intn(256)), byte(r.Intn(256)), byte(r.Intn(256))}
			if b[0] != 127 {
				return netip.AddrFrom4(b)
			}
		}
	case "v4lo":
		return netip.AddrFrom4([4]byte{127, byte(r.Intn(256)), byte(r.Intn(256)), byte(1 + r.Intn(254))})
	case "v6":
		var b [16]byte
		r.Read(b[:])
		b[0], b[1] = 0x20, 0x01
		if r.Intn(2) == 0 { // runs of zero groups exercise "::" compression
			for i := 4; i < 4+2*r.Intn(6); i++ {
				b[i] = 0
			}
		}
		return netip.AddrFrom16(b)
	case "v6zone":
		var b [16]byte
		b[0], b[1] = 0xfe, 0x80
		r.Read(b[8:])
		return netip.AddrFrom16(b).WithZone(zones[r.Intn(len(zones))])
	case "v4mapped":
		var b [16]byte
		b[10], b[11] = 0xff, 0xff
		r.Read(b[12:])
		return netip.AddrFrom16(b)
	case "unspec4":
		return netip.IPv4Unspecified()
	case "unspec6":
		return netip.IPv6Unspecified()
	}
	fatal("unknown ip class", class)
	return netip.Addr{}
}

func concPort(p, v int, r *rand.Rand) uint16 {
	if v > 0 && p == 1 {
		return uint16(1 + r.Intn(65534))
	}
	return uint16(p)
}

func fpClassOf(s string) string {
	plus, slash := strings.Contains(s, "+"), strings.Contains(s, "/")
	switch {
	case strings.HasPrefix(s, "//") && !plus:
		return "slash2"
	case plus && slash:
		return "plusslash"
	case plus:
		return "plus"
	case slash:
		return "slash"
	}
	return "alnum"
}

// concFp draws fingerprints of random key blobs the way ssh.FingerprintSHA256 computes them
// (unpadded standard base64 of a SHA-256) until one falls into the class.
func concFp(class string, v int, r *rand.Rand) string {
	if v == 0 {
		return fpRep[class]
	}
	want := class
	switch class {
	case "eq", "dash", "under":
		want = "alnum"
	}
	body := ""
	for i := 0; i < 20000; i++ {
		var blob [40]byte
		r.Read(blob[:])
		h := sha256.Sum256(blob[:])
		s := base64.RawStdEncoding.EncodeToString(h[:])
		if fpClassOf(s) == want {
			body = s
			break
		}
	}
	if body == "" { // (slash2 has probability 2^-12 per draw)
		body = strings.TrimPrefix(fpRep[want], "SHA256:")
	}
	switch class {
	case "eq":
		body += "="
	case "dash":
		i := r.Intn(len(body))
		body = body[:i] + "-" + body[i+1:]
	case "under":
		i := r.Intn(len(body))
		body = body[:i] + "_" + body[i+1:]
	}
	return "SHA256:" + body
}

func concID(class string, v int, r *rand.Rand) (id p2p.PeerID) {
	switch class {
	case "zero":
	case "ones":
		for i := range id {
			id[i] = 0xff
		}
	case "mixed":
		if v == 0 {
			for i := range id {
				id[i] = byte(7 * i)
			}
		} else {
			r.Read(id[:])
		}
	default:
		fatal("unknown id class", class)
	}
	return id
}

func concretise(a *CAddr, v int, r *rand.Rand) p2p.Addr {
	switch a.K {
	case "mem":
		n := a.N
		if v > 0 && n == 1 {
			n = 1 + r.Intn(1<<20)
		}
		return memswarm.Addr{N: n}
	case "udp":
		return udpswarm.Addr{IP: concIP(a.IP, v, r), Port: concPort(a.Port, v, r)}
	case "ssh":
		return sshswarm.Addr{Fingerprint: concFp(a.Fp, v, r), IP: concIP(a.IP, v, r), Port: concPort(a.Port, v, r)}
	case "ke":
		return p2pkeswarm.Addr[p2p.Addr]{ID: concID(a.ID, v, r), Addr: concretise(a.Inner, v, r)}
	case "quic":
		return quicswarm.Addr[p2p.Addr]{ID: concID(a.ID, v, r), Addr: concretise(a.Inner, v, r)}
	case "multi":
		return multiswarm.Addr{Scheme: a.Scheme, Addr: concretise(a.Inner, v, r)}
	}
	fatal("unknown kind", a.K)
	return nil
}

func clip(s string, n int) string {
	if len(s) > n {
		return s[:n]
	}
	return s
}

// roundTrip fills the observation fields of ev for address a parsed by parse.
func roundTrip[A p2p.Addr](ev *RtEvent, a A, parse func([]byte) (A, error)) {
	p, what := guard(func() {
		text, err := a.MarshalText()
		if err != nil {
			ev.MErr = true
			return
		}
		ev.Text = string(text)
		parseChain(ev, &a, text, parse)
	})
	if p {
		ev.Panic, ev.PanicV = true, clip(what, 120)
	}
}

// parseChain: p1 = Parse(text); eq = (p1 == want); text2 = Marshal(p1); p2 = Parse(text2); eq2 = (p2 == p1).
func parseChain[A p2p.Addr](ev *RtEvent, want *A, text []byte, parse func([]byte) (A, error)) {
	p1, err := parse(append([]byte{}, text...))
	if err != nil {
		ev.PErr, ev.PErrMsg = true, clip(err.Error(), 100)
		return
	}
	if want != nil {
		ev.Eq = reflect.DeepEqual(*want, p1)
	}
	text2, err := p1.MarshalText()
	if err != nil {
		ev.P2Err = true
		return
	}
	ev.Text2 = string(text2)
	p2, err := parse(text2)
	if err != nil {
		ev.P2Err = true
		return
	}
	ev.Eq2 = reflect.DeepEqual(p1, p2)
}

var mutInserts = []string{"@", ":", "[", "]", "%", "/", "+", "=", "-", " ", "\n", "://", "0x1F", "010", "99999", "\x00", "é"}

func mutateText(s string, r *rand.Rand) string {
	b := []byte(s)
	for n := 1 + r.Intn(2); n > 0; n-- {
		if len(b) == 0 {
			return mutInserts[r.Intn(len(mutInserts))]
		}
		i := r.Intn(len(b))
		switch r.Intn(6) {
		case 0: // delete a byte
			b = append(b[:i:i], b[i+1:]...)
		case 1: // insert a separator / odd token
			ins := mutInserts[r.Intn(len(mutInserts))]
			b = append(b[:i:i], append([]byte(ins), b[i:]...)...)
		case 2: // truncate
			b = b[:i]
		case 3: // duplicate a range
			j := i + r.Intn(len(b)-i)
			b = append(b[:j:j], append(append([]byte{}, b[i:j]...), b[j:]...)...)
		case 4: // replace a byte
			b[i] = mutInserts[r.Intn(len(mutInserts))][0]
		case 5: // splice: tail of the text moved to the front
			b = append(append([]byte{}, b[i:]...), b[:i]...)
		}
	}
	return string(b)
}

func runAddr(in string, w *trace.Writer, seed int64, variants, muts int) string {
	f, err := os.Open(in)
	if err != nil {
		fatal(err)
	}
	defer f.Close()
	var cases []AddrCase
	sc := bufio.NewScanner(f)
	sc.Buffer(make([]byte, 1<<20), 1<<24)
	for sc.Scan() {
		var c AddrCase
		if err := json.Unmarshal(sc.Bytes(), &c); err != nil {
			fatal("bad case:", err)
		}
		cases = append(cases, c)
	}
	sort.SliceStable(cases, func(i, j int) bool { return shapeKey(cases[i].A) < shapeKey(cases[j].A) })
	var cur multiswarm.DynSwarm
	curKey := ""
	nstacks, nev := 0, 0
	t0 := time.Now()
	for _, c := range cases {
		sk := shapeKey(c.A)
		if sk != curKey {
			if cur != nil {
				closeLater(cur)
			}
			cur, err = buildStack(c.A)
			if err != nil {
				fatal("cannot build stack", sk, err)
			}
			curKey = sk
			nstacks++
		}
		ck := classKey(c.A)
		for v := 0; v < variants; v++ {
			r := rand.New(rand.NewSource(seed*1_000_003 + int64(c.ID)*131 + int64(v)))
			ev := RtEvent{Ev: "rt", Src: "gen", Case: c.ID, Var: v, Shape: sk, Classes: ck, Reach: c.Reach, Mrt: c.Mrt}
			if v == 0 {
				ev.MText = c.MText
			}
			var a p2p.Addr
			if p, what := guard(func() { a = concretise(c.A, v, r) }); p {
				fatal("concretiser failed:", what)
			}
			roundTrip[p2p.Addr](&ev, a, cur.ParseAddr)
			w.Emit(ev)
			nev++
			if v == 0 && !ev.MErr && !ev.Panic {
				for m := 0; m < muts; m++ {
					mv := RtEvent{Ev: "pt", Src: "mut", Case: c.ID, Var: m, Shape: sk, Classes: ck}
					mv.Text = mutateText(ev.Text, r)
					p, what := guard(func() { parseChain[p2p.Addr](&mv, nil, []byte(mv.Text), cur.ParseAddr) })
					if p {
						mv.Panic, mv.PanicV = true, clip(what, 120)
					}
					w.Emit(mv)
					nev++
				}
			}
		}
	}
	if cur != nil {
		closeLater(cur)
	}
	return fmt.Sprintf("cases=%d stacks=%d events=%d wall=%.1fs", len(cases), nstacks, nev, time.Since(t0).Seconds())
}
