package main

import (
	"bufio"
	"bytes"
	"crypto/ecdsa"
	"crypto/ed25519"
	"crypto/elliptic"
	crand "crypto/rand"
	"crypto/rsa"
	"crypto/sha256"
	stdx509 "crypto/x509"
	"crypto/x509/pkix"
	"encoding/asn1"
	"encoding/hex"
	"encoding/json"
	"fmt"
	"math/rand"
	"os"
	"os/exec"
	"strconv"
	"strings"
	"sync"
	"time"

	"go.brendoncarroll.net/p2p"
	"go.brendoncarroll.net/p2p/f/x509"
	"go.brendoncarroll.net/p2p/f/x509/oids"
	"go.brendoncarroll.net/p2p/s/p2pkeswarm"
	"go.brendoncarroll.net/p2p/s/quicswarm"

	"verifharness/trace"
)

type MArc struct {
	N    int    `json:"n"`
	Big  bool   `json:"big"`
	Name string `json:"name"`
}

type CKey struct {
	OID  string `json:"oid"`
	Body int    `json:"body"`
	Fill string `json:"fill"`
}

type CTextClass struct {
	T string `json:"t"`
	C string `json:"c"`
	P int    `json:"p"`
}

type KCase struct {
	Kind string     `json:"kind"`
	Key  CKey       `json:"key"`
	K1   CKey       `json:"k1"`
	K2   CKey       `json:"k2"`
	Form string     `json:"form"`
	ID   string     `json:"id"`
	TC   CTextClass `json:"tc"`
	A    string     `json:"a"`
	Std  string     `json:"std"`
	B    string     `json:"b"`
}

type KModel struct {
	Valid  bool   `json:"valid"`
	Fits   bool   `json:"fits"`
	Rt     bool   `json:"rt"`
	Equal  bool   `json:"equal"`
	Accept bool   `json:"accept"`
	Arcs   []MArc `json:"arcs"`
	Arcs1  []MArc `json:"arcs1"`
	Arcs2  []MArc `json:"arcs2"`
	Text   []int  `json:"text"`
	// idtext: id is the id the text was derived from; idpair: a, b, ta, cmp
	IDBytes []int    `json:"id"`
	A       []int    `json:"a"`
	B       []int    `json:"b"`
	TA      []int    `json:"ta"`
	DerLen  int      `json:"derlen"`
	Cmp     int      `json:"cmp"`
	Forms   []string `json:"forms"`
	Accepts []bool   `json:"accepts"`
}

type KeysCaseLine struct {
	ID int    `json:"id"`
	C  KCase  `json:"c"`
	M  KModel `json:"m"`
}

// KEvent is one line of the trace validated by spec/KeysTrace.tla.
type KEvent struct {
	Ev    string `json:"ev"` // key | pair | der | idtext | idpair
	Case  int    `json:"case"`
	Var   int    `json:"var"`
	Class string `json:"class"`
	// model annotations
	Valid  bool `json:"valid"`
	Fits   bool `json:"fits"`
	Accept bool `json:"accept"`
	// key / der
	Der       string `json:"der"`
	Empty     bool   `json:"empty"`
	PErr      bool   `json:"perr"`
	PErrMsg   string `json:"perrmsg"`
	EqKey     bool   `json:"eqkey"`
	ReDerEq   bool   `json:"redereq"`
	AppendOK  bool   `json:"appendok"`
	Rt        bool   `json:"rt"`
	FpSame    bool   `json:"fpsame"`
	Canon     bool   `json:"canon"`
	RefOK     bool   `json:"refok"`
	CanonHand bool   `json:"canonhand"`
	CanonStd  bool   `json:"canonstd"`
	DerLen    int    `json:"derlen"`
	MDerLen   int    `json:"mderlen"`
	// pair
	Equal   bool `json:"equal"`
	EqualBA bool `json:"equalba"`
	EncEq   bool `json:"enceq"`
	// peer id text
	TB        []int `json:"tb"`
	Err       bool  `json:"err"`
	ID        []int `json:"id"`
	Back      []int `json:"back"`
	A         []int `json:"a"`
	B         []int `json:"b"`
	TA        []int `json:"ta"`
	Cmp       int   `json:"cmp"`
	CmpBA     int   `json:"cmpba"`
	Lt        bool  `json:"lt"`
	UErr      bool  `json:"uerr"`
	UBack     []int `json:"uback"`
	MCmp      int   `json:"mcmp"`
	TextDrift bool  `json:"textdrift"`
	// wires: one entry per wire form of the case
	Forms  []string `json:"forms"`
	Acc    []bool   `json:"acc"`
	MAcc   []bool   `json:"macc"`
	M      []string `json:"m"`
	Idem   []bool   `json:"idem"`
	FpK    []string `json:"fpk"`
	FpQ    []string `json:"fpq"`
	Eq     [][]bool `json:"eq"`
	Panic  bool     `json:"panic"`
	PanicV string   `json:"panicv"`
}

func arcsOf(ms []MArc) []int {
	out := make([]int, len(ms))
	for i, a := range ms {
		switch {
		case a.Big && a.Name == "2^31":
			out[i] = 1 << 31
		case a.Big && a.Name == "2^40":
			out[i] = 1 << 40
		case a.Big:
			fatal("unknown big arc", a.Name)
		default:
			out[i] = a.N
		}
	}
	return out
}

func bodyOf(k CKey, v int, r *rand.Rand) []byte {
	if k.Body == 0 {
		if v%2 == 0 {
			return nil
		}
		return []byte{}
	}
	b := make([]byte, k.Body)
	switch k.Fill {
	case "zero":
	case "ones":
		for i := range b {
			b[i] = 0xff
		}
	case "mixed":
		if v == 0 {
			for i := range b {
				b[i] = byte(7*i + 1)
			}
		} else {
			r.Read(b)
		}
	default:
		fatal("unknown fill", k.Fill)
	}
	return b
}

func mkKey(arcs []MArc, k CKey, v int, r *rand.Rand) x509.PublicKey {
	return x509.PublicKey{Algorithm: oids.New(arcsOf(arcs)...), Data: bodyOf(k, v, r)}
}

func ints(b []byte) []int {
	out := make([]int, len(b))
	for i, x := range b {
		out[i] = int(x)
	}
	return out
}

func unints(xs []int) []byte {
	out := make([]byte, len(xs))
	for i, x := range xs {
		out[i] = byte(x)
	}
	return out
}

// ---- hand-made DER (independent of encoding/asn1)

func derLen(n int) []byte {
	switch {
	case n < 128:
		return []byte{byte(n)}
	case n < 256:
		return []byte{0x81, byte(n)}
	case n < 65536:
		return []byte{0x82, byte(n >> 8), byte(n)}
	default:
		return []byte{0x83, byte(n >> 16), byte(n >> 8), byte(n)}
	}
}

// derHex is what the trace carries of an encoding: all of a short one, head and digest of a long one.
func derHex(der []byte) string {
	if len(der) <= 160 {
		return hex.EncodeToString(der)
	}
	h := sha256.Sum256(der)
	return hex.EncodeToString(der[:24]) + "..." + hex.EncodeToString(h[:12])
}

func keyID(k *x509.PublicKey) string {
	h := sha256.Sum256(x509.MarshalPublicKey(nil, k))
	return hex.EncodeToString(h[:16])
}

// referenceDER encodes SEQUENCE { AlgorithmIdentifier, BIT STRING } with encoding/asn1, independently of
// the library under test; ok is false when encoding/asn1 refuses the object identifier.
func referenceDER(arcs []int, body []byte) ([]byte, bool) {
	der, err := asn1.Marshal(struct {
		Algo pkix.AlgorithmIdentifier
		Key  asn1.BitString
	}{pkix.AlgorithmIdentifier{Algorithm: asn1.ObjectIdentifier(arcs)}, asn1.BitString{Bytes: body, BitLength: 8 * len(body)}})
	return der, err == nil
}

func tlv(tag byte, content []byte) []byte {
	out := append([]byte{tag}, derLen(len(content))...)
	return append(out, content...)
}

func base128(n uint64) []byte {
	var out []byte
	out = append(out, byte(n&0x7f))
	for n >>= 7; n > 0; n >>= 7 {
		out = append([]byte{byte(n&0x7f) | 0x80}, out...)
	}
	return out
}

// oidContent returns the content octets of an OBJECT IDENTIFIER; with padLast the last
// sub-identifier gets a leading 0x80 octet (not minimally encoded).
func oidContent(arcs []int, padLast bool) []byte {
	subs := [][]byte{base128(uint64(arcs[0]*40 + arcs[1]))}
	for _, a := range arcs[2:] {
		subs = append(subs, base128(uint64(a)))
	}
	var out []byte
	for i, sub := range subs {
		if padLast && i == len(subs)-1 {
			out = append(out, 0x80)
		}
		out = append(out, sub...)
	}
	return out
}

func buildDER(form string, arcs []int, body []byte, r *rand.Rand, v int) []byte {
	oc := oidContent(arcs, false)
	oidTLV := tlv(0x06, oc)
	params := []byte{}
	unused := byte(0)
	bodyc := append([]byte{}, body...)
	algTag := byte(0x30)
	outerTag := byte(0x30)
	switch form {
	case "params-null":
		params = []byte{0x05, 0x00}
	case "params-oid":
		params = []byte{0x06, 0x03, 0x2a, 0x03, 0x04}
	case "params-junk": // an arbitrary small DER value
		params = [][]byte{{0x04, 0x02, 0xaa, 0xbb}, {0x02, 0x01, 0x07}, {0x30, 0x03, 0x01, 0x01, 0xff}, {0x0c, 0x01, 0x78}}[r.Intn(4)]
	case "unused-bits":
		unused = 4
		if v > 0 {
			unused = byte(1 + r.Intn(7))
		}
		if len(bodyc) > 0 {
			bodyc[len(bodyc)-1] &^= (1 << unused) - 1
		}
	case "bitstring-unused-gt7":
		unused = 8
	case "oid-empty":
		oidTLV = tlv(0x06, nil)
	case "oid-leading-0x80":
		oidTLV = tlv(0x06, oidContent(arcs, true))
	case "alg-not-sequence":
		algTag = 0x04
	case "outer-tag-wrong":
		outerTag = 0x31
	}
	alg := tlv(algTag, append(append([]byte{}, oidTLV...), params...))
	bits := tlv(0x03, append([]byte{unused}, bodyc...))
	if form == "bitstring-no-unused-octet" {
		bits = tlv(0x03, nil)
	}
	content := append(append([]byte{}, alg...), bits...)
	outer := tlv(outerTag, content)
	switch form {
	case "trailing-data":
		outer = append(outer, 0x00)
	case "truncated":
		outer = outer[:len(outer)-1]
	case "nonminimal-length":
		l := derLen(len(content))
		if len(l) == 1 {
			l = []byte{0x81, l[0]}
		} else {
			l = append([]byte{l[0] + 1, 0x00}, l[1:]...)
		}
		outer = append(append([]byte{outerTag}, l...), content...)
	case "indefinite-length":
		outer = append(append([]byte{outerTag, 0x80}, content...), 0x00, 0x00)
	case "empty-input":
		outer = nil
	case "only-tag":
		outer = []byte{0x30}
	}
	return outer
}

func (h *keysRun) fpBoth(k *x509.PublicKey, site string) {
	h.w.Emit(FpEvent{Ev: "fp", Kind: "p2pkeswarm", Key: keyID(k), Site: site, ID: idInts(p2pkeswarm.DefaultFingerprinter(k))})
	h.w.Emit(FpEvent{Ev: "fp", Kind: "quicswarm", Key: keyID(k), Site: site, ID: idInts(quicswarm.DefaultFingerprinter(*k))})
	h.nfp += 2
}

type keysRun struct {
	w      *trace.Writer
	nfp    int
	nwires int
}

var (
	stdOnce sync.Once
	stdRSA  *rsa.PrivateKey
	stdEC   *ecdsa.PrivateKey
)

// stdSPKI returns a standard SubjectPublicKeyInfo as crypto/x509 writes it.
func stdSPKI(kind string, r *rand.Rand) []byte {
	stdOnce.Do(func() {
		stdRSA, _ = rsa.GenerateKey(crand.Reader, 1024)
		stdEC, _ = ecdsa.GenerateKey(elliptic.P256(), crand.Reader)
	})
	var pub any
	switch kind {
	case "rsa":
		pub = &stdRSA.PublicKey
	case "ecdsa-p256":
		pub = &stdEC.PublicKey
	case "ed25519":
		seed := make([]byte, 32)
		r.Read(seed)
		pub = ed25519.NewKeyFromSeed(seed).Public()
	default:
		fatal("unknown standard key kind", kind)
	}
	der, err := stdx509.MarshalPKIXPublicKey(pub)
	if err != nil {
		fatal(err)
	}
	return der
}

type spki struct {
	Algo pkix.AlgorithmIdentifier
	Key  asn1.BitString
}

// runWires: the parse-first direction.  Every wire form of the case goes through ParsePublicKey; for the
// accepted ones the re-marshalled encoding, its idempotence, both fingerprints and the EqualPublicKeys
// matrix are logged.  Which forms are accepted is the code's choice; the laws are KeysTrace's.
func runWires(ev *KEvent, c *KeysCaseLine, v int, r *rand.Rand) {
	var forms []string
	var wires [][]byte
	if c.C.Std != "" && c.C.Std != "none" {
		ev.Class = "std-" + c.C.Std
		w := stdSPKI(c.C.Std, r)
		var x spki
		if _, err := asn1.Unmarshal(w, &x); err != nil {
			fatal("cannot re-read a standard SPKI:", err)
		}
		with := func(p asn1.RawValue) []byte {
			y := x
			y.Algo.Parameters = p
			der, err := asn1.Marshal(y)
			if err != nil {
				fatal(err)
			}
			return der
		}
		forms = []string{"std", "std-no-params", "std-params-null", "std-params-junk", "std-trailing-data"}
		wires = [][]byte{w, with(asn1.RawValue{}), with(asn1.NullRawValue), with(asn1.RawValue{FullBytes: []byte{0x04, 0x02, 0xaa, 0xbb}}), append(append([]byte{}, w...), 0)}
	} else {
		ev.Class = fmt.Sprintf("%s/len%d", c.C.Key.OID, c.C.Key.Body)
		arcs := arcsOf(c.M.Arcs)
		body := bodyOf(c.C.Key, v, r)
		forms = c.M.Forms
		ev.MAcc = c.M.Accepts
		for _, f := range forms {
			switch f {
			case "other-body":
				ob := make([]byte, len(body))
				r.Read(ob)
				wires = append(wires, buildDER("canonical", arcs, ob, r, v))
			case "other-oid":
				oa := []int{1, 3, 101, 113}
				if c.C.Key.OID == "ed448" {
					oa = []int{1, 3, 101, 112}
				}
				wires = append(wires, buildDER("canonical", oa, body, r, v))
			default:
				wires = append(wires, buildDER(f, arcs, body, r, v))
			}
		}
	}
	n := len(forms)
	ev.Forms, ev.Acc, ev.M, ev.Idem, ev.FpK, ev.FpQ = forms, make([]bool, n), make([]string, n), make([]bool, n), make([]string, n), make([]string, n)
	ev.Eq = make([][]bool, n)
	keys := make([]x509.PublicKey, n)
	for i, w := range wires {
		ev.Eq[i] = make([]bool, n)
		k, err := x509.ParsePublicKey(w)
		if err != nil {
			continue
		}
		ev.Acc[i], keys[i] = true, k
		m := x509.MarshalPublicKey(nil, &k)
		ev.M[i] = derHex(m)
		if k2, err := x509.ParsePublicKey(m); err == nil {
			ev.Idem[i] = bytes.Equal(x509.MarshalPublicKey(nil, &k2), m)
		}
		fk, fq := p2pkeswarm.DefaultFingerprinter(&k), quicswarm.DefaultFingerprinter(k)
		ev.FpK[i], ev.FpQ[i] = hex.EncodeToString(fk[:]), hex.EncodeToString(fq[:])
	}
	for i := range wires {
		for j := range wires {
			ev.Eq[i][j] = ev.Acc[i] && ev.Acc[j] && x509.EqualPublicKeys(&keys[i], &keys[j])
		}
	}
}

// ---- peer id texts, mirroring TextOf of spec/Keys.tla (variant 0 must equal the model's text)

var badChars = map[string]byte{"plus": 43, "slash": 47, "eq": 61, "at": 64, "space": 32, "lf": 10, "cr": 13, "nul": 0,
	"tilde": 126, "high": 200, "dot": 46, "colon": 58}

func textOf(id p2p.PeerID, tc CTextClass) []byte {
	T, _ := id.MarshalText()
	T = append([]byte{}, T...)
	idx := bytes.IndexByte([]byte(p2p.Base64Alphabet), T[42])
	switch tc.T {
	case "valid":
		return T
	case "empty":
		return []byte{}
	case "one-char":
		return T[:1]
	case "short42":
		return T[:42]
	case "long44":
		return append(T, '-')
	case "long64":
		return append(T, T[:21]...)
	case "pad-eq-43":
		return append(T[:42:42], '=')
	case "pad-eq-44":
		return append(T, '=')
	case "lf-at-end":
		return append(T[:42:42], '\n')
	case "lf-at-start":
		return append([]byte{'\n'}, T[:42]...)
	case "crlf-inside":
		return append(append(append([]byte{}, T[:20]...), '\r', '\n'), T[20:41]...)
	case "space-inside":
		return append(append(append([]byte{}, T[:20]...), ' '), T[21:43]...)
	case "trailing-bits-1", "trailing-bits-2", "trailing-bits-3":
		T[42] = p2p.Base64Alphabet[idx+int(tc.T[len(tc.T)-1]-'0')]
		return T
	case "bad-char":
		T[tc.P-1] = badChars[tc.C]
		return T
	}
	fatal("unknown text class", tc.T)
	return nil
}

func idFrom(xs []int) (id p2p.PeerID) {
	copy(id[:], unints(xs))
	return id
}

func runKeys(in string, w *trace.Writer, seed int64, variants int) string {
	f, err := os.Open(in)
	if err != nil {
		fatal(err)
	}
	defer f.Close()
	h := &keysRun{w: w}
	sc := bufio.NewScanner(f)
	sc.Buffer(make([]byte, 1<<20), 1<<24)
	n, nev := 0, 0
	t0 := time.Now()
	reg := x509.DefaultRegistry()
	for sc.Scan() {
		var c KeysCaseLine
		if err := json.Unmarshal(sc.Bytes(), &c); err != nil {
			fatal("bad case:", err)
		}
		n++
		for v := 0; v < variants; v++ {
			r := rand.New(rand.NewSource(seed*1_000_003 + int64(c.ID)*131 + int64(v)))
			ev := KEvent{Ev: c.C.Kind, Case: c.ID, Var: v, Valid: c.M.Valid, Fits: c.M.Fits, Accept: c.M.Accept}
			p, what := guard(func() {
				switch c.C.Kind {
				case "key":
					ev.Class = fmt.Sprintf("%s/len%d/%s", c.C.Key.OID, c.C.Key.Body, c.C.Key.Fill)
					k := mkKey(c.M.Arcs, c.C.Key, v, r)
					der := x509.MarshalPublicKey(nil, &k)
					ev.Der, ev.DerLen, ev.MDerLen = derHex(der), len(der), c.M.DerLen
					ev.Empty = len(der) == 0
					// CanonicalDER: three independent reference encoders
					ev.CanonStd = true
					if ref, ok := referenceDER(arcsOf(c.M.Arcs), k.Data); ok {
						ev.RefOK = true
						ev.Canon = bytes.Equal(der, ref)
						ev.CanonHand = c.M.Valid && bytes.Equal(der, buildDER("canonical", arcsOf(c.M.Arcs), k.Data, r, v))
						if c.C.Key.OID == "ed25519" && len(k.Data) == ed25519.PublicKeySize {
							std, err := stdx509.MarshalPKIXPublicKey(ed25519.PublicKey(k.Data))
							ev.CanonStd = err == nil && bytes.Equal(der, std)
						}
					}
					prefix := []byte{1, 2, 3}
					ev.AppendOK = bytes.Equal(x509.MarshalPublicKey(append([]byte{}, prefix...), &k), append(prefix, der...))
					k2, err := x509.ParsePublicKey(der)
					if err != nil {
						ev.PErr, ev.PErrMsg = true, clip(err.Error(), 100)
					} else {
						ev.EqKey = x509.EqualPublicKeys(&k, &k2) && x509.EqualPublicKeys(&k2, &k)
						ev.ReDerEq = bytes.Equal(x509.MarshalPublicKey(nil, &k2), der)
						h.fpBoth(&k2, "DefaultFingerprinter(ParsePublicKey(MarshalPublicKey(k)))")
					}
					if !ev.Empty {
						h.fpBoth(&k, "DefaultFingerprinter(k)")
						kc := x509.PublicKey{Algorithm: oids.New(arcsOf(c.M.Arcs)...), Data: append([]byte{}, k.Data...)}
						h.fpBoth(&kc, "DefaultFingerprinter(independent copy of k)")
					}
					reg.LoadVerifier(&k) // must not panic whatever the body length
				case "pair":
					ev.Class = fmt.Sprintf("%s/len%d/%s~%s/len%d/%s", c.C.K1.OID, c.C.K1.Body, c.C.K1.Fill, c.C.K2.OID, c.C.K2.Body, c.C.K2.Fill)
					k1 := mkKey(c.M.Arcs1, c.C.K1, v, r)
					r2 := r
					if v%2 == 0 { // same stream: equal classes give identical bytes
						r2 = rand.New(rand.NewSource(seed*1_000_003 + int64(c.ID)*131 + int64(v)))
					}
					k2 := mkKey(c.M.Arcs2, c.C.K2, v, r2)
					ev.Equal = x509.EqualPublicKeys(&k1, &k2)
					ev.EqualBA = x509.EqualPublicKeys(&k2, &k1)
					ev.EncEq = bytes.Equal(x509.MarshalPublicKey(nil, &k1), x509.MarshalPublicKey(nil, &k2))
				case "der":
					ev.Class = fmt.Sprintf("%s/%s/len%d", c.C.Form, c.C.Key.OID, c.C.Key.Body)
					arcs := arcsOf(c.M.Arcs)
					body := bodyOf(c.C.Key, v, r)
					der := buildDER(c.C.Form, arcs, body, r, v)
					ev.Der = derHex(der)
					k1, err := x509.ParsePublicKey(der)
					if err != nil {
						ev.PErr, ev.PErrMsg = true, clip(err.Error(), 100)
						break
					}
					der2 := x509.MarshalPublicKey(nil, &k1)
					k2, err := x509.ParsePublicKey(der2)
					ev.Rt = err == nil && x509.EqualPublicKeys(&k1, &k2)
					ev.FpSame = err == nil && p2pkeswarm.DefaultFingerprinter(&k1) == p2pkeswarm.DefaultFingerprinter(&k2) &&
						quicswarm.DefaultFingerprinter(k1) == quicswarm.DefaultFingerprinter(k2)
					ev.Canon = bytes.Equal(der2, buildDER("canonical", arcs, k1.Data, r, v))
					h.fpBoth(&k1, "DefaultFingerprinter(ParsePublicKey(non-canonical DER: "+c.C.Form+"))")
					reg.LoadVerifier(&k1)
					reg.ParseVerifier(der)
				case "wires":
					runWires(&ev, &c, v, r)
					for i := range ev.Forms {
						if ev.Acc[i] {
							h.nwires++
						}
					}
				case "idtext":
					ev.Class = fmt.Sprintf("%s/%s/%s@%d", c.C.ID, c.C.TC.T, c.C.TC.C, c.C.TC.P)
					base := idFrom(c.M.IDBytes)
					if v > 0 {
						r.Read(base[:])
					}
					text := textOf(base, c.C.TC)
					// (variant 0 is derived from the same id as the model's text; when the code's alphabet or
					// padding differs from the model's, the two differ: KeysTrace reports that as DRIFT)
					ev.TextDrift = v == 0 && !bytes.Equal(text, unints(c.M.Text))
					ev.TB = ints(text)
					var id p2p.PeerID
					for i := range id {
						id[i] = 0xAA
					}
					if err := id.UnmarshalText(text); err != nil {
						ev.Err = true
					} else {
						ev.ID = ints(id[:])
						back, _ := id.MarshalText()
						ev.Back = ints(back)
					}
				case "idpair":
					ev.Class = c.C.A + "~" + c.C.B
					a, b := idFrom(c.M.A), idFrom(c.M.B)
					if v > 0 { // random ids sharing a prefix, differing by one step at a random position
						r.Read(a[:])
						b = a
						j := r.Intn(32)
						b[j] += byte(1 + r.Intn(3))
						if v%3 == 0 {
							r.Read(b[j:])
						}
					}
					ev.A, ev.B = ints(a[:]), ints(b[:])
					ta, _ := a.MarshalText()
					tb, _ := b.MarshalText()
					ev.TA, ev.TB = ints(ta), ints(tb)
					ev.Cmp, ev.CmpBA, ev.Lt = a.Compare(b), b.Compare(a), a.Lt(b)
					var u p2p.PeerID
					if err := u.UnmarshalText(ta); err != nil {
						ev.UErr = true
					}
					ev.UBack = ints(u[:])
					ev.MCmp = c.M.Cmp
				default:
					fatal("unknown case kind", c.C.Kind)
				}
			})
			if p {
				ev.Panic, ev.PanicV = true, clip(what, 120)
			}
			if ev.Forms == nil {
				ev.Forms, ev.Acc, ev.MAcc, ev.M, ev.Idem, ev.FpK, ev.FpQ, ev.Eq = []string{}, []bool{}, []bool{}, []string{}, []bool{}, []string{}, []string{}, [][]bool{}
			}
			if ev.MAcc == nil {
				ev.MAcc = []bool{}
			}
			for _, f := range []*[]int{&ev.TB, &ev.ID, &ev.Back, &ev.A, &ev.B, &ev.TA, &ev.UBack} {
				if *f == nil {
					*f = []int{} // TLC's Json module cannot read null
				}
			}
			w.Emit(ev)
			nev++
		}
	}
	h.shiftPairs(seed)
	return fmt.Sprintf("cases=%d events=%d fp_events=%d accepted_wires=%d wall=%.1fs", n, nev, h.nfp, h.nwires, time.Since(t0).Seconds())
}

// fpFresh fingerprints one key in a FRESH process (no history): "a function of the key alone" means that what
// this process computed earlier cannot matter. Returns false when the helper process could not be run.
func fpFresh(k *x509.PublicKey) (kid, qid p2p.PeerID, ok bool) {
	exe, err := os.Executable()
	if err != nil {
		return kid, qid, false
	}
	arcs, _ := json.Marshal(oidArcs(k.Algorithm.String()))
	out, err := exec.Command(exe, "-mode", "fpone", "-in", string(arcs)+":"+hex.EncodeToString(k.Data), "-out", os.DevNull).Output()
	if err != nil {
		return kid, qid, false
	}
	f := strings.Fields(string(out))
	if len(f) != 2 {
		return kid, qid, false
	}
	a, err1 := hex.DecodeString(f[0])
	b, err2 := hex.DecodeString(f[1])
	if err1 != nil || err2 != nil || len(a) != len(kid) || len(b) != len(qid) {
		return kid, qid, false
	}
	copy(kid[:], a)
	copy(qid[:], b)
	return kid, qid, true
}

func oidArcs(dotted string) []int {
	var arcs []int
	for _, p := range strings.Split(dotted, ".") {
		n, _ := strconv.Atoi(p)
		arcs = append(arcs, n)
	}
	return arcs
}

// runFpOne is the helper process of fpFresh: spec "<json arcs>:<hex body>", prints both default fingerprints.
func runFpOne(spec string) string {
	i := strings.LastIndex(spec, ":")
	var arcs []int
	if i < 0 || json.Unmarshal([]byte(spec[:i]), &arcs) != nil {
		fatal("bad -in for fpone")
	}
	body, err := hex.DecodeString(spec[i+1:])
	if err != nil {
		fatal(err)
	}
	k := x509.PublicKey{Algorithm: oids.New(arcs...), Data: body}
	a, b := p2pkeswarm.DefaultFingerprinter(&k), quicswarm.DefaultFingerprinter(k)
	return hex.EncodeToString(a[:]) + " " + hex.EncodeToString(b[:])
}

// shiftPairs: pairs of DIFFERENT keys whose split into (algorithm, body) moves by a few bytes while a naive
// joining of the two parts (dotted text ++ body, DER content ++ body) stays the same, fingerprinted one after the
// other in this process - and each of them again in a fresh process. The identity of a key must not depend on
// which other keys a process has seen (FingerprintIsFunctionOfKey compares the events of one key and kind).
func (h *keysRun) shiftPairs(seed int64) {
	r := rand.New(rand.NewSource(seed*7919 + 17))
	bases := [][]int{{1, 3, 101, 112}, {1, 2, 840, 113549, 1, 1, 1}, {2, 5, 4, 3}, {1, 3, 6, 1, 4, 1, 11591, 15, 1}}
	emit := func(k *x509.PublicKey, first string) {
		fk, fq := p2pkeswarm.DefaultFingerprinter(k), quicswarm.DefaultFingerprinter(*k)
		// the fresh process (one start per key) only for the key that comes second: the first one of a pair has no
		// relevant history in this process either
		var gk, gq p2p.PeerID
		ok := false
		if first == "second" {
			gk, gq, ok = fpFresh(k)
		}
		site := "DefaultFingerprinter(k), " + first + " of a pair of keys whose algorithm/body boundary is shifted"
		h.w.Emit(FpEvent{Ev: "fp", Kind: "p2pkeswarm", Key: keyID(k), Site: site, ID: idInts(fk)})
		if ok {
			h.w.Emit(FpEvent{Ev: "fp", Kind: "p2pkeswarm", Key: keyID(k), Site: site + " [fresh process]", ID: idInts(gk)})
		}
		h.w.Emit(FpEvent{Ev: "fp", Kind: "quicswarm", Key: keyID(k), Site: site, ID: idInts(fq)})
		if ok {
			h.w.Emit(FpEvent{Ev: "fp", Kind: "quicswarm", Key: keyID(k), Site: site + " [fresh process]", ID: idInts(gq)})
			h.nfp += 2
		}
		h.nfp += 2
	}
	for bi, arcs := range bases {
		for _, dl := range []int{0, 32} {
			for order := 0; order < 2; order++ {
				for shift := 0; shift < 2; shift++ {
					d := make([]byte, dl)
					r.Read(d)
					d = append(d, byte(bi), byte(dl), byte(order), byte(shift)) // every pair has its own keys
					short, last := arcs[:len(arcs)-1], arcs[len(arcs)-1]
					var moved []byte
					if shift == 0 {
						moved = []byte("." + strconv.Itoa(last)) // dotted text of the last arc
					} else {
						moved = derArc(last) // DER content bytes of the last arc
					}
					k1 := x509.PublicKey{Algorithm: oids.New(short...), Data: append(append([]byte{}, moved...), d...)}
					k2 := x509.PublicKey{Algorithm: oids.New(arcs...), Data: d}
					if order == 0 {
						emit(&k1, "first")
						emit(&k2, "second")
					} else {
						emit(&k2, "first")
						emit(&k1, "second")
					}
				}
			}
		}
	}
}

// derArc is the base-128 encoding of one OID arc (not the first two).
func derArc(n int) []byte {
	var out []byte
	for {
		out = append([]byte{byte(n & 0x7f)}, out...)
		n >>= 7
		if n == 0 {
			break
		}
	}
	for i := 0; i < len(out)-1; i++ {
		out[i] |= 0x80
	}
	return out
}
