// stackreplay executes the stack cases of spec/StackGen.tla on real nested swarms (C09).
// For every stack it builds two endpoints of the real layers (fragswarm, mbapp, the five p2pmux
// kinds, p2pkeswarm) over a base transport (the real vswarm via memswarm, or the harness' own
// netsim in loop mode), reads MTU() from the REAL top swarm and, for every boundary size, performs
// a Tell (and an Ask where the stack supports it), recording the error class and what the other
// endpoint's Receive / ServeAsk callback saw.  One ndjson line per stack, validated by
// spec/StackTrace.tla.
package main

import (
	"bufio"
	"bytes"
	"context"
	"crypto/ed25519"
	"encoding/binary"
	"encoding/json"
	"errors"
	"flag"
	"fmt"
	"hash/fnv"
	"os"
	"sync"
	"sync/atomic"
	"time"

	"go.brendoncarroll.net/p2p"
	"go.brendoncarroll.net/p2p/f/x509"
	"go.brendoncarroll.net/p2p/p/mbapp"
	"go.brendoncarroll.net/p2p/p/p2pmux"
	"go.brendoncarroll.net/p2p/s/fragswarm"
	"go.brendoncarroll.net/p2p/s/memswarm"
	"go.brendoncarroll.net/p2p/s/p2pkeswarm"
	"verifharness/netsim"
	"verifharness/trace"
)

// Any erases the address type so that layers which change it (p2pkeswarm) can be nested freely.
type Any struct {
	A p2p.Addr
}

func (a Any) MarshalText() ([]byte, error) { return a.A.MarshalText() }
func (a Any) String() string               { return a.A.String() }

// eTell adapts a p2p.Swarm[A] to p2p.SecureSwarm[Any, any]
type eTell[A p2p.Addr] struct {
	s p2p.Swarm[A]
	// sent counts the packets handed to s (set for the adapters of the base transport only)
	sent *atomic.Int64
}

func (e eTell[A]) Tell(ctx context.Context, dst Any, v p2p.IOVec) error {
	if e.sent != nil {
		e.sent.Add(1)
	}
	return e.s.Tell(ctx, dst.A.(A), v)
}

// Receive hands the layer above a private scratch copy of the payload and overwrites it as soon as the
// callback returns (the most hostile legal behaviour of an inner swarm: p2p.Receiver allows the message to
// be used only until fn returns), so that an alias kept by a layer shows up as a corrupted delivery.
func (e eTell[A]) Receive(ctx context.Context, fn func(p2p.Message[Any])) error {
	return e.s.Receive(ctx, func(m p2p.Message[A]) {
		scratch := append([]byte{}, m.Payload...)
		fn(p2p.Message[Any]{Src: Any{m.Src}, Dst: Any{m.Dst}, Payload: scratch})
		netsim.Poison(scratch, lastPacket.swap(m.Payload))
	})
}

// lastPacket remembers a recent packet of any stack as poison source (a valid-looking foreign fragment)
type poisonSrc struct {
	mu sync.Mutex
	b  []byte
}

func (p *poisonSrc) swap(cur []byte) []byte {
	p.mu.Lock()
	defer p.mu.Unlock()
	prev := p.b
	if len(cur) <= 4096 {
		p.b = append([]byte{}, cur...)
	}
	return prev
}

var lastPacket = &poisonSrc{}

func (e eTell[A]) LocalAddrs() []Any {
	var out []Any
	for _, a := range e.s.LocalAddrs() {
		out = append(out, Any{a})
	}
	return out
}
func (e eTell[A]) MTU() int     { return e.s.MTU() }
func (e eTell[A]) Close() error { return e.s.Close() }
func (e eTell[A]) ParseAddr(x []byte) (Any, error) {
	a, err := e.s.ParseAddr(x)
	return Any{a}, err
}
func (e eTell[A]) PublicKey() any { return struct{}{} }
func (e eTell[A]) LookupPublicKey(ctx context.Context, a Any) (any, error) {
	return struct{}{}, nil
}

// eAsk adds the Ask half
type eAsk[A p2p.Addr] struct {
	eTell[A]
	a p2p.AskSwarm[A]
}

func (e eAsk[A]) Ask(ctx context.Context, resp []byte, dst Any, v p2p.IOVec) (int, error) {
	return e.a.Ask(ctx, resp, dst.A.(A), v)
}
func (e eAsk[A]) ServeAsk(ctx context.Context, fn func(context.Context, []byte, p2p.Message[Any]) int) error {
	return e.a.ServeAsk(ctx, func(ctx context.Context, resp []byte, m p2p.Message[A]) int {
		scratch := append([]byte{}, m.Payload...)
		n := fn(ctx, resp, p2p.Message[Any]{Src: Any{m.Src}, Dst: Any{m.Dst}, Payload: scratch})
		netsim.Poison(scratch, lastPacket.swap(m.Payload))
		return n
	})
}

type secure = p2p.SecureSwarm[Any, any]
type secureAsk = p2p.SecureAskSwarm[Any, any]

// node is one endpoint of a (partial) stack
type node struct {
	sw  secure
	ask secureAsk // nil when the stack does not support Ask
}

type Layer struct {
	K   string `json:"k"`
	Cfg int    `json:"cfg"`
	C   []int  `json:"c"`
	// several channels on the SAME mux instance: ids, index (1-based) of the channel the stack continues on,
	// order of first use (1-based indices), kind of first use ("mtu", "tell", "ask")
	Chans [][]int `json:"chans"`
	Own   int     `json:"own"`
	Ord   []int   `json:"ord"`
	Use   string  `json:"use"`
}

// firstUse is the payload of the first-use Tell / Ask on the channels of a multi-channel mux
var firstUse = []byte("FU")

type StackCase struct {
	ID     int     `json:"id"`
	Base   string  `json:"base"`
	Inner  int     `json:"inner"`
	Layers []Layer `json:"layers"` // top first
	Mtu    int     `json:"mtu"`
	HasAsk bool    `json:"hasask"`
	Sizes  []int   `json:"sizes"`
}

func bitsToU64(bits []int) uint64 {
	var v uint64
	for _, b := range bits {
		v |= 1 << uint(b)
	}
	return v
}

func toBytes(k []int) []byte {
	out := make([]byte, len(k))
	for i, x := range k {
		out[i] = byte(x)
	}
	return out
}

func testKey(i int) x509.PrivateKey {
	seed := make([]byte, 32)
	binary.BigEndian.PutUint64(seed[24:], uint64(i)+1000)
	algoID, signer := x509.SignerFromStandard(ed25519.NewKeyFromSeed(seed))
	reg := x509.DefaultRegistry()
	pk, err := reg.StoreSigner(algoID, signer)
	if err != nil {
		panic(err)
	}
	return pk
}

// wrapChans opens every channel of L.Chans on ONE mux over n and returns them in the order of L.Chans
func wrapChans(n node, L Layer) ([]node, error) {
	var out []node
	switch L.K {
	case "str":
		if n.ask != nil {
			m := p2pmux.NewStringSecureAskMux[Any, any](n.ask)
			for _, c := range L.Chans {
				s := m.Open(string(toBytes(c)))
				out = append(out, node{sw: s, ask: s})
			}
		} else {
			m := p2pmux.NewStringSecureMux[Any, any](n.sw)
			for _, c := range L.Chans {
				out = append(out, node{sw: m.Open(string(toBytes(c)))})
			}
		}
	case "var":
		if n.ask != nil {
			m := p2pmux.NewVarintSecureAskMux[Any, any](n.ask)
			for _, c := range L.Chans {
				s := m.Open(bitsToU64(c))
				out = append(out, node{sw: s, ask: s})
			}
		} else {
			m := p2pmux.NewVarintSecureMux[Any, any](n.sw)
			for _, c := range L.Chans {
				out = append(out, node{sw: m.Open(bitsToU64(c))})
			}
		}
	default:
		return nil, fmt.Errorf("several channels on one mux: kind %q not supported", L.K)
	}
	return out, nil
}

// wrap puts layer L on top of n; idx tells the two endpoints apart (keys)
func wrap(n node, L Layer, idx int) (node, error) {
	switch L.K {
	case "frag":
		return node{sw: fragswarm.NewSecure[Any, any](n.sw, L.Cfg)}, nil
	case "mbapp":
		s := mbapp.New[Any, any](n.sw, L.Cfg, mbapp.WithNumWorkers(4))
		return node{sw: s, ask: s}, nil
	case "p2pke":
		s := p2pkeswarm.New[Any](n.sw, testKey(idx))
		return node{sw: eTell[p2pkeswarm.Addr[Any]]{s: s}}, nil
	case "str":
		c := string(toBytes(L.C))
		if n.ask != nil {
			s := p2pmux.NewStringSecureAskMux[Any, any](n.ask).Open(c)
			return node{sw: s, ask: s}, nil
		}
		return node{sw: p2pmux.NewStringSecureMux[Any, any](n.sw).Open(c)}, nil
	case "var":
		c := bitsToU64(L.C)
		if n.ask != nil {
			s := p2pmux.NewVarintSecureAskMux[Any, any](n.ask).Open(c)
			return node{sw: s, ask: s}, nil
		}
		return node{sw: p2pmux.NewVarintSecureMux[Any, any](n.sw).Open(c)}, nil
	case "u64":
		c := bitsToU64(L.C)
		if n.ask != nil {
			s := p2pmux.NewUint64SecureAskMux[Any, any](n.ask).Open(c)
			return node{sw: s, ask: s}, nil
		}
		return node{sw: p2pmux.NewUint64SecureMux[Any, any](n.sw).Open(c)}, nil
	case "u32":
		c := uint32(bitsToU64(L.C))
		if n.ask != nil {
			s := p2pmux.NewUint32SecureAskMux[Any, any](n.ask).Open(c)
			return node{sw: s, ask: s}, nil
		}
		return node{sw: p2pmux.NewUint32SecureMux[Any, any](n.sw).Open(c)}, nil
	case "u16":
		c := uint16(bitsToU64(L.C))
		if n.ask != nil {
			s := p2pmux.NewUint16SecureAskMux[Any, any](n.ask).Open(c)
			return node{sw: s, ask: s}, nil
		}
		return node{sw: p2pmux.NewUint16SecureMux[Any, any](n.sw).Open(c)}, nil
	}
	return node{}, fmt.Errorf("unknown layer kind %q", L.K)
}

// stack is a pair of endpoints
type stack struct {
	a, b    node
	closers []func()
	cancel  context.CancelFunc
	sent    *atomic.Int64 // packets endpoint a handed to the base transport
	qlen    int           // receive queue length of the base transport (vswarm drops when it is full)
	got     chan []byte   // payloads seen by b's Receive callback
	asked   chan []byte   // request payloads seen by b's ServeAsk callback
}

func (s *stack) close() {
	s.cancel()
	for i := len(s.closers) - 1; i >= 0; i-- {
		s.closers[i]()
	}
}

func build(sc StackCase, sizeCap int) (*stack, error) {
	var a, b node
	st := &stack{got: make(chan []byte, 1<<17), asked: make(chan []byte, 1024), sent: &atomic.Int64{}}
	// parts that may be in flight at once on the base transport
	minPart := sc.Inner - 24
	if minPart < 1 {
		minPart = 1
	}
	qlen := sizeCap/minPart + 64
	if qlen > 70000 {
		qlen = 70000
	}
	if lim := (256 << 20) / sc.Inner; qlen > lim {
		qlen = lim
	}
	switch sc.Base {
	case "vswarm":
		r := memswarm.NewSecureRealm[string](memswarm.WithMTU(sc.Inner), memswarm.WithQueueLen(qlen))
		sa, sb := r.NewSwarm("a"), r.NewSwarm("b")
		ea := eAsk[memswarm.Addr]{eTell[memswarm.Addr]{s: sa, sent: st.sent}, sa}
		eb := eAsk[memswarm.Addr]{eTell[memswarm.Addr]{s: sb}, sb}
		st.qlen = qlen
		a, b = node{sw: ea, ask: ea}, node{sw: eb, ask: eb}
		st.closers = append(st.closers, func() { sa.Close(); sb.Close() })
	case "netsim":
		nt := netsim.NewNet(sc.Inner)
		nt.Loop = true
		sa, sb := nt.Node(1), nt.Node(2)
		ea := eAsk[netsim.Addr]{eTell[netsim.Addr]{s: sa, sent: st.sent}, sa}
		eb := eAsk[netsim.Addr]{eTell[netsim.Addr]{s: sb}, sb}
		st.qlen = 1 << 30 // netsim never drops
		a, b = node{sw: ea, ask: ea}, node{sw: eb, ask: eb}
		st.closers = append(st.closers, func() { sa.Close(); sb.Close() })
	default:
		return nil, fmt.Errorf("unknown base %q", sc.Base)
	}
	ctx, cancel := context.WithCancel(context.Background())
	st.cancel = cancel
	var firstUses []func()
	for i := len(sc.Layers) - 1; i >= 0; i-- {
		L := sc.Layers[i]
		var err error
		if len(L.Chans) > 0 {
			// several channels on the same mux: the stack continues on channel Own; the others get receivers at b
			// that report whatever reaches them (nothing told on the own channel may), and all channels of a are
			// used for the first time in the generated order once both endpoints are complete
			ca, err := wrapChans(a, L)
			if err != nil {
				return nil, err
			}
			cb, err := wrapChans(b, L)
			if err != nil {
				return nil, err
			}
			for j := range cb {
				if j != L.Own-1 {
					st.siblingReceivers(ctx, cb[j])
				}
			}
			for _, j := range L.Ord {
				na, nb := ca[j-1], cb[j-1]
				use := L.Use
				firstUses = append(firstUses, func() {
					c2, cf := context.WithTimeout(ctx, 2*time.Second)
					defer cf()
					switch {
					case use == "tell":
						na.sw.Tell(c2, nb.sw.LocalAddrs()[0], p2p.IOVec{firstUse})
					case use == "ask" && na.ask != nil:
						na.ask.Ask(c2, make([]byte, 8), nb.sw.LocalAddrs()[0], p2p.IOVec{firstUse})
					default:
						na.sw.MTU()
					}
				})
			}
			a, b = ca[L.Own-1], cb[L.Own-1]
		} else {
			if a, err = wrap(a, L, 0); err != nil {
				return nil, err
			}
			if b, err = wrap(b, L, 1); err != nil {
				return nil, err
			}
		}
		la, lb := a, b
		st.closers = append(st.closers, func() { la.sw.Close(); lb.sw.Close() })
	}
	st.a, st.b = a, b
	for i := 0; i < 2; i++ {
		go func() {
			for {
				if err := b.sw.Receive(ctx, func(m p2p.Message[Any]) {
					if !bytes.Equal(m.Payload, firstUse) {
						st.got <- append([]byte{}, m.Payload...)
					}
					netsim.Scribble(m.Payload) // the callback owns the message: modify it before returning
				}); err != nil {
					return
				}
			}
		}()
	}
	// drain the other direction so that nothing blocks (handshakes etc. are handled by the layers)
	go p2p.DiscardTells[Any](ctx, a.sw)
	if b.ask != nil {
		go func() {
			for {
				if err := b.ask.ServeAsk(ctx, func(ctx context.Context, resp []byte, m p2p.Message[Any]) int {
					if !bytes.Equal(m.Payload, firstUse) {
						st.asked <- append([]byte{}, m.Payload...)
					}
					n := copy(resp, answer(m.Payload))
					netsim.Scribble(m.Payload)
					return n
				}); err != nil {
					return
				}
			}
		}()
	}
	// first uses, in the generated order; what they send is recognised and ignored by every receiver
	for _, f := range firstUses {
		f()
	}
	if len(firstUses) > 0 {
		time.Sleep(3 * time.Millisecond)
	}
	return st, nil
}

// siblingReceivers serves a channel that is NOT the one the stack continues on: anything but a first-use
// payload that reaches it was told / asked on another channel (C15 isolation) and is reported as a foreign
// delivery of the current exchange.
func (st *stack) siblingReceivers(ctx context.Context, n node) {
	mark := func(p []byte) []byte { return append([]byte("SIBLING-CHANNEL:"), p...) }
	go func() {
		for {
			if err := n.sw.Receive(ctx, func(m p2p.Message[Any]) {
				if !bytes.Equal(m.Payload, firstUse) {
					st.got <- mark(m.Payload)
				}
				netsim.Scribble(m.Payload)
			}); err != nil {
				return
			}
		}
	}()
	if n.ask != nil {
		go func() {
			for {
				if err := n.ask.ServeAsk(ctx, func(ctx context.Context, resp []byte, m p2p.Message[Any]) int {
					if !bytes.Equal(m.Payload, firstUse) {
						st.asked <- mark(m.Payload)
					}
					n := copy(resp, answer(m.Payload))
					netsim.Scribble(m.Payload)
					return n
				}); err != nil {
					return
				}
			}
		}()
	}
}

func errClass(err error) string {
	switch {
	case err == nil:
		return "nil"
	case p2p.IsErrMTUExceeded(err):
		return "mtu"
	case errors.Is(err, context.DeadlineExceeded) || errors.Is(err, context.Canceled) || p2p.IsErrClosed(err):
		return "ctx"
	default:
		return "other"
	}
}

const magic = 0xC09C095A

// answer is what the harness' ServeAsk handler replies: a digest of the request payload it was handed, so
// that the asker can tell whether the answer it got belongs to the request it sent.
func answer(req []byte) []byte {
	h := fnv.New64a()
	h.Write(req)
	return h.Sum([]byte("ans:"))
}

// payload builds the bytes of case `tag`: when there is room the first 8 bytes identify the case, so
// that a payload (or a prefix of it) that arrives late is attributed to the case that sent it.
func payload(size, tag int) []byte {
	out := make([]byte, size)
	for i := range out {
		out[i] = byte((i*7 + tag*13 + i/251) % 251)
	}
	if size >= 8 {
		binary.BigEndian.PutUint32(out[0:4], magic)
		binary.BigEndian.PutUint32(out[4:8], uint32(tag))
	}
	return out
}

type result struct {
	Size     int    `json:"size"`
	Op       string `json:"op"`
	Mtu      int    `json:"mtu"`
	Err      string `json:"err"`
	Nd       int    `json:"nd"`
	Eq       bool   `json:"eq"`
	Other3   bool   `json:"other3"`
	Part     bool   `json:"part"`  // some delivery is a proper part of the payload sent
	Lostc    bool   `json:"lostc"` // accepted, not delivered (twice), control payload delivered
	Ans      string `json:"ans,omitempty"`
	NoBudget bool   `json:"nobudget"` // needed a re-measurement which the run's budget no longer allowed
	checked  int
	pkts     int    // packets handed to the base transport during the exchange
	Dlen     []int  `json:"dlen"`
	Detail   string `json:"detail,omitempty"`
	tag      int
}

// session runs the cases of one stack and attributes every payload the receiver saw to its case
type session struct {
	st      *stack
	results []*result
	byTag   map[int]*result
	// lostRun counts the accepted in-range payloads of this stack that did not arrive; after two of them the
	// stack evidently does not deliver and the remaining cases wait a tenth of the usual time (bounded run time
	// on a broken tree; such cases are drift, or re-measured with full patience, in either case)
	lostRun int
	// ctxRun counts the operations of this stack that ended with the context deadline; after two of them the
	// remaining operations get a tenth of the time
	ctxRun int
}

func (se *session) attribute(d []byte, cur *result, curData []byte) {
	r, data := cur, curData
	if len(d) >= 8 && binary.BigEndian.Uint32(d[0:4]) == magic {
		if r2, ok := se.byTag[int(binary.BigEndian.Uint32(d[4:8]))]; ok && r2 != cur {
			r, data = r2, payload(r2.Size, r2.tag)
		}
	}
	if r == nil {
		return
	}
	r.Nd++
	if !bytes.Equal(d, data) {
		r.Eq = false
		if r.checked < 4 && len(d) > 0 && len(d) < len(data) {
			r.checked++
			if bytes.Contains(data, d) {
				r.Part = true
			}
		}
	}
	if len(r.Dlen) < 4 {
		r.Dlen = append(r.Dlen, len(d))
	}
}

// drain attributes whatever is waiting in the receiver's channels
func (se *session) drain(cur *result, curData []byte) {
	for {
		select {
		case d := <-se.st.got:
			se.attribute(d, cur, curData)
		case d := <-se.st.asked:
			se.attribute(d, cur, curData)
		default:
			return
		}
	}
}

// one performs one Tell / Ask of `size` bytes
func (se *session) one(size int, op string, tag int) *result { return se.oneW(size, op, tag, 1) }

// oneW: patience multiplies the time an accepted in-range payload is given to arrive
func (se *session) oneW(size int, op string, tag int, patience int) *result {
	st := se.st
	var last *result
	var lastData []byte
	if n := len(se.results); n > 0 {
		last = se.results[n-1]
		lastData = payload(last.Size, last.tag)
	}
	se.drain(last, lastData)
	r := &result{Size: size, Op: op, Mtu: st.a.sw.MTU(), Eq: true, Dlen: []int{}, tag: tag}
	se.results = append(se.results, r)
	se.byTag[tag] = r
	data := payload(size, tag)
	dst := st.b.sw.LocalAddrs()[0]
	opTimeout := 15 * time.Second
	if se.ctxRun >= 2 && patience == 1 {
		opTimeout /= 10
	}
	ctx, cf := context.WithTimeout(context.Background(), opTimeout)
	var err error
	sent0 := st.sent.Load()
	defer func() { r.pkts = int(st.sent.Load() - sent0) }()
	if op == "tell" {
		err = st.a.sw.Tell(ctx, dst, p2p.IOVec{data})
	} else {
		resp := make([]byte, 64)
		var n int
		n, err = st.a.ask.Ask(ctx, resp, dst, p2p.IOVec{data})
		if err == nil && size <= r.Mtu && (n < 0 || n > len(resp) || !bytes.HasPrefix(answer(data), resp[:n])) {
			// the answer does not belong to the request that was sent (a layer may offer the handler a buffer
			// shorter than the digest: a prefix is accepted)
			r.Eq = false
			r.Ans = "foreign"
			r.Nd++
		}
	}
	cf()
	r.Err = errClass(err)
	if r.Err == "ctx" {
		se.ctxRun++
	}
	if err != nil && r.Err == "other" {
		r.Detail = err.Error()
		if len(r.Detail) > 120 {
			r.Detail = r.Detail[:120]
		}
	}
	// what arrived?  an accepted in-range payload gets time to arrive; otherwise a grace period
	wait := 3 * time.Millisecond
	if err == nil && size <= r.Mtu && op == "tell" {
		// healthy latency is well below 10 ms (below 200 ms for the largest payloads)
		wait = 1500 * time.Millisecond
		if size == 0 {
			wait = 300 * time.Millisecond
		}
		if size > 1<<16 {
			wait = 6 * time.Second
		}
	}
	if se.lostRun >= 2 && patience == 1 {
		wait /= 10
	}
	wait *= time.Duration(patience)
	if err == nil && size > r.Mtu {
		wait = 300 * time.Millisecond
	}
	deadline := time.After(wait)
	for {
		select {
		case d := <-st.got:
			se.attribute(d, r, data)
		case d := <-st.asked:
			se.attribute(d, r, data)
		case <-deadline:
			se.drain(r, data) // both cases may have been ready: take what is there
			if err == nil && size <= r.Mtu && r.Nd == 0 {
				se.lostRun++
			}
			return r
		}
		if err == nil && size <= r.Mtu && r.Nd > 0 {
			// the expected delivery arrived; a short grace for spurious extras
			time.Sleep(2 * time.Millisecond)
			se.drain(r, data)
			return r
		}
	}
}

// limits bounds the run whatever the tree under test does: a budget for re-measurements, an early stop once
// enough distinct kinds of violation were seen (the verdict cannot change any more), an overall deadline.
type limits struct {
	maxRemeasure int
	reBudget     time.Duration
	deadline     time.Time
	maxKeys      int

	mu      sync.Mutex
	reCount int
	reSpent time.Duration
	refused int
	keys    map[string]bool
	stopped string // why no further stacks / cases are started ("" = running)
}

// remeasure runs f if the budget allows and accounts its wall time
func (l *limits) remeasure(f func() error) (bool, error) {
	l.mu.Lock()
	if l.reCount >= l.maxRemeasure || l.reSpent >= l.reBudget || time.Now().After(l.deadline) {
		l.refused++
		l.mu.Unlock()
		return false, nil
	}
	l.reCount++
	l.mu.Unlock()
	t0 := time.Now()
	err := f()
	l.mu.Lock()
	l.reSpent += time.Since(t0)
	l.mu.Unlock()
	return true, err
}

// note records the kinds of violation a finished case shows (the same conditions as Stack!ObsViol; used only to
// decide when to stop, the verdict is TLC's)
func (l *limits) note(sc StackCase, r *result) {
	var vs []string
	switch {
	case r.Size <= r.Mtu:
		if r.Err == "mtu" {
			vs = append(vs, "UndersizeRejected")
		}
		if r.Nd > 0 && !r.Eq {
			vs = append(vs, "Corrupted")
		}
		if r.Nd > 0 && r.Part {
			vs = append(vs, "DeliveredInPart")
		}
		if r.Err == "nil" && r.Nd == 0 && r.Lostc {
			vs = append(vs, "AcceptedNotDelivered")
		}
	default:
		if r.Err == "nil" {
			vs = append(vs, "OversizeAccepted")
		}
		if r.Nd > 0 {
			vs = append(vs, "OversizeDelivered")
		}
		if r.Err == "other" && r.Other3 {
			vs = append(vs, "OversizeWrongError")
		}
	}
	if len(vs) == 0 {
		return
	}
	top := sc.Base
	if len(sc.Layers) > 0 {
		top = sc.Layers[0].K
	}
	l.mu.Lock()
	for _, v := range vs {
		l.keys[v+":"+top+"/"+r.Op] = true
	}
	if len(l.keys) >= l.maxKeys && l.stopped == "" {
		l.stopped = fmt.Sprintf("%d distinct kinds of violation seen", len(l.keys))
	}
	l.mu.Unlock()
}

func (l *limits) stop() string {
	l.mu.Lock()
	defer l.mu.Unlock()
	if l.stopped == "" && time.Now().After(l.deadline) {
		l.stopped = "deadline of the replay stage reached"
	}
	return l.stopped
}

// run executes the cases of one stack; complete = false when it was cut short by the limits
func run(sc StackCase, w *trace.Writer, sizeCap int, lim *limits) (complete bool, err error) {
	complete = true
	st, err := build(sc, sizeCap)
	if err != nil {
		return false, err
	}
	se := &session{st: st, byTag: map[int]*result{}}
	defer func() { se.st.close() }()
	ops := []string{"tell"}
	if st.a.ask != nil && sc.HasAsk {
		ops = append(ops, "ask")
	}
	tag := 0
cases:
	for _, op := range ops {
		for _, size := range sc.Sizes {
			if lim.stop() != "" {
				complete = false
				break cases
			}
			tag++
			r := se.one(size, op, tag)
			if size > r.Mtu && r.Err == "other" {
				// believed only if it repeats on three fresh stacks
				done, err := lim.remeasure(func() error {
					r.Other3 = true
					for k := 0; k < 3; k++ {
						st2, err := build(sc, sizeCap)
						if err != nil {
							return err
						}
						se2 := &session{st: st2, byTag: map[int]*result{}}
						r2 := se2.one(size, op, tag)
						st2.close()
						if r2.Err != "other" {
							r.Other3 = false
						}
					}
					return nil
				})
				if err != nil {
					return false, err
				}
				r.NoBudget = !done
			}
			if size <= r.Mtu && r.Err == "nil" && r.Nd == 0 && r.pkts <= se.st.qlen/2 {
				done, err := lim.remeasure(func() error {
					// accepted, nothing arrived.  The base transports of the harness are lossless as long as the packets
					// in flight fit the receive queue, so re-measure on a fresh stack with ten times the patience (>= 40x
					// the healthy latency), then send a control payload: if that one arrives the layer lost (or never
					// sent) the accepted payload.  Not judged when the payload needs more base packets than half the queue.
					st2, err := build(sc, sizeCap)
					if err != nil {
						return err
					}
					defer st2.close()
					se2 := &session{st: st2, byTag: map[int]*result{}}
					r2 := se2.oneW(size, op, tag, 10)
					if r2.Err == "nil" && r2.Nd == 0 && int(st2.sent.Load()) <= st2.qlen/2 {
						ctl := 1
						if size == 1 {
							ctl = 0
						}
						rc := se2.oneW(ctl, op, tag+1000000, 10)
						r.Lostc = rc.Err == "nil" && rc.Nd >= 1 && rc.Eq
					} else if r2.Nd > 0 {
						// it did arrive this time: keep what was seen (corruption included)
						r.Nd, r.Eq, r.Part, r.Dlen = r2.Nd, r2.Eq, r2.Part, r2.Dlen
					}
					time.Sleep(5 * time.Millisecond)
					se2.drain(nil, nil)
					return nil
				})
				if err != nil {
					return false, err
				}
				r.NoBudget = !done
			}
			lim.note(sc, r)
			anomaly := (size > r.Mtu && (r.Err == "nil" || r.Nd > 0)) || (size <= r.Mtu && (r.Err != "nil" || r.Nd != 1 || !r.Eq))
			if anomaly {
				// late fragments of this case must not pollute the next one: fresh stack
				time.Sleep(20 * time.Millisecond)
				se.drain(r, payload(size, tag))
				se.st.close()
				if se.st, err = build(sc, sizeCap); err != nil {
					return false, err
				}
			}
		}
	}
	// anything still in flight
	time.Sleep(20 * time.Millisecond)
	if n := len(se.results); n > 0 {
		last := se.results[n-1]
		se.drain(last, payload(last.Size, last.tag))
	}
	if len(se.results) == 0 {
		return false, nil
	}
	w.Emit(map[string]any{"ev": "stack", "id": sc.ID, "base": sc.Base, "inner": sc.Inner, "layers": sc.Layers,
		"modelmtu": sc.Mtu, "hasask": sc.HasAsk, "realask": se.st.a.ask != nil, "cases": se.results})
	return complete, nil
}

func main() {
	in := flag.String("in", "", "stack cases (ndjson)")
	out := flag.String("out", "", "trace (ndjson)")
	sizeCap := flag.Int("cap", 300000, "largest payload size in the cases")
	par := flag.Int("par", 8, "stacks executed concurrently")
	maxRe := flag.Int("remeasure", 25, "at most this many cases are re-measured")
	reBudget := flag.Int("rebudget", 90, "seconds of wall time available for re-measurements")
	deadline := flag.Int("deadline", 360, "seconds after which no further case is started")
	maxKeys := flag.Int("maxkeys", 12, "stop once this many distinct kinds of violation were seen")
	flag.Parse()
	lim := &limits{maxRemeasure: *maxRe, reBudget: time.Duration(*reBudget) * time.Second,
		deadline: time.Now().Add(time.Duration(*deadline) * time.Second), maxKeys: *maxKeys, keys: map[string]bool{}}
	f, err := os.Open(*in)
	if err != nil {
		fmt.Fprintln(os.Stderr, err)
		os.Exit(2)
	}
	w, err := trace.Create(*out)
	if err != nil {
		fmt.Fprintln(os.Stderr, err)
		os.Exit(2)
	}
	sc := bufio.NewScanner(f)
	sc.Buffer(make([]byte, 1<<20), 1<<28)
	var cases []StackCase
	for sc.Scan() {
		var c StackCase
		if err := json.Unmarshal(sc.Bytes(), &c); err != nil {
			fmt.Fprintln(os.Stderr, "bad case:", err)
			os.Exit(2)
		}
		cases = append(cases, c)
	}
	var wg sync.WaitGroup
	sem := make(chan struct{}, *par)
	var mu sync.Mutex
	var firstErr error
	executed, partial, skipped := 0, 0, 0
	for _, c := range cases {
		if lim.stop() != "" {
			skipped++
			continue
		}
		wg.Add(1)
		sem <- struct{}{}
		go func(c StackCase) {
			defer wg.Done()
			defer func() { <-sem }()
			t0 := time.Now()
			complete, err := run(c, w, *sizeCap, lim)
			mu.Lock()
			if complete {
				executed++
			} else {
				partial++
			}
			mu.Unlock()
			if d := time.Since(t0); d > 3*time.Second {
				fmt.Fprintf(os.Stderr, "slow stack %d (%v): base=%s inner=%d layers=%v\n", c.ID, d.Round(time.Millisecond), c.Base, c.Inner, c.Layers)
			}
			if err != nil {
				mu.Lock()
				if firstErr == nil {
					firstErr = fmt.Errorf("stack %d: %v", c.ID, err)
				}
				mu.Unlock()
			}
		}(c)
	}
	wg.Wait()
	if err := w.Close(); err != nil {
		fmt.Fprintln(os.Stderr, err)
		os.Exit(2)
	}
	if firstErr != nil {
		fmt.Fprintln(os.Stderr, firstErr)
		os.Exit(3)
	}
	lim.mu.Lock()
	sum, _ := json.Marshal(map[string]any{"stacks": len(cases), "executed": executed, "cut_short": partial, "skipped": skipped,
		"stopped": lim.stopped, "remeasured": lim.reCount, "remeasure_s": int(lim.reSpent.Seconds()), "not_remeasured_budget": lim.refused,
		"violation_kinds_seen": len(lim.keys)})
	lim.mu.Unlock()
	fmt.Printf("SUMMARY %s\n", sum)
}
