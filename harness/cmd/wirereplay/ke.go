package main

import (
	"bytes"
	"encoding/binary"
	"errors"
	"strings"
	"time"

	"go.brendoncarroll.net/p2p/f/x509"
	"go.brendoncarroll.net/p2p/p/p2pke"
	"verifharness/trace"
)

type keCase struct {
	Kind string `json:"kind"` // ctr | short | alias | sig | claim
	ID   int    `json:"id"`
	C    []int  `json:"c"`    // ctr: the counter, 4 bytes, most significant first
	BLen int    `json:"blen"` // ctr: body length
	N    int    `json:"n"`    // short / alias: message length
	PS   int    `json:"ps"`   // sig: purpose used to sign
	PV   int    `json:"pv"`   // sig: purpose used to verify
	MS   int    `json:"ms"`   // sig: message signed
	MV   int    `json:"mv"`   // sig: message verified
	KS   int    `json:"ks"`
	KV   int    `json:"kv"`
	Mut  string `json:"mut"` // claim: none | sig | cb | algo
}

func kePurpose(i int) string {
	switch i {
	case 0:
		return p2pke.VerifPurposeChannelBinding
	case 1:
		return p2pke.VerifPurposeTimestamp
	case 2:
		return ""
	case 3:
		return strings.Repeat("a", 255)
	case 4:
		return strings.Repeat("a", 256)
	case 5:
		return "ab"
	case 6:
		return "a"
	case 7: // the length of the channel-binding tag, another last letter
		return p2pke.VerifPurposeChannelBinding[:len(p2pke.VerifPurposeChannelBinding)-1] + "G"
	case 8:
		return "ba"
	}
	panic("purpose")
}

func keMsg(i int) []byte {
	switch i {
	case 0:
		return nil
	case 1:
		return []byte("c")
	case 2:
		return []byte("bc")
	case 3:
		return msgOf(32)
	case 4:
		return flip(msgOf(32), "last", 0)
	}
	panic("msg")
}

func keKey(i int) x509.PrivateKey {
	return x509.PrivateKey{Algorithm: x509.Algo_Ed25519, Data: seedOf(40 + i)}
}

func deliverClass(isInit bool, m []byte) string {
	now := time.Unix(1700000000, 0)
	s := p2pke.NewSession(p2pke.SessionConfig{Registry: x509.DefaultRegistry(), PrivateKey: keKey(0), IsInit: isInit, Now: now, RejectAfter: time.Hour})
	isApp, _, err := s.Deliver(nil, append([]byte{}, m...), now)
	var early p2pke.ErrEarlyData
	switch {
	case err == nil && isApp:
		return "app"
	case err == nil:
		return "hsok"
	case errors.As(err, &early):
		return "early"
	case strings.Contains(err.Error(), "processing handshake message"):
		return "hs"
	case strings.Contains(err.Error(), "too short"):
		return "short"
	default:
		return "other"
	}
}

type keEv struct {
	Kind      string `json:"kind"`
	ID        int    `json:"id"`
	Panic     bool   `json:"panic"`
	What      string `json:"what"`
	C         []int  `json:"c"`
	BLen      int    `json:"blen"`
	N         int    `json:"n"`
	NM        []int  `json:"nm"`     // newMessage(c), bytes
	Got       []int  `json:"got"`    // GetNonce after SetNonce(c), 4 bytes
	HB        []int  `json:"hb"`     // HeaderBytes()
	BodyOK    bool   `json:"bodyok"` // SetNonce left the body alone, Body() is the rest of the message
	ParseErr  bool   `json:"parseerr"`
	IsIH      bool   `json:"isih"`
	IsRH      bool   `json:"isrh"`
	IsH       bool   `json:"ish"`
	IsPH      bool   `json:"isph"`
	DResp     string `json:"dresp"`     // what a fresh responder session's Deliver did with it
	DInit     string `json:"dinit"`     // what a fresh initiator session's Deliver did with it
	HdrAlias  bool   `json:"hdralias"`  // append(HeaderBytes(), x) wrote into the message
	BodyAlias bool   `json:"bodyalias"` // append(Body(), x) wrote behind the message
	HdrLen    int    `json:"hdrlen"`
	BodyLen   int    `json:"bodylen"`
	PS        int    `json:"ps"`
	PV        int    `json:"pv"`
	MS        int    `json:"ms"`
	MV        int    `json:"mv"`
	KS        int    `json:"ks"`
	KV        int    `json:"kv"`
	PLen      int    `json:"plen"` // length of the signing purpose
	SErr      bool   `json:"serr"`
	VErr      bool   `json:"verr"`
	Mut       string `json:"mut"`
	KeyEq     bool   `json:"keyeq"`
}

func runKe(in string, out *trace.Writer) int {
	n := 0
	reg := x509.DefaultRegistry()
	readLines(in, func(line []byte) {
		var c keCase
		mustUnmarshal(line, &c)
		n++
		ev := keEv{Kind: c.Kind, ID: c.ID, C: c.C, BLen: c.BLen, N: c.N, NM: []int{}, Got: []int{}, HB: []int{}, PS: c.PS, PV: c.PV, MS: c.MS, MV: c.MV, KS: c.KS, KV: c.KV, Mut: c.Mut}
		if ev.C == nil {
			ev.C = []int{}
		}
		ev.Panic, ev.What = guard(func() {
			switch c.Kind {
			case "ctr":
				cb := make([]byte, 4)
				for i := range cb {
					cb[i] = byte(c.C[i])
				}
				ctr := binary.BigEndian.Uint32(cb)
				ev.NM = ints(p2pke.VerifNewMessage(ctr))
				raw := make([]byte, 4+c.BLen)
				for i := range raw {
					raw[i] = byte(0xB0 + i)
				}
				body0 := append([]byte{}, raw[4:]...)
				m, err := p2pke.ParseMessage(raw)
				ev.ParseErr = err != nil
				if err != nil {
					return
				}
				m.SetNonce(ctr)
				var g [4]byte
				binary.BigEndian.PutUint32(g[:], m.GetNonce())
				ev.Got = ints(g[:])
				ev.HB = ints(m.HeaderBytes())
				ev.BodyOK = bytes.Equal(raw[4:], body0) && bytes.Equal(m.Body(), body0) && len(m) == len(raw)
				ev.IsIH, ev.IsRH, ev.IsH, ev.IsPH = p2pke.IsInitHello(m), p2pke.IsRespHello(m), p2pke.IsHello(m), p2pke.IsPostHandshake(m)
				ev.DResp, ev.DInit = deliverClass(false, m), deliverClass(true, m)
			case "short":
				raw := make([]byte, c.N)
				_, err := p2pke.ParseMessage(raw)
				ev.ParseErr = err != nil
				ev.IsIH, ev.IsRH, ev.IsH, ev.IsPH = p2pke.IsInitHello(raw), p2pke.IsRespHello(raw), p2pke.IsHello(raw), p2pke.IsPostHandshake(raw)
				ev.DResp, ev.DInit = deliverClass(false, raw), deliverClass(true, raw)
			case "alias":
				back := make([]byte, c.N+8)
				for i := range back {
					back[i] = byte(0x10 + i)
				}
				orig := append([]byte{}, back...)
				m, err := p2pke.ParseMessage(back[:c.N])
				ev.ParseErr = err != nil
				if err != nil {
					return
				}
				hb, body := m.HeaderBytes(), m.Body()
				ev.HdrLen, ev.BodyLen = len(hb), len(body)
				_ = append(hb, 0xEE, 0xEE)
				ev.HdrAlias = !bytes.Equal(back, orig)
				copy(back, orig)
				_ = append(body, 0xEE, 0xEE)
				ev.BodyAlias = !bytes.Equal(back, orig)
			case "sig":
				ps, pv := kePurpose(c.PS), kePurpose(c.PV)
				ev.PLen = len(ps)
				sig, err := p2pke.VerifSign(reg, keKey(c.KS), ps, keMsg(c.MS))
				ev.SErr = err != nil
				if err != nil {
					return
				}
				kv := keKey(c.KV)
				pub, err := reg.PublicFromPrivate(&kv)
				if err != nil {
					panic(err)
				}
				v, err := reg.LoadVerifier(&pub)
				if err != nil {
					panic(err)
				}
				ev.VErr = p2pke.VerifVerify(v, pv, keMsg(c.MV), sig) != nil
			case "claim":
				cb := msgOf(32)
				keyX509, sig := p2pke.VerifMakeChannelAuthClaim(reg, keKey(c.KS), cb)
				switch c.Mut {
				case "sig":
					sig = flip(sig, "mid", 3)
				case "cb":
					cb = flip(cb, "first", 0)
				case "algo":
					kv := keKey(c.KS)
					pub, _ := reg.PublicFromPrivate(&kv)
					pub.Algorithm = x509.Algo_Ed448
					keyX509 = x509.MarshalPublicKey(nil, &pub)
				case "trail":
					keyX509 = append(append([]byte{}, keyX509...), 0)
				}
				got, err := p2pke.VerifVerifyAuthClaim(reg, kePurpose(c.PV), keyX509, cb, sig)
				ev.VErr = err != nil
				kv := keKey(c.KS)
				want, _ := reg.PublicFromPrivate(&kv)
				ev.KeyEq = err == nil && x509.EqualPublicKeys(&got, &want)
			default:
				fatal(errUnknownKind(c.Kind))
			}
		})
		out.Emit(ev)
	})
	return n
}
