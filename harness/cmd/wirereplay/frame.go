package main

import (
	"bytes"
	"encoding/binary"
	"errors"
	"io"

	"go.brendoncarroll.net/p2p"
	"go.brendoncarroll.net/p2p/s/quicswarm"
	"verifharness/trace"
)

type frCase struct {
	Kind   string `json:"kind"` // rw | w
	ID     int    `json:"id"`
	Segs   []int  `json:"segs"`   // segment lengths
	MaxLen int    `json:"maxLen"` // readFrame's maxLen
	Dst    int    `json:"dst"`    // len(dst)
	Mode   string `json:"mode"`   // whole | one (the reader returns one byte per Read)
	Cut    int    `json:"cut"`    // the reader yields only the first cut bytes of the stream (-1: all of it)
	Fail   string `json:"fail"`   // what the reader returns after the cut: eof | err
	Extra  int    `json:"extra"`  // bytes that follow the frame on the stream
	WCut   int    `json:"wcut"`   // w: the writer fails after wcut bytes
}

var errInjected = errors.New("injected failure")

// cutReader yields data[:cut] (one byte per Read in mode "one"), then io.EOF or errInjected.
type cutReader struct {
	data  []byte
	pos   int
	one   bool
	fail  error
	reads int
}

func (r *cutReader) Read(p []byte) (int, error) {
	r.reads++
	if len(p) == 0 {
		return 0, nil
	}
	if r.pos >= len(r.data) {
		return 0, r.fail
	}
	n := len(r.data) - r.pos
	if n > len(p) {
		n = len(p)
	}
	if r.one {
		n = 1
	}
	copy(p, r.data[r.pos:r.pos+n])
	r.pos += n
	return n, nil
}

// cutWriter accepts limit bytes, then fails.
type cutWriter struct {
	buf   bytes.Buffer
	limit int
}

func (w *cutWriter) Write(p []byte) (int, error) {
	room := w.limit - w.buf.Len()
	if room >= len(p) {
		return w.buf.Write(p)
	}
	if room > 0 {
		w.buf.Write(p[:room])
	} else {
		room = 0
	}
	return room, errInjected
}

func frameData(segs []int) (p2p.IOVec, []byte) {
	var v p2p.IOVec
	var all []byte
	k := 0
	for _, l := range segs {
		s := make([]byte, l)
		for i := range s {
			s[i] = byte(1 + (k*7+3)%160) // never 0xAA (the fill of dst), never 0xEE (the guard)
			k++
		}
		v = append(v, s)
		all = append(all, s...)
	}
	return v, all
}

func errClass(err error) string {
	switch {
	case err == nil:
		return "none"
	case errors.Is(err, errInjected):
		return "injected"
	case err == io.EOF:
		return "eof"
	case err == io.ErrUnexpectedEOF:
		return "ueof"
	case err == io.ErrShortBuffer:
		return "shortbuf"
	case err.Error() == "frame is too big":
		return "toobig"
	default:
		return "other"
	}
}

type frEv struct {
	Kind     string `json:"kind"`
	ID       int    `json:"id"`
	Panic    bool   `json:"panic"`
	What     string `json:"what"`
	Segs     []int  `json:"segs"`
	Total    int    `json:"total"`
	MaxLen   int    `json:"maxLen"`
	Dst      int    `json:"dst"`
	Mode     string `json:"mode"`
	Cut      int    `json:"cut"`
	Fail     string `json:"fail"`
	Extra    int    `json:"extra"`
	WCut     int    `json:"wcut"`
	WErr     string `json:"werr"`
	Wire     []int  `json:"wire"` // what writeFrame wrote (first 16 bytes)
	WireLen  int    `json:"wirelen"`
	WireOK   bool   `json:"wireok"` // = 4-byte big-endian length followed by the concatenation of the segments
	N        int    `json:"n"`
	Err      string `json:"err"`
	Out      []int  `json:"out"` // dst[:n] (first 16 bytes)
	Exp      []int  `json:"exp"` // the concatenation of the segments (first 16 bytes)
	OutEq    bool   `json:"outeq"`
	TailOK   bool   `json:"tailok"`  // dst[n:] untouched
	GuardOK  bool   `json:"guardok"` // the bytes behind dst (within its capacity) untouched
	Consumed int    `json:"consumed"`
	SegsKept bool   `json:"segskept"` // writeFrame did not change the caller's segments' contents
}

func clip(b []byte) []int {
	if len(b) > 16 {
		b = b[:16]
	}
	return ints(b)
}

func runFrame(in string, out *trace.Writer) int {
	n := 0
	readLines(in, func(line []byte) {
		var c frCase
		mustUnmarshal(line, &c)
		n++
		ev := frEv{Kind: c.Kind, ID: c.ID, Segs: c.Segs, MaxLen: c.MaxLen, Dst: c.Dst, Mode: c.Mode, Cut: c.Cut, Fail: c.Fail, Extra: c.Extra, WCut: c.WCut,
			Wire: []int{}, Out: []int{}, Exp: []int{}, WErr: "none", Err: "none"}
		if ev.Segs == nil {
			ev.Segs = []int{}
		}
		vec, all := frameData(c.Segs)
		ev.Total = len(all)
		ev.Exp = clip(all)
		ev.Panic, ev.What = guard(func() {
			want := make([]byte, 4, 4+len(all))
			binary.BigEndian.PutUint32(want, uint32(len(all)))
			want = append(want, all...)
			if c.Kind == "w" {
				cw := &cutWriter{limit: c.WCut}
				ev.WErr = errClass(quicswarm.VerifWriteFrame(cw, vec))
				ev.Wire, ev.WireLen = clip(cw.buf.Bytes()), cw.buf.Len()
				ev.WireOK = bytes.HasPrefix(want, cw.buf.Bytes())
				return
			}
			var wire bytes.Buffer
			keep := make([][]byte, len(vec))
			for i := range vec {
				keep[i] = vec[i]
			}
			ev.WErr = errClass(quicswarm.VerifWriteFrame(&wire, vec))
			_, all2 := frameData(c.Segs)
			ev.SegsKept = bytes.Equal(bytes.Join(keep, nil), all2)
			ev.Wire, ev.WireLen = clip(wire.Bytes()), wire.Len()
			ev.WireOK = bytes.Equal(wire.Bytes(), want)
			stream := append([]byte{}, wire.Bytes()...)
			for i := 0; i < c.Extra; i++ {
				stream = append(stream, 0xC0+byte(i))
			}
			if c.Cut >= 0 && c.Cut < len(stream) {
				stream = stream[:c.Cut]
			}
			fail := io.EOF
			if c.Fail == "err" {
				fail = errInjected
			}
			rd := &cutReader{data: stream, one: c.Mode == "one", fail: fail}
			back := make([]byte, c.Dst+8)
			for i := range back {
				back[i] = 0xAA
				if i >= c.Dst {
					back[i] = 0xEE
				}
			}
			dst := back[:c.Dst]
			got, err := quicswarm.VerifReadFrame(rd, dst, c.MaxLen)
			ev.N, ev.Err, ev.Consumed = got, errClass(err), rd.pos
			ev.GuardOK = bytes.Equal(back[c.Dst:], bytes.Repeat([]byte{0xEE}, 8))
			if got >= 0 && got <= c.Dst {
				ev.Out = clip(dst[:got])
				ev.OutEq = got <= len(all) && bytes.Equal(dst[:got], all[:got])
				ev.TailOK = bytes.Equal(dst[got:], bytes.Repeat([]byte{0xAA}, c.Dst-got))
			}
		})
		out.Emit(ev)
	})
	return n
}
