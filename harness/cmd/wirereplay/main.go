// wirereplay replays TLC-generated cases of the G07 specifications (wire formats and the signature
// registry) on the real functions and records what they returned; the ndjson logs are validated by
// spec/MbappHeaderTrace.tla, spec/QuicFrameTrace.tla, spec/SigRegistryTrace.tla, spec/KeMessageTrace.tla.
//
//	-mode mbapp   mbapp.Header setters/getters, ParseMessage, what send emits / handleMessage accepts
//	-mode frame   quicswarm writeFrame / readFrame over in-memory readers and writers
//	-mode sig     x509.Registry (LoadSigner, LoadVerifier, StoreSigner, PublicFromPrivate, Sign, Verify ...)
//	-mode ke      p2pke.Message, IsInitHello..., Session.Deliver's dispatch, sign/verify with purpose tags
package main

import (
	"bufio"
	"encoding/json"
	"flag"
	"fmt"
	"os"

	"verifharness/trace"
)

func readLines(path string, fn func(line []byte)) {
	f, err := os.Open(path)
	if err != nil {
		fatal(err)
	}
	defer f.Close()
	sc := bufio.NewScanner(f)
	sc.Buffer(make([]byte, 1<<20), 1<<26)
	for sc.Scan() {
		if len(sc.Bytes()) == 0 {
			continue
		}
		fn(append([]byte{}, sc.Bytes()...))
	}
	if err := sc.Err(); err != nil {
		fatal(err)
	}
}

func fatal(err error) {
	fmt.Fprintln(os.Stderr, "wirereplay:", err)
	os.Exit(3)
}

func mustUnmarshal(data []byte, v any) {
	if err := json.Unmarshal(data, v); err != nil {
		fatal(fmt.Errorf("%v in %s", err, string(data)))
	}
}

// guard runs fn and reports a panic instead of crashing.
func guard(fn func()) (panicked bool, what string) {
	defer func() {
		if r := recover(); r != nil {
			panicked, what = true, fmt.Sprint(r)
		}
	}()
	fn()
	return false, ""
}

func ints(b []byte) []int {
	r := make([]int, len(b))
	for i, x := range b {
		r[i] = int(x)
	}
	return r
}

func b2i(b bool) int {
	if b {
		return 1
	}
	return 0
}

func main() {
	mode := flag.String("mode", "", "mbapp | frame | sig | ke")
	in := flag.String("in", "", "cases (ndjson)")
	out := flag.String("out", "", "trace (ndjson)")
	flag.Parse()
	w, err := trace.Create(*out)
	if err != nil {
		fatal(err)
	}
	n := 0
	switch *mode {
	case "mbapp":
		n = runMbapp(*in, w)
	case "frame":
		n = runFrame(*in, w)
	case "sig":
		n = runSig(*in, w)
	case "ke":
		n = runKe(*in, w)
	default:
		fatal(fmt.Errorf("unknown mode %q", *mode))
	}
	if err := w.Close(); err != nil {
		fatal(err)
	}
	fmt.Printf("%s: %d cases, %d events\n", *mode, n, w.Count())
}
