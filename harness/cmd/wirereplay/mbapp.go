package main

import (
	"bytes"
	"context"
	"encoding/binary"
	"errors"
	"fmt"
	"time"

	"go.brendoncarroll.net/p2p"
	"go.brendoncarroll.net/p2p/p/mbapp"
	"go.brendoncarroll.net/p2p/s/memswarm"
	"verifharness/trace"
)

type mbCase struct {
	Kind string `json:"kind"`
	ID   int    `json:"id"`
	H    []int  `json:"h"` // set: the header before, one 0/1 per bit, most significant bit of word 0 first
	F    string `json:"f"` // set: the field
	V    []int  `json:"v"` // set: the value the sender holds, 40 bits, most significant first
	N    int    `json:"n"` // parse: message length
	API  string `json:"api"`
	A    int    `json:"a"`
	R    int    `json:"r"`
	E    int    `json:"e"`
}

type mbGets struct {
	Ask     []int `json:"ask"`
	Reply   []int `json:"reply"`
	Err     []int `json:"err"`
	Origin  []int `json:"origin"`
	Counter []int `json:"counter"`
	Size    []int `json:"size"`
	Pidx    []int `json:"pidx"`
	Pcnt    []int `json:"pcnt"`
	Timeout []int `json:"timeout"`
}

func be32(x uint32) []int { var b [4]byte; binary.BigEndian.PutUint32(b[:], x); return ints(b[:]) }
func be16(x uint16) []int { var b [2]byte; binary.BigEndian.PutUint16(b[:], x); return ints(b[:]) }

func mbGetAll(h mbapp.Header) (g mbGets, tmExact bool, gidOK bool) {
	g.Ask = []int{b2i(h.IsAsk())}
	g.Reply = []int{b2i(h.IsReply())}
	g.Err = []int{int(h.GetErrorCode())}
	g.Origin = be32(uint32(h.GetOriginTime()))
	g.Counter = be32(h.GetCounter())
	g.Size = be32(h.GetTotalSize())
	g.Pidx = be16(h.GetPartIndex())
	g.Pcnt = be16(h.GetPartCount())
	d := h.GetTimeout()
	tmExact = d >= 0 && d%time.Millisecond == 0 && d/time.Millisecond <= 0xFFFFFFFF
	g.Timeout = be32(uint32(d / time.Millisecond))
	gid := h.GroupID()
	gidOK = gid.Counter == h.GetCounter() && gid.OriginTime == h.GetOriginTime()
	return
}

func bitsToBytes(bits []int) []byte {
	out := make([]byte, len(bits)/8)
	for i, b := range bits {
		if b != 0 {
			out[i/8] |= 1 << (7 - uint(i%8))
		}
	}
	return out
}

func bitsToUint(bits []int) uint64 {
	var x uint64
	for _, b := range bits {
		x = x<<1 | uint64(b&1)
	}
	return x
}

// mbSet calls the setter the way Swarm.send does: the sender holds a wide integer (int / uint32) and
// converts it to the setter's parameter type.
func mbSet(h mbapp.Header, f string, x uint64) {
	switch f {
	case "ask":
		h.SetIsAsk(x&1 == 1)
	case "reply":
		h.SetIsReply(x&1 == 1)
	case "err":
		h.SetErrorCode(uint8(x))
	case "origin":
		h.SetOriginTime(mbapp.PhaseTime32(uint32(x)))
	case "counter":
		h.SetCounter(uint32(x))
	case "size":
		h.SetTotalSize(uint32(x))
	case "pidx":
		h.SetPartIndex(uint16(x))
	case "pcnt":
		h.SetPartCount(uint16(x))
	case "timeout":
		h.SetTimeout(uint32(x))
	default:
		panic("unknown field " + f)
	}
}

type mbWorld struct {
	raw     p2p.SecureSwarm[memswarm.Addr, struct{}]
	sw      *mbapp.Swarm[memswarm.Addr, struct{}]
	rawAddr memswarm.Addr
	swAddr  memswarm.Addr
	tells   chan []byte
	asks    chan []byte
	rawIn   chan []byte
	cf      context.CancelFunc
	ctr     uint32
}

func newMbWorld() *mbWorld {
	r := memswarm.NewSecureRealm[struct{}](memswarm.WithQueueLen(64))
	raw := r.NewSwarm(struct{}{})
	sw := mbapp.New[memswarm.Addr, struct{}](r.NewSwarm(struct{}{}), 1<<14)
	ctx, cf := context.WithCancel(context.Background())
	w := &mbWorld{raw: raw, sw: sw, rawAddr: raw.LocalAddrs()[0], swAddr: sw.LocalAddrs()[0],
		tells: make(chan []byte, 64), asks: make(chan []byte, 64), rawIn: make(chan []byte, 64), cf: cf, ctr: 1 << 20}
	go func() {
		for ctx.Err() == nil {
			sw.Receive(ctx, func(m p2p.Message[memswarm.Addr]) { w.tells <- append([]byte{}, m.Payload...) })
		}
	}()
	go func() {
		for ctx.Err() == nil {
			sw.ServeAsk(ctx, func(_ context.Context, resp []byte, m p2p.Message[memswarm.Addr]) int {
				w.asks <- append([]byte{}, m.Payload...)
				if len(m.Payload) > 0 && m.Payload[0] == 'E' {
					return -1
				}
				return copy(resp, "pong")
			})
		}
	}()
	go func() {
		for ctx.Err() == nil {
			raw.Receive(ctx, func(m p2p.Message[memswarm.Addr]) { w.rawIn <- append([]byte{}, m.Payload...) })
		}
	}()
	return w
}

func (w *mbWorld) close() { w.cf(); w.sw.Close(); w.raw.Close() }

func drain(ch chan []byte) {
	for {
		select {
		case <-ch:
		default:
			return
		}
	}
}

func waitBytes(ch chan []byte, d time.Duration) ([]byte, bool) {
	select {
	case x := <-ch:
		return x, true
	case <-time.After(d):
		return nil, false
	}
}

// craft builds a single-part mbapp message with the given flags.
func (w *mbWorld) craft(a, r, e int, counter uint32, origin mbapp.PhaseTime32, body []byte) []byte {
	buf := make([]byte, mbapp.HeaderSize, mbapp.HeaderSize+len(body))
	h := mbapp.Header(buf)
	h.SetIsAsk(a == 1)
	h.SetIsReply(r == 1)
	h.SetErrorCode(uint8(e))
	h.SetCounter(counter)
	h.SetOriginTime(origin)
	h.SetTimeout(60000)
	h.SetPartIndex(0)
	h.SetPartCount(1)
	h.SetTotalSize(uint32(len(body)))
	return append(buf, body...)
}

func (w *mbWorld) now() mbapp.PhaseTime32 {
	return mbapp.NewPhaseTime32(time.Now().UTC(), time.Millisecond)
}

type mbEv struct {
	Kind    string `json:"kind"`
	ID      int    `json:"id"`
	Panic   bool   `json:"panic"`
	What    string `json:"what"`
	HS      int    `json:"hs"`
	F       string `json:"f"`
	V       []int  `json:"v"`
	H0      []int  `json:"h0"`
	H1      []int  `json:"h1"`
	G0      mbGets `json:"g0"`
	G1      mbGets `json:"g1"`
	TmExact bool   `json:"tmexact"`
	GidOK   bool   `json:"gidok"`
	N       int    `json:"n"`
	Err     bool   `json:"err"`
	HL      int    `json:"hl"`
	BL      int    `json:"bl"`
	Same    bool   `json:"same"`
	API     string `json:"api"`
	A       int    `json:"a"`
	R       int    `json:"r"`
	E       int    `json:"e"`
	Got     bool   `json:"got"`
	Outcome string `json:"outcome"`
}

func runMbapp(in string, out *trace.Writer) int {
	var world *mbWorld
	n := 0
	readLines(in, func(line []byte) {
		var c mbCase
		mustUnmarshal(line, &c)
		n++
		ev := mbEv{Kind: c.Kind, ID: c.ID, HS: mbapp.HeaderSize, F: c.F, V: []int{}, H0: []int{}, H1: []int{}, API: c.API, A: c.A, R: c.R, E: c.E, N: c.N}
		empty := mbGets{[]int{}, []int{}, []int{}, []int{}, []int{}, []int{}, []int{}, []int{}, []int{}}
		ev.G0, ev.G1 = empty, empty
		switch c.Kind {
		case "set":
			ev.Panic, ev.What = guard(func() {
				hb := bitsToBytes(c.H)
				ev.H0 = ints(hb)
				ev.V = ints(bitsToBytes(c.V))
				h := mbapp.Header(append([]byte{}, hb...))
				ev.G0, _, _ = mbGetAll(h)
				mbSet(h, c.F, bitsToUint(c.V))
				ev.H1 = ints(h)
				ev.G1, ev.TmExact, ev.GidOK = mbGetAll(h)
			})
		case "parse":
			ev.Panic, ev.What = guard(func() {
				data := make([]byte, c.N)
				for i := range data {
					data[i] = byte(i + 1)
				}
				h, body, err := mbapp.ParseMessage(data)
				ev.Err = err != nil
				ev.HL, ev.BL = len(h), len(body)
				if err == nil {
					ev.Same = bytes.Equal(h, data[:len(h)]) && bytes.Equal(body, data[len(h):])
					mbGetAll(h)
				}
			})
		case "emit", "recv":
			if world == nil {
				world = newMbWorld()
			}
			w := world
			drain(w.tells)
			drain(w.asks)
			drain(w.rawIn)
			ev.Panic, ev.What = guard(func() {
				ctx, cf := context.WithTimeout(context.Background(), 5*time.Second)
				defer cf()
				w.ctr++
				if c.Kind == "emit" {
					switch c.API {
					case "tell":
						w.sw.Tell(ctx, w.rawAddr, p2p.IOVec{[]byte("t")})
					case "ask":
						actx, acf := context.WithCancel(ctx)
						defer acf()
						go w.sw.Ask(actx, make([]byte, 64), w.rawAddr, p2p.IOVec{[]byte("q")})
					case "reply":
						go w.sw.VerifHandleMessage(ctx, w.rawAddr, w.swAddr, w.craft(1, 0, 0, w.ctr, w.now(), []byte("ok")))
					case "replyerr":
						go w.sw.VerifHandleMessage(ctx, w.rawAddr, w.swAddr, w.craft(1, 0, 0, w.ctr, w.now(), []byte("E")))
					}
					m, ok := waitBytes(w.rawIn, 4*time.Second)
					ev.Got = ok
					if ok {
						h, _, err := mbapp.ParseMessage(m)
						if err != nil {
							ev.Got = false
							return
						}
						ev.A, ev.R, ev.E = b2i(h.IsAsk()), b2i(h.IsReply()), int(h.GetErrorCode())
					}
					return
				}
				// recv: a pending ask of the real swarm (so that a well-formed reply has something to complete)
				actx, acf := context.WithCancel(ctx)
				defer acf()
				done := make(chan int, 1)
				go func() {
					n, err := w.sw.Ask(actx, make([]byte, 64), w.rawAddr, p2p.IOVec{[]byte("q")})
					var ae mbapp.AppError
					if err != nil && !errors.As(err, &ae) {
						n = -1
					}
					done <- n
				}()
				// the request of THIS ask (a late reply to an earlier case may still be in flight)
				var rh mbapp.Header
				for {
					req, ok := waitBytes(w.rawIn, 4*time.Second)
					if !ok {
						ev.Outcome = "setup-failed"
						return
					}
					h, _, err := mbapp.ParseMessage(req)
					if err == nil && h.IsAsk() && !h.IsReply() {
						rh = h
						break
					}
				}
				counter, origin := rh.GetCounter(), rh.GetOriginTime()
				if !(c.A == 1 && c.R == 1) {
					counter, origin = w.ctr, w.now()
				}
				body := []byte("body")
				err := w.sw.VerifHandleMessage(ctx, w.rawAddr, w.swAddr, w.craft(c.A, c.R, c.E, counter, origin, body))
				switch {
				case err != nil:
					ev.Outcome = "err"
				default:
					select {
					case <-w.tells:
						ev.Outcome = "tell"
					case <-w.asks:
						ev.Outcome = "askreq"
						waitBytes(w.rawIn, 2*time.Second) // the handler's reply
					case n := <-done:
						if n >= 0 {
							ev.Outcome = "reply"
						} else {
							ev.Outcome = "none"
						}
					case <-time.After(time.Second):
						ev.Outcome = "none"
					}
				}
			})
		default:
			fatal(errUnknownKind(c.Kind))
		}
		out.Emit(ev)
	})
	if world != nil {
		world.close()
	}
	return n
}

func errUnknownKind(k string) error { return fmt.Errorf("unknown case kind %q", k) }
