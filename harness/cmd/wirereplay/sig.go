package main

import (
	"bytes"
	"crypto/ed25519"
	"errors"
	"sync"
	"sync/atomic"

	"go.brendoncarroll.net/p2p/f/x509"
	"go.brendoncarroll.net/p2p/f/x509/oids"
	"verifharness/trace"
)

type sgCase struct {
	Kind  string `json:"kind"` // sv | algo | pfp | privrt | hammer
	ID    int    `json:"id"`
	Key   int    `json:"key"`
	MLen  int    `json:"mlen"`
	Mut   string `json:"mut"`  // none | msg | sig | pub | priv | otherkey
	Byte  string `json:"byte"` // first | last | mid | rs (byte 31|32 boundary)
	Bit   int    `json:"bit"`
	Entry string `json:"entry"`
	Algo  string `json:"algo"`
	DLen  int    `json:"dlen"`
	G     int    `json:"g"`
	N     int    `json:"n"`
}

func seedOf(i int) []byte {
	s := make([]byte, ed25519.SeedSize)
	for j := range s {
		s[j] = byte(i*37 + j*11 + 5)
	}
	return s
}

func algoOf(name string) oids.OID {
	switch name {
	case "ed25519":
		return x509.Algo_Ed25519
	case "ed448":
		return x509.Algo_Ed448
	case "zero":
		return oids.OID{}
	case "one":
		return oids.New(1)
	case "bogus":
		return oids.New(1, 2, 3, 4)
	case "near":
		return oids.New(1, 3, 101, 111)
	}
	panic("algo " + name)
}

func flip(b []byte, where string, bit int) []byte {
	out := append([]byte{}, b...)
	if len(out) == 0 {
		return out
	}
	i := 0
	switch where {
	case "first":
		i = 0
	case "last":
		i = len(out) - 1
	case "mid":
		i = len(out) / 2
	case "rs":
		i = 31
		if bit >= 8 {
			i, bit = 32, bit-8
		}
		if i >= len(out) {
			i = len(out) - 1
		}
	}
	out[i] ^= 1 << uint(bit%8)
	return out
}

func msgOf(n int) []byte {
	m := make([]byte, n)
	for i := range m {
		m[i] = byte(i*13 + 1)
	}
	return m
}

type sgEv struct {
	Kind     string `json:"kind"`
	ID       int    `json:"id"`
	Panic    bool   `json:"panic"`
	What     string `json:"what"`
	Key      int    `json:"key"`
	MLen     int    `json:"mlen"`
	Mut      string `json:"mut"`
	Byte     string `json:"byte"`
	Bit      int    `json:"bit"`
	Entry    string `json:"entry"`
	Algo     string `json:"algo"`
	DLen     int    `json:"dlen"`
	SetupOK  bool   `json:"setupok"`
	LoadErr  bool   `json:"loaderr"`
	OK       bool   `json:"ok"`       // Verify's result
	SigLen   int    `json:"siglen"`   // length of the signature
	AppendOK bool   `json:"appendok"` // Sign(out, m) = out ++ signature, Sign(nil, m) twice is the same signature
	Res      string `json:"res"`      // algo: ok | unrecognized | err | panic
	Det      bool   `json:"det"`      // pfp: twice the same
	Std      bool   `json:"std"`      // pfp: equals ed25519.NewKeyFromSeed(seed).Public()
	Other    bool   `json:"other"`    // pfp: differs from the public key of every other test key
	RT       bool   `json:"rt"`       // privrt: Parse(Marshal(k)) = k
	SRT      bool   `json:"srt"`      // privrt: StoreSigner(LoadSigner(k)) = k
	PrefOK   bool   `json:"prefok"`   // privrt: Marshal appends to out
	Bad      int    `json:"bad"`      // hammer: wrong results
	Ops      int    `json:"ops"`
}

func classifyErr(err error) string {
	if err == nil {
		return "ok"
	}
	var ua x509.ErrUnrecognizedAlgo
	if errors.As(err, &ua) {
		return "unrecognized"
	}
	return "err"
}

func runSig(in string, out *trace.Writer) int {
	n := 0
	reg := x509.DefaultRegistry()
	readLines(in, func(line []byte) {
		var c sgCase
		mustUnmarshal(line, &c)
		n++
		ev := sgEv{Kind: c.Kind, ID: c.ID, Key: c.Key, MLen: c.MLen, Mut: c.Mut, Byte: c.Byte, Bit: c.Bit, Entry: c.Entry, Algo: c.Algo, DLen: c.DLen, Res: ""}
		ev.Panic, ev.What = guard(func() {
			switch c.Kind {
			case "sv":
				priv := x509.PrivateKey{Algorithm: x509.Algo_Ed25519, Data: seedOf(c.Key)}
				msg := msgOf(c.MLen)
				signKey := priv
				if c.Mut == "priv" {
					signKey.Data = flip(priv.Data, c.Byte, c.Bit)
				}
				if c.Mut == "otherkey" {
					signKey.Data = seedOf(c.Key + 1)
				}
				s, err := reg.LoadSigner(&signKey)
				if err != nil {
					return
				}
				sig, err := s.Sign(nil, msg)
				if err != nil {
					return
				}
				sig2, _ := s.Sign(nil, msg)
				pre := []byte{9, 8, 7}
				sig3, _ := s.Sign(append([]byte{}, pre...), msg)
				ev.SigLen = len(sig)
				ev.AppendOK = bytes.Equal(sig, sig2) && bytes.Equal(sig3, append(append([]byte{}, pre...), sig...))
				pub, err := reg.PublicFromPrivate(&priv)
				if err != nil {
					return
				}
				ev.SetupOK = true
				switch c.Mut {
				case "msg":
					msg = flip(msg, c.Byte, c.Bit)
				case "sig":
					sig = flip(sig, c.Byte, c.Bit)
				case "pub":
					pub.Data = flip(pub.Data, c.Byte, c.Bit)
				case "trunc":
					sig = sig[:len(sig)-1]
				case "ext":
					sig = append(sig, 0)
				}
				v, err := reg.LoadVerifier(&pub)
				if err != nil {
					ev.LoadErr = true
					return
				}
				ev.OK = v.Verify(msg, sig)
				// the verifier derived from the signer must agree
				if c.Mut == "none" && !s.Verifier().Verify(msg, sig) {
					ev.OK = false
				}
			case "algo":
				algo := algoOf(c.Algo)
				data := seedOf(1)
				if c.DLen != len(data) {
					data = msgOf(c.DLen)
				}
				good := x509.PrivateKey{Algorithm: x509.Algo_Ed25519, Data: seedOf(1)}
				gs, _ := reg.LoadSigner(&good)
				var err error
				switch c.Entry {
				case "LoadSigner":
					_, err = reg.LoadSigner(&x509.PrivateKey{Algorithm: algo, Data: data})
				case "LoadVerifier":
					_, err = reg.LoadVerifier(&x509.PublicKey{Algorithm: algo, Data: data})
				case "StoreSigner":
					_, err = reg.StoreSigner(algo, gs)
				case "StoreVerifier":
					_, err = reg.StoreVerifier(algo, gs.Verifier())
				case "PublicFromPrivate":
					_, err = reg.PublicFromPrivate(&x509.PrivateKey{Algorithm: algo, Data: data})
				case "ParseVerifier":
					_, err = reg.ParseVerifier(x509.MarshalPublicKey(nil, &x509.PublicKey{Algorithm: algo, Data: data}))
				case "ToStandardSigner":
					_, err = x509.ToStandardSigner(&x509.PrivateKey{Algorithm: algo, Data: data})
				case "MarshalPrivateKey":
					enc := x509.MarshalPrivateKey(nil, &x509.PrivateKey{Algorithm: algo, Data: data})
					var pk x509.PrivateKey
					pk, err = x509.ParsePrivateKey(enc)
					if err == nil {
						_, err = reg.LoadSigner(&pk)
					}
				default:
					panic("entry " + c.Entry)
				}
				ev.Res = classifyErr(err)
			case "pfp":
				priv := x509.PrivateKey{Algorithm: x509.Algo_Ed25519, Data: seedOf(c.Key)}
				a, err1 := reg.PublicFromPrivate(&priv)
				// interleave other keys: a cached key of another private key would show here
				others := true
				for d := 1; d <= 3; d++ {
					o := x509.PrivateKey{Algorithm: x509.Algo_Ed25519, Data: seedOf(c.Key + d)}
					ob, err := reg.PublicFromPrivate(&o)
					if err != nil || bytes.Equal(ob.Data, a.Data) {
						others = false
					}
				}
				b, err2 := x509.DefaultRegistry().PublicFromPrivate(&priv)
				a2, err3 := reg.PublicFromPrivate(&priv)
				ev.SetupOK = err1 == nil && err2 == nil && err3 == nil
				ev.Det = x509.EqualPublicKeys(&a, &b) && x509.EqualPublicKeys(&a, &a2) && a.Algorithm == x509.Algo_Ed25519
				std := ed25519.NewKeyFromSeed(seedOf(c.Key)).Public().(ed25519.PublicKey)
				ev.Std = bytes.Equal(a.Data, std)
				ev.Other = others
				if !bytes.Equal(priv.Data, seedOf(c.Key)) {
					ev.Det = false // the input must not be modified
				}
			case "privrt":
				k := x509.PrivateKey{Algorithm: algoOf(c.Algo), Data: msgOf(c.DLen)}
				if c.DLen == ed25519.SeedSize {
					k.Data = seedOf(c.Key)
				}
				pre := []byte{1, 2, 3}
				enc := x509.MarshalPrivateKey(nil, &k)
				enc2 := x509.MarshalPrivateKey(append([]byte{}, pre...), &k)
				ev.PrefOK = bytes.Equal(enc2, append(append([]byte{}, pre...), enc...))
				back, err := x509.ParsePrivateKey(enc)
				ev.RT = err == nil && back.Algorithm == k.Algorithm && bytes.Equal(back.Data, k.Data)
				_, err = x509.ParsePrivateKey(append(append([]byte{}, enc...), 0))
				if err == nil {
					ev.RT = false // trailing data must be rejected
				}
				ev.SRT = true
				if c.Algo == "ed25519" && c.DLen == ed25519.SeedSize {
					s, err := reg.LoadSigner(&k)
					if err != nil {
						ev.SRT = false
						return
					}
					k2, err := reg.StoreSigner(k.Algorithm, s)
					ev.SRT = err == nil && k2.Algorithm == k.Algorithm && bytes.Equal(k2.Data, k.Data)
				}
			case "hammer":
				var bad atomic.Int64
				var wg sync.WaitGroup
				for g := 0; g < c.G; g++ {
					wg.Add(1)
					go func(g int) {
						defer wg.Done()
						defer func() {
							if r := recover(); r != nil {
								bad.Add(1000)
							}
						}()
						priv := x509.PrivateKey{Algorithm: x509.Algo_Ed25519, Data: seedOf(g % 4)}
						std := ed25519.NewKeyFromSeed(seedOf(g % 4)).Public().(ed25519.PublicKey)
						for i := 0; i < c.N; i++ {
							msg := msgOf(1 + (g+i)%40)
							s, err := reg.LoadSigner(&priv)
							if err != nil {
								bad.Add(1)
								continue
							}
							sig, _ := s.Sign(nil, msg)
							pub, err := reg.PublicFromPrivate(&priv)
							if err != nil || !bytes.Equal(pub.Data, std) {
								bad.Add(1)
								continue
							}
							v, err := reg.LoadVerifier(&pub)
							if err != nil || !v.Verify(msg, sig) || v.Verify(flip(msg, "last", 0), sig) {
								bad.Add(1)
							}
							if _, err := reg.LoadSigner(&x509.PrivateKey{Algorithm: x509.Algo_Ed448, Data: priv.Data}); err == nil {
								bad.Add(1)
							}
							if k2, err := reg.StoreSigner(priv.Algorithm, s); err != nil || !bytes.Equal(k2.Data, priv.Data) {
								bad.Add(1)
							}
						}
					}(g)
				}
				wg.Wait()
				ev.Bad, ev.Ops = int(bad.Load()), c.G*c.N
			default:
				fatal(errUnknownKind(c.Kind))
			}
		})
		if ev.Panic && c.Kind == "algo" {
			ev.Res = "panic"
		}
		out.Emit(ev)
	})
	return n
}
