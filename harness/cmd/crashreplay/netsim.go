package main

import (
	"context"
	"errors"
	"sync"
	"time"

	"go.brendoncarroll.net/p2p"
	"go.brendoncarroll.net/p2p/s/memswarm"
)

// netsim: a p2p.SecureAskSwarm owned by the harness, used as the INNER transport of the layer under
// test.  Inject hands one packet to one of the layer's Receive workers and waits until the layer's
// handler has returned, so delivery is synchronous and ordered.  If the handler panics the panic is
// recorded (sequence id, bytes) and RE-RAISED: it unwinds into the layer's own goroutine exactly as
// it would above a real transport, and kills the process unless the layer itself recovers.

type A = memswarm.Addr

const injectTimeout = 5 * time.Second

var errHang = errors.New("hang")

type delivery struct {
	msg  p2p.Message[A]
	done chan struct{}
}

type askDelivery struct {
	msg  p2p.Message[A]
	resp []byte
	done chan int
}

type simNet struct {
	mu    sync.Mutex
	nodes map[A]*simNode
}

func newSimNet() *simNet { return &simNet{nodes: map[A]*simNode{}} }

type simNode struct {
	net    *simNet
	addr   A
	mtu    int
	tells  chan *delivery
	asks   chan *askDelivery
	closed chan struct{}
	once   sync.Once

	mu   sync.Mutex
	sent []sentMsg // what the layer told / asked through this node
	// answer, when set, answers Asks made by the layer through this node
	answer func(req []byte, resp []byte) (int, error)
	sentCh chan struct{}
}

type sentMsg struct {
	dst  A
	data []byte
	ask  bool
}

func (n *simNet) node(i int, mtu int) *simNode {
	n.mu.Lock()
	defer n.mu.Unlock()
	nd := &simNode{net: n, addr: A{N: i}, mtu: mtu, tells: make(chan *delivery), asks: make(chan *askDelivery),
		closed: make(chan struct{}), sentCh: make(chan struct{}, 1024)}
	n.nodes[nd.addr] = nd
	return nd
}

func (nd *simNode) Tell(ctx context.Context, dst A, v p2p.IOVec) error {
	if p2p.VecSize(v) > nd.mtu {
		return p2p.ErrMTUExceeded
	}
	data := p2p.VecBytes(nil, v)
	nd.mu.Lock()
	nd.sent = append(nd.sent, sentMsg{dst: dst, data: data})
	nd.mu.Unlock()
	select {
	case nd.sentCh <- struct{}{}:
	default:
	}
	// routed delivery to another simulated node (asynchronous, like a datagram)
	nd.net.mu.Lock()
	peer := nd.net.nodes[dst]
	nd.net.mu.Unlock()
	if peer != nil && peer != nd {
		go func() {
			d := &delivery{msg: p2p.Message[A]{Src: nd.addr, Dst: dst, Payload: data}, done: make(chan struct{})}
			select {
			case peer.tells <- d:
			case <-peer.closed:
			case <-time.After(injectTimeout):
			}
		}()
	}
	return nil
}

func (nd *simNode) Receive(ctx context.Context, fn func(p2p.Message[A])) error {
	select {
	case <-ctx.Done():
		return ctx.Err()
	case <-nd.closed:
		return p2p.ErrClosed
	case d := <-nd.tells:
		defer func() {
			if r := recover(); r != nil {
				recordPanic(r, "handler of the layer's Receive worker")
				panic(r)
			}
		}()
		fn(d.msg)
		close(d.done)
		return nil
	}
}

func (nd *simNode) Ask(ctx context.Context, resp []byte, dst A, req p2p.IOVec) (int, error) {
	data := p2p.VecBytes(nil, req)
	nd.mu.Lock()
	nd.sent = append(nd.sent, sentMsg{dst: dst, data: data, ask: true})
	answer := nd.answer
	nd.mu.Unlock()
	if answer == nil {
		return 0, errors.New("netsim: nobody answers")
	}
	return answer(data, resp)
}

func (nd *simNode) ServeAsk(ctx context.Context, fn func(context.Context, []byte, p2p.Message[A]) int) error {
	select {
	case <-ctx.Done():
		return ctx.Err()
	case <-nd.closed:
		return p2p.ErrClosed
	case d := <-nd.asks:
		defer func() {
			if r := recover(); r != nil {
				recordPanic(r, "handler of the layer's ServeAsk worker")
				panic(r)
			}
		}()
		n := fn(ctx, d.resp, d.msg)
		d.done <- n
		return nil
	}
}

func (nd *simNode) LocalAddrs() []A { return []A{nd.addr} }
func (nd *simNode) MTU() int        { return nd.mtu }
func (nd *simNode) Close() error {
	nd.once.Do(func() { close(nd.closed) })
	return nil
}
func (nd *simNode) ParseAddr(x []byte) (A, error) { return memswarm.ParseAddr(x) }
func (nd *simNode) PublicKey() struct{}           { return struct{}{} }
func (nd *simNode) LookupPublicKey(ctx context.Context, a A) (struct{}, error) {
	return struct{}{}, nil
}

// inject delivers payload as a message from src and waits for the layer's handler to return.
func (nd *simNode) inject(src A, payload []byte) error {
	d := &delivery{msg: p2p.Message[A]{Src: src, Dst: nd.addr, Payload: append([]byte{}, payload...)}, done: make(chan struct{})}
	t := time.NewTimer(injectTimeout)
	defer t.Stop()
	select {
	case nd.tells <- d:
	case <-t.C:
		return errHang
	}
	select {
	case <-d.done:
		return nil
	case <-t.C:
		return errHang
	}
}

// injectAsk delivers payload as an ask request and returns what the layer's handler answered.
func (nd *simNode) injectAsk(src A, payload []byte, respLen int) (int, error) {
	d := &askDelivery{msg: p2p.Message[A]{Src: src, Dst: nd.addr, Payload: append([]byte{}, payload...)}, resp: make([]byte, respLen), done: make(chan int, 1)}
	t := time.NewTimer(injectTimeout)
	defer t.Stop()
	select {
	case nd.asks <- d:
	case <-t.C:
		return 0, errHang
	}
	select {
	case n := <-d.done:
		return n, nil
	case <-t.C:
		return 0, errHang
	}
}

func (nd *simNode) sentCopy() []sentMsg {
	nd.mu.Lock()
	defer nd.mu.Unlock()
	return append([]sentMsg{}, nd.sent...)
}

// drain keeps receiving on s and forwards payloads.
func drain[T p2p.Addr](ctx context.Context, s p2p.Receiver[T], got chan<- []byte) {
	for {
		err := s.Receive(ctx, func(m p2p.Message[T]) {
			select {
			case got <- append([]byte{}, m.Payload...):
			default:
			}
		})
		if err != nil {
			return
		}
	}
}

// serve keeps answering asks on s with a fixed reply and forwards request payloads.
func serve[T p2p.Addr](ctx context.Context, s p2p.AskServer[T], got chan<- []byte) {
	for {
		err := s.ServeAsk(ctx, func(ctx context.Context, resp []byte, m p2p.Message[T]) int {
			select {
			case got <- append([]byte{}, m.Payload...):
			default:
			}
			return copy(resp, "pong")
		})
		if err != nil {
			return
		}
	}
}

func waitFor(got <-chan []byte, want string, d time.Duration) bool {
	t := time.NewTimer(d)
	defer t.Stop()
	for {
		select {
		case b := <-got:
			if string(b) == want {
				return true
			}
		case <-t.C:
			return false
		}
	}
}
