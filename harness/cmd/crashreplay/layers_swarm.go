package main

import (
	"context"
	"encoding/binary"
	"os"
	"sync"
	"time"

	"go.brendoncarroll.net/p2p"
	"go.brendoncarroll.net/p2p/p/mbapp"
	"go.brendoncarroll.net/p2p/p/p2pmux"
	"go.brendoncarroll.net/p2p/s/fragswarm"
)

type layerFunc func(r *run) (outcome, served, detail string)

var layers = map[string]layerFunc{}

// rough cost of one sequence in milliseconds (real handshakes and sockets are expensive), used to
// balance the batches
func layerCost(layer string) float64 {
	switch layer {
	case "p2pkeswarm", "quicFrame":
		return 8
	case "channel":
		return 1
	case "sessionResp", "sessionInit":
		return 0.4
	case "fragswarm", "mbapp":
		return 0.3
	}
	return 0.15
}

var (
	attacker = A{N: 66}
	friend   = A{N: 67}
)

const probeWait = 3 * time.Second

func yesno(b bool) string {
	if b {
		return "yes"
	}
	return "no"
}

func init() {
	layers["selftest"] = runSelftest
	layers["fragswarm"] = runFrag
	layers["mbapp"] = runMbapp
	for _, k := range []string{"String", "Varint", "U16", "U32", "U64"} {
		k := k
		layers["mux"+k+"Tell"] = func(r *run) (string, string, string) { return runMux(r, k, false) }
		layers["mux"+k+"Ask"] = func(r *run) (string, string, string) { return runMux(r, k, true) }
	}
}

func runSelftest(r *run) (string, string, string) {
	switch r.job.Seq[0].str("n") {
	case "panic-in-goroutine":
		go func() { panic("selftest: deliberate panic in a goroutine") }()
		time.Sleep(300 * time.Millisecond)
	case "exit":
		os.Exit(3)
	case "panic-direct":
		panic("selftest: deliberate panic on a direct call")
	case "fatal-error":
		var mu sync.Mutex
		mu.Unlock()
	case "hang":
		select {}
	}
	return "ok", "n/a", ""
}

// ---------------------------------------------------------------- fragswarm

func fragBytes(r *run, c Class) []byte {
	id := map[string]uint64{"A": 7, "A'": 7 + 1<<32, "B": 8}[c.str("id")]
	part, total := c.num("part").U64(), c.num("total").U64()
	var b []byte
	switch enc := c.str("enc"); enc {
	case "ok":
		b = append(append(uvarint(id), uvarint(part)...), uvarint(total)...)
	case "trunc3":
		b = append(uvarint(id), uvarint(part)...)
		return b
	default:
		b = varintEnc(enc, id)
		if enc == "overlong" {
			b = append(append(b, uvarint(part)...), uvarint(total)...)
		}
	}
	return append(b, r.filler(c.int("dlen"))...)
}

func runFrag(r *run) (string, string, string) {
	net := newSimNet()
	v := net.node(0, 1<<16)
	sw := fragswarm.New[A](v, 1<<20)
	r.onCleanup(func() { sw.Close() })
	ctx, cf := context.WithCancel(context.Background())
	r.onCleanup(cf)
	got := make(chan []byte, 64)
	go drain[A](ctx, sw, got)
	var pkts [][]byte
	for _, c := range r.job.Seq {
		pkts = append(pkts, fragBytes(r, c))
	}
	for i, p := range pkts {
		if err := v.inject(attacker, r.wire(i, p, pkts)); err != nil {
			return "hang", "no", "the layer did not take / finish packet " + string(rune('1'+i))
		}
	}
	probe := append(append(append(uvarint(0xfffe), uvarint(0)...), uvarint(1)...), []byte("probe")...)
	if err := v.inject(friend, probe); err != nil {
		return "ok", "no", "valid single-part message not taken"
	}
	return "ok", yesno(waitFor(got, "probe", probeWait)), ""
}

// -------------------------------------------------------------------- mbapp

const mbMTU = 1024

func mbHeader(ask, reply bool, origin uint32, counter uint32, size uint32, idx, cnt uint16, timeout uint32) []byte {
	h := make([]byte, 24)
	var w0 uint32
	if ask {
		w0 |= 1 << 31
	}
	if reply {
		w0 |= 1 << 30
	}
	binary.BigEndian.PutUint32(h[0:], w0)
	binary.BigEndian.PutUint32(h[4:], origin)
	binary.BigEndian.PutUint32(h[8:], counter)
	binary.BigEndian.PutUint32(h[12:], size)
	binary.BigEndian.PutUint32(h[16:], uint32(idx)<<16|uint32(cnt))
	binary.BigEndian.PutUint32(h[20:], timeout)
	return h
}

func runMbapp(r *run) (string, string, string) {
	net := newSimNet()
	v := net.node(0, 1<<16)
	sw := mbapp.New[A, struct{}](v, mbMTU, mbapp.WithNumWorkers(1))
	r.onCleanup(func() { sw.Close() })
	ctx, cf := context.WithCancel(context.Background())
	r.onCleanup(cf)
	got := make(chan []byte, 64)
	go drain[A](ctx, sw, got)
	go serve[A](ctx, sw, got)
	now := uint32(mbapp.NewPhaseTime32(time.Now().UTC(), time.Millisecond))
	groups := map[string][2]uint32{"A": {now, 1001}, "B": {now, 1002}, "ASK": {now, 1003}}
	needAsk := false
	for _, c := range r.job.Seq {
		needAsk = needAsk || c.str("gid") == "ASK"
	}
	if needAsk {
		// the node has an Ask in flight towards the attacker; learn its group id from the request it sent
		go func() {
			actx, acf := context.WithTimeout(ctx, 4*time.Second)
			defer acf()
			buf := make([]byte, 16)
			sw.Ask(actx, buf, attacker, p2p.IOVec{[]byte("question")})
		}()
		select {
		case <-v.sentCh:
		case <-time.After(2 * time.Second):
		}
		for _, m := range v.sentCopy() {
			if len(m.data) >= 24 {
				groups["ASK"] = [2]uint32{binary.BigEndian.Uint32(m.data[4:]), binary.BigEndian.Uint32(m.data[8:])}
			}
		}
	}
	var pkts [][]byte
	for _, c := range r.job.Seq {
		if hdr := c.int("hdr"); hdr < 24 {
			pkts = append(pkts, r.filler(hdr))
			continue
		}
		g := groups[c.str("gid")]
		mode := c.str("mode")
		h := mbHeader(mode != "tell", mode == "reply", g[0], g[1], uint32(c.num("size").U64()), uint16(c.int("idx")), uint16(c.int("cnt")), 1<<28)
		pkts = append(pkts, append(h, r.filler(c.int("blen"))...))
	}
	for i, p := range pkts {
		if err := v.inject(attacker, r.wire(i, p, pkts)); err != nil {
			return "hang", "no", "the layer did not take / finish a packet"
		}
	}
	probe := append(mbHeader(false, false, now, 4242, 5, 0, 1, 1<<28), []byte("probe")...)
	if err := v.inject(friend, probe); err != nil {
		return "ok", "no", "valid tell not taken"
	}
	return "ok", yesno(waitFor(got, "probe", probeWait)), ""
}

// ------------------------------------------------------------- multiplexers

func muxChanBytes(kind string, which string, r *run) []byte {
	size := map[string]int{"U16": 2, "U32": 4, "U64": 8}[kind]
	b := make([]byte, size)
	switch which {
	case "open":
		b[size-1] = 5
	case "unknown":
		b[size-1] = 6
	case "max":
		for i := range b {
			b[i] = 0xff
		}
	default:
		return r.filler(size)
	}
	return b
}

func muxBytes(r *run, kind string, c Class) []byte {
	switch kind {
	case "String":
		b := varintEnc(c.str("enc"), c.num("len").U64())
		rem := c.int("rem")
		switch c.str("chan") {
		case "open":
			b = append(b, "ab"...)
			rem -= 2
		case "unknown":
			b = append(b, "zz"...)
			rem -= 2
		}
		if rem > 0 {
			b = append(b, r.filler(rem)...)
		}
		return b
	case "Varint":
		return append(varintEnc(c.str("enc"), c.num("chan").U64()), r.filler(c.int("body"))...)
	}
	size := map[string]int{"U16": 2, "U32": 4, "U64": 8}[kind]
	if hdr := c.int("hdr"); hdr < size {
		return r.filler(hdr)
	}
	return append(muxChanBytes(kind, c.str("chan"), r), r.filler(c.int("body"))...)
}

// openMux opens the channel the honest party uses ("ab" / 5) on a multiplexer over v.
func openMux(kind string, ask bool, v *simNode) (p2p.Swarm[A], p2p.AskServer[A], []byte) {
	switch kind {
	case "String":
		hdr := append(uvarint(2), "ab"...)
		if ask {
			s := p2pmux.NewStringAskMux[A](v).Open("ab")
			return s, s, hdr
		}
		return p2pmux.NewStringMux[A](v).Open("ab"), nil, hdr
	case "Varint":
		if ask {
			s := p2pmux.NewVarintAskMux[A](v).Open(5)
			return s, s, uvarint(5)
		}
		return p2pmux.NewVarintMux[A](v).Open(5), nil, uvarint(5)
	case "U16":
		if ask {
			s := p2pmux.NewUint16AskMux[A](v).Open(5)
			return s, s, []byte{0, 5}
		}
		return p2pmux.NewUint16Mux[A](v).Open(5), nil, []byte{0, 5}
	case "U32":
		if ask {
			s := p2pmux.NewUint32AskMux[A](v).Open(5)
			return s, s, []byte{0, 0, 0, 5}
		}
		return p2pmux.NewUint32Mux[A](v).Open(5), nil, []byte{0, 0, 0, 5}
	case "U64":
		if ask {
			s := p2pmux.NewUint64AskMux[A](v).Open(5)
			return s, s, []byte{0, 0, 0, 0, 0, 0, 0, 5}
		}
		return p2pmux.NewUint64Mux[A](v).Open(5), nil, []byte{0, 0, 0, 0, 0, 0, 0, 5}
	}
	fatal("unknown mux kind", kind)
	return nil, nil, nil
}

func runMux(r *run, kind string, ask bool) (string, string, string) {
	net := newSimNet()
	v := net.node(0, 1<<16)
	r.onCleanup(func() { v.Close() })
	sw, srv, validHdr := openMux(kind, ask, v)
	ctx, cf := context.WithCancel(context.Background())
	r.onCleanup(cf)
	got := make(chan []byte, 64)
	go drain[A](ctx, sw, got)
	if srv != nil {
		go serve[A](ctx, srv, got)
	}
	var pkts [][]byte
	for _, c := range r.job.Seq {
		pkts = append(pkts, muxBytes(r, kind, c))
	}
	for i, p := range pkts {
		b := r.wire(i, p, pkts)
		var err error
		if ask {
			_, err = v.injectAsk(attacker, b, 64)
		} else {
			err = v.inject(attacker, b)
		}
		if err != nil {
			return "hang", "no", "the layer did not take / finish a packet"
		}
	}
	probe := append(append([]byte{}, validHdr...), "probe"...)
	if ask {
		n, err := v.injectAsk(friend, probe, 64)
		return "ok", yesno(err == nil && n == 4), ""
	}
	if err := v.inject(friend, probe); err != nil {
		return "ok", "no", "valid message not taken"
	}
	return "ok", yesno(waitFor(got, "probe", probeWait)), ""
}
