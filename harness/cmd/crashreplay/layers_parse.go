package main

import (
	"bytes"
	"context"
	"encoding/json"
	"strings"
	"time"

	"go.brendoncarroll.net/p2p"
	"go.brendoncarroll.net/p2p/f/x509"
	"go.brendoncarroll.net/p2p/p/kademlia"
	"go.brendoncarroll.net/p2p/s/memswarm"
	"go.brendoncarroll.net/p2p/s/multiswarm"
	"go.brendoncarroll.net/p2p/s/p2pkeswarm"
	"go.brendoncarroll.net/p2p/s/quicswarm"
	"go.brendoncarroll.net/p2p/s/sshswarm"
	"go.brendoncarroll.net/p2p/s/udpswarm"
)

// Address strings, peer-id texts and key encodings received from a remote party: stateless parsers,
// called directly (a panic here is the caller's crash and is recorded per input).

const validID = "--RD4GkY9Y3sEoOCK4hXPM0rUcLBZteWe9yqjRIAohZ"
const validFp = "SHA256:nThbg6kXUpJ+Gl7E1IGOCspRomTxdCARLviKw6E5SY8"

type parseOnly struct {
	parse func([]byte) (p2p.Addr, error)
}

func (parseOnly) Tell(context.Context, p2p.Addr, p2p.IOVec) error { return nil }
func (parseOnly) Receive(ctx context.Context, fn func(p2p.Message[p2p.Addr])) error {
	<-ctx.Done()
	return ctx.Err()
}
func (parseOnly) LocalAddrs() []p2p.Addr                 { return nil }
func (parseOnly) MTU() int                               { return 1 << 16 }
func (parseOnly) Close() error                           { return nil }
func (p parseOnly) ParseAddr(x []byte) (p2p.Addr, error) { return p.parse(x) }

func box[T p2p.Addr](f func([]byte) (T, error)) func([]byte) (p2p.Addr, error) {
	return func(x []byte) (p2p.Addr, error) {
		a, err := f(x)
		if err != nil {
			return nil, err
		}
		return a, nil
	}
}

var addrParsers = map[string]struct {
	valid string
	parse func([]byte) (p2p.Addr, error)
}{}

func init() {
	udp := box(udpswarm.ParseAddr)
	ssh := box(sshswarm.ParseAddr)
	quic := box(func(x []byte) (quicswarm.Addr[udpswarm.Addr], error) {
		return quicswarm.ParseAddr[udpswarm.Addr](udpswarm.ParseAddr, x)
	})
	ke := box(func(x []byte) (p2pkeswarm.Addr[udpswarm.Addr], error) {
		return p2pkeswarm.ParseAddr[udpswarm.Addr](udpswarm.ParseAddr, x)
	})
	inner := multiswarm.NewSchemaFromSwarms(map[string]multiswarm.DynSwarm{"udp": parseOnly{udp}, "ssh": parseOnly{ssh}})
	schema := multiswarm.NewSchemaFromSwarms(map[string]multiswarm.DynSwarm{"udp": parseOnly{udp}, "ssh": parseOnly{ssh}, "quic+udp": parseOnly{quic},
		"ke": parseOnly{ke}, "multi": parseOnly{box(inner.ParseAddr)}})
	add := func(layer, valid string, parse func([]byte) (p2p.Addr, error)) {
		addrParsers[layer] = struct {
			valid string
			parse func([]byte) (p2p.Addr, error)
		}{valid, parse}
		layers[layer] = func(r *run) (string, string, string) { return runAddrParser(r, layer) }
	}
	add("addrUdp", "127.0.0.1:8080", udp)
	add("addrSsh", validFp+"@127.0.0.1:22", ssh)
	add("addrQuic", validID+"@[::1]:8080", quic)
	add("addrP2pke", validID+"@127.0.0.1:8080", ke)
	add("addrMulti", "quic+udp://"+validID+"@127.0.0.1:8080", box(schema.ParseAddr))
	add("addrMem", "12", box(memswarm.ParseAddr))
	layers["peerIDText"] = runPeerIDText
	layers["x509Parse"] = runX509
}

func replacePort(v, port string) string {
	i := strings.LastIndex(v, ":")
	if i < 0 || strings.HasSuffix(v, "]") {
		return v + ":" + port
	}
	return v[:i+1] + port
}

func addrText(r *run, layer, class string) string {
	v := addrParsers[layer].valid
	mid := len(v) / 2
	switch class {
	case "valid":
		return v
	case "empty":
		return ""
	case "no-separator":
		return strings.NewReplacer("@", "", ":", "", "/", "").Replace(v)
	case "separators-only":
		return []string{"@", ":", "://", "@:", "://@:", "[]:", "@@", ":::"}[r.rng.Intn(8)]
	case "many-separators":
		return strings.NewReplacer("@", "@@@", ":", ":::", "//", "////").Replace(v)
	case "huge-port":
		return replacePort(v, "99999999999999999999")
	case "negative-port":
		return replacePort(v, "-1")
	case "hex-port":
		return replacePort(v, "0x1F")
	case "unclosed-bracket":
		return strings.Replace(replacePort(v, "80"), "127.0.0.1", "[::1", 1)
	case "zone-only":
		return strings.NewReplacer("127.0.0.1", "fe80::1%", "[::1]", "[fe80::1%]").Replace(v)
	case "nul-bytes":
		return v[:mid] + "\x00\x00" + v[mid:]
	case "very-long":
		return v[:mid] + strings.Repeat("A", 1<<16) + v[mid:]
	case "non-utf8":
		return v[:mid] + "\xff\xfe\x80" + v[mid:]
	case "newline-inside":
		return v[:mid] + "\n" + v[mid:]
	case "id-wrong-length":
		return strings.Replace(v, validID, validID[:42], 1)
	case "nested-twice":
		switch layer {
		case "addrMulti":
			return "multi://multi://udp://127.0.0.1:1"
		case "addrQuic", "addrP2pke":
			return validID + "@" + v
		}
		return v + "@" + v
	}
	fatal("unknown address text class", class)
	return ""
}

func runAddrParser(r *run, layer string) (string, string, string) {
	p := addrParsers[layer]
	outcome := "ok"
	for i, c := range r.job.Seq {
		text := r.wire(i, []byte(addrText(r, layer, c.str("n"))), nil)
		a, err := p.parse(text)
		if err != nil {
			outcome = "error"
			continue
		}
		_ = a.String()
		if t, err := a.MarshalText(); err == nil {
			p.parse(t)
		}
		if k, ok := a.(interface{ Key() string }); ok {
			k.Key()
		}
		p2p.ExtractPeerID(a)
		p2p.ExtractIP(a)
	}
	// stateless: the valid text must (still) parse
	_, err := p.parse([]byte(p.valid))
	return outcome, yesno(err == nil), ""
}

func runPeerIDText(r *run) (string, string, string) {
	outcome := "ok"
	for i, c := range r.job.Seq {
		v := validID
		var text string
		switch c.str("n") {
		case "valid":
			text = v
		case "empty":
			text = ""
		case "short42":
			text = v[:42]
		case "long44":
			text = v + "-"
		case "bad-char":
			text = v[:10] + "+" + v[11:]
		case "lf-at-end":
			text = v[:42] + "\n"
		case "crlf-inside":
			text = v[:20] + "\r\n" + v[20:41]
		case "pad-eq":
			text = v[:42] + "="
		case "trailing-bits":
			text = v[:42] + "a"
		case "nul-bytes":
			text = v[:20] + "\x00" + v[21:]
		case "very-long":
			text = strings.Repeat(v, 2000)
		case "non-utf8":
			text = v[:20] + "\xff" + v[21:]
		default:
			fatal("unknown peer id text class", c.str("n"))
		}
		b := r.wire(i, []byte(text), nil)
		var id p2p.PeerID
		if err := id.UnmarshalText(b); err != nil {
			outcome = "error"
		} else {
			_ = id.String()
		}
		// the same text arriving inside a JSON DHT request
		var req kademlia.FindNodeReq
		js, _ := json.Marshal(map[string]any{"target": string(b), "limit": 1})
		json.Unmarshal(js, &req)
	}
	var id p2p.PeerID
	return outcome, yesno(id.UnmarshalText([]byte(validID)) == nil), ""
}

func derBytes(r *run, class string) []byte {
	pub := r.filler(32)
	valid := derKey(112, pub)
	switch class {
	case "valid":
		return valid
	case "empty":
		return nil
	case "only-tag":
		return []byte{0x30}
	case "truncated":
		return valid[:len(valid)-3]
	case "trailing-data":
		return append(valid, 0x05, 0x00)
	case "length-huge":
		return append([]byte{0x30, 0x84, 0xff, 0xff, 0xff, 0xff}, valid[2:]...)
	case "length-indefinite":
		return append(append([]byte{0x30, 0x80}, valid[2:]...), 0, 0)
	case "nested-deep":
		b := valid
		for i := 0; i < 2000; i++ {
			b = append([]byte{0x30, 0x82, byte(len(b) >> 8), byte(len(b))}, b...)
			if len(b) > 60000 {
				break
			}
		}
		return b
	case "oid-arc-overflow":
		oid := append(bytes.Repeat([]byte{0xff}, 12), 0x7f)
		alg := append([]byte{0x30, byte(len(oid) + 2), 0x06, byte(len(oid))}, oid...)
		bits := append([]byte{0x03, 33, 0x00}, pub...)
		content := append(alg, bits...)
		return append([]byte{0x30, byte(len(content))}, content...)
	case "oid-empty":
		return append([]byte{0x30, 39, 0x30, 0x02, 0x06, 0x00, 0x03, 33, 0x00}, pub...)
	case "bitstring-no-unused-octet":
		return []byte{0x30, 0x09, 0x30, 0x05, 0x06, 0x03, 0x2b, 0x65, 0x70, 0x03, 0x00}
	case "bitstring-unused-gt7":
		b := append([]byte{}, valid...)
		b[11] = 0x09
		return b
	case "bitstring-huge-length":
		return []byte{0x30, 0x0d, 0x30, 0x05, 0x06, 0x03, 0x2b, 0x65, 0x70, 0x03, 0x84, 0x7f, 0xff, 0xff, 0xff}
	case "params-null":
		return append([]byte{0x30, 44, 0x30, 0x07, 0x06, 0x03, 0x2b, 0x65, 0x70, 0x05, 0x00, 0x03, 33, 0x00}, pub...)
	case "body31":
		return derKey(112, pub[:31])
	case "body33":
		return derKey(112, append(pub, 1))
	case "body0":
		return derKey(112, nil)
	}
	fatal("unknown DER class", class)
	return nil
}

func runX509(r *run) (string, string, string) {
	reg := x509.DefaultRegistry()
	outcome := "ok"
	for i, c := range r.job.Seq {
		der := r.wire(i, derBytes(r, c.str("n")), nil)
		k, err := x509.ParsePublicKey(der)
		if err != nil {
			outcome = "error"
		} else {
			x509.MarshalPublicKey(nil, &k)
			p2pkeswarm.DefaultFingerprinter(&k)
			quicswarm.DefaultFingerprinter(k)
			if v, err := reg.LoadVerifier(&k); err == nil {
				for _, n := range []int{0, 63, 64, 65} {
					v.Verify([]byte("msg"), r.filler(n))
				}
			}
		}
		if v, err := reg.ParseVerifier(der); err == nil {
			v.Verify(nil, nil)
		}
		x509.ParsePrivateKey(der)
	}
	_, err := x509.ParsePublicKey(derKey(112, make([]byte, 32)))
	return outcome, yesno(err == nil), ""
}

// ------------------------------------------------------------------ kademlia

func init() {
	for _, cfg := range []string{"Small", "Zero", "Default"} {
		cfg := cfg
		layers["dht"+cfg] = func(r *run) (string, string, string) { return runDHT(r, cfg) }
	}
	for _, n := range []int{32, 1, 0} {
		n := n
		layers[map[int]string{32: "kadCache32", 1: "kadCache1", 0: "kadCache0"}[n]] = func(r *run) (string, string, string) { return runCache(r, n) }
	}
}

func keyOf(r *run, klen int) []byte {
	if klen < 0 {
		return nil
	}
	return r.filler(klen)
}

func runDHT(r *run, cfg string) (string, string, string) {
	var local p2p.PeerID
	r.rng.Read(local[:])
	params := kademlia.DHTNodeParams{LocalID: local}
	switch cfg {
	case "Small":
		params.PeerCacheSize, params.DataCacheSize = 8, 2
	case "Zero":
		params.PeerCacheSize, params.DataCacheSize = 0, 0
	case "Default":
		params.PeerCacheSize, params.DataCacheSize = 256, 16
	}
	node := kademlia.NewDHTNode(params)
	for i := 0; i < 6; i++ {
		var id p2p.PeerID
		r.rng.Read(id[:])
		if i == 0 {
			id = local
			id[31] ^= 1
		}
		node.AddPeer(id, []byte("info"))
	}
	var from p2p.PeerID
	r.rng.Read(from[:])
	outcome := "ok"
	sameKey := r.filler(32)
	for _, c := range r.job.Seq {
		switch c.str("op") {
		case "put":
			key := keyOf(r, c.int("klen"))
			if c.str("n") == "put/same-key-again" {
				key = sameKey
			}
			var val []byte
			switch c.str("val") {
			case "small":
				val = r.filler(8)
			case "big":
				val = r.filler(4096)
			}
			r.record(append(append([]byte{}, key...), val...))
			if _, err := node.HandlePut(from, kademlia.PutReq{Key: key, Value: val, TTLms: c.num("ttl").U64()}); err != nil {
				outcome = "error"
			}
		case "get":
			key := keyOf(r, c.int("klen"))
			r.record(key)
			node.HandleGet(from, kademlia.GetReq{Key: key})
		case "find":
			var target p2p.PeerID
			r.rng.Read(target[:])
			limit := 3
			switch c.str("limit") {
			case "-1":
				limit = -1
			case "0":
				limit = 0
			case "11":
				limit = 11
			case "maxint":
				limit = int(^uint(0) >> 1)
			case "minint":
				limit = -int(^uint(0)>>1) - 1
			case "self":
				target = local
			}
			r.record(target[:])
			node.HandleFindNode(from, kademlia.FindNodeReq{Target: target, Limit: limit})
		case "json":
			bad := validID[:10] + "+" + validID[11:]
			text := map[string]string{
				"put-bad-base64":       `{"key":"!!!","value":"AA==","ttl_ms":1}`,
				"find-target-short":    `{"target":"abc","limit":1}`,
				"find-target-bad-char": `{"target":"` + bad + `","limit":1}`,
				"find-limit-huge":      `{"target":"` + validID + `","limit":99999999999999999999}`,
				"put-ttl-negative":     `{"key":"AAAA","value":"AAAA","ttl_ms":-1}`,
				"nulls":                `{"key":null,"value":null,"ttl_ms":null,"target":null,"limit":null}`,
				"truncated":            `{"key":"AAAA","va`,
			}[c.str("text")]
			b := r.wire(0, []byte(text), nil)
			var put kademlia.PutReq
			var get kademlia.GetReq
			var find kademlia.FindNodeReq
			if json.Unmarshal(b, &put) == nil {
				node.HandlePut(from, put)
			} else {
				outcome = "error"
			}
			if json.Unmarshal(b, &get) == nil {
				node.HandleGet(from, get)
			}
			if json.Unmarshal(b, &find) == nil {
				node.HandleFindNode(from, find)
			}
		default:
			fatal("unknown dht op", c.str("op"))
		}
	}
	var target p2p.PeerID
	r.rng.Read(target[:])
	res, err := node.HandleFindNode(from, kademlia.FindNodeReq{Target: target, Limit: 3})
	node.HandlePut(from, kademlia.PutReq{Key: r.filler(32), Value: []byte("v"), TTLms: 1000})
	return outcome, yesno(err == nil && (cfg == "Zero" || len(res.Nodes) > 0)), ""
}

func runCache(r *run, locusLen int) (string, string, string) {
	locus := r.filler(locusLen)
	c := kademlia.NewCache[[]byte](locus, 4, 0)
	now := time.Now()
	for i := 0; i < 3; i++ {
		c.Put(r.filler(locusLen), []byte("v"), now, now.Add(time.Hour))
	}
	visit := func(kademlia.Entry[[]byte]) bool { return true }
	for _, cl := range r.job.Seq {
		key := r.filler(cl.int("klen"))
		r.record(key)
		switch cl.str("op") {
		case "put":
			c.Put(key, []byte("x"), now, now.Add(time.Hour))
		case "get":
			c.Get(key, now)
		case "delete":
			c.Delete(key)
		case "foreach":
			c.ForEach(key, visit)
		case "closest":
			c.Closest(key)
		case "closer":
			c.ForEachCloser(key, visit)
		case "wouldadd":
			c.WouldAdd(key, now)
		case "contains":
			c.Contains(key, now)
		default:
			fatal("unknown cache op", cl.str("op"))
		}
	}
	c.Put(r.filler(locusLen), []byte("v"), now, now.Add(time.Hour))
	c.Expire(nil, now.Add(2*time.Hour))
	return "ok", "yes", ""
}
