package main

import (
	"context"
	"crypto/ed25519"
	"crypto/tls"
	"encoding/binary"
	"fmt"
	"io"
	"sync"
	"time"

	"github.com/quic-go/quic-go"

	"go.brendoncarroll.net/p2p"
	"go.brendoncarroll.net/p2p/f/x509"
	"go.brendoncarroll.net/p2p/s/quicswarm"
	"go.brendoncarroll.net/p2p/s/swarmutil"
	"go.brendoncarroll.net/p2p/s/udpswarm"
)

// quicswarm's frame reader (readFrame) is reached through public paths only: a real quicswarm on
// loopback UDP, an adversary that is a plain quic-go endpoint with its own certificate.  "ask": the
// adversary opens a bidirectional stream and writes a request frame; "tell": a unidirectional stream;
// "resp": the node asks the adversary, whose answer frame is malformed.  The node is shared by the
// sequences of one child process (sockets are expensive); every sequence uses a fresh connection.

func init() { layers["quicFrame"] = runQuic }

const quicMTU = 4096

type quicEnv struct {
	v      *quicswarm.Swarm[udpswarm.Addr]
	vaddr  string
	got    chan []byte
	ln     *quic.Listener
	lnAddr udpswarm.Addr
	advID  p2p.PeerID
	mu     sync.Mutex
	reply  func(s quic.Stream) // how the adversary answers the node's next Ask
	conn   quic.Connection     // the adversary's outbound connection
}

var (
	qenv     *quicEnv
	qenvOnce sync.Once
	qenvErr  error
)

func advTLS() *tls.Config {
	cert := swarmutil.GenerateSelfSigned(edKey(7))
	return &tls.Config{Certificates: []tls.Certificate{cert}, InsecureSkipVerify: true, NextProtos: []string{"p2p"}, ClientAuth: tls.RequireAnyClientCert}
}

func getQuicEnv() (*quicEnv, error) {
	qenvOnce.Do(func() {
		e := &quicEnv{got: make(chan []byte, 256)}
		v, err := quicswarm.NewOnUDP("127.0.0.1:0", x509Priv(1), quicswarm.WithMTU[udpswarm.Addr](quicMTU))
		if err != nil {
			qenvErr = err
			return
		}
		e.v = v
		la := v.LocalAddrs()[0].Addr
		e.vaddr = fmt.Sprintf("127.0.0.1:%d", la.Port)
		go drain[quicswarm.Addr[udpswarm.Addr]](context.Background(), v, e.got)
		go serve[quicswarm.Addr[udpswarm.Addr]](context.Background(), v, e.got)
		ln, err := quic.ListenAddr("127.0.0.1:0", advTLS(), &quic.Config{EnableDatagrams: true})
		if err != nil {
			qenvErr = err
			return
		}
		e.ln = ln
		ua, err := udpswarm.ParseAddr([]byte(ln.Addr().String()))
		if err != nil {
			qenvErr = err
			return
		}
		e.lnAddr = ua
		pub := x509.PublicKey{Algorithm: x509.Algo_Ed25519, Data: []byte(edKey(7).Public().(ed25519.PublicKey))}
		e.advID = quicswarm.DefaultFingerprinter(pub)
		go e.acceptLoop()
		qenv = e
	})
	return qenv, qenvErr
}

// acceptLoop: the adversary's side of connections dialled by the node (for its Asks).
func (e *quicEnv) acceptLoop() {
	for {
		conn, err := e.ln.Accept(context.Background())
		if err != nil {
			return
		}
		go func() {
			for {
				s, err := conn.AcceptStream(context.Background())
				if err != nil {
					return
				}
				e.mu.Lock()
				reply := e.reply
				e.mu.Unlock()
				go func() {
					hdr := make([]byte, 4)
					s.SetReadDeadline(time.Now().Add(2 * time.Second))
					if _, err := io.ReadFull(s, hdr); err == nil {
						io.CopyN(io.Discard, s, int64(binary.BigEndian.Uint32(hdr)))
					}
					if reply != nil {
						reply(s)
					} else {
						s.Close()
					}
				}()
			}
		}()
	}
}

func frameBytes(r *run, c Class) []byte {
	var b []byte
	if hdr := c.int("hdr"); hdr > 0 {
		b = append(b, be32(uint32(c.num("len").U64()))[:hdr]...)
	}
	return append(b, r.filler(c.int("body"))...)
}

func runQuic(r *run) (string, string, string) {
	e, err := getQuicEnv()
	if err != nil {
		fatal("cannot set up the quic environment:", err)
	}
	ctx, cf := context.WithTimeout(context.Background(), 15*time.Second)
	r.onCleanup(cf)
	// the adversary's connection is reused by the sequences of this child; it is re-dialled when broken
	conn := e.conn
	dial := func() error {
		c, err := quic.DialAddr(ctx, e.vaddr, advTLS(), &quic.Config{EnableDatagrams: true})
		if err != nil {
			return err
		}
		conn, e.conn = c, c
		return nil
	}
	if conn == nil || conn.Context().Err() != nil {
		if err := dial(); err != nil {
			return "ok", "no", "the node does not accept connections: " + err.Error()
		}
	}
	// streams the node never closes (it returns from handleAsk on a malformed frame without closing)
	// count against the per-connection stream limit: open without blocking, re-dial when refused
	openBidi := func() (quic.Stream, error) {
		s, err := conn.OpenStream()
		if err != nil {
			old := conn
			if derr := dial(); derr != nil {
				return nil, derr
			}
			old.CloseWithError(0, "")
			s, err = conn.OpenStream()
		}
		return s, err
	}
	openUni := func() (quic.SendStream, error) {
		s, err := conn.OpenUniStream()
		if err != nil {
			old := conn
			if derr := dial(); derr != nil {
				return nil, derr
			}
			old.CloseWithError(0, "")
			s, err = conn.OpenUniStream()
		}
		return s, err
	}
	var pkts [][]byte
	for _, c := range r.job.Seq {
		pkts = append(pkts, frameBytes(r, c))
	}
	for i, c := range r.job.Seq {
		b := r.wire(i, pkts[i], pkts)
		switch c.str("dir") {
		case "ask":
			s, err := openBidi()
			if err != nil {
				return "ok", "no", "cannot open a stream to the node: " + err.Error()
			}
			s.Write(b)
			if c.boolean("fin") {
				s.Close()
			} else {
				s.CancelWrite(7)
			}
			s.SetReadDeadline(time.Now().Add(10 * time.Millisecond))
			io.Copy(io.Discard, s)
			s.CancelRead(0)
		case "tell":
			s, err := openUni()
			if err != nil {
				return "ok", "no", "cannot open a stream to the node: " + err.Error()
			}
			s.Write(b)
			if c.boolean("fin") {
				s.Close()
			} else {
				s.CancelWrite(7)
			}
		case "resp":
			// the node asks the adversary; the answer is this frame
			e.mu.Lock()
			e.reply = func(s quic.Stream) {
				s.Write(b)
				s.Close()
			}
			e.mu.Unlock()
			actx, acf := context.WithTimeout(ctx, 300*time.Millisecond)
			buf := make([]byte, 16)
			e.v.Ask(actx, buf, quicswarm.Addr[udpswarm.Addr]{ID: e.advID, Addr: e.lnAddr}, p2p.IOVec{[]byte("question")})
			acf()
			e.mu.Lock()
			e.reply = nil
			e.mu.Unlock()
		default:
			fatal("unknown quic direction", c.str("dir"))
		}
	}
	// a valid ask on a fresh stream must be answered with the handler's reply
	served := false
	detail := ""
	for attempt := 0; attempt < 3 && !served; attempt++ {
		s, err := openBidi()
		if err != nil {
			detail = "cannot open a stream to the node: " + err.Error()
			time.Sleep(200 * time.Millisecond)
			continue
		}
		s.Write(append(be32(5), "probe"...))
		s.Close()
		s.SetReadDeadline(time.Now().Add(probeWait))
		resp, _ := io.ReadAll(s)
		served = len(resp) == 8 && string(resp[4:]) == "pong"
		if !served {
			detail = fmt.Sprintf("valid ask answered with %d bytes within %v (attempt %d)", len(resp), probeWait, attempt+1)
			s.CancelRead(0)
		}
	}
	if served {
		detail = ""
	}
	return "ok", yesno(served), detail
}
