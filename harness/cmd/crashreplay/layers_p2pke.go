package main

import (
	"context"
	"crypto/ed25519"
	"encoding/binary"
	"sync"
	"time"

	"github.com/flynn/noise"
	"go.uber.org/zap"
	"golang.org/x/crypto/blake2b"
	"google.golang.org/protobuf/proto"

	"go.brendoncarroll.net/p2p"
	"go.brendoncarroll.net/p2p/f/x509"
	"go.brendoncarroll.net/p2p/p/p2pke"
	"go.brendoncarroll.net/p2p/s/p2pkeswarm"
	"go.brendoncarroll.net/tai64"
)

// The adversary is an independent implementation of both P2PKE roles built from public APIs only
// (flynn/noise, the exported protobuf types, x509, blake2b): it runs real handshakes with its own key
// and can put arbitrary plaintexts under the keys of the handshake it is running.

var keSuite = noise.NewCipherSuite(noise.DH25519, noise.CipherChaChaPoly, noise.HashBLAKE2b)

func init() {
	layers["sessionResp"] = func(r *run) (string, string, string) { return runSession(r, false) }
	layers["sessionInit"] = func(r *run) (string, string, string) { return runSession(r, true) }
	layers["channel"] = runChannel
	layers["p2pkeswarm"] = runKeSwarm
}

func presig(purpose string, msg []byte) []byte {
	h, _ := blake2b.NewXOF(64, nil)
	h.Write([]byte{uint8(len(purpose))})
	h.Write([]byte(purpose))
	h.Write(msg)
	out := make([]byte, 64)
	h.Read(out)
	return out
}

func keHdr(n uint32) []byte { return be32(n) }

func edKey(i int) ed25519.PrivateKey {
	seed := make([]byte, 32)
	binary.BigEndian.PutUint64(seed[24:], uint64(i))
	return ed25519.NewKeyFromSeed(seed)
}

func x509Priv(i int) x509.PrivateKey {
	algoID, signer := x509.SignerFromStandard(edKey(i))
	pk, err := x509.DefaultRegistry().StoreSigner(algoID, signer)
	if err != nil {
		fatal(err)
	}
	return pk
}

func derKey(oidLast byte, body []byte) []byte {
	// SEQUENCE { SEQUENCE { OID 1.3.101.<oidLast> }, BIT STRING body }
	alg := []byte{0x30, 0x05, 0x06, 0x03, 0x2b, 0x65, oidLast}
	bits := append([]byte{0x03, byte(len(body) + 1), 0x00}, body...)
	content := append(alg, bits...)
	return append([]byte{0x30, byte(len(content))}, content...)
}

type adv struct {
	r        *run
	priv     ed25519.PrivateKey
	other    ed25519.PrivateKey // a third party whose (key, timestamp, signature) claim was observed
	hs       *noise.HandshakeState
	out, in  noise.Cipher
	lastIH   []byte
	lastData []byte
	nodeIH   []byte // the InitHello the node under test sent (when it initiates)
}

func newAdv(r *run) *adv { return &adv{r: r, priv: edKey(7), other: edKey(9)} }

func (a *adv) pubDER(k ed25519.PrivateKey) []byte {
	return derKey(112, []byte(k.Public().(ed25519.PublicKey)))
}

func (a *adv) keyField(kind string) []byte {
	pub := []byte(a.priv.Public().(ed25519.PublicKey))
	switch kind {
	case "valid":
		return derKey(112, pub)
	case "empty":
		return nil
	case "garbage":
		return a.r.filler(20)
	case "body31":
		return derKey(112, pub[:31])
	case "body33":
		return derKey(112, append(append([]byte{}, pub...), 0x01))
	case "body0":
		return derKey(112, nil)
	case "ed448-oid":
		return derKey(113, pub)
	case "trailing":
		return append(derKey(112, pub), 0x00)
	case "victim-claim":
		return a.pubDER(a.other)
	}
	fatal("unknown key class", kind)
	return nil
}

func sigField(kind string, priv ed25519.PrivateKey, purpose string, msg []byte) []byte {
	sig := ed25519.Sign(priv, presig(purpose, msg))
	switch kind {
	case "valid", "victim-claim":
		return sig
	case "empty":
		return nil
	case "63":
		return sig[:63]
	case "65":
		return append(sig, 0x00)
	case "wrong":
		sig[5] ^= 0x40
		return sig
	}
	fatal("unknown sig class", kind)
	return nil
}

// initHello builds an InitHello on a fresh ephemeral of the adversary.
func (a *adv) initHello(i int, c Class) []byte {
	if c.str("wrap") == "replay" && a.lastIH != nil {
		return a.lastIH
	}
	now := time.Now()
	if c.str("ts") == "old" {
		now = now.Add(-time.Hour)
	}
	t := tai64.FromGoTime(now).Marshal()
	ts := t[:]
	signer := a.priv
	if c.str("sig") == "victim-claim" {
		signer = a.other
	}
	sig := sigField(c.str("sig"), signer, "p2pke/timestamp", ts)
	switch c.str("ts") {
	case "11":
		ts = ts[:11]
	case "13":
		ts = append(append([]byte{}, ts...), 0x00)
	case "0":
		ts = nil
	}
	pb, _ := proto.Marshal(&p2pke.InitHello{Version: 1, TimestampTai64N: ts, KeyX509: a.keyField(c.str("key")), Sig: sig})
	var payload []byte
	switch c.str("wrap") {
	case "ok", "replay":
		payload = append(pb, byte(len(pb)>>8), byte(len(pb)))
	case "no-payload":
		payload = nil
	case "len>rem":
		payload = append(pb, byte((len(pb)+100)>>8), byte(len(pb)+100))
	case "len0":
		payload = append(pb, 0, 0)
	case "garbage":
		g := a.r.filler(40)
		payload = append(g, 0, 40)
	default:
		fatal("unknown wrap", c.str("wrap"))
	}
	payload = a.r.plain(i, payload)
	hs, err := noise.NewHandshakeState(noise.Config{Initiator: true, Pattern: noise.HandshakeNN, CipherSuite: keSuite})
	if err != nil {
		fatal(err)
	}
	msg, _, _, err := hs.WriteMessage(keHdr(0), payload)
	if err != nil {
		fatal(err)
	}
	a.hs, a.out, a.in = hs, nil, nil
	a.lastIH = msg
	return msg
}

// onRespHello: the node answered the adversary's InitHello; derive the session keys.
func (a *adv) onRespHello(m []byte) {
	if a.hs == nil || a.out != nil || len(m) < 4 {
		return
	}
	defer func() { recover() }()
	_, cs1, cs2, err := a.hs.ReadMessage(nil, m[4:])
	if err != nil || cs1 == nil {
		return
	}
	a.out, a.in = cs1.Cipher(), cs2.Cipher()
}

func (a *adv) initDone(i int, c Class) []byte {
	if a.out == nil {
		return append(keHdr(2), a.r.filler(80)...)
	}
	var pt []byte
	switch c.str("form") {
	case "garbage":
		pt = a.r.filler(30)
	default:
		pt, _ = proto.Marshal(&p2pke.InitDone{Sig: sigField(c.str("sig"), a.priv, "p2pke/channel-binding", a.hs.ChannelBinding())})
	}
	pt = a.r.plain(i, pt)
	h := keHdr(2)
	ct := a.out.Encrypt(append([]byte{}, h...), 2, h, pt)
	if c.str("form") == "flip" {
		ct[len(ct)-1] ^= 1
	}
	return ct
}

func (a *adv) data(i int, c Class) []byte {
	n := uint32(c.num("nonce").U64())
	if c.str("form") == "replay" && a.lastData != nil {
		return a.lastData
	}
	if a.out == nil {
		return append(keHdr(n), a.r.filler(40)...)
	}
	h := keHdr(n)
	if c.str("form") == "empty" {
		return h
	}
	pt := a.r.plain(i, []byte("application data from the adversary"))
	ct := a.out.Encrypt(append([]byte{}, h...), uint64(n), h, pt)
	if c.str("form") == "flip" {
		ct[len(ct)-1] ^= 1
	}
	a.lastData = ct
	return ct
}

// respHello answers the InitHello the node sent, as responder with the adversary's key.
func (a *adv) respHello(i int, c Class) []byte {
	if a.nodeIH == nil || len(a.nodeIH) < 4 {
		return append(keHdr(1), a.r.filler(120)...)
	}
	hs, err := noise.NewHandshakeState(noise.Config{Initiator: false, Pattern: noise.HandshakeNN, CipherSuite: keSuite})
	if err != nil {
		fatal(err)
	}
	if _, _, _, err := hs.ReadMessage(nil, a.nodeIH[4:]); err != nil {
		return append(keHdr(1), a.r.filler(120)...)
	}
	cb := append([]byte{}, hs.ChannelBinding()...)
	var pt []byte
	if c.str("form") == "garbage" {
		pt = a.r.filler(60)
	} else {
		pt, _ = proto.Marshal(&p2pke.RespHello{KeyX509: a.keyField(c.str("key")), Sig: sigField(c.str("sig"), a.priv, "p2pke/channel-binding", cb)})
	}
	pt = a.r.plain(i, pt)
	msg, cs1, cs2, err := hs.WriteMessage(keHdr(1), pt)
	if err != nil {
		fatal(err)
	}
	a.hs = hs
	a.out, a.in = cs2.Cipher(), cs1.Cipher() // responder: pickCS(false, ...)
	if c.str("form") == "short" {
		return msg[:20]
	}
	return msg
}

func (a *adv) respDone(i int, c Class) []byte {
	h := keHdr(3)
	if a.out == nil || c.str("form") == "garbage" {
		return append(h, a.r.filler(16)...)
	}
	return a.out.Encrypt(append([]byte{}, h...), 3, h, nil)
}

func (a *adv) raw(c Class) []byte {
	if hdr := c.int("hdr"); hdr < 4 {
		return a.r.filler(hdr)
	}
	return append(keHdr(uint32(c.num("nonce").U64())), a.r.filler(c.int("body"))...)
}

// packet concretises class c (packet i of the sequence) given what the adversary knows by now.
func (a *adv) packet(i int, c Class) []byte {
	switch c.str("kind") {
	case "raw":
		return a.raw(c)
	case "ih":
		return a.initHello(i, c)
	case "id":
		return a.initDone(i, c)
	case "data":
		return a.data(i, c)
	case "rh":
		return a.respHello(i, c)
	case "rd":
		return a.respDone(i, c)
	}
	fatal("unknown p2pke packet kind", c.str("kind"))
	return nil
}

// observe looks at a packet the node sent to the adversary.
func (a *adv) observe(m []byte) {
	if len(m) < 4 {
		return
	}
	switch binary.BigEndian.Uint32(m[:4]) {
	case 0:
		a.nodeIH = append([]byte{}, m...)
	case 1:
		a.onRespHello(m)
	}
}

// ------------------------------------------------------------------ Session

func runSession(r *run, isInit bool) (string, string, string) {
	now := time.Now()
	s := p2pke.NewSession(p2pke.SessionConfig{Registry: x509.DefaultRegistry(), PrivateKey: x509Priv(1), IsInit: isInit, Now: now,
		RejectAfter: time.Minute, Logger: zap.NewNop()})
	a := newAdv(r)
	if isInit {
		a.nodeIH = s.Handshake(nil)
	}
	outcome := "ok"
	var sent [][]byte
	for i, c := range r.job.Seq {
		b := r.wire(i, a.packet(i, c), sent)
		sent = append(sent, b)
		_, out, err := s.Deliver(nil, b, now)
		if err != nil {
			outcome = "error"
		}
		if out != nil {
			a.observe(out)
		}
		s.Handshake(nil)
		if s.IsReady() {
			s.Send(nil, []byte("x"), now)
		}
	}
	// a Session is one handshake: "still serves" is a property of the Channel / swarm above it
	return outcome, "n/a", ""
}

// ------------------------------------------------------------------ Channel

type capture struct {
	mu   sync.Mutex
	msgs [][]byte
	ch   chan struct{}
}

func (c *capture) send(x []byte) {
	c.mu.Lock()
	c.msgs = append(c.msgs, append([]byte{}, x...))
	c.mu.Unlock()
	select {
	case c.ch <- struct{}{}:
	default:
	}
}

func (c *capture) take() [][]byte {
	c.mu.Lock()
	defer c.mu.Unlock()
	out := c.msgs
	c.msgs = nil
	return out
}

func runChannel(r *run) (string, string, string) {
	cp := &capture{ch: make(chan struct{}, 64)}
	ch := p2pke.NewChannel(p2pke.ChannelConfig{PrivateKey: x509Priv(1), Send: cp.send, AcceptKey: func(*x509.PublicKey) bool { return true },
		Logger: zap.NewNop(), HandshakeBackoff: 50 * time.Millisecond})
	r.onCleanup(func() { ch.Close() })
	ctx, cf := context.WithCancel(context.Background())
	r.onCleanup(cf)
	a := newAdv(r)
	outcome := "ok"
	var sent [][]byte
	for i, c := range r.job.Seq {
		if c.str("kind") == "act" {
			go func() {
				sctx, scf := context.WithTimeout(ctx, 300*time.Millisecond)
				defer scf()
				ch.Send(sctx, p2p.IOVec{[]byte("hello")})
			}()
			select {
			case <-cp.ch:
			case <-time.After(500 * time.Millisecond):
			}
			for _, m := range cp.take() {
				a.observe(m)
			}
			r.record(nil)
			continue
		}
		b := r.wire(i, a.packet(i, c), sent)
		sent = append(sent, b)
		if _, err := ch.Deliver(nil, b); err != nil {
			outcome = "error"
		}
		for _, m := range cp.take() {
			a.observe(m)
		}
	}
	return outcome, "n/a", ""
}

// --------------------------------------------------------------- p2pkeswarm

func runKeSwarm(r *run) (string, string, string) {
	net := newSimNet()
	nv, nh := net.node(0, 1<<16), net.node(friend.N, 1<<16)
	v := p2pkeswarm.New[A](nv, x509Priv(1))
	h := p2pkeswarm.New[A](nh, x509Priv(2))
	r.onCleanup(func() { go v.Close(); go h.Close() })
	ctx, cf := context.WithCancel(context.Background())
	r.onCleanup(cf)
	got := make(chan []byte, 64)
	go drain[p2pkeswarm.Addr[A]](ctx, v, got)
	go drain[p2pkeswarm.Addr[A]](ctx, h, make(chan []byte, 64))
	a := newAdv(r)
	advPub := x509.PublicKey{Algorithm: x509.Algo_Ed25519, Data: []byte(a.priv.Public().(ed25519.PublicKey))}
	seen := 0
	observe := func() {
		msgs := nv.sentCopy()
		for _, m := range msgs[seen:] {
			if m.dst == attacker {
				a.observe(m.data)
			}
		}
		seen = len(msgs)
	}
	var sent [][]byte
	for i, c := range r.job.Seq {
		if c.str("kind") == "act" {
			go func() {
				sctx, scf := context.WithTimeout(ctx, 300*time.Millisecond)
				defer scf()
				v.Tell(sctx, p2pkeswarm.Addr[A]{ID: p2pkeswarm.DefaultFingerprinter(&advPub), Addr: attacker}, p2p.IOVec{[]byte("hello")})
			}()
			deadline := time.Now().Add(500 * time.Millisecond)
			for a.nodeIH == nil && time.Now().Before(deadline) {
				select {
				case <-nv.sentCh:
				case <-time.After(20 * time.Millisecond):
				}
				observe()
			}
			r.record(nil)
			continue
		}
		b := r.wire(i, a.packet(i, c), sent)
		sent = append(sent, b)
		if err := nv.inject(attacker, b); err != nil {
			return "hang", "no", "the swarm did not take / finish a packet"
		}
		observe()
	}
	// a valid message from another peer must still be served
	pctx, pcf := context.WithTimeout(ctx, probeWait)
	defer pcf()
	if err := h.Tell(pctx, v.LocalAddrs()[0], p2p.IOVec{[]byte("probe")}); err != nil {
		return "ok", "no", "honest peer could not establish a channel: " + err.Error()
	}
	return "ok", yesno(waitFor(got, "probe", probeWait)), ""
}
