package main

import (
	"encoding/binary"
	"encoding/hex"
	"encoding/json"
	"math/rand"
	"sync"
)

// Class is one abstract packet class as printed by spec/PacketClasses.tla (a record).
type Class map[string]json.RawMessage

// Num is a header value: a natural below 2^31 or a named value beyond TLC's integers.
type Num struct {
	Big  bool   `json:"big"`
	N    int    `json:"n"`
	Name string `json:"name"`
}

func (n Num) U64() uint64 {
	if !n.Big {
		return uint64(n.N)
	}
	switch n.Name {
	case "2^31":
		return 1 << 31
	case "2^32-1":
		return 1<<32 - 1
	case "2^32":
		return 1 << 32
	case "2^32+7":
		return 1<<32 + 7
	case "2^63-1":
		return 1<<63 - 1
	case "2^63":
		return 1 << 63
	case "2^64-1":
		return ^uint64(0)
	}
	fatal("unknown big value", n.Name)
	return 0
}

func (c Class) str(k string) string {
	var s string
	if raw, ok := c[k]; ok {
		if err := json.Unmarshal(raw, &s); err != nil {
			fatal("field", k, "is not a string:", string(raw))
		}
	}
	return s
}

func (c Class) int(k string) int {
	var n int
	if raw, ok := c[k]; ok {
		if err := json.Unmarshal(raw, &n); err != nil {
			fatal("field", k, "is not an int:", string(raw))
		}
	}
	return n
}

func (c Class) boolean(k string) bool {
	var b bool
	if raw, ok := c[k]; ok {
		json.Unmarshal(raw, &b)
	}
	return b
}

func (c Class) num(k string) Num {
	var n Num
	if raw, ok := c[k]; ok {
		if err := json.Unmarshal(raw, &n); err != nil {
			fatal("field", k, "is not a value record:", string(raw))
		}
	}
	return n
}

// run is the per-sequence context: seeded randomness, the mutation plan and the record of the bytes
// that were actually delivered.
type run struct {
	job     *Job
	rng     *rand.Rand
	mutName string
	mutAt   int // index of the packet the mutation applies to
	mutKind int
	inner   bool // apply the mutation to the plaintext of wrapped packets rather than to the wire bytes
	mu      sync.Mutex
	hex     []string
	npkt    int
	clean   []func()
}

// layers whose packets wrap a plaintext (noise / AEAD): the mutation may also hit the plaintext
var innerLayers = map[string]bool{"sessionResp": true, "sessionInit": true, "channel": true, "p2pkeswarm": true}

var mutKinds = []string{"bitflip", "truncate", "splice", "extend", "byteset"}

func newRun(job *Job) *run {
	r := &run{job: job, rng: rand.New(rand.NewSource(job.Seed*1_000_003 + int64(job.Case)*7919 + int64(job.Variant)))}
	r.mutName = "none"
	if job.Variant > 0 {
		r.mutKind = r.rng.Intn(len(mutKinds))
		r.mutAt = r.rng.Intn(len(job.Seq))
		r.inner = innerLayers[job.Layer] && r.rng.Intn(2) == 0
		r.mutName = mutKinds[r.mutKind]
		if r.inner {
			r.mutName += "/inner"
		}
	}
	return r
}

func (r *run) cleanup() {
	for i := len(r.clean) - 1; i >= 0; i-- {
		f := r.clean[i]
		func() {
			defer func() { recover() }()
			f()
		}()
	}
}

func (r *run) onCleanup(f func()) { r.clean = append(r.clean, f) }

func (r *run) hexes() []string {
	r.mu.Lock()
	defer r.mu.Unlock()
	return append([]string{}, r.hex...)
}

func (r *run) filler(n int) []byte {
	b := make([]byte, n)
	r.rng.Read(b)
	return b
}

// mutate applies the sequence's mutation to b when i is the chosen packet.
func (r *run) mutate(i int, b []byte, others [][]byte) []byte {
	if r.job.Variant == 0 || i != r.mutAt {
		return b
	}
	b = append([]byte{}, b...)
	switch r.mutKind {
	case 0: // bit flips
		if len(b) == 0 {
			return []byte{byte(r.rng.Intn(256))}
		}
		for n := 1 + r.rng.Intn(3); n > 0; n-- {
			j := r.rng.Intn(len(b))
			b[j] ^= 1 << uint(r.rng.Intn(8))
		}
	case 1: // truncation
		if len(b) > 0 {
			b = b[:r.rng.Intn(len(b))]
		}
	case 2: // splice: the tail is replaced by a piece of another packet of the sequence (or random bytes)
		src := r.filler(1 + r.rng.Intn(24))
		if len(others) > 0 && r.rng.Intn(3) > 0 {
			o := others[r.rng.Intn(len(others))]
			if len(o) > 0 {
				src = o[r.rng.Intn(len(o)):]
			}
		}
		cut := 0
		if len(b) > 0 {
			cut = r.rng.Intn(len(b) + 1)
		}
		b = append(b[:cut:cut], src...)
	case 3: // extension
		b = append(b, r.filler(1+r.rng.Intn(40))...)
	case 4: // one byte set to a boundary value
		if len(b) > 0 {
			b[r.rng.Intn(len(b))] = []byte{0x00, 0xff, 0x80, 0x7f, 0x01}[r.rng.Intn(5)]
		}
	}
	return b
}

// wire applies the (outer) mutation to packet i and records the bytes that are delivered.
func (r *run) wire(i int, b []byte, others [][]byte) []byte {
	if !r.inner {
		b = r.mutate(i, b, others)
	}
	r.record(b)
	return b
}

// plain applies the (inner) mutation to the plaintext of packet i before it is wrapped / encrypted.
func (r *run) plain(i int, b []byte) []byte {
	if r.inner {
		return r.mutate(i, b, nil)
	}
	return b
}

func (r *run) record(b []byte) {
	r.mu.Lock()
	if len(b) > 512 {
		r.hex = append(r.hex, hex.EncodeToString(b[:512])+"...")
	} else {
		r.hex = append(r.hex, hex.EncodeToString(b))
	}
	r.mu.Unlock()
}

// ---- encodings

func uvarint(x uint64) []byte {
	buf := make([]byte, binary.MaxVarintLen64)
	return buf[:binary.PutUvarint(buf, x)]
}

// varintEnc encodes x in the given style: ok | trunc1 (a lone continuation byte) | overlong (11 bytes) | empty
func varintEnc(enc string, x uint64) []byte {
	switch enc {
	case "ok":
		return uvarint(x)
	case "trunc1":
		return []byte{0x80}
	case "overlong":
		return []byte{0x80, 0x80, 0x80, 0x80, 0x80, 0x80, 0x80, 0x80, 0x80, 0x80, 0x01}
	case "empty":
		return nil
	}
	fatal("unknown varint style", enc)
	return nil
}

func be32(x uint32) []byte { b := make([]byte, 4); binary.BigEndian.PutUint32(b, x); return b }
