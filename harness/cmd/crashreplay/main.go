// crashreplay binds spec/PacketClasses.tla (C08) to the real packet-facing layers.
//
// Parent mode (default): reads abstract packet sequences (ndjson, one per TLC case), expands each into
// `-variants` concrete jobs (variant 0 = plain concretisation with seeded filler bytes, variants > 0 add
// a seeded byte-level mutation: bit flips, truncation, splice, extension), splits the jobs into batches
// and runs every batch in a CHILD PROCESS.  The parent inspects the child's exit status and stderr for
// "panic:" / "fatal error:"; a progress file names the sequence that was running; the sequence is
// re-run alone to confirm, and when it does not reproduce alone the batch prefix is bisected.  After
// a crash the rest of the batch continues in a new child.
//
// Child mode (-child): builds a fresh instance of the layer for every sequence, delivers the packets
// (synchronously: the harness is the inner transport), then checks that a valid message is still
// served, and appends one ndjson event per sequence:
//
//	{id, case, layer, seq: [class names], variant, mut, hex: [...], outcome: ok|error|panic|hang, served: yes|no|n/a, detail}
//
// -selftest checks the crash detector itself (deliberate panic in a goroutine, os.Exit, hang).
package main

import (
	"bufio"
	"bytes"
	"encoding/json"
	"flag"
	"fmt"
	"os"
	"os/exec"
	"runtime"
	"runtime/pprof"
	"sort"
	"strings"
	"sync"
	"time"
)

type Job struct {
	ID      int     `json:"id"`
	Case    int     `json:"case"`
	Layer   string  `json:"layer"`
	Seq     []Class `json:"seq"`
	Variant int     `json:"variant"`
	Seed    int64   `json:"seed"`
}

type Event struct {
	ID      int      `json:"id"`
	Case    int      `json:"case"`
	Layer   string   `json:"layer"`
	Seq     []string `json:"seq"`
	Variant int      `json:"variant"`
	Mut     string   `json:"mut"`
	Hex     []string `json:"hex"`
	Outcome string   `json:"outcome"`
	Served  string   `json:"served"`
	Detail  string   `json:"detail"`
}

func fatal(a ...any) {
	fmt.Fprintln(os.Stderr, a...)
	os.Exit(2)
}

func names(seq []Class) []string {
	out := make([]string, len(seq))
	for i, c := range seq {
		out[i] = c.str("n")
	}
	return out
}

// ---------------------------------------------------------------- child

var (
	evMu      sync.Mutex
	evOut     *os.File
	progPath  string
	curJob    *Job
	curRun    *run
	curLogged bool
)

func writeEvent(ev *Event) {
	data, err := json.Marshal(ev)
	if err != nil {
		fatal(err)
	}
	evMu.Lock()
	evOut.Write(append(data, '\n'))
	evMu.Unlock()
}

// recordPanic is called from the goroutine that is about to die with the real code's panic.
func recordPanic(r any, where string) {
	evMu.Lock()
	if curJob == nil || curLogged {
		evMu.Unlock()
		return
	}
	curLogged = true
	job, rn := curJob, curRun
	evMu.Unlock()
	buf := make([]byte, 4096)
	buf = buf[:runtime.Stack(buf, false)]
	writeEvent(&Event{ID: job.ID, Case: job.Case, Layer: job.Layer, Seq: names(job.Seq), Variant: job.Variant, Mut: rn.mutName, Hex: rn.hexes(),
		Outcome: "panic", Served: "no", Detail: clip(fmt.Sprintf("%s: %v | %s", where, r, frames(string(buf))), 600)})
}

func frames(stack string) string {
	var out []string
	for _, l := range strings.Split(stack, "\n") {
		l = strings.TrimSpace(l)
		if strings.HasPrefix(l, "go.brendoncarroll.net/p2p") && !strings.Contains(l, "verifharness") {
			out = append(out, l)
			if len(out) == 3 {
				break
			}
		}
	}
	return strings.Join(out, " < ")
}

func clip(s string, n int) string {
	if len(s) > n {
		return s[:n]
	}
	return s
}

func childMain(jobsPath string, from int, outPath, progress string) {
	f, err := os.Open(jobsPath)
	if err != nil {
		fatal(err)
	}
	defer f.Close()
	evOut, err = os.OpenFile(outPath, os.O_APPEND|os.O_CREATE|os.O_WRONLY, 0o644)
	if err != nil {
		fatal(err)
	}
	progPath = progress
	progF, err := os.OpenFile(progress, os.O_CREATE|os.O_WRONLY|os.O_TRUNC, 0o644)
	if err != nil {
		fatal(err)
	}
	sc := bufio.NewScanner(f)
	sc.Buffer(make([]byte, 1<<20), 1<<26)
	idx := -1
	for sc.Scan() {
		idx++
		if idx < from {
			continue
		}
		var job Job
		if err := json.Unmarshal(sc.Bytes(), &job); err != nil {
			fatal("bad job:", err)
		}
		// one pwrite per sequence: fixed-width record at offset 0
		progF.WriteAt([]byte(fmt.Sprintf("%-11d %-11d\n", idx, job.ID)), 0)
		runJob(&job)
	}
	progF.WriteAt([]byte(fmt.Sprintf("%-23s\n", "done")), 0)
}

func runJob(job *Job) {
	lr, ok := layers[job.Layer]
	if !ok {
		fatal("unknown layer", job.Layer)
	}
	rn := newRun(job)
	evMu.Lock()
	curJob, curRun, curLogged = job, rn, false
	evMu.Unlock()
	ev := &Event{ID: job.ID, Case: job.Case, Layer: job.Layer, Seq: names(job.Seq), Variant: job.Variant}
	done := make(chan struct{})
	go func() {
		defer close(done)
		// a panic on a direct call (parsers, Session/Channel.Deliver, DHT handlers) is the caller's crash:
		// it is recorded here and the batch goes on; panics in the layer's own goroutines kill the process.
		defer func() {
			if r := recover(); r != nil {
				buf := make([]byte, 4096)
				buf = buf[:runtime.Stack(buf, false)]
				ev.Outcome, ev.Served = "panic", "no"
				ev.Detail = clip(fmt.Sprintf("direct call: %v | %s", r, frames(string(buf))), 600)
			}
		}()
		ev.Outcome, ev.Served, ev.Detail = lr(rn)
	}()
	select {
	case <-done:
	case <-time.After(seqTimeout()):
		ev.Outcome, ev.Served, ev.Detail = "hang", "no", fmt.Sprintf("sequence did not finish within %v", seqTimeout())
	}
	ev.Mut, ev.Hex = rn.mutName, rn.hexes()
	rn.cleanup()
	evMu.Lock()
	logged := curLogged
	curLogged = true
	evMu.Unlock()
	if !logged {
		writeEvent(ev)
	}
}

// ---------------------------------------------------------------- parent

type batch struct {
	idx  int
	path string
	jobs []Job
}

type crashInfo struct {
	pos    int // index in the batch of the sequence that was running
	stderr string
	kind   string // panic | hang
}

// runChild runs jobs[from:] of the batch file in a child; returns nil when the child finished cleanly.
func runChild(self string, b *batch, from int, out string, timeout time.Duration) *crashInfo {
	prog := out + ".progress"
	os.Remove(prog)
	cmd := exec.Command(self, "-child", "-jobs", b.path, "-from", fmt.Sprint(from), "-out", out, "-progress", prog)
	cmd.Env = append(os.Environ(), "GOMAXPROCS="+childProcs(), "GOTRACEBACK=single")
	var stderr bytes.Buffer
	cmd.Stderr = &limitedWriter{buf: &stderr, max: 1 << 20}
	cmd.Stdout = nil
	if err := cmd.Start(); err != nil {
		fatal("cannot start child:", err)
	}
	done := make(chan error, 1)
	go func() { done <- cmd.Wait() }()
	kind := "panic"
	var err error
	select {
	case err = <-done:
	case <-time.After(timeout):
		cmd.Process.Kill()
		err = <-done
		kind = "hang"
	}
	pdata, _ := os.ReadFile(prog)
	p := strings.TrimSpace(string(pdata))
	if err == nil && p == "done" {
		return nil
	}
	pos := from
	fmt.Sscanf(p, "%d", &pos)
	if p == "done" || p == "" {
		// died outside any sequence: infrastructure problem
		fatal("child failed outside a sequence:", err, "\n", tail(stderr.String(), 2000))
	}
	return &crashInfo{pos: pos, stderr: stderr.String(), kind: kind}
}

type limitedWriter struct {
	buf *bytes.Buffer
	max int
}

func (w *limitedWriter) Write(p []byte) (int, error) {
	if w.buf.Len() < w.max {
		w.buf.Write(p)
	}
	return len(p), nil
}

func tail(s string, n int) string {
	if len(s) > n {
		return s[len(s)-n:]
	}
	return s
}

func crashLine(stderr string) string {
	for _, l := range strings.Split(stderr, "\n") {
		if strings.HasPrefix(l, "panic:") || strings.HasPrefix(l, "fatal error:") {
			return clip(l, 300)
		}
	}
	return ""
}

func readEvents(path string) map[int]*Event {
	out := map[int]*Event{}
	f, err := os.Open(path)
	if err != nil {
		return out
	}
	defer f.Close()
	sc := bufio.NewScanner(f)
	sc.Buffer(make([]byte, 1<<20), 1<<26)
	for sc.Scan() {
		var ev Event
		if json.Unmarshal(sc.Bytes(), &ev) == nil {
			out[ev.ID] = &ev
		}
	}
	return out
}

// writeBatchFile writes a subset of jobs as its own batch file (used to re-run / bisect).
func writeBatchFile(path string, jobs []Job) {
	f, err := os.Create(path)
	if err != nil {
		fatal(err)
	}
	w := bufio.NewWriter(f)
	for _, j := range jobs {
		data, _ := json.Marshal(j)
		w.Write(data)
		w.WriteByte('\n')
	}
	w.Flush()
	f.Close()
}

// crashes reports whether running exactly these jobs in a fresh child crashes; it returns the
// position of the sequence that was running and the child's stderr.
func crashes(self, scratch string, jobs []Job, tag string) (bool, *crashInfo) {
	p := fmt.Sprintf("%s/%s.jobs", scratch, tag)
	o := fmt.Sprintf("%s/%s.out", scratch, tag)
	os.Remove(o)
	writeBatchFile(p, jobs)
	ci := runChild(self, &batch{path: p, jobs: jobs}, 0, o, 60*time.Second+time.Duration(len(jobs))*50*time.Millisecond)
	return ci != nil, ci
}

func processBatch(self, scratch string, b *batch, stats *parentStats) []*Event {
	out := fmt.Sprintf("%s/batch%05d.out", scratch, b.idx)
	os.Remove(out)
	from := 0
	synth := map[int]*Event{}
	for from < len(b.jobs) {
		if stats.exhausted(b.jobs[from].Layer) {
			// (jobs are sorted by layer: skip to the first sequence of the next layer)
			layer := b.jobs[from].Layer
			for from < len(b.jobs) && b.jobs[from].Layer == layer {
				j := b.jobs[from]
				synth[j.ID] = &Event{ID: j.ID, Case: j.Case, Layer: j.Layer, Seq: names(j.Seq), Variant: j.Variant, Outcome: "skipped", Served: "n/a",
					Detail: "not executed: the layer's crash budget is exhausted"}
				stats.add(func() { stats.Skipped++ })
				from++
			}
			continue
		}
		ci := runChild(self, b, from, out, 90*time.Second+time.Duration(len(b.jobs)-from)*100*time.Millisecond)
		if ci == nil {
			break
		}
		stats.add(func() { stats.ChildDeaths++; stats.crashes[b.jobs[ci.pos].Layer]++ })
		job := b.jobs[ci.pos]
		evs := readEvents(out)
		if ev, ok := evs[job.ID]; ok && ev.Outcome == "panic" && ci.kind == "panic" {
			// the dying goroutine recorded the sequence itself; the process did die: confirmed
			ev.Detail = clip(ev.Detail+" | child: "+crashLine(ci.stderr), 800)
			synth[job.ID] = ev
			from = ci.pos + 1
			continue
		}
		// the child died (or hung) while job was running without recording it: re-run it alone
		ev := &Event{ID: job.ID, Case: job.Case, Layer: job.Layer, Seq: names(job.Seq), Variant: job.Variant, Served: "no"}
		if ci.kind == "hang" {
			ev.Outcome, ev.Detail = "hang", "child killed after timeout while this sequence was running"
		} else {
			if job.Layer != "selftest" && crashLine(ci.stderr) != "" && frames(ci.stderr) == "" && strings.Contains(ci.stderr, "\nmain.") {
				// the crashing goroutine ran harness code only: a bug of this program, not an observation
				fatal("harness bug (no frame of the library under test in the crashing goroutine):\n" + tail(ci.stderr, 3000))
			}
			ev.Outcome = "panic"
			ev.Detail = "child died: " + crashLine(ci.stderr) + " | " + clip(frames(ci.stderr), 300)
			tag := fmt.Sprintf("b%05d-alone", b.idx)
			alone, ci2 := crashes(self, scratch, []Job{job}, tag)
			if alone {
				ev.Detail += " | reproduced alone"
				if e2, ok := readEvents(fmt.Sprintf("%s/%s.out", scratch, tag))[job.ID]; ok {
					ev.Hex, ev.Mut = e2.Hex, e2.Mut
				}
				_ = ci2
			} else {
				// bisect the prefix from..pos for the shortest suffix ending at pos that still crashes
				lo, hi := from, ci.pos // invariant: jobs[lo..pos] crashes
				for lo < hi {
					mid := (lo + hi + 1) / 2
					c, _ := crashes(self, scratch, b.jobs[mid:ci.pos+1], fmt.Sprintf("b%05d-bisect", b.idx))
					if c {
						lo = mid
					} else {
						hi = mid - 1
					}
				}
				ev.Detail += fmt.Sprintf(" | not reproduced alone; needs the %d preceding sequence(s) of the batch (first: id %d)", ci.pos-lo, b.jobs[lo].ID)
			}
		}
		synth[job.ID] = ev
		from = ci.pos + 1
	}
	evs := readEvents(out)
	for id, ev := range synth {
		evs[id] = ev
	}
	var res []*Event
	for _, j := range b.jobs {
		ev, ok := evs[j.ID]
		if !ok {
			fatal(fmt.Sprintf("no event for job %d (layer %s) of batch %d", j.ID, j.Layer, b.idx))
		}
		// "not served" and "hang" are timing-based observations (a probe that did not come back within
		// seconds): they are re-measured alone, twice, before being believed
		if (ev.Served == "no" && ev.Outcome != "panic") || ev.Outcome == "hang" {
			confirmed := 0
			for k := 0; k < 2; k++ {
				tag := fmt.Sprintf("b%05d-remeasure", b.idx)
				died, _ := crashes(self, scratch, []Job{j}, tag)
				e2, ok := readEvents(fmt.Sprintf("%s/%s.out", scratch, tag))[j.ID]
				if died || (ok && (e2.Served == "no" || e2.Outcome == "hang")) {
					confirmed++
				}
			}
			if confirmed == 0 {
				stats.add(func() { stats.Transient++ })
				ev.Detail = clip("transient (not reproduced in 2 re-measurements): was outcome="+ev.Outcome+" served="+ev.Served+" "+ev.Detail, 600)
				ev.Outcome, ev.Served = "ok", "yes"
			} else {
				ev.Detail = clip(fmt.Sprintf("confirmed in %d of 2 re-measurements | %s", confirmed, ev.Detail), 600)
			}
		}
		res = append(res, ev)
	}
	return res
}

type parentStats struct {
	mu          sync.Mutex
	ChildDeaths int            `json:"child_deaths"`
	Children    int            `json:"children"`
	Skipped     int            `json:"skipped"`
	Transient   int            `json:"transient"`
	crashes     map[string]int // per layer: sequences that killed or hung a child
	limit       int
}

// exhausted: the layer has crashed so often that the verdict is settled; its remaining sequences are
// reported as "skipped" (not evaluated) instead of paying a child process for each further crash.
func (s *parentStats) exhausted(layer string) bool {
	s.mu.Lock()
	defer s.mu.Unlock()
	return s.limit > 0 && s.crashes[layer] >= s.limit
}

func (s *parentStats) add(f func()) { s.mu.Lock(); f(); s.mu.Unlock() }

type CaseLine struct {
	ID    int     `json:"id"`
	Layer string  `json:"layer"`
	Seq   []Class `json:"seq"`
}

func parentMain(in, outPath string, seed int64, variants, batchSize, procs int, scratch string, crashLimit int) {
	self, err := os.Executable()
	if err != nil {
		fatal(err)
	}
	f, err := os.Open(in)
	if err != nil {
		fatal(err)
	}
	var jobs []Job
	sc := bufio.NewScanner(f)
	sc.Buffer(make([]byte, 1<<20), 1<<26)
	for sc.Scan() {
		var c CaseLine
		if err := json.Unmarshal(sc.Bytes(), &c); err != nil {
			fatal("bad case:", err)
		}
		for v := 0; v < variants; v++ {
			jobs = append(jobs, Job{ID: len(jobs) + 1, Case: c.ID, Layer: c.Layer, Seq: c.Seq, Variant: v, Seed: seed})
		}
	}
	f.Close()
	// Process start-up is the dominant cost in this environment (page faults are slow and serialized), so
	// the jobs are cut into about 2 x procs batches of equal ESTIMATED cost, at most batchSize sequences each.
	sort.SliceStable(jobs, func(i, j int) bool { return jobs[i].Layer < jobs[j].Layer })
	total := 0.0
	for _, j := range jobs {
		total += layerCost(j.Layer)
	}
	target := total / float64(2*procs)
	var batches []*batch
	for i := 0; i < len(jobs); {
		acc := 0.0
		j := i
		for j < len(jobs) && j-i < batchSize && (acc < target || j == i) {
			acc += layerCost(jobs[j].Layer)
			j++
		}
		b := &batch{idx: len(batches), jobs: jobs[i:j]}
		b.path = fmt.Sprintf("%s/batch%05d.jobs", scratch, b.idx)
		writeBatchFile(b.path, b.jobs)
		batches = append(batches, b)
		i = j
	}
	order := make([]int, len(batches))
	for i := range order {
		order[i] = i
	}
	stats := &parentStats{crashes: map[string]int{}, limit: crashLimit}
	results := make([][]*Event, len(batches))
	ch := make(chan int)
	var wg sync.WaitGroup
	for w := 0; w < procs; w++ {
		wg.Add(1)
		go func() {
			defer wg.Done()
			for bi := range ch {
				tb := time.Now()
				results[bi] = processBatch(self, scratch, batches[bi], stats)
				if os.Getenv("VERIF_BATCH_TIMES") != "" {
					fmt.Fprintf(os.Stderr, "batch %d %s..%s n=%d %.1fs\n", bi, batches[bi].jobs[0].Layer, batches[bi].jobs[len(batches[bi].jobs)-1].Layer, len(batches[bi].jobs), time.Since(tb).Seconds())
				}
			}
		}()
	}
	t0 := time.Now()
	for _, bi := range order {
		ch <- bi
	}
	close(ch)
	wg.Wait()
	out, err := os.Create(outPath)
	if err != nil {
		fatal(err)
	}
	w := bufio.NewWriterSize(out, 1<<20)
	counts := map[string]int{}
	var all []*Event
	for _, r := range results {
		all = append(all, r...)
	}
	sort.Slice(all, func(i, j int) bool { return all[i].ID < all[j].ID })
	for _, ev := range all {
		data, _ := json.Marshal(ev)
		w.Write(data)
		w.WriteByte('\n')
		counts[ev.Outcome]++
		if ev.Served == "no" {
			counts["not-served"]++
		}
	}
	w.Flush()
	out.Close()
	fmt.Printf("jobs=%d batches=%d child_deaths=%d skipped=%d transient=%d outcomes=%v wall=%.1fs\n", len(jobs), len(batches), stats.ChildDeaths, stats.Skipped, stats.Transient, counts, time.Since(t0).Seconds())
}

// selftest: the detector must attribute a deliberate goroutine panic, an os.Exit and a hang.
func selftestMain(scratch string) {
	self, _ := os.Executable()
	mk := func(id int, name string) Job {
		raw, _ := json.Marshal(name)
		return Job{ID: id, Case: id, Layer: "selftest", Seq: []Class{{"n": raw}}, Variant: 0, Seed: 1}
	}
	os.Setenv("VERIF_SEQ_TIMEOUT_MS", "400")
	jobs := []Job{mk(1, "ok"), mk(2, "panic-in-goroutine"), mk(3, "ok"), mk(4, "exit"), mk(5, "panic-direct"), mk(6, "fatal-error"), mk(7, "ok"), mk(8, "hang"), mk(9, "ok")}
	b := &batch{idx: 0, jobs: jobs, path: scratch + "/selftest.jobs"}
	writeBatchFile(b.path, jobs)
	evs := processBatch(self, scratch, b, &parentStats{crashes: map[string]int{}})
	want := []string{"ok", "panic", "ok", "panic", "panic", "panic", "ok", "hang", "ok"}
	for i, ev := range evs {
		if ev.Outcome != want[i] {
			fatal(fmt.Sprintf("selftest: sequence %d (%s): outcome %q, want %q (%s)", ev.ID, ev.Seq[0], ev.Outcome, want[i], ev.Detail))
		}
	}
	fmt.Println("selftest ok: goroutine panic, os.Exit, direct panic, fatal error and hang attributed to their sequences")
}

func main() {
	child := flag.Bool("child", false, "run as child")
	selftest := flag.Bool("selftest", false, "check the crash detector")
	jobsPath := flag.String("jobs", "", "child: batch file")
	from := flag.Int("from", 0, "child: first job index")
	progress := flag.String("progress", "", "child: progress file")
	in := flag.String("in", "", "parent: abstract cases (ndjson)")
	out := flag.String("out", "", "events (ndjson)")
	seed := flag.Int64("seed", 1, "seed")
	variants := flag.Int("variants", 2, "concrete sequences per abstract sequence (variant 0 is unmutated)")
	batchSize := flag.Int("batch", 4000, "maximum number of sequences per child process")
	procs := flag.Int("procs", 0, "parallel children (default: CPUs)")
	scratch := flag.String("scratch", "", "scratch directory")
	crashLimit := flag.Int("crashlimit", 24, "per layer: stop executing after this many crashing sequences (0 = never)")
	flag.Parse()
	if *child {
		if pf := os.Getenv("VERIF_CPUPROFILE"); pf != "" {
			f, _ := os.Create(pf)
			pprof.StartCPUProfile(f)
			defer pprof.StopCPUProfile()
		}
		childMain(*jobsPath, *from, *out, *progress)
		return
	}
	if *procs == 0 {
		*procs = runtime.NumCPU()
		if *procs > 16 {
			*procs = 16
		}
	}
	if *scratch == "" {
		fatal("-scratch required")
	}
	if *selftest {
		selftestMain(*scratch)
		return
	}
	parentMain(*in, *out, *seed, *variants, *batchSize, *procs, *scratch, *crashLimit)
}

func seqTimeout() time.Duration {
	var ms int
	if _, err := fmt.Sscanf(os.Getenv("VERIF_SEQ_TIMEOUT_MS"), "%d", &ms); err == nil && ms > 0 {
		return time.Duration(ms) * time.Millisecond
	}
	return 20 * time.Second
}

func childProcs() string {
	if v := os.Getenv("VERIF_CHILD_GOMAXPROCS"); v != "" {
		return v
	}
	return "2"
}
