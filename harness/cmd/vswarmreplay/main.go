// vswarmreplay executes TLC-generated behaviours (spec/VSwarmGen.tla) on REAL memswarm / vswarm realms, bare or
// wrapped in wlswarm / mapswarm, through the public API only, and logs every result, completion and delivery for
// spec/VSwarmTrace.tla.  With -pure it runs the cases of the helper laws (spec/VSwarmPure.tla) instead.
//
// A behaviour is a sequence of groups; the operations of a group are released together from goroutines of their own.
// Receive / ServeAsk / Ask always run in goroutines (they may block): what they returned is logged in the step in
// which they completed.  The harness waits for the number of completions the model announces (w) but never longer
// than its patience; it never uses the model to decide WHAT happened.
package main

import (
	"bufio"
	"context"
	"encoding/json"
	"errors"
	"flag"
	"fmt"
	"os"
	"runtime"
	"strconv"
	"strings"
	"sync"
	"time"

	"go.brendoncarroll.net/p2p"
	"go.brendoncarroll.net/p2p/p2ptest"
	"go.brendoncarroll.net/p2p/s/mapswarm"
	"go.brendoncarroll.net/p2p/s/memswarm"
	"go.brendoncarroll.net/p2p/s/vswarm"
	"go.brendoncarroll.net/p2p/s/wlswarm"

	"verifharness/trace"
)

const (
	realMTU     = 24
	unknownAddr = 7
	mapOff      = 100
	respLen     = 8
)

var patience = 1000 * time.Millisecond

type opRec struct {
	Op  string `json:"op"`
	A   int    `json:"a"`
	B   int    `json:"b"`
	Sz  string `json:"sz"`
	Tf  string `json:"tf"`
	H   string `json:"h"`
	Ctx string `json:"ctx"`
	ID  int    `json:"id"`
	T   int    `json:"t"`
	Res string `json:"res"`
	Ad  int    `json:"ad"`
}

type groupRec struct {
	Ops []opRec `json:"ops"`
	W   int     `json:"w"`
	Wx  int     `json:"wx"`
}

type behaviour struct {
	ID     int        `json:"id"`
	Fam    string     `json:"fam"`
	Kind   string     `json:"kind"`
	Secure bool       `json:"secure"`
	TfKind string     `json:"tfkind"`
	Wrap   string     `json:"wrap"`
	QLen   int        `json:"qlen"`
	N0     int        `json:"n0"`
	Allow  [][]int    `json:"allow"`
	Groups []groupRec `json:"groups"`
}

type completion struct {
	ID   int    `json:"id"`
	Kind string `json:"kind"`
	Res  string `json:"res"`
	Pid  int    `json:"pid"`
	Src  int    `json:"src"`
	Dst  int    `json:"dst"`
	Sz   string `json:"sz"`
	Ok   bool   `json:"ok"`
	Lk   int    `json:"lk"`
	Err  string `json:"err,omitempty"`
}

type lkRec struct {
	T int `json:"t"`
	K int `json:"k"`
}

type nodeObs struct {
	A     int     `json:"a"`
	La    []int   `json:"la"`
	MtuOK bool    `json:"mtuok"`
	Pk    int     `json:"pk"`
	Parse int     `json:"parse"`
	Lk    []lkRec `json:"lk"`
}

type event struct {
	Ev    string       `json:"ev"`
	Beh   int          `json:"beh"`
	I     int          `json:"i"`
	Ops   []opRec      `json:"ops"`
	Done  []completion `json:"done"`
	Obs   []nodeObs    `json:"obs"`
	Len   int          `json:"len"`
	Panic string       `json:"panic"`
	Last  bool         `json:"last"`
	Ms    int64        `json:"ms"`
	// init only
	Kind   string  `json:"kind,omitempty"`
	Wrap   string  `json:"wrap,omitempty"`
	TfKind string  `json:"tfkind,omitempty"`
	QLen   int     `json:"qlen,omitempty"`
	N0     int     `json:"n0"`
	Secure bool    `json:"secure"`
	Allow  [][]int `json:"allow,omitempty"`
}

// ---------------------------------------------------------------------------
// payloads: two bytes of id, then a pattern that depends on the id and the position

func sizeOf(cls string) int {
	switch cls {
	case "z":
		return 0
	case "s":
		return 6
	case "m":
		return realMTU
	case "x":
		return realMTU + 1
	}
	panic("size class " + cls)
}

func classOf(n int) string {
	switch n {
	case 0:
		return "z"
	case 6:
		return "s"
	case realMTU:
		return "m"
	case realMTU + 1:
		return "x"
	}
	return "?" + strconv.Itoa(n)
}

func pattern(id, n int) []byte {
	p := make([]byte, n)
	for i := range p {
		switch i {
		case 0:
			p[i] = byte(id >> 8)
		case 1:
			p[i] = byte(id)
		default:
			p[i] = byte(id*7 + i*13 + 5)
		}
	}
	return p
}

// idOf returns the id a payload carries (-1: too short) and whether its bytes are the pattern of that id.
func idOf(p []byte) (int, bool) {
	if len(p) < 2 {
		return -1, true
	}
	id := int(p[0])<<8 | int(p[1])
	return id, string(pattern(id, len(p))) == string(p)
}

func response(sid, pid int) []byte {
	p := make([]byte, respLen)
	p[0], p[1], p[2], p[3] = byte(sid>>8), byte(sid), byte(pid>>8), byte(pid)
	for i := 4; i < respLen; i++ {
		p[i] = byte(sid*3 + pid*5 + i)
	}
	return p
}

func keyName(a int) string { return "k" + strconv.Itoa(a) }

func keyInt(k string, err error) int {
	if err != nil {
		if p2p.IsErrPublicKeyNotFound(err) {
			return -1
		}
		return -3
	}
	if !strings.HasPrefix(k, "k") {
		return -3
	}
	n, e := strconv.Atoi(k[1:])
	if e != nil {
		return -3
	}
	return n
}

func classify(err error) string {
	switch {
	case err == nil:
		return "nil"
	case p2p.IsErrMTUExceeded(err):
		return "mtu"
	case p2p.IsErrClosed(err):
		return "closed"
	case errors.Is(err, context.Canceled) || errors.Is(err, context.DeadlineExceeded):
		return "ctx"
	case strings.Contains(err.Error(), "error during ask"):
		return "neg"
	}
	return "err"
}

// ---------------------------------------------------------------------------
// the upper address type of the mapswarm runs

type upAddr struct{ M int }

func (a upAddr) MarshalText() ([]byte, error) { return []byte("up" + strconv.Itoa(a.M)), nil }
func (a upAddr) String() string               { return "up" + strconv.Itoa(a.M) }
func parseUp(x []byte) (upAddr, error) {
	s := string(x)
	if !strings.HasPrefix(s, "up") {
		return upAddr{}, fmt.Errorf("not an upper address: %q", s)
	}
	n, err := strconv.Atoi(s[2:])
	if err != nil {
		return upAddr{}, err
	}
	return upAddr{M: n}, nil
}
func mapUp(a memswarm.Addr) upAddr   { return upAddr{M: a.N + mapOff} }
func mapDown(a upAddr) memswarm.Addr { return memswarm.Addr{N: a.M - mapOff} }

// ---------------------------------------------------------------------------
// a node behind integer addresses

type seen struct {
	src, dst int
	payload  []byte
	lk       int
}

type node interface {
	Tell(ctx context.Context, dst int, v p2p.IOVec) error
	Receive(ctx context.Context, viaHelper bool, fn func(seen)) error
	HasAsk() bool
	Ask(ctx context.Context, resp []byte, dst int, v p2p.IOVec) (int, error)
	ServeAsk(ctx context.Context, fn func(resp []byte, m seen) int) error
	Close() error
	LocalAddrs() []int
	MTU() int
	PublicKey() int
	Lookup(t int) int
	ParseRoundTrip() int
}

type askBidi[A p2p.Addr] interface {
	p2p.Asker[A]
	p2p.AskServer[A]
}

type gnode[A p2p.Addr] struct {
	sw  p2p.Swarm[A]
	ask askBidi[A]
	sec p2p.Secure[A, string]
	enc func(A) int
	dec func(int) A
}

func (g *gnode[A]) inHandlerKey(src A) (k int) {
	if g.sec == nil {
		return -2
	}
	defer func() {
		if r := recover(); r != nil {
			if err, ok := r.(error); ok && p2p.IsErrPublicKeyNotFound(err) {
				k = -1
			} else {
				k = -3
			}
		}
	}()
	return keyInt(p2p.LookupPublicKeyInHandler[A, string](g.sec, src), nil)
}

func (g *gnode[A]) Tell(ctx context.Context, dst int, v p2p.IOVec) error {
	return g.sw.Tell(ctx, g.dec(dst), v)
}

func (g *gnode[A]) Receive(ctx context.Context, viaHelper bool, fn func(seen)) error {
	if viaHelper {
		// p2p.Receive copies the message into a buffer of the caller, which already holds something else
		m := p2p.Message[A]{Payload: []byte("stale bytes that must be replaced entirely")}
		if err := p2p.Receive[A](ctx, g.sw, &m); err != nil {
			return err
		}
		fn(seen{src: g.enc(m.Src), dst: g.enc(m.Dst), payload: m.Payload, lk: -2})
		return nil
	}
	return g.sw.Receive(ctx, func(m p2p.Message[A]) {
		fn(seen{src: g.enc(m.Src), dst: g.enc(m.Dst), payload: append([]byte{}, m.Payload...), lk: g.inHandlerKey(m.Src)})
	})
}

func (g *gnode[A]) HasAsk() bool { return g.ask != nil }

func (g *gnode[A]) Ask(ctx context.Context, resp []byte, dst int, v p2p.IOVec) (int, error) {
	return g.ask.Ask(ctx, resp, g.dec(dst), v)
}

func (g *gnode[A]) ServeAsk(ctx context.Context, fn func(resp []byte, m seen) int) error {
	return g.ask.ServeAsk(ctx, func(ctx context.Context, resp []byte, m p2p.Message[A]) int {
		return fn(resp, seen{src: g.enc(m.Src), dst: g.enc(m.Dst), payload: append([]byte{}, m.Payload...), lk: g.inHandlerKey(m.Src)})
	})
}

func (g *gnode[A]) Close() error { return g.sw.Close() }

func (g *gnode[A]) LocalAddrs() []int {
	out := []int{}
	for _, a := range g.sw.LocalAddrs() {
		out = append(out, g.enc(a))
	}
	return out
}

func (g *gnode[A]) MTU() int { return g.sw.MTU() }

func (g *gnode[A]) PublicKey() int {
	if g.sec == nil {
		return -2
	}
	return keyInt(g.sec.PublicKey(), nil)
}

func (g *gnode[A]) Lookup(t int) int {
	if g.sec == nil {
		return -2
	}
	return keyInt(g.sec.LookupPublicKey(context.Background(), g.dec(t)))
}

func (g *gnode[A]) ParseRoundTrip() int {
	las := g.sw.LocalAddrs()
	if len(las) == 0 {
		return -1
	}
	data, err := las[0].MarshalText()
	if err != nil {
		return -1
	}
	a, err := g.sw.ParseAddr(data)
	if err != nil {
		return -1
	}
	return g.enc(a)
}

func encMem(a memswarm.Addr) int { return a.N }
func decMem(n int) memswarm.Addr { return memswarm.Addr{N: n} }
func encUp(a upAddr) int         { return a.M }
func decUp(n int) upAddr         { return upAddr{M: n} }

// ---------------------------------------------------------------------------

type pendingCall struct {
	cancel context.CancelFunc
}

type runner struct {
	b      *behaviour
	w      *trace.Writer
	mem    *memswarm.Realm
	sec    *memswarm.SecureRealm[string]
	vs     *vswarm.SecureRealm[memswarm.Addr, string]
	nodes  map[int]node
	order  []int
	pend   map[int]*pendingCall
	compCh chan completion
	mu     sync.Mutex
	dec    map[int]string    // scripted transform: tell id -> decision
	zdec   map[[2]int]string // ... for payloads too short to carry an id: (src, dst) -> decision
	panics []string
}

// ext: the address as the harness (and the log) sees it; for mapswarm runs that is the upper address
func (r *runner) ext(a int) int {
	if r.b.Wrap == "map" {
		return a + mapOff
	}
	return a
}

func (r *runner) transform() func(*memswarm.Message) bool {
	switch r.b.TfKind {
	case "tuple":
		return p2ptest.NewDropFirstTuple()
	case "pair":
		return p2ptest.NewDropFirstPairwise()
	case "script":
		return func(m *memswarm.Message) bool {
			id, _ := idOf(m.Payload)
			r.mu.Lock()
			d, ok := r.dec[id]
			if id < 0 || !ok {
				d = r.zdec[[2]int{m.Src.N, m.Dst.N}]
			}
			r.mu.Unlock()
			switch d {
			case "drop":
				return false
			case "altsrc":
				m.Src = memswarm.Addr{N: unknownAddr}
			case "altdst":
				m.Dst = memswarm.Addr{N: unknownAddr}
			case "grow":
				m.Payload = append(m.Payload, make([]byte, realMTU+1-len(m.Payload))...)
			}
			return true
		}
	}
	return nil
}

func (r *runner) setup() {
	opts := []memswarm.Option{memswarm.WithQueueLen(r.b.QLen), memswarm.WithMTU(realMTU)}
	if tf := r.transform(); tf != nil {
		opts = append(opts, memswarm.WithTellTransform(tf))
	}
	switch {
	case r.b.Kind == "vs":
		r.vs = vswarm.NewSecure[memswarm.Addr, string](memswarm.ParseAddr, opts...)
	case r.b.Secure:
		r.sec = memswarm.NewSecureRealm[string](opts...)
	default:
		r.mem = memswarm.NewRealm(opts...)
	}
	for i := 0; i < r.b.N0; i++ {
		if _, _, p := r.create(i); p != "" {
			r.panics = append(r.panics, p)
		}
	}
}

// create makes the node the model calls idx (for kind "vs": at address idx); returns (result, address seen, panic).
func (r *runner) create(idx int) (res string, ad int, pv string) {
	defer func() {
		if x := recover(); x != nil {
			res, pv = "panic", fmt.Sprint(x)
		}
	}()
	var n node
	wrap := func(s *vswarm.SecureSwarm[memswarm.Addr, string]) node {
		switch r.b.Wrap {
		case "wl":
			allowed := map[int]bool{}
			if idx < len(r.b.Allow) {
				for _, x := range r.b.Allow[idx] {
					allowed[x] = true
				}
			}
			ws := wlswarm.WrapSecureAsk[memswarm.Addr, string](s, func(a memswarm.Addr) bool { return allowed[a.N] })
			return &gnode[memswarm.Addr]{sw: ws, ask: ws, sec: ws, enc: encMem, dec: decMem}
		case "map":
			ms := mapswarm.NewSecure[upAddr, memswarm.Addr, string](s, mapDown, mapUp, parseUp)
			return &gnode[upAddr]{sw: ms, sec: ms, enc: encUp, dec: decUp}
		}
		return &gnode[memswarm.Addr]{sw: s, ask: s, sec: s, enc: encMem, dec: decMem}
	}
	switch {
	case r.vs != nil:
		s := r.vs.Create(memswarm.Addr{N: idx}, keyName(idx))
		if s == nil {
			return "inuse", -1, ""
		}
		n = wrap(s)
	case r.sec != nil:
		s := r.sec.NewSwarm(keyName(idx))
		if s == nil {
			return "inuse", -1, ""
		}
		n = wrap(s)
	default:
		s := r.mem.NewSwarm()
		if s == nil {
			return "inuse", -1, ""
		}
		if r.b.Wrap == "map" {
			n = &gnode[upAddr]{sw: mapswarm.New[upAddr, memswarm.Addr](s, mapDown, mapUp, parseUp), enc: encUp, dec: decUp}
		} else {
			n = &gnode[memswarm.Addr]{sw: s, ask: s, enc: encMem, dec: decMem}
		}
	}
	if _, had := r.nodes[idx]; !had {
		r.order = append(r.order, idx)
	}
	r.nodes[idx] = n
	ad = -1
	if la := n.LocalAddrs(); len(la) > 0 {
		ad = la[0]
	}
	return "new", ad, ""
}

func vec(p []byte) p2p.IOVec {
	if len(p) < 3 {
		return p2p.IOVec{p}
	}
	k := len(p) / 3
	return p2p.IOVec{p[:k], {}, p[k:]}
}

// immediate runs an operation that must not block and returns its result class.
func (r *runner) immediate(o opRec) (res string, ad int, pv string) {
	defer func() {
		if x := recover(); x != nil {
			res, pv = "panic", fmt.Sprint(x)
		}
	}()
	switch o.Op {
	case "new":
		return r.create(len(r.order))
	case "create":
		return r.create(o.B)
	case "tell":
		n := r.nodes[o.A]
		if n == nil {
			return "nonode", -1, ""
		}
		if r.b.TfKind == "script" {
			r.mu.Lock()
			r.dec[o.ID] = o.Tf
			if sizeOf(o.Sz) < 2 {
				r.zdec[[2]int{o.A, o.B}] = o.Tf
			}
			r.mu.Unlock()
		}
		p := pattern(o.ID, sizeOf(o.Sz))
		keep := append([]byte{}, p...)
		err := n.Tell(context.Background(), r.ext(o.B), vec(p))
		if string(keep) != string(p) {
			return "scribbled", -1, ""
		}
		return classify(err), -1, ""
	case "close":
		n := r.nodes[o.A]
		if n == nil {
			return "nonode", -1, ""
		}
		return classify(n.Close()), -1, ""
	case "cancel":
		if p := r.pend[o.T]; p != nil {
			p.cancel()
		}
		return "nil", -1, ""
	}
	return "badop", -1, ""
}

// start launches a call that may block; its completion arrives on compCh.
func (r *runner) start(o opRec, release <-chan struct{}) {
	ctx, cancel := context.WithCancel(context.Background())
	if o.Ctx == "cancelled" {
		cancel()
	}
	r.pend[o.ID] = &pendingCall{cancel: cancel}
	n := r.nodes[o.A]
	ch := r.compCh
	go func() {
		c := completion{ID: o.ID, Kind: o.Op, Src: -1, Dst: -1, Sz: "-", Lk: -2}
		defer func() {
			if x := recover(); x != nil {
				c.Res, c.Err = "panic", fmt.Sprint(x)
			}
			ch <- c
		}()
		<-release
		if n == nil || (o.Op != "recv" && !n.HasAsk()) {
			c.Res = "nonode"
			return
		}
		switch o.Op {
		case "recv":
			calls := 0
			err := n.Receive(ctx, o.ID%2 == 0, func(m seen) {
				calls++
				id, ok := idOf(m.payload)
				c.Pid, c.Ok, c.Src, c.Dst, c.Sz, c.Lk = id, ok, m.src, m.dst, classOf(len(m.payload)), m.lk
			})
			switch {
			case err != nil:
				c.Res, c.Err = classify(err), err.Error()
				if calls > 0 {
					c.Res = "multi"
				}
			case calls == 0:
				c.Res = "nocall"
			case calls > 1:
				c.Res = "multi"
			default:
				c.Res = "msg"
			}
		case "serve":
			calls := 0
			err := n.ServeAsk(ctx, func(resp []byte, m seen) int {
				calls++
				id, ok := idOf(m.payload)
				c.Pid, c.Ok, c.Src, c.Dst, c.Sz, c.Lk = id, ok, m.src, m.dst, classOf(len(m.payload)), m.lk
				if o.H == "neg" {
					return -1
				}
				return copy(resp, response(o.ID, id))
			})
			switch {
			case err != nil:
				c.Res, c.Err = classify(err), err.Error()
				if calls > 0 {
					c.Res = "multi"
				}
			case calls == 0:
				c.Res = "nocall"
			case calls > 1:
				c.Res = "multi"
			default:
				c.Res = "req"
			}
		case "ask":
			resp := make([]byte, 32)
			p := pattern(o.ID, sizeOf(o.Sz))
			nn, err := n.Ask(ctx, resp, r.ext(o.B), vec(p))
			if err != nil {
				c.Res, c.Err = classify(err), err.Error()
				if c.Res == "nil" {
					c.Res = "err"
				}
				return
			}
			c.Res = "ok"
			if nn >= 4 && nn <= len(resp) {
				c.Pid = int(resp[0])<<8 | int(resp[1])
				c.Ok = nn == respLen && string(resp[:nn]) == string(response(c.Pid, o.ID))
			}
		}
	}()
}

func (r *runner) observe() []nodeObs {
	out := []nodeObs{}
	for _, idx := range r.order {
		n := r.nodes[idx]
		func() {
			defer func() {
				if x := recover(); x != nil {
					r.panics = append(r.panics, fmt.Sprint(x))
				}
			}()
			o := nodeObs{A: r.ext(idx), La: n.LocalAddrs(), MtuOK: n.MTU() == realMTU, Pk: n.PublicKey(), Parse: n.ParseRoundTrip(), Lk: []lkRec{}}
			for _, t := range append(append([]int{}, r.order...), unknownAddr) {
				o.Lk = append(o.Lk, lkRec{T: r.ext(t), K: n.Lookup(r.ext(t))})
			}
			out = append(out, o)
		}()
	}
	return out
}

// collect waits for the w completions every outcome of the model has (patiently) and for those only some outcomes
// have (up to wx, briefly), then takes whatever else has arrived.
func (r *runner) collect(w, wx int) []completion {
	got := []completion{}
	deadline := time.Now().Add(patience)
	for len(got) < wx {
		if len(got) == w {
			deadline = time.Now().Add(patience / 50)
			w = -1
		}
		rem := time.Until(deadline)
		if rem <= 0 {
			break
		}
		select {
		case c := <-r.compCh:
			got = append(got, c)
		case <-time.After(rem):
		}
	}
	for k := 0; k < 4; k++ {
		runtime.Gosched()
	drain:
		for {
			select {
			case c := <-r.compCh:
				got = append(got, c)
			default:
				break drain
			}
		}
	}
	for _, c := range got {
		if p := r.pend[c.ID]; p != nil {
			p.cancel()
			delete(r.pend, c.ID)
		}
		if c.Res == "panic" {
			r.panics = append(r.panics, c.Err)
		}
	}
	return got
}

func (r *runner) runGroup(i int, g groupRec) {
	t0 := time.Now()
	ev := event{Ev: "grp", Beh: r.b.ID, I: i, Ops: make([]opRec, len(g.Ops)), Len: -1}
	copy(ev.Ops, g.Ops)
	release := make(chan struct{})
	type imm struct {
		j   int
		res string
		ad  int
		pv  string
	}
	immCh := make(chan imm, len(g.Ops))
	nimm := 0
	for j, o := range g.Ops {
		ev.Ops[j].Res, ev.Ops[j].Ad = "-", -1
		switch o.Op {
		case "recv", "serve", "ask":
			r.start(o, release)
		case "new", "create":
			// (creation mutates the harness's own tables: run in order, before the release)
			res, ad, pv := r.immediate(o)
			ev.Ops[j].Res, ev.Ops[j].Ad = res, ad
			if pv != "" {
				r.panics = append(r.panics, pv)
			}
		default:
			nimm++
			go func(j int, o opRec) {
				<-release
				res, ad, pv := r.immediate(o)
				immCh <- imm{j, res, ad, pv}
			}(j, o)
			ev.Ops[j].Res = "blocked"
		}
	}
	close(release)
	deadline := time.After(patience)
wait:
	for k := 0; k < nimm; k++ {
		select {
		case x := <-immCh:
			ev.Ops[x.j].Res, ev.Ops[x.j].Ad = x.res, x.ad
			if x.pv != "" {
				r.panics = append(r.panics, x.pv)
			}
		case <-deadline:
			break wait
		}
	}
	ev.Done = r.collect(g.W, max(g.W, g.Wx))
	ev.Ms = time.Since(t0).Milliseconds()
	r.finish(&ev)
}

func (r *runner) finish(ev *event) {
	ev.Obs = r.observe()
	if r.vs != nil {
		ev.Len = r.vs.Len()
	}
	ev.Panic = strings.Join(r.panics, "; ")
	r.panics = nil
	if ev.Done == nil {
		ev.Done = []completion{}
	}
	if ev.Ops == nil {
		ev.Ops = []opRec{}
	}
	r.w.Emit(ev)
}

func (r *runner) run() {
	r.setup()
	allow := r.b.Allow
	if allow == nil {
		allow = [][]int{}
	}
	r.w.Emit(event{Ev: "init", Beh: r.b.ID, Kind: r.b.Kind, Wrap: r.b.Wrap, TfKind: r.b.TfKind, QLen: r.b.QLen, N0: r.b.N0,
		Secure: r.b.Secure, Allow: allow, Ops: []opRec{}, Done: []completion{}, Obs: r.observe(), Len: -1, Panic: strings.Join(r.panics, "; ")})
	r.panics = nil
	for i, g := range r.b.Groups {
		r.runGroup(i+1, g)
	}
	// the end: every context is cancelled, every blocked call must return
	n := len(r.pend)
	for _, p := range r.pend {
		p.cancel()
	}
	ev := event{Ev: "grp", Beh: r.b.ID, I: len(r.b.Groups) + 1, Last: true, Len: -1}
	ev.Done = r.collect(n, n)
	r.finish(&ev)
	for _, idx := range r.order {
		func() {
			defer func() { recover() }()
			r.nodes[idx].Close()
		}()
	}
}

func main() {
	in := flag.String("in", "", "behaviours (ndjson)")
	out := flag.String("out", "", "trace (ndjson)")
	pure := flag.Bool("pure", false, "run the helper-law cases instead")
	pat := flag.Int("patience", 1000, "how long a call that must return is waited for (ms)")
	flag.Parse()
	patience = time.Duration(*pat) * time.Millisecond
	w, err := trace.Create(*out)
	if err != nil {
		fmt.Fprintln(os.Stderr, err)
		os.Exit(2)
	}
	if *pure {
		runPure(w)
		w.Close()
		fmt.Printf("pure: %d events\n", w.Count())
		return
	}
	f, err := os.Open(*in)
	if err != nil {
		fmt.Fprintln(os.Stderr, err)
		os.Exit(2)
	}
	sc := bufio.NewScanner(f)
	sc.Buffer(make([]byte, 1<<20), 1<<26)
	nb := 0
	t0 := time.Now()
	for sc.Scan() {
		var b behaviour
		if err := json.Unmarshal(sc.Bytes(), &b); err != nil {
			fmt.Fprintln(os.Stderr, "bad behaviour:", err)
			os.Exit(2)
		}
		r := &runner{b: &b, w: w, nodes: map[int]node{}, pend: map[int]*pendingCall{}, compCh: make(chan completion, 256),
			dec: map[int]string{}, zdec: map[[2]int]string{}}
		r.run()
		nb++
	}
	w.Close()
	fmt.Printf("%d behaviours, %d events, %.1fs\n", nb, w.Count(), time.Since(t0).Seconds())
}
