package main

// Cases for the helper laws of spec/VSwarmPure.tla: p2p.VecSize / VecBytes, p2p.Receive, LookupPublicKeyInHandler,
// DiscardTells / DiscardAsks, the p2ptest topologies, and the IP predicates / FilterIPs / ExpandUnspecifiedIPs of ip.go.

import (
	"context"
	"errors"
	"fmt"
	"net"
	"net/netip"

	"go.brendoncarroll.net/p2p"
	"go.brendoncarroll.net/p2p/p2ptest"
	"go.brendoncarroll.net/p2p/s/memswarm"
	"go.brendoncarroll.net/p2p/s/udpswarm"

	"verifharness/trace"
)

type pureEv struct {
	Ev    string `json:"ev"`
	Beh   int    `json:"beh"`
	Panic string `json:"panic"`
	// vec
	Out   []int   `json:"out"`
	V     [][]int `json:"v"`
	Size  int     `json:"size"`
	Bytes []int   `json:"bytes"`
	Same  bool    `json:"same"`
	// recvh / lkh / discard
	Src, Dst int      `json:"-"`
	S        int      `json:"s"`
	D        int      `json:"d"`
	Payload  []int    `json:"payload"`
	GS       int      `json:"gs"`
	GD       int      `json:"gd"`
	GPayload []int    `json:"gpayload"`
	Aliased  bool     `json:"aliased"`
	Err      string   `json:"err"`
	Known    bool     `json:"known"`
	Panicked bool     `json:"panicked"`
	Key      int      `json:"key"`
	CtxDone  bool     `json:"ctxdone"`
	Kind     string   `json:"kind"`
	N        int      `json:"n"`
	Consumed int      `json:"consumed"`
	Adj      [][]int  `json:"adj"`
	IP       []int    `json:"ip"`
	OG       bool     `json:"og"`
	NLL      bool     `json:"nll"`
	NLB      bool     `json:"nlb"`
	Xs       []ipRec  `json:"xs"`
	Ys       []ipRec  `json:"ys"`
	Preds    []string `json:"preds"`
	NIf      int      `json:"nif"`
}

type ipRec struct {
	ID   int   `json:"id"`
	IP   []int `json:"ip"`
	Port int   `json:"port"`
}

func ints(b []byte) []int {
	out := make([]int, len(b))
	for i, x := range b {
		out[i] = int(x)
	}
	return out
}

func guard(ev *pureEv, f func()) {
	defer func() {
		if x := recover(); x != nil {
			ev.Panic = fmt.Sprint(x)
		}
	}()
	f()
}

type fakeReceiver struct {
	msgs []p2p.Message[memswarm.Addr]
	err  error
	bufs [][]byte
}

func (f *fakeReceiver) Receive(ctx context.Context, fn func(p2p.Message[memswarm.Addr])) error {
	if len(f.msgs) == 0 {
		return f.err
	}
	m := f.msgs[0]
	f.msgs = f.msgs[1:]
	buf := append([]byte{}, m.Payload...)
	m.Payload = buf
	fn(m)
	for i := range buf { // the swarm reuses its buffer as soon as the callback has returned
		buf[i] = 0xEE
	}
	return nil
}

type fakeAskServer struct {
	n   int
	err error
}

func (f *fakeAskServer) ServeAsk(ctx context.Context, fn func(context.Context, []byte, p2p.Message[memswarm.Addr]) int) error {
	if f.n == 0 {
		return f.err
	}
	f.n--
	fn(ctx, make([]byte, 4), p2p.Message[memswarm.Addr]{})
	return nil
}

type fakeSecure struct {
	known   map[int]string
	ctxDone bool
}

func (f *fakeSecure) PublicKey() string { return "me" }
func (f *fakeSecure) LookupPublicKey(ctx context.Context, a memswarm.Addr) (string, error) {
	f.ctxDone = ctx.Err() != nil
	if k, ok := f.known[a.N]; ok {
		return k, nil
	}
	return "", p2p.ErrPublicKeyNotFound
}

// an address without an IP, and one that wraps another address
type noIP struct{ n int }

func (a noIP) MarshalText() ([]byte, error) { return []byte(fmt.Sprint("noip", a.n)), nil }
func (a noIP) String() string               { return fmt.Sprint("noip", a.n) }

func ipBytes(a netip.Addr) []int {
	if !a.IsValid() {
		return []int{}
	}
	return ints(a.AsSlice())
}

func runPure(w *trace.Writer) {
	id := 0
	emit := func(ev *pureEv) {
		id++
		ev.Beh = id
		if ev.Out == nil {
			ev.Out = []int{}
		}
		if ev.V == nil {
			ev.V = [][]int{}
		}
		if ev.Bytes == nil {
			ev.Bytes = []int{}
		}
		if ev.Payload == nil {
			ev.Payload = []int{}
		}
		if ev.GPayload == nil {
			ev.GPayload = []int{}
		}
		if ev.Adj == nil {
			ev.Adj = [][]int{}
		}
		if ev.IP == nil {
			ev.IP = []int{}
		}
		if ev.Xs == nil {
			ev.Xs = []ipRec{}
		}
		if ev.Ys == nil {
			ev.Ys = []ipRec{}
		}
		if ev.Preds == nil {
			ev.Preds = []string{}
		}
		w.Emit(ev)
	}
	// ---- VecSize / VecBytes
	bufs := [][]byte{nil, {}, {1}, {2, 3}, {4, 5, 6, 7, 8}}
	vecs := []p2p.IOVec{nil, {}, {nil}, {{}}, {bufs[2]}, {bufs[3], bufs[1], bufs[4]}, {bufs[4], nil, bufs[2], bufs[3]}, {bufs[1], bufs[1]}}
	outs := [][]byte{nil, {}, {9}, append(make([]byte, 0, 64), 10, 11)}
	for _, v := range vecs {
		for _, out := range outs {
			ev := &pureEv{Ev: "vec", Out: ints(out), V: [][]int{}}
			keep := [][]byte{}
			for _, b := range v {
				ev.V = append(ev.V, ints(b))
				keep = append(keep, append([]byte{}, b...))
			}
			guard(ev, func() {
				ev.Size = p2p.VecSize(v)
				ev.Bytes = ints(p2p.VecBytes(out, v))
			})
			ev.Same = true
			for i, b := range v {
				if string(b) != string(keep[i]) {
					ev.Same = false
				}
			}
			emit(ev)
		}
	}
	// ---- p2p.Receive
	for _, c := range []struct {
		payload, pre []byte
		fail         bool
	}{{[]byte{1, 2, 3}, nil, false}, {[]byte{}, []byte{7, 7, 7, 7}, false}, {[]byte{1, 2, 3, 4, 5, 6}, []byte{9}, false},
		{[]byte{5}, append(make([]byte, 0, 32), 8, 8, 8), false}, {nil, []byte{6, 6}, true}} {
		ev := &pureEv{Ev: "recvh", S: 3, D: 4, Payload: ints(c.payload), Err: "nil"}
		fr := &fakeReceiver{err: errors.New("stop")}
		if !c.fail {
			fr.msgs = []p2p.Message[memswarm.Addr]{{Src: memswarm.Addr{N: 3}, Dst: memswarm.Addr{N: 4}, Payload: c.payload}}
		}
		m := p2p.Message[memswarm.Addr]{Src: memswarm.Addr{N: -1}, Dst: memswarm.Addr{N: -1}, Payload: c.pre}
		guard(ev, func() {
			if err := p2p.Receive[memswarm.Addr](context.Background(), fr, &m); err != nil {
				ev.Err = err.Error()
			}
		})
		ev.GS, ev.GD, ev.GPayload = m.Src.N, m.Dst.N, ints(m.Payload)
		emit(ev)
	}
	// ---- LookupPublicKeyInHandler
	for _, target := range []int{1, 2, 5} {
		ev := &pureEv{Ev: "lkh", Key: -1}
		fs := &fakeSecure{known: map[int]string{1: "k1", 2: "k2"}}
		_, ev.Known = fs.known[target]
		func() {
			defer func() {
				if x := recover(); x != nil {
					ev.Panicked = true
				}
			}()
			ev.Key = keyInt(p2p.LookupPublicKeyInHandler[memswarm.Addr, string](fs, memswarm.Addr{N: target}), nil)
		}()
		ev.CtxDone = fs.ctxDone
		emit(ev)
	}
	// ---- DiscardTells / DiscardAsks
	for _, n := range []int{0, 1, 3} {
		ev := &pureEv{Ev: "discard", Kind: "tells", N: n}
		fr := &fakeReceiver{err: errors.New("stop")}
		for i := 0; i < n; i++ {
			fr.msgs = append(fr.msgs, p2p.Message[memswarm.Addr]{Payload: []byte{byte(i)}})
		}
		guard(ev, func() { ev.Err = fmt.Sprint(p2p.DiscardTells[memswarm.Addr](context.Background(), fr)) })
		ev.Consumed = n - len(fr.msgs)
		emit(ev)
		ev = &pureEv{Ev: "discard", Kind: "asks", N: n}
		fa := &fakeAskServer{n: n, err: errors.New("stop")}
		guard(ev, func() { ev.Err = fmt.Sprint(p2p.DiscardAsks[memswarm.Addr](context.Background(), fa)) })
		ev.Consumed = n - fa.n
		emit(ev)
	}
	// ---- p2ptest topologies
	for n := 0; n <= 6; n++ {
		for _, k := range []struct {
			name string
			f    func(int) p2ptest.AdjList
		}{{"chain", p2ptest.MakeChain}, {"ring", p2ptest.MakeRing}, {"cluster", p2ptest.MakeCluster}, {"hub", p2ptest.MakeHubAndSpoke}} {
			ev := &pureEv{Ev: "topo", Kind: k.name, N: n, Adj: [][]int{}}
			guard(ev, func() {
				for _, l := range k.f(n) {
					ev.Adj = append(ev.Adj, append([]int{}, l...))
				}
			})
			emit(ev)
		}
	}
	// ---- IP predicates
	ips := []string{"8.8.8.8", "10.0.0.1", "10.255.255.255", "11.0.0.0", "172.15.255.255", "172.16.0.1", "172.31.255.255", "172.32.0.0", "192.168.0.1",
		"192.167.255.255", "192.169.0.0", "169.254.1.1", "169.253.0.0", "127.0.0.1", "224.0.0.1", "224.0.1.1", "0.0.0.0", "255.255.255.255",
		"2606:4700::1", "2001:db8::1", "fe80::1", "febf::1", "fec0::1", "fe7f::1", "ff02::1", "ff01::1", "ff05::2", "ff12::1", "::1", "::", "fd00::2", "fc00::1",
		"::ffff:10.0.0.1", "::ffff:8.8.8.8"}
	for _, s := range ips {
		ip := net.ParseIP(s)
		canon := ip
		if v4 := ip.To4(); v4 != nil {
			canon = v4
		}
		for _, form := range []net.IP{ip, canon} {
			ev := &pureEv{Ev: "ipf", IP: ints(canon), N: len(form)}
			guard(ev, func() {
				ev.OG, ev.NLL, ev.NLB = p2p.OnlyGlobal(form), p2p.NoLinkLocal(form), p2p.NoLoopback(form)
			})
			emit(ev)
		}
	}
	// ---- FilterIPs
	mk := func(s string, port int) udpswarm.Addr {
		return udpswarm.Addr{IP: netip.MustParseAddr(s), Port: uint16(port)}
	}
	pool := []p2p.Addr{mk("127.0.0.1", 1), noIP{1}, mk("8.8.8.8", 2), mk("::1", 3), mk("2606:4700::1", 4), noIP{2}, mk("10.0.0.1", 5), mk("fe80::1", 6)}
	preds := map[string]func(netip.Addr) bool{
		"nolb": func(a netip.Addr) bool { return !a.IsLoopback() },
		"v4":   func(a netip.Addr) bool { return a.Is4() },
		"noll": func(a netip.Addr) bool { return !a.IsLinkLocalUnicast() },
	}
	for _, ps := range [][]string{{}, {"nolb"}, {"v4"}, {"nolb", "v4"}, {"noll", "nolb"}, {"v4", "noll", "nolb"}} {
		for _, sub := range [][]int{{}, {0, 1, 2, 3, 4, 5, 6, 7}, {7, 5, 3, 1}, {2, 2, 0}} {
			ev := &pureEv{Ev: "filter", Preds: ps, Xs: []ipRec{}, Ys: []ipRec{}}
			if len(ps) == 0 {
				ev.Preds = []string{}
			}
			xs := []p2p.Addr{}
			for _, i := range sub {
				xs = append(xs, pool[i])
				ip, _ := p2p.ExtractIP(pool[i])
				ev.Xs = append(ev.Xs, ipRec{ID: i, IP: ipBytes(ip)})
			}
			fs := []func(netip.Addr) bool{}
			for _, p := range ps {
				fs = append(fs, preds[p])
			}
			guard(ev, func() {
				for _, y := range p2p.FilterIPs(xs, fs...) {
					for i := range pool {
						if pool[i] == y {
							ip, _ := p2p.ExtractIP(y)
							ev.Ys = append(ev.Ys, ipRec{ID: i, IP: ipBytes(ip)})
						}
					}
				}
			})
			emit(ev)
		}
	}
	// ---- ExpandUnspecifiedIPs
	nif := 0
	if as, err := net.InterfaceAddrs(); err == nil {
		nif = len(as)
	}
	for _, in := range [][]udpswarm.Addr{{}, {mk("10.1.1.1", 7)}, {mk("0.0.0.0", 99)}, {mk("::", 98)}, {mk("10.1.1.1", 7), mk("0.0.0.0", 99), mk("::1", 5), mk("::", 98)}} {
		ev := &pureEv{Ev: "expand", NIf: nif, Xs: []ipRec{}, Ys: []ipRec{}}
		for i, a := range in {
			ev.Xs = append(ev.Xs, ipRec{ID: i, IP: ipBytes(a.IP), Port: int(a.Port)})
		}
		guard(ev, func() {
			for i, a := range p2p.ExpandUnspecifiedIPs(in) {
				ev.Ys = append(ev.Ys, ipRec{ID: i, IP: ipBytes(a.IP), Port: int(a.Port)})
			}
		})
		emit(ev)
	}
}
