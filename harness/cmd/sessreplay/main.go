// sessreplay replays TLC-generated behaviours of spec/Session.tla on real p2pke.Session objects.
// The harness is the network and the attacker: every message term of the behaviour is concretised
// into real bytes (honest terms are whatever the real sessions emit, attacker terms are forged with
// real cryptography by harness/attacker), every action's real result and the session's observable
// state are logged together with the ground truth about every message (who produced it, which
// transcript it binds to, whose private key signed it), and spec/SessionTrace.tla evaluates the
// property operators on that log.
package main

import (
	"bufio"
	"bytes"
	"crypto/ed25519"
	"encoding/json"
	"flag"
	"fmt"
	"math/rand"
	"os"
	"reflect"
	"time"

	"github.com/flynn/noise"
	"go.brendoncarroll.net/p2p/f/x509"
	"go.brendoncarroll.net/p2p/p/p2pke"
	"verifharness/attacker"
	"verifharness/trace"
)

type Term struct {
	T   string `json:"t"`
	By  string `json:"by"`
	Eph string `json:"eph"`
	Key string `json:"key"`
	Sig string `json:"sig"`
	Ref *Term  `json:"ref"`
	Dir string `json:"dir"`
	N   int    `json:"n"`
	Pt  int    `json:"pt"`
}

type Act struct {
	A     string `json:"a"`
	S     string `json:"s"`
	M     int    `json:"m"`
	Term  *Term  `json:"term"`
	Res   string `json:"res"`
	Reply int    `json:"reply"`
	Pt    int    `json:"pt"`
	Hs    int    `json:"hs"`
	Ready bool   `json:"ready"`
	Rk    string `json:"rk"`
	Ok    bool   `json:"ok"`
	N     int    `json:"n"`
}

type SessDef struct {
	Name string `json:"name"`
	Role string `json:"role"`
	Key  string `json:"key"`
	Eph  string `json:"eph"`
}

type Behaviour struct {
	ID     int       `json:"id"`
	Family string    `json:"family"`
	Settle bool      `json:"settle"`
	Probe  bool      `json:"probe"` // append the attack suffix (forged data under every owned handshake)
	// NoneSig: how the symbolic term "none" (a signature field that proves nothing) is concretised in this
	// behaviour: "" / "rand" = 64 random bytes, "empty" = absent field, "zero" = 64 zero bytes, "short" = 1 byte,
	// "long" = 65 random bytes. Every shape is "not a proof" for the ground truth.
	NoneSig string `json:"nonesig"`
	Sess   []SessDef `json:"sess"`
	Hist   []Act     `json:"hist"`
	Msgs   []Term    `json:"msgs"`
}

// Flat is the ground truth about one real message.
type Flat struct {
	ID  int    `json:"id"`
	T   string `json:"t"`
	By  string `json:"by"`
	Eph string `json:"eph"`
	Key string `json:"key"`
	Sig string `json:"sig"`
	Ref int    `json:"ref"`
	Dir string `json:"dir"`
	N   int    `json:"n"`
	Pt  int    `json:"pt"`
}

type Obs struct {
	Hs    int    `json:"hs"`
	Nonce int    `json:"nonce"`
	Ready bool   `json:"ready"`
	Rk    string `json:"rk"`
}

type Exp struct {
	Res   string `json:"res"`
	Reply bool   `json:"reply"`
	Hs    int    `json:"hs"`
	Ready bool   `json:"ready"`
	Rk    string `json:"rk"`
	Ok    bool   `json:"ok"`
	N     int    `json:"n"`
	Valid bool   `json:"valid"` // the model's prediction applies (faithful family, no divergence so far)
}

type Event struct {
	Ev     string    `json:"ev"`
	Beh    int       `json:"beh"`
	Family string    `json:"family"`
	Sess   []SessDef `json:"sess"`
	S      string    `json:"s"`
	M      int       `json:"m"`
	Res    string    `json:"res"`
	Reply  int       `json:"reply"`
	Pt     int       `json:"pt"`
	Ok     bool      `json:"ok"`
	N      int       `json:"n"`
	Idem   bool      `json:"idem"`
	Leak   bool      `json:"leak"`
	New    []Flat    `json:"new"`
	Obs    Obs       `json:"obs"`
	Exp    Exp       `json:"exp"`
	Panic  bool      `json:"panic"`
	PanicV string    `json:"panicv"`
	Why    string    `json:"why"`
	// settle
	ReadyI bool `json:"readyI"`
	ReadyR bool `json:"readyR"`
	FlowIR bool `json:"flowIR"`
	FlowRI bool `json:"flowRI"`
}

type realMsg struct {
	bytes []byte
	flat  Flat
}

type sess struct {
	def     SessDef
	s       *p2pke.Session
	ownIH   int
	ownRH   int
	ihRef   int
	rhRef   int
	lastHs  []byte
	lastHsI int
}

type run struct {
	b       *Behaviour
	w       *trace.Writer
	rng     *rand.Rand
	now     time.Time
	keys    map[string]ed25519.PrivateKey
	sess    map[string]*sess
	msgs    []realMsg   // real id = index+1
	bind    map[int]int // model id -> real id
	adv     *attacker.Adv
	advInit map[int]func() *noise.HandshakeState // real id of forged IH -> builds its initiator state
	owned   map[int]*attacker.Ciphers            // real id of RH -> transport keys the attacker knows
	pts     map[int][]byte
	valid   bool
}

var keyIndex = map[string]int{"A": 0, "B": 1, "M": 7}

func (r *run) keyName(pk x509.PublicKey) string {
	if pk.IsZero() {
		return "-"
	}
	for name, k := range r.keys {
		p := attacker.X509Public(k)
		if x509.EqualPublicKeys(&p, &pk) {
			return name
		}
	}
	return "?"
}

func (r *run) ptBytes(id int) []byte {
	if b, ok := r.pts[id]; ok {
		return b
	}
	b := []byte(fmt.Sprintf("PT%04d:", id))
	for i := 0; i < 14; i++ {
		b = append(b, byte(r.rng.Intn(256)))
	}
	r.pts[id] = b
	return b
}

func (r *run) ptID(b []byte) int {
	for id, x := range r.pts {
		if bytes.Equal(x, b) {
			return id
		}
	}
	return -1
}

func (r *run) observe(s *sess) Obs {
	hs, nonce := s.s.VerifState()
	return Obs{Hs: int(hs), Nonce: int(nonce), Ready: s.s.IsReady(), Rk: r.keyName(s.s.RemoteKey())}
}

func (r *run) find(b []byte) int {
	for i := range r.msgs {
		if bytes.Equal(r.msgs[i].bytes, b) {
			return i + 1
		}
	}
	return 0
}

func headerN(b []byte) int {
	if len(b) < 4 {
		return -1
	}
	n := int(uint32(b[0])<<24 | uint32(b[1])<<16 | uint32(b[2])<<8 | uint32(b[3]))
	return n
}

func outDir(role string) string {
	if role == "init" {
		return "i2r"
	}
	return "r2i"
}

// addHonest registers bytes emitted by an honest session and derives their ground truth from the
// real events (which message the session consumed before), not from the model.
func (r *run) addHonest(s *sess, b []byte, pt int, isData bool) (int, *Flat) {
	if id := r.find(b); id != 0 {
		return id, nil
	}
	n := headerN(b)
	f := Flat{By: s.def.Name, Eph: "-", Key: "-", Sig: "-", Dir: "-", N: n}
	kind := n
	if isData {
		kind = 16 // output of Send is a data record whatever counter it carries
	}
	switch kind {
	case 0:
		f.T, f.Eph, f.Key, f.Sig = "IH", s.def.Eph, s.def.Key, s.def.Key
	case 1:
		f.T, f.Eph, f.Key, f.Sig, f.Ref = "RH", s.def.Eph, s.def.Key, s.def.Key, s.ihRef
	case 2:
		f.T, f.Sig, f.Ref, f.Dir = "ID", s.def.Key, s.rhRef, "i2r"
	case 3:
		f.T, f.Ref, f.Dir = "RD", s.ownRH, "r2i"
	default:
		f.T, f.Dir, f.Pt = "D", outDir(s.def.Role), pt
		if s.def.Role == "init" {
			f.Ref = s.rhRef
		} else {
			f.Ref = s.ownRH
		}
	}
	r.msgs = append(r.msgs, realMsg{bytes: append([]byte{}, b...), flat: f})
	id := len(r.msgs)
	r.msgs[id-1].flat.ID = id
	if n == 0 && s.ownIH == 0 {
		s.ownIH = id
	}
	if n == 1 && s.ownRH == 0 {
		s.ownRH = id
	}
	ff := r.msgs[id-1].flat
	return id, &ff
}

func (r *run) leak(b []byte) bool {
	for _, p := range r.pts {
		if bytes.Contains(b, p) {
			return true
		}
	}
	return false
}

func guard(fn func()) (panicked bool, what string) {
	defer func() {
		if x := recover(); x != nil {
			panicked, what = true, fmt.Sprint(x)
		}
	}()
	fn()
	return
}

// modelID finds the model id of a term (deep equality in the behaviour's message table).
func (r *run) modelID(t *Term) int {
	if t == nil || t.T == "none" {
		return 0
	}
	for i := range r.b.Msgs {
		if reflect.DeepEqual(&r.b.Msgs[i], t) {
			return i + 1
		}
	}
	return 0
}

func (r *run) garbage(n int) []byte {
	b := make([]byte, n)
	for i := range b {
		b[i] = byte(r.rng.Intn(256))
	}
	return b
}

// badSig is the concretisation of the signature term "none" chosen for this behaviour.
func (r *run) badSig() []byte {
	switch r.b.NoneSig {
	case "empty":
		return nil
	case "zero":
		return make([]byte, 64)
	case "short":
		return r.garbage(1)
	case "long":
		return r.garbage(65)
	}
	return r.garbage(64)
}

// forge builds real bytes for an attacker term. Returns nil if the term cannot be built
// (a message it depends on does not exist in the real run).
func (r *run) forge(t *Term) (out []byte, flat *Flat, why string, post func(id int)) {
	f := &Flat{T: t.T, By: "M", Eph: t.Eph, Key: t.Key, Sig: t.Sig, Dir: t.Dir, N: t.N, Pt: t.Pt}
	refReal := 0
	if t.Ref != nil && t.Ref.T != "none" {
		mid := r.modelID(t.Ref)
		refReal = r.bind[mid]
		if refReal == 0 {
			return nil, nil, "referenced message does not exist in the real run", nil
		}
		f.Ref = refReal
	}
	keyBytes := func(name string) []byte { return attacker.X509PublicBytes(r.keys[name]) }
	switch t.T {
	case "IH":
		var kx, ts, sig []byte
		switch {
		case t.Key == "M" && t.Sig == "M":
			kx, ts, sig = r.adv.OwnClaim(r.now)
		case t.Sig == t.Key: // spliced triple of an honest key: copy it from an observed honest InitHello
			found := false
			for _, m := range r.msgs {
				if m.flat.T == "IH" && m.flat.By != "M" && m.flat.Key == t.Key {
					_, k2, t2, s2, err := attacker.ParseInitHello(m.bytes)
					if err == nil {
						kx, ts, sig, found = k2, t2, s2, true
					}
				}
			}
			if !found {
				return nil, nil, "no honest InitHello to splice from", nil
			}
		default: // garbage signature under a claimed key
			_, ts2, _ := r.adv.OwnClaim(r.now)
			kx, ts, sig = keyBytes(t.Key), ts2, r.badSig()
		}
		if t.Eph == "eM" {
			b, _ := r.adv.InitHello(kx, ts, sig)
			mk := func() *noise.HandshakeState { _, hs := r.adv.InitHello(kx, ts, sig); return hs }
			return b, f, "", func(id int) { r.advInit[id] = mk }
		}
		// somebody else's ephemeral
		for _, m := range r.msgs {
			if m.flat.T == "IH" && m.flat.Eph == t.Eph {
				eph, _, _, _, err := attacker.ParseInitHello(m.bytes)
				if err == nil {
					return attacker.InitHelloWithEph(eph, kx, ts, sig), f, "", nil
				}
			}
		}
		return nil, nil, "no InitHello with that ephemeral", nil
	case "RH":
		sigBytes := r.badSig()
		if len(t.Sig) == 2 && t.Sig[0] == 't' {
			// key K's signature over the TIMESTAMP of one of its InitHellos (sent in the clear), used as channel-binding signature
			sigBytes = nil
			for _, m := range r.msgs {
				if m.flat.T == "IH" && m.flat.By != "M" && m.flat.Key == t.Sig[1:] {
					if _, _, _, s2, err := attacker.ParseInitHello(m.bytes); err == nil {
						sigBytes = s2
					}
				}
			}
			if sigBytes == nil {
				return nil, nil, "no honest InitHello to take the timestamp signature from", nil
			}
		}
		b, c, err := r.adv.RespHello(r.msgs[refReal-1].bytes, keyBytes(t.Key), t.Sig == "M", sigBytes)
		if err != nil {
			return nil, nil, "cannot answer that InitHello: " + err.Error(), nil
		}
		return b, f, "", func(id int) { r.owned[id] = c }
	case "ID", "RD", "D":
		c := r.ownedCiphers(refReal)
		if c == nil {
			return nil, nil, "attacker does not own that handshake in the real run", nil
		}
		switch t.T {
		case "ID":
			if len(t.Sig) == 2 && t.Sig[0] == 'x' {
				// the signature a victim made as RESPONDER to the same InitHello, passed off as InitDone signature
				sig := r.reflectedSig(refReal, t.Sig[1:])
				if sig == nil {
					return nil, nil, "no honest RespHello to take the signature from", nil
				}
				return attacker.InitDoneSig(c, sig), f, "", nil
			}
			return r.adv.InitDone(c, t.Sig == "M", r.badSig()), f, "", nil
		case "RD":
			return attacker.RespDone(c), f, "", nil
		default:
			return attacker.Data(c, t.Dir == "i2r", uint32(t.N), r.ptBytes(t.Pt)), f, "", nil
		}
	case "BAD":
		return append(attacker.Hdr(uint32(t.N)), r.garbage(48)...), f, "", nil
	}
	return nil, nil, "unknown term", nil
}

func main() {
	in := flag.String("in", "", "behaviours (ndjson)")
	out := flag.String("out", "", "trace output (ndjson)")
	seed := flag.Int64("seed", 1, "seed")
	scale := flag.Bool("scale", false, "run the real-scale cases (no input)")
	flag.Parse()
	if *scale {
		scaleMain(*out)
		return
	}
	f, err := os.Open(*in)
	if err != nil {
		fmt.Fprintln(os.Stderr, err)
		os.Exit(2)
	}
	defer f.Close()
	w, err := trace.Create(*out)
	if err != nil {
		fmt.Fprintln(os.Stderr, err)
		os.Exit(2)
	}
	sc := bufio.NewScanner(f)
	sc.Buffer(make([]byte, 1<<20), 1<<28)
	n := 0
	for sc.Scan() {
		var b Behaviour
		if err := json.Unmarshal(sc.Bytes(), &b); err != nil {
			fmt.Fprintln(os.Stderr, "bad behaviour:", err)
			os.Exit(2)
		}
		replay(&b, w, *seed)
		n++
	}
	if err := w.Close(); err != nil {
		fmt.Fprintln(os.Stderr, err)
		os.Exit(2)
	}
	fmt.Printf("replayed=%d events=%d\n", n, w.Count())
}
