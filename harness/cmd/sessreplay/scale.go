package main

import (
	"context"
	"fmt"
	"sync"
	"time"

	"go.brendoncarroll.net/p2p"
	"go.brendoncarroll.net/p2p/f/x509"
	"go.brendoncarroll.net/p2p/p/p2pke"
	"go.uber.org/zap"
	"verifharness/attacker"
	"verifharness/trace"
)

// ScaleEvent is the result of one real-scale case (what the small model cannot hold: the real replay
// window, the real counter limit, real concurrency of Send).
type ScaleEvent struct {
	Ev        string `json:"ev"`
	Case      string `json:"case"`
	Beh       int    `json:"beh"`
	Sent      int    `json:"sent"`
	Accepted  int    `json:"accepted"`  // distinct plaintexts handed up
	DupAccept int    `json:"dupaccept"` // plaintexts handed up more than once
	Wrong     int    `json:"wrong"`     // plaintexts handed up that were never sent / are corrupted
	Replays   int    `json:"replays"`   // replayed ciphertexts offered
	SendOK    int    `json:"sendok"`
	SendErr   int    `json:"senderr"`
	DupNonce  int    `json:"dupnonce"` // emitted records sharing a counter under one key
	LowNonce  int    `json:"lownonce"` // data records carrying a handshake counter (< 16)
	MaxNonce  uint64 `json:"-"`
	Headroom  int    `json:"headroom"` // MaxNonce minus the largest counter used (limit case)
	Panic     bool   `json:"panic"`
	PanicV    string `json:"panicv"`
}

func pair() (*p2pke.Session, *p2pke.Session, time.Time) {
	now := time.Unix(1_700_000_000, 0)
	mk := func(k int, init bool) *p2pke.Session {
		return p2pke.NewSession(p2pke.SessionConfig{Registry: x509.DefaultRegistry(), PrivateKey: attacker.X509Private(attacker.TestKey(k)),
			IsInit: init, Now: now, RejectAfter: time.Hour})
	}
	i, r := mk(0, true), mk(1, false)
	m := i.Handshake(nil)
	for k := 0; k < 4 && len(m) > 0; k++ {
		var out []byte
		if k%2 == 0 {
			_, out, _ = r.Deliver(nil, m, now)
		} else {
			_, out, _ = i.Deliver(nil, m, now)
		}
		m = out
	}
	return i, r, now
}

func scaleWindow(id int) (ev ScaleEvent) {
	ev = ScaleEvent{Ev: "scale", Case: "window", Beh: id}
	defer func() {
		if x := recover(); x != nil {
			ev.Panic, ev.PanicV = true, fmt.Sprint(x)
		}
	}()
	i, r, now := pair()
	const n = 8300
	cts := make([][]byte, n)
	got := map[string]int{}
	sent := map[string]bool{}
	for k := 0; k < n; k++ {
		pt := fmt.Sprintf("W%06d:abcdefgh", k)
		sent[pt] = true
		c, err := i.Send(nil, []byte(pt), now)
		if err != nil {
			ev.SendErr++
			continue
		}
		ev.SendOK++
		cts[k] = c
	}
	ev.Sent = ev.SendOK
	deliver := func(c []byte) {
		if c == nil {
			return
		}
		isApp, out, err := r.Deliver(nil, c, now)
		if err == nil && isApp {
			got[string(out)]++
		}
	}
	// in order, then the oldest, one just inside and one just outside the window, the newest, and a sweep
	for _, c := range cts {
		deliver(c)
	}
	for _, k := range []int{0, 1, 7, 100, n - 8192, n - 8191, n - 4096, n - 64, n - 2, n - 1} {
		if k >= 0 && k < n {
			deliver(cts[k])
			ev.Replays++
		}
	}
	for k := 0; k < n; k += 97 {
		deliver(cts[k])
		ev.Replays++
	}
	for p, c := range got {
		ev.Accepted++
		if c > 1 {
			ev.DupAccept++
		}
		if !sent[p] {
			ev.Wrong++
		}
	}
	return ev
}

func scaleReorder(id int) (ev ScaleEvent) {
	ev = ScaleEvent{Ev: "scale", Case: "reorder", Beh: id}
	defer func() {
		if x := recover(); x != nil {
			ev.Panic, ev.PanicV = true, fmt.Sprint(x)
		}
	}()
	i, r, now := pair()
	const n = 2000
	got := map[string]int{}
	var cts [][]byte
	for k := 0; k < n; k++ {
		c, err := i.Send(nil, []byte(fmt.Sprintf("R%06d:abcdefgh", k)), now)
		if err == nil {
			ev.SendOK++
			cts = append(cts, c)
		}
	}
	ev.Sent = ev.SendOK
	// reverse order inside the window, every record twice
	for round := 0; round < 2; round++ {
		for k := len(cts) - 1; k >= 0; k-- {
			isApp, out, err := r.Deliver(nil, cts[k], now)
			if err == nil && isApp {
				got[string(out)]++
			}
			ev.Replays += round
		}
	}
	for _, c := range got {
		ev.Accepted++
		if c > 1 {
			ev.DupAccept++
		}
	}
	return ev
}

func scaleLimit(id int) (ev ScaleEvent) {
	ev = ScaleEvent{Ev: "scale", Case: "limit", Beh: id}
	defer func() {
		if x := recover(); x != nil {
			ev.Panic, ev.PanicV = true, fmt.Sprint(x)
		}
	}()
	i, _, now := pair()
	i.VerifSetNonce(p2pke.MaxNonce - 3)
	seen := map[int]bool{}
	for k := 0; k < 8; k++ {
		c, err := i.Send(nil, []byte("limit"), now)
		if err != nil {
			ev.SendErr++
			continue
		}
		ev.SendOK++
		n := headerN(c)
		if seen[n] {
			ev.DupNonce++
		}
		seen[n] = true
		if n < 16 {
			ev.LowNonce++ // wrapped around
		}
		if uint64(n) > ev.MaxNonce {
			ev.MaxNonce = uint64(n)
		}
	}
	ev.Sent = 8
	ev.Headroom = int(int64(p2pke.MaxNonce) - int64(ev.MaxNonce))
	return ev
}

func scaleConcurrent(id int) (ev ScaleEvent) {
	ev = ScaleEvent{Ev: "scale", Case: "concurrent", Beh: id}
	defer func() {
		if x := recover(); x != nil {
			ev.Panic, ev.PanicV = true, fmt.Sprint(x)
		}
	}()
	i, _, now := pair()
	var mu sync.Mutex
	seen := map[int]int{}
	var wg sync.WaitGroup
	for g := 0; g < 16; g++ {
		wg.Add(1)
		go func() {
			defer wg.Done()
			for k := 0; k < 300; k++ {
				c, err := i.Send(nil, []byte("concurrent"), now)
				mu.Lock()
				if err != nil {
					ev.SendErr++
				} else {
					ev.SendOK++
					seen[headerN(c)]++
				}
				mu.Unlock()
			}
		}()
	}
	wg.Wait()
	ev.Sent = 16 * 300
	for n, c := range seen {
		if c > 1 {
			ev.DupNonce++
		}
		if n < 16 {
			ev.LowNonce++
		}
	}
	return ev
}

// scaleChannel: 16 goroutines racing Channel.Send on an established pair; every record the sending
// channel emits must carry a distinct counter per session, every payload arrives at most once.
func scaleChannel(id int) (ev ScaleEvent) {
	ev = ScaleEvent{Ev: "scale", Case: "channel-concurrent", Beh: id}
	defer func() {
		if x := recover(); x != nil {
			ev.Panic, ev.PanicV = true, fmt.Sprint(x)
		}
	}()
	var mu sync.Mutex
	var a, b *p2pke.Channel
	got := map[string]int{}
	nonces := map[int]int{}
	mk := func(k int, peer **p2pke.Channel, countNonces bool) *p2pke.Channel {
		return p2pke.NewChannel(p2pke.ChannelConfig{PrivateKey: attacker.X509Private(attacker.TestKey(k)),
			AcceptKey: func(*x509.PublicKey) bool { return true }, Logger: zap.NewNop(), HandshakeBackoff: 10 * time.Millisecond,
			Send: func(x []byte) {
				x = append([]byte{}, x...)
				if countNonces && typeOfN(x) >= 16 {
					mu.Lock()
					nonces[typeOfN(x)]++
					mu.Unlock()
				}
				mu.Lock()
				dst := *peer
				mu.Unlock()
				go func() {
					out, _ := dst.Deliver(nil, x)
					if out != nil {
						mu.Lock()
						got[string(out)]++
						mu.Unlock()
					}
				}()
			}})
	}
	mu.Lock()
	a = mk(0, &b, true)
	b = mk(1, &a, false)
	mu.Unlock()
	defer a.Close()
	defer b.Close()
	var wg sync.WaitGroup
	for g := 0; g < 16; g++ {
		wg.Add(1)
		go func(g int) {
			defer wg.Done()
			for k := 0; k < 100; k++ {
				ctx, cf := context.WithTimeout(context.Background(), 5*time.Second)
				err := a.Send(ctx, p2p.IOVec{[]byte(fmt.Sprintf("C%02d.%03d:abcdefgh", g, k))})
				cf()
				mu.Lock()
				if err != nil {
					ev.SendErr++
				} else {
					ev.SendOK++
				}
				mu.Unlock()
			}
		}(g)
	}
	wg.Wait()
	time.Sleep(100 * time.Millisecond)
	mu.Lock()
	defer mu.Unlock()
	ev.Sent = 1600
	for _, c := range nonces {
		if c > 1 {
			ev.DupNonce++
		}
	}
	for _, c := range got {
		ev.Accepted++
		if c > 1 {
			ev.DupAccept++
		}
	}
	return ev
}

func typeOfN(b []byte) int { return headerN(b) }

func scaleMain(out string) {
	w, err := trace.Create(out)
	if err != nil {
		panic(err)
	}
	cases := []func(int) ScaleEvent{scaleWindow, scaleReorder, scaleLimit, scaleConcurrent, scaleChannel}
	evs := make([]ScaleEvent, len(cases))
	var wg sync.WaitGroup
	for i, c := range cases {
		wg.Add(1)
		go func(i int, c func(int) ScaleEvent) {
			defer wg.Done()
			evs[i] = c(900000 + i)
		}(i, c)
	}
	wg.Wait()
	for _, ev := range evs {
		w.Emit(ev)
	}
	w.Close()
	fmt.Printf("replayed=%d events=%d\n", len(cases), len(evs))
}
