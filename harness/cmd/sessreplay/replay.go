package main

import (
	"math/rand"
	"sort"
	"time"

	"github.com/flynn/noise"
	"go.brendoncarroll.net/p2p/f/x509"
	"go.brendoncarroll.net/p2p/p/p2pke"
	"verifharness/attacker"
	"verifharness/trace"

	"crypto/ed25519"
)

// ownedCiphers returns the transport keys of the handshake identified by RespHello rh if the
// attacker owns one of its ephemerals: either it forged rh itself, or rh answers an InitHello that
// the attacker built with its own ephemeral (then it completes the Noise handshake now).
func (r *run) ownedCiphers(rh int) *attacker.Ciphers {
	if c, ok := r.owned[rh]; ok {
		return c
	}
	if rh <= 0 || rh > len(r.msgs) {
		return nil
	}
	ih := r.msgs[rh-1].flat.Ref
	mk, ok := r.advInit[ih]
	if !ok {
		return nil
	}
	// a handshake state reads one RespHello: the attacker's InitHello is deterministic, so it is rebuilt
	c, _, err := attacker.ReadRespHello(mk(), r.msgs[rh-1].bytes)
	if err != nil {
		return nil
	}
	r.owned[rh] = c
	return c
}

// reflectedSig returns the signature of an honest RespHello made with key k that answers the same
// (attacker-built) InitHello as RespHello rh: the attacker owns the initiator ephemeral and can read it.
func (r *run) reflectedSig(rh int, k string) []byte {
	if rh <= 0 || rh > len(r.msgs) {
		return nil
	}
	ih := r.msgs[rh-1].flat.Ref
	mk, ok := r.advInit[ih]
	if !ok {
		return nil
	}
	for _, m := range r.msgs {
		if m.flat.T == "RH" && m.flat.By != "M" && m.flat.Key == k && m.flat.Sig == k && m.flat.Ref == ih {
			if _, _, sig, err := attacker.OpenRespHello(mk(), m.bytes); err == nil && len(sig) > 0 {
				return sig
			}
		}
	}
	return nil
}

func (r *run) emit(ev Event) {
	ev.Beh = r.b.ID
	ev.Family = r.b.Family
	if ev.New == nil {
		ev.New = []Flat{}
	}
	if ev.Sess == nil {
		ev.Sess = []SessDef{}
	}
	r.w.Emit(ev)
}

func replay(b *Behaviour, w *trace.Writer, seed int64) {
	r := &run{b: b, w: w, rng: rand.New(rand.NewSource(seed*1000003 + int64(b.ID))), now: time.Unix(1_700_000_000, 0),
		keys: map[string]ed25519.PrivateKey{}, sess: map[string]*sess{}, bind: map[int]int{},
		advInit: map[int]func() *noise.HandshakeState{}, owned: map[int]*attacker.Ciphers{}, pts: map[int][]byte{}, valid: true}
	for name, i := range keyIndex {
		r.keys[name] = attacker.TestKey(i)
	}
	if len(b.Family) >= 5 && b.Family[:5] == "weak_" {
		r.valid = false // scripts from a weakened model: its predictions do not apply to correct code
	}
	r.adv = attacker.New(r.keys["M"], []byte("attacker-ephemeral-seed-32-bytes"))
	for _, d := range b.Sess {
		s := &sess{def: d}
		s.s = p2pke.NewSession(p2pke.SessionConfig{Registry: x509.DefaultRegistry(), PrivateKey: attacker.X509Private(r.keys[d.Key]),
			IsInit: d.Role == "init", Now: r.now, RejectAfter: time.Hour})
		r.sess[d.Name] = s
	}
	r.emit(Event{Ev: "init", Sess: b.Sess})
	for i := range b.Hist {
		a := &b.Hist[i]
		if !r.step(a) {
			return
		}
	}
	if b.Settle {
		r.settle()
	}
	if b.Probe {
		r.probe()
	}
}

func (r *run) bindModel(model, real int) {
	if model == 0 || real == 0 {
		return
	}
	if cur, ok := r.bind[model]; ok && cur != real {
		r.valid = false
		return
	}
	r.bind[model] = real
}

func (r *run) step(a *Act) bool {
	switch a.A {
	case "hs":
		s := r.sess[a.S]
		ev := Event{Ev: "hs", S: a.S, Idem: true, Exp: Exp{Reply: a.M != 0, Valid: r.valid}}
		var out []byte
		p, what := guard(func() {
			out = s.s.Handshake(nil)
			again := s.s.Handshake(nil)
			if string(out) != string(again) {
				ev.Idem = false
			}
		})
		if p {
			ev.Panic, ev.PanicV = true, what
			r.emit(ev)
			return false
		}
		hsIdx, _ := s.s.VerifState()
		if s.lastHs != nil && s.lastHsI == int(hsIdx) && string(s.lastHs) != string(out) {
			ev.Idem = false // same progress state, different bytes
		}
		s.lastHs, s.lastHsI = append([]byte{}, out...), int(hsIdx)
		if len(out) > 0 {
			id, nf := r.addHonest(s, out, 0, false)
			ev.M = id
			if nf != nil {
				ev.New = []Flat{*nf}
				ev.Leak = r.leak(out)
			}
			r.bindModel(a.M, id)
		} else if a.M != 0 {
			r.valid = false
		}
		ev.Obs = r.observe(s)
		r.emit(ev)
	case "deliver":
		real := r.bind[a.M]
		if real == 0 {
			r.emit(Event{Ev: "skip", S: a.S, Why: "message does not exist in the real run"})
			r.valid = false
			return true
		}
		return r.doDeliver(a.S, real, a)
	case "send":
		s := r.sess[a.S]
		ev := Event{Ev: "send", S: a.S, Exp: Exp{Ok: a.Ok, N: a.N, Valid: r.valid}}
		// the model's plaintext id when it predicts success, a fresh private id otherwise
		pt := a.Pt
		if pt == 0 {
			pt = 1000 + len(r.pts)
		}
		var out []byte
		var err error
		p, what := guard(func() { out, err = s.s.Send(nil, r.ptBytes(pt), r.now) })
		if p {
			ev.Panic, ev.PanicV = true, what
			r.emit(ev)
			return false
		}
		if err == nil {
			ev.Ok = true
			ev.Pt = pt
			ev.N = headerN(out)
			id, nf := r.addHonest(s, out, pt, true)
			ev.M = id
			if nf != nil {
				ev.New = []Flat{*nf}
			}
			// the ciphertext must not contain the plaintext (or any other plaintext)
			ev.Leak = r.leak(out)
			r.bindModel(a.M, id)
		} else {
			delete(r.pts, pt)
			if a.Ok {
				r.valid = false
			}
		}
		if ev.Ok != a.Ok {
			r.valid = false
		}
		ev.Obs = r.observe(s)
		r.emit(ev)
	case "forge":
		out, flat, why, post := r.forge(a.Term)
		if out == nil {
			r.emit(Event{Ev: "skip", Why: "forge: " + why})
			return true
		}
		if id := r.find(out); id != 0 {
			r.bindModel(a.M, id)
			r.emit(Event{Ev: "skip", Why: "forge: identical bytes already exist"})
			return true
		}
		r.msgs = append(r.msgs, realMsg{bytes: out, flat: *flat})
		id := len(r.msgs)
		r.msgs[id-1].flat.ID = id
		if post != nil {
			post(id)
		}
		r.bindModel(a.M, id)
		r.emit(Event{Ev: "forge", M: id, New: []Flat{r.msgs[id-1].flat}})
	default:
		r.emit(Event{Ev: "skip", Why: "unknown action " + a.A})
	}
	return true
}

// doDeliver hands real message `real` to session sname and logs the real result; a is the model's action
// (nil for the attack probes of probe(), which carry no prediction).
func (r *run) doDeliver(sname string, real int, a *Act) bool {
	s := r.sess[sname]
	if a == nil {
		a = &Act{A: "deliver", S: sname}
	}
	ev := Event{Ev: "deliver", S: sname, M: real, Exp: Exp{Res: a.Res, Reply: a.Reply != 0, Hs: a.Hs, Ready: a.Ready, Rk: a.Rk, Valid: r.valid}}
	before, _ := s.s.VerifState()
	var isApp bool
	var out []byte
	var err error
	p, what := guard(func() { isApp, out, err = s.s.Deliver(nil, wireCopy(r.msgs[real-1].bytes), r.now) })
	if p {
		ev.Panic, ev.PanicV = true, what
		r.emit(ev)
		return false
	}
	after, _ := s.s.VerifState()
	n := headerN(r.msgs[real-1].bytes)
	switch {
	case err != nil:
		ev.Res = "err"
	case isApp:
		ev.Res = "app"
		ev.Pt = r.ptID(out)
	case n >= 0 && n <= 3:
		ev.Res = "hs"
	default:
		ev.Res = "drop"
	}
	// which transcript messages did the session consume (from its real progress)
	if s.def.Role == "resp" && before == 0 && after == 1 {
		s.ihRef = real
	}
	if s.def.Role == "init" && before == 0 && after == 2 {
		s.rhRef = real
	}
	if err == nil && !isApp && len(out) > 0 {
		id, nf := r.addHonest(s, out, 0, false)
		ev.Reply = id
		if nf != nil {
			ev.New = []Flat{*nf}
			ev.Leak = r.leak(out)
		}
		r.bindModel(a.Reply, id)
	} else if a.Reply != 0 {
		r.valid = false
	}
	ev.Obs = r.observe(s)
	if ev.Res != a.Res || ev.Obs.Hs != a.Hs {
		r.valid = false
	}
	r.emit(ev)
	return true
}

// probe is the attack suffix of a behaviour: for every handshake whose transport keys the attacker holds in the
// REAL run (it owns one of the ephemerals) it seals a data record in each direction and hands it to every
// session. Whatever state the behaviour left the sessions in, a record from the attacker may be handed to the
// application only by a session that authenticated the attacker's own key for that very handshake; the trace
// spec's monitors (Authentic, AuthBeforeUse, Agreement) judge the real outcome. No model prediction applies.
func (r *run) probe() {
	r.valid = false
	names := make([]string, 0, len(r.sess))
	for n := range r.sess {
		names = append(names, n)
	}
	sort.Strings(names)
	nmsgs := len(r.msgs)
	for id := 1; id <= nmsgs; id++ {
		if r.msgs[id-1].flat.T != "RH" {
			continue
		}
		c := r.ownedCiphers(id)
		if c == nil {
			continue
		}
		for _, dir := range []string{"i2r", "r2i"} {
			pt := 900 + len(r.pts)
			b := attacker.Data(c, dir == "i2r", 16, r.ptBytes(pt))
			r.msgs = append(r.msgs, realMsg{bytes: b, flat: Flat{T: "D", By: "M", Eph: "-", Key: "-", Sig: "-", Ref: id, Dir: dir, N: 16, Pt: pt}})
			mid := len(r.msgs)
			r.msgs[mid-1].flat.ID = mid
			r.emit(Event{Ev: "forge", M: mid, New: []Flat{r.msgs[mid-1].flat}})
			for _, n := range names {
				if !r.doDeliver(n, mid, nil) {
					return
				}
			}
		}
	}
}

// settle: each side's current handshake message is delivered once more, in sequence (I->R, R->I,
// I->R, R->I); then both must be ready and data must flow both ways (C06).
func (r *run) settle() {
	var I, R *sess
	for _, s := range r.sess {
		if s.def.Role == "init" {
			I = s
		} else {
			R = s
		}
	}
	ev := Event{Ev: "settle"}
	p, what := guard(func() {
		pass := func(from, to *sess) {
			m := from.s.Handshake(nil)
			if len(m) == 0 {
				return
			}
			to.s.Deliver(nil, wireCopy(m), r.now)
		}
		pass(I, R)
		pass(R, I)
		pass(I, R)
		pass(R, I)
		ev.ReadyI, ev.ReadyR = I.s.IsReady(), R.s.IsReady()
		flow := func(from, to *sess, pt int) bool {
			c, err := from.s.Send(nil, r.ptBytes(pt), r.now)
			if err != nil {
				return false
			}
			// the record joins the message table: it must not share key, direction and counter with an earlier one
			if id, nf := r.addHonest(from, c, pt, true); nf != nil {
				// ("sealed" with no session: the settle suffix's own deliveries are not logged, so the event must not
				// count as use of the session for the authentication monitors; it only extends the message table)
				r.emit(Event{Ev: "sealed", S: "-", Pt: pt, N: headerN(c), M: id, New: []Flat{*nf}, Leak: r.leak(c)})
			}
			isApp, out, err := to.s.Deliver(nil, wireCopy(c), r.now)
			return err == nil && isApp && string(out) == string(r.ptBytes(pt))
		}
		ev.FlowIR = flow(I, R, 5001)
		ev.FlowRI = flow(R, I, 5002)
	})
	if p {
		ev.Panic, ev.PanicV = true, what
	}
	r.emit(ev)
}

// wireCopy: every delivery hands the session its own copy of the wire bytes - a retransmission or a network
// duplicate is a new buffer with the same content, whatever the receiver did to the buffer of the first arrival
// (a session may open a message in place; it must still recognise the repeat).
func wireCopy(b []byte) []byte { return append([]byte(nil), b...) }
