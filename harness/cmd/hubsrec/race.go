package main

import (
	"bufio"
	"bytes"
	"context"
	"encoding/json"
	"fmt"
	"os"
	"strings"
	"sync"
	"sync/atomic"
	"time"
)

// RaceScript is a TLC-generated schedule of spec/UdpRecvGen.tla: an action order over
// {RCall r, Cancel r, Tell m, RCall late} plus the model's internal steps (used as hints).
type RaceScript struct {
	ID    int    `json:"id"`
	K     int    `json:"k"`
	NC    int    `json:"nc"`
	Pos   string `json:"pos"`  // control before ct tc after
	Race  bool   `json:"race"` // adjacent Cancel / Tell steps are issued from racing goroutines
	Steps []Step `json:"steps"`
}

func loadRaceScripts(path string) ([]RaceScript, error) {
	f, err := os.Open(path)
	if err != nil {
		return nil, err
	}
	defer f.Close()
	var out []RaceScript
	sc := bufio.NewScanner(f)
	sc.Buffer(make([]byte, 1<<20), 1<<24)
	for sc.Scan() {
		if len(bytes.TrimSpace(sc.Bytes())) == 0 {
			continue
		}
		var s RaceScript
		if err := json.Unmarshal(sc.Bytes(), &s); err != nil {
			return nil, err
		}
		out = append(out, s)
	}
	return out, sc.Err()
}

// runRaceWindow executes one schedule on a fresh target/peer pair of the given stack kind.
// Receivers use cancellable, non-expiring contexts; callbacks do not block.
func runRaceWindow(kind string, sc RaceScript, caseID, round int) ([]Ev, error) {
	st, err := newStack(kind)
	if err != nil {
		return nil, err
	}
	w := newWin(caseID)
	phase := sc.Pos
	if sc.Race {
		phase += "+race"
	}
	w.rec.log(Ev{Ev: "reset", Lvl: "dgram", Comp: st.Name, Phase: phase,
		Info: fmt.Sprintf("race=%d k=%d nc=%d round=%d", sc.ID, sc.K, sc.NC, round)})
	names := map[string]*Op{}
	var seen atomic.Int32
	told := 0
	startRecv := func(name string) {
		var op *Op
		ready := make(chan struct{})
		op = w.start("recv", 0, 0, func(ctx context.Context) (string, int) {
			<-ready
			err := st.Receive(ctx, func(p []byte) {
				m := parsePayload(caseID, p)
				w.rec.log(Ev{Ev: "CbBegin", Op: op.id, Kind: "recv", Msg: m, Digest: digest(p)})
				seen.Add(1)
				w.rec.log(Ev{Ev: "CbEnd", Op: op.id, Kind: "recv", Msg: m, Digest: digest(p)})
				poison(p)
			})
			return classify(ctx, err), 0
		})
		close(ready)
		names[name] = op
	}
	tell := func() {
		told++
		payload := mkPayload(caseID, told)
		w.rec.log(Ev{Ev: "Call", Op: 1000 + told, Kind: "tell", Msg: told, Digest: digest(payload)})
		ctx, cf := context.WithTimeout(context.Background(), time.Second)
		err := st.Tell(ctx, payload)
		cf()
		res := "ok"
		if err != nil {
			res = "other"
		}
		w.rec.log(Ev{Ev: "Ret", Op: 1000 + told, Kind: "tell", Msg: told, Res: res})
	}
	type cancelled struct {
		op *Op
		at time.Time
	}
	var cancels []cancelled
	cancel := func(name string) {
		if op := names[name]; op != nil {
			cancels = append(cancels, cancelled{op, time.Now()})
			w.cancelOp(op)
		}
	}
	awaitCancelled := func() {
		for _, c := range cancels {
			w.await(c.op, "cancel", c.at)
		}
	}

	// environment steps of the schedule; adjacent Cancel/Tell steps form one "same moment" group
	type envStep struct {
		a, op   string
		settle  bool // the model let the receivers reach their blocking point before this step
		ticked  bool // the model let the read deadline of a cancelled reader fire before this step
		afterCb bool // the model let a callback finish before this step
	}
	var env []envStep
	settle, ticked, afterCb := false, false, false
	for _, s := range sc.Steps {
		switch s.A {
		case "RCall", "Cancel", "Tell":
			env = append(env, envStep{s.A, s.Op, settle, ticked, afterCb})
			settle, ticked, afterCb = false, false, false
		case "Tick":
			ticked = true
		case "CbEnd":
			afterCb = true
		default:
			if s.Pc == "inread" || s.Pc == "parkacq" {
				settle = true
			}
		}
	}
	for i := 0; i < len(env); i++ {
		e := env[i]
		if e.ticked {
			awaitCancelled() // "before": the cancelled ops have returned (their poll deadline fired)
		}
		if e.afterCb {
			for t0 := time.Now(); time.Since(t0) < opTimeout && int(seen.Load()) < told; {
				time.Sleep(time.Millisecond)
			}
		}
		if e.settle {
			time.Sleep(10 * time.Millisecond) // the receivers are inside ReadFromUDP / waiting for recvSem
		}
		switch e.a {
		case "RCall":
			startRecv(e.op)
		case "Cancel", "Tell":
			// the group of adjacent Cancel / Tell steps (nothing else runs in between in the model)
			j := i
			for j+1 < len(env) && (env[j+1].a == "Cancel" || env[j+1].a == "Tell") && !env[j+1].settle && !env[j+1].ticked && !env[j+1].afterCb {
				j++
			}
			group := env[i : j+1]
			if sc.Race && len(group) > 1 {
				var wg sync.WaitGroup
				start := make(chan struct{})
				var mu sync.Mutex
				for _, g := range group {
					g := g
					wg.Add(1)
					go func() {
						defer wg.Done()
						<-start
						if g.a == "Tell" {
							tell()
						} else {
							mu.Lock()
							cancel(g.op)
							mu.Unlock()
						}
					}()
				}
				close(start)
				wg.Wait()
			} else {
				for _, g := range group {
					if g.a == "Tell" {
						tell()
					} else {
						cancel(g.op)
					}
				}
			}
			i = j
		}
	}
	awaitCancelled()
	// a healthy receiver is present (or was started late): everything told must have been seen
	healthy := false
	for _, op := range w.pending() {
		if op.kind == "recv" && op.ctx.Err() == nil {
			healthy = true
		}
	}
	for try := 0; try < 3 && int(seen.Load()) < told; try++ {
		t0 := time.Now()
		for time.Since(t0) < opTimeout && int(seen.Load()) < told {
			time.Sleep(2 * time.Millisecond)
		}
		if !hb.stalledSince(t0) {
			break
		}
	}
	if healthy || int(seen.Load()) >= told {
		w.rec.log(Ev{Ev: "Settle", N: int(seen.Load()), Info: fmt.Sprintf("told=%d seen=%d", told, seen.Load())})
	}
	// end: cancel what is left (promptness), close
	t0 := time.Now()
	rest := w.pending()
	for _, op := range rest {
		w.cancelOp(op)
	}
	for _, op := range rest {
		w.await(op, "cancel", t0)
	}
	evs := w.rec.seal()
	w.stop()
	close(w.abort)
	go func() { st.Close(); st.Cleanup() }()
	return evs, nil
}

func runRace(out, scriptsPath, stacksCSV string, rounds, workers, caseBase int) error {
	scripts, err := loadRaceScripts(scriptsPath)
	if err != nil {
		return err
	}
	sk, err := newSink(out)
	if err != nil {
		return err
	}
	type job struct {
		kind   string
		sc     RaceScript
		caseID int
		round  int
	}
	jobs := make(chan job, 64)
	var wg sync.WaitGroup
	var firstErr atomic.Value
	for i := 0; i < workers; i++ {
		wg.Add(1)
		go func() {
			defer wg.Done()
			for j := range jobs {
				evs, err := runRaceWindow(j.kind, j.sc, j.caseID, j.round)
				if err != nil {
					firstErr.CompareAndSwap(nil, err)
					continue
				}
				sk.write(evs)
			}
		}()
	}
	id := caseBase
	for _, kind := range strings.Split(stacksCSV, ",") {
		for r := 0; r < rounds; r++ {
			for _, sc := range scripts {
				id++
				jobs <- job{kind, sc, id, r}
			}
		}
	}
	close(jobs)
	wg.Wait()
	if e := firstErr.Load(); e != nil {
		return e.(error)
	}
	fmt.Fprintf(os.Stderr, "race: %d events\n", sk.n)
	return sk.close()
}
