// hubsrec is the Direction-B recorder/driver for properties C12 and C13.
//
//	-mode stress  seeded stress on the exported swarmutil.TellHub / AskHub / Queue:
//	              p producers, r receivers, random cancels and closes, runtime.Gosched
//	              injection, unique message ids, payload digests at callback entry/exit.
//	-mode race    the receive / cancel / Tell race on swarms whose Receive is its own loop (udpswarm,
//	              memswarm), from TLC-generated schedules (spec/UdpRecvGen.tla), every schedule repeated.
//	-mode matrix  the close matrix on real swarm stacks, driven by TLC-generated phase
//	              scripts (spec/HubsGen.tla); one child process per stack kind, so that the
//	              goroutine-release check sees only that stack's goroutines.
//
// Both modes write one ndjson history (Call/Ret/CbBegin/CbEnd/Cancel/Timeout/Leak/Panic
// events stamped from ONE global atomic counter, windows separated by reset events) that
// spec/HubsTrace.tla validates against the abstract history specification HubsHist.tla.
//
// A stuck operation never hangs the driver: every wait has a timeout, a Timeout(op) event
// is recorded if the op has not returned 1 s after Close returned / after its own cancel
// (healthy latency is microseconds), and the goroutine is abandoned.
package main

import (
	"bufio"
	"context"
	"encoding/binary"
	"encoding/json"
	"errors"
	"flag"
	"fmt"
	"hash/crc32"
	"os"
	"strconv"
	"sync"
	"sync/atomic"
	"time"

	"go.brendoncarroll.net/p2p"
)

// Ev is one history event. Every field is always present so that the trace
// specification can read any field of any event.
type Ev struct {
	Seq    uint64 `json:"seq"`
	Ev     string `json:"ev"` // reset Call Ret CbBegin CbEnd Cancel Timeout Leak Panic Quiesce
	Case   int    `json:"case"`
	Op     int    `json:"op"`
	Kind   string `json:"kind"` // recv serve deliver qdeliver tell ask close close2 purge
	Msg    int    `json:"msg"`
	Digest int    `json:"digest"`
	Res    string `json:"res"` // ok closed ctx other true false
	N      int    `json:"n"`
	After  string `json:"after"` // close | cancel (Timeout)
	Lvl    string `json:"lvl"`   // tellhub askhub queue stack (reset)
	Comp   string `json:"comp"`  // component / stack name (reset)
	Phase  string `json:"phase"` // phase tag of the script (reset)
	Cap    int    `json:"cap"`
	Fn     string `json:"fn"`   // Leak: outermost library function; Panic: message
	Info   string `json:"info"` // free text (script id, latency)
}

var gseq atomic.Uint64

// Rec collects the events of one window. The sequence number is taken under the
// window's mutex, so the slice is ordered by seq.
type Rec struct {
	mu     sync.Mutex
	evs    []Ev
	caseID int
	sealed bool
}

func (r *Rec) log(e Ev) {
	r.mu.Lock()
	if !r.sealed {
		e.Case = r.caseID
		e.Seq = gseq.Add(1)
		r.evs = append(r.evs, e)
	}
	r.mu.Unlock()
}

func (r *Rec) seal() []Ev {
	r.mu.Lock()
	defer r.mu.Unlock()
	r.sealed = true
	return r.evs
}

// ---------------------------------------------------------------------------
// heartbeat: detects stalls of the machine / runtime so that a Timeout is only
// recorded when the harness itself was running normally during the wait.

type heartbeat struct {
	mu   sync.Mutex
	gaps []time.Time // end times of observed gaps > stallGap
}

const stallGap = 150 * time.Millisecond

var hb heartbeat

func (h *heartbeat) run() {
	last := time.Now()
	for {
		time.Sleep(5 * time.Millisecond)
		now := time.Now()
		if now.Sub(last) > stallGap {
			h.mu.Lock()
			h.gaps = append(h.gaps, now)
			if len(h.gaps) > 64 {
				h.gaps = h.gaps[32:]
			}
			h.mu.Unlock()
		}
		last = now
	}
}

func (h *heartbeat) stalledSince(t time.Time) bool {
	h.mu.Lock()
	defer h.mu.Unlock()
	for _, g := range h.gaps {
		if g.After(t) {
			return true
		}
	}
	return false
}

// ---------------------------------------------------------------------------
// operations

var opTimeout = time.Second

type Op struct {
	id     int
	kind   string
	msg    int
	name   string // model name (scripts)
	ctx    context.Context
	cancel context.CancelFunc
	done   chan struct{}
	at     time.Time // when Call was logged
}

// Win is one window of a history: a set of operations on one object.
type Win struct {
	rec     *Rec
	mu      sync.Mutex
	ops     []*Op
	stopped bool
	abort   chan struct{}
}

func newWin(caseID int) *Win {
	return &Win{rec: &Rec{caseID: caseID}, abort: make(chan struct{})}
}

// start logs Call (before the operation is invoked) and runs f in a new goroutine,
// which logs Ret after f has returned. It returns nil once the window is stopped.
func (w *Win) start(kind string, msg, digest int, f func(ctx context.Context) (string, int)) *Op {
	return w.startGated(nil, kind, msg, digest, f)
}

// startGated is start, refused (under the window's lock) once *gate is set: the traffic loops of a
// stress window pass their stop flag, so that none of them can slip an operation into the
// sequential end phase of the window.
func (w *Win) startGated(gate *atomic.Bool, kind string, msg, digest int, f func(ctx context.Context) (string, int)) *Op {
	ctx, cancel := context.WithCancel(context.Background())
	w.mu.Lock()
	if w.stopped || (gate != nil && gate.Load()) {
		w.mu.Unlock()
		cancel()
		return nil
	}
	op := &Op{id: len(w.ops) + 1, kind: kind, msg: msg, ctx: ctx, cancel: cancel, done: make(chan struct{}), at: time.Now()}
	w.ops = append(w.ops, op)
	w.rec.log(Ev{Ev: "Call", Op: op.id, Kind: kind, Msg: msg, Digest: digest})
	w.mu.Unlock()
	go func() {
		defer close(op.done)
		defer func() {
			if p := recover(); p != nil {
				w.rec.log(Ev{Ev: "Panic", Op: op.id, Kind: kind, Msg: msg, Fn: fmt.Sprint(p)})
			}
		}()
		res, n := f(ctx)
		w.rec.log(Ev{Ev: "Ret", Op: op.id, Kind: kind, Msg: msg, Res: res, N: n})
	}()
	return op
}

// stop makes start refuse new operations and returns the operations started so far.
func (w *Win) stop() []*Op {
	w.mu.Lock()
	defer w.mu.Unlock()
	w.stopped = true
	return append([]*Op(nil), w.ops...)
}

func (w *Win) pending() []*Op {
	w.mu.Lock()
	defer w.mu.Unlock()
	var out []*Op
	for _, op := range w.ops {
		select {
		case <-op.done:
		default:
			out = append(out, op)
		}
	}
	return out
}

func (op *Op) returned() bool {
	select {
	case <-op.done:
		return true
	default:
		return false
	}
}

// cancelOp logs Cancel BEFORE cancelling the op's context.
func (w *Win) cancelOp(op *Op) {
	w.rec.log(Ev{Ev: "Cancel", Op: op.id, Kind: op.kind, Msg: op.msg})
	op.cancel()
}

// await waits until op has returned or the deadline (opTimeout after `from`) has passed;
// the wait is repeated (at most twice) when the heartbeat shows that the machine stalled.
// If the op still has not returned, a Timeout event is recorded and false is returned.
func (w *Win) await(op *Op, after string, from time.Time) bool {
	if op.at.After(from) {
		from = op.at // an op called after Close returned gets its second from its own call
	}
	for try := 0; try < 3; try++ {
		d := time.Until(from.Add(opTimeout))
		if d < 0 {
			d = 0
		}
		t0 := time.Now()
		select {
		case <-op.done:
			return true
		case <-time.After(d):
		}
		if !hb.stalledSince(minTime(from, t0)) {
			break
		}
		from = time.Now()
	}
	if op.returned() {
		return true
	}
	w.rec.log(Ev{Ev: "Timeout", Op: op.id, Kind: op.kind, Msg: op.msg, After: after,
		Info: "not returned " + strconv.Itoa(int(time.Since(from)/time.Millisecond)) + "ms after " + after})
	return false
}

func minTime(a, b time.Time) time.Time {
	if a.Before(b) {
		return a
	}
	return b
}

// classify maps an error to the result classes of the history specification.
// "ctx" only when the op's OWN context has ended and the error is that context's error.
func classify(ctx context.Context, err error) string {
	if err == nil {
		return "ok"
	}
	if ce := ctx.Err(); ce != nil && errors.Is(err, ce) {
		return "ctx"
	}
	if p2p.IsErrClosed(err) {
		return "closed"
	}
	return "other"
}

// ---------------------------------------------------------------------------
// payloads: unique message ids, digest of the bytes

const payloadLen = 28

func mkPayload(caseID, msg int) []byte {
	b := make([]byte, payloadLen)
	copy(b, "VRF1")
	binary.BigEndian.PutUint32(b[4:], uint32(caseID))
	binary.BigEndian.PutUint32(b[8:], uint32(msg))
	x := uint32(caseID)*2654435761 ^ uint32(msg)*40503
	for i := 12; i < payloadLen; i++ {
		x = x*1664525 + 1013904223
		b[i] = byte(x >> 24)
	}
	return b
}

// poison overwrites a payload the callback was handed, just before the callback returns. p2p.Receiver:
// "All of the message's fields may be modified inside fn. A message is only ever delivered to one place,
// so the message will never be accessed concurrently or after the call to fn."
func poison(b []byte) {
	for i := range b {
		b[i] = 0xA5
	}
}

func poisoned(b []byte) bool {
	for _, x := range b {
		if x != 0xA5 {
			return false
		}
	}
	return len(b) > 0
}

// parsePayload returns the message id, -1 for bytes this window did not send, and -2 for bytes that an
// earlier callback has overwritten (the buffer was handed out again after its callback returned).
func parsePayload(caseID int, b []byte) int {
	if poisoned(b) {
		return -2
	}
	if len(b) != payloadLen || string(b[:4]) != "VRF1" || int(binary.BigEndian.Uint32(b[4:])) != caseID {
		return -1
	}
	return int(binary.BigEndian.Uint32(b[8:]))
}

func digest(b []byte) int { return int(crc32.ChecksumIEEE(b) & 0x3fffffff) }

// ---------------------------------------------------------------------------
// output

type sink struct {
	mu sync.Mutex
	f  *os.File
	bw *bufio.Writer
	n  int
}

func newSink(path string) (*sink, error) {
	f, err := os.Create(path)
	if err != nil {
		return nil, err
	}
	return &sink{f: f, bw: bufio.NewWriterSize(f, 1<<20)}, nil
}

func (s *sink) write(evs []Ev) {
	s.mu.Lock()
	defer s.mu.Unlock()
	for i := range evs {
		data, err := json.Marshal(&evs[i])
		if err != nil {
			panic(err)
		}
		s.bw.Write(data)
		s.bw.WriteByte('\n')
		s.n++
	}
	s.bw.Flush()
}

func (s *sink) close() error {
	s.mu.Lock()
	defer s.mu.Unlock()
	s.bw.Flush()
	return s.f.Close()
}

func seedFromEnv() int64 {
	if v, err := strconv.ParseInt(os.Getenv("VERIF_SEED"), 10, 64); err == nil {
		return v
	}
	return 1
}

func main() {
	mode := flag.String("mode", "stress", "stress | matrix | matrix-child | race")
	out := flag.String("out", "", "ndjson history file")
	comps := flag.String("comps", "tellhub,askhub,queue", "stress: components")
	windows := flag.Int("windows", 500, "stress: windows per component")
	workers := flag.Int("workers", 8, "stress: concurrent windows")
	scripts := flag.String("scripts", "", "matrix: scripts file (json lines)")
	stacks := flag.String("stacks", "", "matrix: comma separated stack kinds (default all)")
	stack := flag.String("stack", "", "matrix-child: stack kind")
	from := flag.Int("from", 0, "matrix-child: first script index")
	caseBase := flag.Int("casebase", 0, "first case id")
	rounds := flag.Int("rounds", 5, "race: repetitions of every schedule")
	flag.Parse()
	if *out == "" {
		fmt.Fprintln(os.Stderr, "-out required")
		os.Exit(2)
	}
	go hb.run()
	seed := seedFromEnv()
	var err error
	switch *mode {
	case "stress":
		err = runStress(*out, *comps, *windows, *workers, seed, *caseBase)
	case "matrix":
		err = runMatrix(*out, *scripts, *stacks, seed, *caseBase)
	case "race":
		err = runRace(*out, *scripts, *stacks, *rounds, *workers, *caseBase)
	case "matrix-child":
		err = runMatrixChild(*out, *scripts, *stack, *from, seed, *caseBase)
	default:
		err = fmt.Errorf("unknown mode %q", *mode)
	}
	if err != nil {
		fmt.Fprintln(os.Stderr, "hubsrec:", err)
		os.Exit(2)
	}
}
