package main

import (
	"context"
	"crypto/ed25519"
	"encoding/binary"
	"errors"
	"fmt"
	"sync/atomic"
	"time"

	"go.brendoncarroll.net/exp/crypto/sign/sig_ed25519"
	"golang.org/x/crypto/ssh"

	"go.brendoncarroll.net/p2p"
	"go.brendoncarroll.net/p2p/f/x509"
	"go.brendoncarroll.net/p2p/p/mbapp"
	"go.brendoncarroll.net/p2p/p/p2pmux"
	"go.brendoncarroll.net/p2p/s/fragswarm"
	"go.brendoncarroll.net/p2p/s/memswarm"
	"go.brendoncarroll.net/p2p/s/multiswarm"
	"go.brendoncarroll.net/p2p/s/p2pkeswarm"
	"go.brendoncarroll.net/p2p/s/quicswarm"
	"go.brendoncarroll.net/p2p/s/sshswarm"
	"go.brendoncarroll.net/p2p/s/udpswarm"
)

// Stack is one swarm stack under test (the target) together with a peer of the same kind
// that sends to it. All functions hide the address type.
type Stack struct {
	Name     string
	Receive  func(ctx context.Context, fn func(payload []byte)) error
	ServeAsk func(ctx context.Context, fn func(req, resp []byte) int) error // nil: no ask support
	Tell     func(ctx context.Context, payload []byte) error                // peer -> target
	Ask      func(ctx context.Context, payload []byte) (int, error)         // peer -> target
	Reply    func(ctx context.Context, payload []byte) error                // target -> peer (from a handler)
	Close    func() error                                                   // the Close under test
	Cleanup  func()                                                         // closes the peer and whatever the target does not own
	Inners   []*innerCtl                                                    // inner swarms the target owns (variant kinds)
	Info     string
}

// innerCtl observes the inner swarm a wrapping stack owns: how often the stack closed it, and (variant
// "+innererr") makes its Close report an error AFTER really closing it, as quicswarm's joined errors or a
// twice-closed udpswarm do.
type innerCtl struct {
	name   string
	fail   bool
	closes atomic.Int32
	real   func() error
}

var errInnerClose = errors.New("inner swarm: shutdown reported an error")

func (ic *innerCtl) close() error {
	ic.closes.Add(1)
	err := ic.real()
	if ic.fail {
		return errInnerClose
	}
	return err
}

type innerSwarm struct {
	p2p.Swarm[memswarm.Addr]
	ic *innerCtl
}

func (s innerSwarm) Close() error { return s.ic.close() }

type innerSecureAsk struct {
	p2p.SecureAskSwarm[memswarm.Addr, struct{}]
	ic *innerCtl
}

func (s innerSecureAsk) Close() error { return s.ic.close() }

func wrapInner(name string, fail bool, x p2p.Swarm[memswarm.Addr]) (innerSwarm, *innerCtl) {
	ic := &innerCtl{name: name, fail: fail, real: x.Close}
	return innerSwarm{x, ic}, ic
}

func wrapInnerSecureAsk(name string, fail bool, x p2p.SecureAskSwarm[memswarm.Addr, struct{}]) (innerSecureAsk, *innerCtl) {
	ic := &innerCtl{name: name, fail: fail, real: x.Close}
	return innerSecureAsk{x, ic}, ic
}

// variantKinds: wrapping stacks that own their inner swarm (their Close closes it at HEAD), run with an inner
// swarm whose Close reports an error. p2pmux is left out: the mux has no Close and does not own the inner swarm.
var variantKinds = []string{"p2pmux+reopened", "fragswarm+innererr", "mbapp+innererr", "p2pkeswarm+innererr", "quicswarm+innererr", "multiswarm3+innererr"}

var stackKinds = []string{"memswarm", "fragswarm", "mbapp", "p2pmux", "multiswarm", "p2pkeswarm", "quicswarm", "sshswarm", "udpswarm"}

func wrap[A p2p.Addr](name string, target, peer p2p.Swarm[A], taddr, paddr A, closeFn func() error, cleanup func()) *Stack {
	st := &Stack{Name: name, Close: closeFn, Cleanup: cleanup}
	st.Receive = func(ctx context.Context, fn func([]byte)) error {
		return target.Receive(ctx, func(m p2p.Message[A]) { fn(m.Payload) })
	}
	st.Tell = func(ctx context.Context, payload []byte) error {
		return peer.Tell(ctx, taddr, p2p.IOVec{payload})
	}
	st.Reply = func(ctx context.Context, payload []byte) error {
		return target.Tell(ctx, paddr, p2p.IOVec{payload})
	}
	if as, ok := target.(p2p.AskServer[A]); ok {
		st.ServeAsk = func(ctx context.Context, fn func(req, resp []byte) int) error {
			return as.ServeAsk(ctx, func(_ context.Context, resp []byte, req p2p.Message[A]) int {
				return fn(req.Payload, resp)
			})
		}
	}
	if pa, ok := peer.(p2p.Asker[A]); ok && st.ServeAsk != nil {
		st.Ask = func(ctx context.Context, payload []byte) (int, error) {
			resp := make([]byte, 64)
			return pa.Ask(ctx, resp, taddr, p2p.IOVec{payload})
		}
	}
	return st
}

func testKey(i int) ed25519.PrivateKey {
	seed := make([]byte, 32)
	binary.BigEndian.PutUint64(seed[24:], uint64(i))
	return ed25519.NewKeyFromSeed(seed)
}

func x509Key(i int) x509.PrivateKey {
	k := testKey(i)
	sch := sig_ed25519.New()
	data := make([]byte, sch.PrivateKeySize())
	priv := sig_ed25519.PrivateKeyFromStandard(k)
	sch.MarshalPrivate(data, &priv)
	return x509.PrivateKey{Algorithm: x509.Algo_Ed25519, Data: data}
}

func closeQuietly(fs ...func() error) func() {
	return func() {
		done := make(chan struct{})
		go func() {
			defer close(done)
			defer func() { recover() }()
			for _, f := range fs {
				f()
			}
		}()
		select {
		case <-done:
		case <-time.After(2 * time.Second):
		}
	}
}

// newStack builds target and peer. The target is created LAST so that the goroutine
// baseline of the caller (taken before newStack) covers neither.
func newStack(kind string) (*Stack, error) { return newStackV(kind, 0) }

// newStackV: variant selects, for multiswarm3+innererr, which of the three transports fail (bit mask, 0 = all).
func newStackV(kind string, variant int) (*Stack, error) {
	switch kind {
	case "p2pmux+reopened":
		// the swarm under test is the SECOND swarm opened for its channel: the first one was opened and closed
		// before, and the application closes that old handle once more (Close is repeatable) just before it closes
		// the new one. The mux keys its registrations by channel id, not by swarm: whatever the old handle's
		// Close does to the table, the new swarm's Close must still end its Receive / ServeAsk calls.
		r := memswarm.NewSecureRealm[struct{}](memswarm.WithQueueLen(128))
		pin, tin := r.NewSwarm(struct{}{}), r.NewSwarm(struct{}{})
		peer := p2pmux.NewStringSecureAskMux[memswarm.Addr, struct{}](pin).Open("verif")
		tm := p2pmux.NewStringSecureAskMux[memswarm.Addr, struct{}](tin)
		old := tm.Open("verif")
		old.Close()
		target := tm.Open("verif")
		closeBoth := func() error {
			old.Close()
			return target.Close()
		}
		return wrap[memswarm.Addr](kind, p2p.Swarm[memswarm.Addr](target), p2p.Swarm[memswarm.Addr](peer), target.LocalAddrs()[0], peer.LocalAddrs()[0], closeBoth,
			closeQuietly(tin.Close, peer.Close, pin.Close)), nil
	case "fragswarm+innererr":
		r := memswarm.NewRealm(memswarm.WithQueueLen(128), memswarm.WithMTU(1<<12))
		peer := fragswarm.New[memswarm.Addr](r.NewSwarm(), 1<<16)
		in, ic := wrapInner("memswarm", true, r.NewSwarm())
		target := fragswarm.New[memswarm.Addr](in, 1<<16)
		st := wrap[memswarm.Addr](kind, target, peer, target.LocalAddrs()[0], peer.LocalAddrs()[0], target.Close, closeQuietly(peer.Close))
		st.Inners = []*innerCtl{ic}
		return st, nil
	case "mbapp+innererr":
		r := memswarm.NewSecureRealm[struct{}](memswarm.WithQueueLen(128), memswarm.WithMTU(1<<12))
		peer := mbapp.New[memswarm.Addr, struct{}](r.NewSwarm(struct{}{}), 1<<16)
		in, ic := wrapInnerSecureAsk("memswarm", true, r.NewSwarm(struct{}{}))
		target := mbapp.New[memswarm.Addr, struct{}](in, 1<<16)
		st := wrap[memswarm.Addr](kind, p2p.Swarm[memswarm.Addr](target), p2p.Swarm[memswarm.Addr](peer), target.LocalAddrs()[0], peer.LocalAddrs()[0], target.Close, closeQuietly(peer.Close))
		st.Inners = []*innerCtl{ic}
		return st, nil
	case "p2pkeswarm+innererr":
		r := memswarm.NewRealm(memswarm.WithQueueLen(128))
		peer := p2pkeswarm.New[memswarm.Addr](r.NewSwarm(), x509Key(1))
		in, ic := wrapInner("memswarm", true, r.NewSwarm())
		target := p2pkeswarm.New[memswarm.Addr](in, x509Key(2))
		st := wrap[p2pkeswarm.Addr[memswarm.Addr]](kind, target, peer, target.LocalAddrs()[0], peer.LocalAddrs()[0], target.Close, closeQuietly(peer.Close))
		st.Inners = []*innerCtl{ic}
		return st, nil
	case "quicswarm+innererr":
		r := memswarm.NewRealm(memswarm.WithQueueLen(128))
		peer, err := quicswarm.New[memswarm.Addr](r.NewSwarm(), x509Key(1))
		if err != nil {
			return nil, err
		}
		in, ic := wrapInner("memswarm", true, r.NewSwarm())
		target, err := quicswarm.New[memswarm.Addr](in, x509Key(2))
		if err != nil {
			return nil, err
		}
		st := wrap[quicswarm.Addr[memswarm.Addr]](kind, p2p.Swarm[quicswarm.Addr[memswarm.Addr]](target), p2p.Swarm[quicswarm.Addr[memswarm.Addr]](peer), target.LocalAddrs()[0], peer.LocalAddrs()[0], target.Close, closeQuietly(peer.Close))
		st.Inners = []*innerCtl{ic}
		return st, nil
	case "multiswarm3+innererr":
		if variant == 0 {
			variant = 7
		}
		r := memswarm.NewSecureRealm[struct{}](memswarm.WithQueueLen(128))
		names := []string{"ta", "tb", "tc"}
		var ics []*innerCtl
		mk := func(observe bool) p2p.SecureAskSwarm[multiswarm.Addr, struct{}] {
			m := map[string]multiswarm.DynSecureAskSwarm[struct{}]{}
			for i, n := range names {
				var x p2p.SecureAskSwarm[memswarm.Addr, struct{}] = r.NewSwarm(struct{}{})
				if observe {
					in, ic := wrapInnerSecureAsk(n, variant&(1<<i) != 0, x)
					ics = append(ics, ic)
					x = in
				}
				m[n] = multiswarm.WrapSecureAskSwarm[memswarm.Addr, struct{}](x)
			}
			return multiswarm.NewSecureAsk[struct{}](m)
		}
		peer, target := mk(false), mk(true)
		st := wrap[multiswarm.Addr](kind, p2p.Swarm[multiswarm.Addr](target), p2p.Swarm[multiswarm.Addr](peer), target.LocalAddrs()[0], peer.LocalAddrs()[0], target.Close, closeQuietly(peer.Close))
		st.Inners = ics
		st.Info = fmt.Sprintf("failing=%03b", variant)
		return st, nil
	case "memswarm":
		r := memswarm.NewRealm(memswarm.WithQueueLen(8))
		peer, target := r.NewSwarm(), r.NewSwarm()
		return wrap[memswarm.Addr](kind, target, peer, target.LocalAddrs()[0], peer.LocalAddrs()[0], target.Close, closeQuietly(peer.Close)), nil
	case "fragswarm":
		r := memswarm.NewRealm(memswarm.WithQueueLen(128), memswarm.WithMTU(1<<12))
		peer := fragswarm.New[memswarm.Addr](r.NewSwarm(), 1<<16)
		target := fragswarm.New[memswarm.Addr](r.NewSwarm(), 1<<16)
		return wrap[memswarm.Addr](kind, target, peer, target.LocalAddrs()[0], peer.LocalAddrs()[0], target.Close, closeQuietly(peer.Close)), nil
	case "mbapp":
		r := memswarm.NewSecureRealm[struct{}](memswarm.WithQueueLen(128), memswarm.WithMTU(1<<12))
		peer := mbapp.New[memswarm.Addr, struct{}](r.NewSwarm(struct{}{}), 1<<16)
		target := mbapp.New[memswarm.Addr, struct{}](r.NewSwarm(struct{}{}), 1<<16)
		return wrap[memswarm.Addr](kind, p2p.Swarm[memswarm.Addr](target), p2p.Swarm[memswarm.Addr](peer), target.LocalAddrs()[0], peer.LocalAddrs()[0], target.Close, closeQuietly(peer.Close)), nil
	case "p2pmux":
		r := memswarm.NewSecureRealm[struct{}](memswarm.WithQueueLen(128))
		pin, tin := r.NewSwarm(struct{}{}), r.NewSwarm(struct{}{})
		peer := p2pmux.NewStringSecureAskMux[memswarm.Addr, struct{}](pin).Open("verif")
		target := p2pmux.NewStringSecureAskMux[memswarm.Addr, struct{}](tin).Open("verif")
		// the mux has no Close of its own: its loops end when the inner swarm is closed (Cleanup)
		return wrap[memswarm.Addr](kind, p2p.Swarm[memswarm.Addr](target), p2p.Swarm[memswarm.Addr](peer), target.LocalAddrs()[0], peer.LocalAddrs()[0], target.Close,
			closeQuietly(tin.Close, peer.Close, pin.Close)), nil
	case "multiswarm":
		r := memswarm.NewSecureRealm[struct{}](memswarm.WithQueueLen(128))
		mk := func() p2p.SecureAskSwarm[multiswarm.Addr, struct{}] {
			return multiswarm.NewSecureAsk[struct{}](map[string]multiswarm.DynSecureAskSwarm[struct{}]{
				"mem": multiswarm.WrapSecureAskSwarm[memswarm.Addr, struct{}](r.NewSwarm(struct{}{})),
			})
		}
		peer, target := mk(), mk()
		return wrap[multiswarm.Addr](kind, p2p.Swarm[multiswarm.Addr](target), p2p.Swarm[multiswarm.Addr](peer), target.LocalAddrs()[0], peer.LocalAddrs()[0], target.Close, closeQuietly(peer.Close)), nil
	case "p2pkeswarm":
		r := memswarm.NewRealm(memswarm.WithQueueLen(128))
		peer := p2pkeswarm.New[memswarm.Addr](r.NewSwarm(), x509Key(1))
		target := p2pkeswarm.New[memswarm.Addr](r.NewSwarm(), x509Key(2))
		return wrap[p2pkeswarm.Addr[memswarm.Addr]](kind, target, peer, target.LocalAddrs()[0], peer.LocalAddrs()[0], target.Close, closeQuietly(peer.Close)), nil
	case "quicswarm":
		r := memswarm.NewRealm(memswarm.WithQueueLen(128))
		peer, err := quicswarm.New[memswarm.Addr](r.NewSwarm(), x509Key(1))
		if err != nil {
			return nil, err
		}
		target, err := quicswarm.New[memswarm.Addr](r.NewSwarm(), x509Key(2))
		if err != nil {
			return nil, err
		}
		return wrap[quicswarm.Addr[memswarm.Addr]](kind, p2p.Swarm[quicswarm.Addr[memswarm.Addr]](target), p2p.Swarm[quicswarm.Addr[memswarm.Addr]](peer), target.LocalAddrs()[0], peer.LocalAddrs()[0], target.Close, closeQuietly(peer.Close)), nil
	case "sshswarm":
		mk := func(i int) (*sshswarm.Swarm, error) {
			signer, err := ssh.NewSignerFromSigner(testKey(i))
			if err != nil {
				return nil, err
			}
			return sshswarm.New("127.0.0.1:", signer)
		}
		peer, err := mk(1)
		if err != nil {
			return nil, err
		}
		target, err := mk(2)
		if err != nil {
			return nil, err
		}
		return wrap[sshswarm.Addr](kind, p2p.Swarm[sshswarm.Addr](target), p2p.Swarm[sshswarm.Addr](peer), target.LocalAddrs()[0], peer.LocalAddrs()[0], target.Close, closeQuietly(peer.Close)), nil
	case "udpswarm":
		peer, err := udpswarm.New("127.0.0.1:")
		if err != nil {
			return nil, err
		}
		target, err := udpswarm.New("127.0.0.1:")
		if err != nil {
			return nil, err
		}
		return wrap[udpswarm.Addr](kind, target, peer, target.LocalAddrs()[0], peer.LocalAddrs()[0], target.Close, closeQuietly(peer.Close)), nil
	}
	return nil, fmt.Errorf("unknown stack kind %q", kind)
}
