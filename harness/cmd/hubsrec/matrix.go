package main

import (
	"bufio"
	"bytes"
	"context"
	"encoding/json"
	"fmt"
	"io"
	"os"
	"os/exec"
	"regexp"
	"runtime"
	"sort"
	"strconv"
	"strings"
	"sync"
	"time"
)

// Step is one action of a TLC-generated behaviour of spec/HubsGen.tla.
type Step struct {
	A  string `json:"a"`  // RCall DCall Cancel CCall CRet CbBegin CbEnd RChk RSel1 RSel2 DSel DWait
	Op string `json:"op"` // model op name
	Pc string `json:"pc"` // resulting pc ("park" = the op blocks) or "late"/"again"
}

// Script is a phase script: which ops are started, in which phase Close is issued.
type Script struct {
	ID    int    `json:"id"`
	Hub   string `json:"hub"` // tell: Receive + Tell ; ask: ServeAsk + Ask
	B     int    `json:"b"`   // receive ops blocked when Close is called
	Ph    string `json:"ph"`  // idle pre cb post cancel
	Reply bool   `json:"reply"`
	K     int    `json:"k"`     // deliveries in flight (called, not met) when Close is called, in model units
	W     int    `json:"w"`     // the model's worker count: K in {W, 2W} scales with the real worker count
	Procs int    `json:"procs"` // GOMAXPROCS of the child process that runs this script (0: default)
	Inner bool   `json:"inner"` // also run on the "+innererr" variants of the wrapping stacks
	Steps []Step `json:"steps"`
}

// backlogMult is the number of real deliveries per model delivery of the backlog: the model's W
// stands for the number of worker goroutines a stack uses to deliver into its hub, which is
// runtime.GOMAXPROCS(0) (or less) for every stack in the library.
func (sc *Script) backlogMult() int {
	if sc.W > 0 && sc.K >= sc.W {
		if n := runtime.GOMAXPROCS(0) / sc.W; n > 1 {
			return n
		}
	}
	return 1
}

func loadScripts(path string) ([]Script, error) {
	f, err := os.Open(path)
	if err != nil {
		return nil, err
	}
	defer f.Close()
	var out []Script
	sc := bufio.NewScanner(f)
	sc.Buffer(make([]byte, 1<<20), 1<<24)
	for sc.Scan() {
		if len(bytes.TrimSpace(sc.Bytes())) == 0 {
			continue
		}
		var s Script
		if err := json.Unmarshal(sc.Bytes(), &s); err != nil {
			return nil, err
		}
		out = append(out, s)
	}
	return out, sc.Err()
}

// ---------------------------------------------------------------------------
// goroutine-release check

const libPrefix = "go.brendoncarroll.net/p2p/"

var closureSuffix = regexp.MustCompile(`(\.func\d+|\.gowrap\d+|\.\d+)+$`)

type gInfo struct {
	id        int
	state     string
	libFn     string // outermost frame inside the library ("" if none)
	createdBy string
}

func stripArgs(line string) string {
	// "pkg.(*T).fn(0x1, {0x2, 0x3})" -> "pkg.(*T).fn"
	if !strings.HasSuffix(line, ")") {
		return line
	}
	depth := 0
	for i := len(line) - 1; i >= 0; i-- {
		switch line[i] {
		case ')':
			depth++
		case '(':
			depth--
			if depth == 0 {
				return line[:i]
			}
		}
	}
	return line
}

func allGoroutines() []gInfo {
	buf := make([]byte, 1<<20)
	for {
		n := runtime.Stack(buf, true)
		if n < len(buf) {
			buf = buf[:n]
			break
		}
		buf = make([]byte, 2*len(buf))
	}
	var out []gInfo
	for _, block := range strings.Split(string(buf), "\n\n") {
		lines := strings.Split(strings.TrimSpace(block), "\n")
		if len(lines) == 0 || !strings.HasPrefix(lines[0], "goroutine ") {
			continue
		}
		var g gInfo
		hdr := strings.Fields(lines[0])
		g.id, _ = strconv.Atoi(hdr[1])
		if i := strings.Index(lines[0], "["); i >= 0 {
			g.state = strings.Trim(lines[0][i:], "[]:")
		}
		for _, l := range lines[1:] {
			if strings.HasPrefix(l, "\t") {
				continue
			}
			if strings.HasPrefix(l, "created by ") {
				g.createdBy = strings.Fields(l)[2]
				continue
			}
			if strings.HasPrefix(l, libPrefix) {
				g.libFn = stripArgs(l)
			}
		}
		out = append(out, g)
	}
	return out
}

// leaked returns, per outermost library function, the goroutines that did not exist at the
// baseline, run library code and were not started by the harness itself.
func leaked(baseline map[int]bool) map[string][]gInfo {
	out := map[string][]gInfo{}
	for _, g := range allGoroutines() {
		if baseline[g.id] || g.libFn == "" || strings.HasPrefix(g.createdBy, "main.") || g.createdBy == "" {
			continue
		}
		fn := closureSuffix.ReplaceAllString(strings.TrimPrefix(g.libFn, libPrefix), "")
		out[fn] = append(out[fn], g)
	}
	return out
}

// ---------------------------------------------------------------------------
// one script on one stack

type cbInst struct{ release chan struct{} }

func runScript(st *Stack, sc Script, caseID int, baseline map[int]bool, grace time.Duration) ([]Ev, []string) {
	w := newWin(caseID)
	phase := sc.Ph
	if sc.Ph == "cbbacklog" {
		phase = "cb+backlog"
	}
	if sc.Reply {
		phase += "+reply"
	}
	mult := sc.backlogMult()
	w.rec.log(Ev{Ev: "reset", Lvl: "stack", Comp: st.Name, Phase: phase,
		Info: fmt.Sprintf("script=%d hub=%s b=%d k=%d inflight=%d gomaxprocs=%d %s", sc.ID, sc.Hub, sc.B, sc.K, sc.K*mult, runtime.GOMAXPROCS(0), st.Info)})
	names := map[string]*Op{}
	var gmu sync.Mutex
	var held []*cbInst
	began := make(chan struct{}, 256)
	releaseAll := make(chan struct{})
	var relOnce sync.Once
	releaseHeld := func() { relOnce.Do(func() { close(releaseAll) }) }
	msgSeq := 0
	var closeRetAt time.Time
	closeTimedOut := false
	nclose := 0

	mkCb := func(opRef **Op) func(payload, resp []byte) int {
		return func(payload, resp []byte) int {
			op := *opRef
			m := parsePayload(caseID, payload)
			w.rec.log(Ev{Ev: "CbBegin", Op: op.id, Kind: op.kind, Msg: m, Digest: digest(payload)})
			inst := &cbInst{release: make(chan struct{})}
			gmu.Lock()
			held = append(held, inst)
			gmu.Unlock()
			select {
			case began <- struct{}{}:
			default:
			}
			select {
			case <-inst.release:
			case <-releaseAll:
			case <-time.After(5 * time.Second):
			}
			if sc.Reply && st.Reply != nil {
				// a handler that answers the sender, as handlers do
				ctx, cf := context.WithTimeout(context.Background(), 500*time.Millisecond)
				st.Reply(ctx, mkPayload(caseID, 9000+m))
				cf()
			}
			n := 0
			if resp != nil {
				n = 1 + (m+5)%5
				for i := 0; i < n && i < len(resp); i++ {
					resp[i] = byte(m)
				}
			}
			w.rec.log(Ev{Ev: "CbEnd", Op: op.id, Kind: op.kind, Msg: m, Digest: digest(payload), N: n})
			poison(payload) // the callback owns the message (request bytes for ServeAsk): use that right
			return n
		}
	}
	startRecv := func(name string) {
		var op *Op
		ready := make(chan struct{})
		kind := "recv"
		if sc.Hub == "ask" {
			kind = "serve"
		}
		op = w.start(kind, 0, 0, func(ctx context.Context) (string, int) {
			<-ready
			var err error
			if sc.Hub == "ask" {
				err = st.ServeAsk(ctx, func(req, resp []byte) int { return mkCb(&op)(req, resp) })
			} else {
				err = st.Receive(ctx, func(p []byte) { mkCb(&op)(p, nil) })
			}
			return classify(ctx, err), 0
		})
		close(ready)
		names[name] = op
	}
	startDeliver := func(name string) {
		msgSeq++
		m := msgSeq
		payload := mkPayload(caseID, m)
		kind := "tell"
		if sc.Hub == "ask" {
			kind = "ask"
		}
		names[name] = w.start(kind, m, digest(payload), func(ctx context.Context) (string, int) {
			ctx2, cf := context.WithTimeout(ctx, 3*time.Second)
			defer cf()
			if sc.Hub == "ask" {
				n, err := st.Ask(ctx2, payload)
				return classify(ctx2, err), n
			}
			return classify(ctx2, st.Tell(ctx2, payload)), 0
		})
	}
	waitClose := func(op *Op) {
		select {
		case <-op.done:
		case <-time.After(300 * time.Millisecond):
			// e.g. Queue.Close waits for the callbacks that still hold a buffer: let them finish
			releaseHeld()
			if !w.await(op, "close", time.Now()) {
				closeTimedOut = true
				return
			}
		}
		if closeRetAt.IsZero() {
			closeRetAt = time.Now()
		}
	}

	lastPark := false
	for _, s := range sc.Steps {
		park := s.Pc == "park"
		if park && !lastPark {
			time.Sleep(3 * time.Millisecond) // let the started ops reach their blocking select
		}
		lastPark = park
		switch s.A {
		case "RCall":
			startRecv(s.Op)
		case "DCall":
			if s.Pc == "backlog" {
				for i := 0; i < mult; i++ {
					startDeliver(fmt.Sprintf("%s#%d", s.Op, i))
				}
			} else {
				startDeliver(s.Op)
			}
		case "Cancel":
			if op := names[s.Op]; op != nil {
				w.cancelOp(op)
				w.await(op, "cancel", time.Now())
			}
		case "CCall":
			kind := "close"
			if nclose > 0 {
				kind = "close2"
			}
			if nclose == 0 && (sc.Ph == "backlog" || sc.Ph == "cbbacklog") {
				// the backlog is IN the stack when Close is called: the peer's Tells have returned
				// (an Ask only returns when served) and the stack's workers had time to pick them up
				deadline := time.Now().Add(500 * time.Millisecond)
				for _, op := range w.pending() {
					if op.kind == "tell" {
						select {
						case <-op.done:
						case <-time.After(time.Until(deadline)):
						}
					}
				}
				time.Sleep(40 * time.Millisecond)
			}
			nclose++
			names[s.Op] = w.start(kind, 0, 0, func(ctx context.Context) (string, int) {
				return classify(ctx, st.Close()), 0
			})
		case "CRet":
			if op := names[s.Op]; op != nil && !closeTimedOut {
				waitClose(op)
			}
		case "CbBegin":
			// the model says a callback starts here; on a stack the message may still be in flight
			// (first contact needs a handshake) or, once Close was called, may never arrive
			d := 3 * time.Second
			if nclose > 0 {
				d = 300 * time.Millisecond
			}
			select {
			case <-began:
			case <-time.After(d):
			}
		case "CbEnd":
			gmu.Lock()
			if len(held) > 0 {
				close(held[0].release)
				held = held[1:]
			}
			gmu.Unlock()
		}
	}
	// finalisation: every Close returns, callbacks finish, every receive op ends after Close
	for _, op := range w.stop() {
		if (op.kind == "close" || op.kind == "close2") && !closeTimedOut {
			waitClose(op)
		}
	}
	releaseHeld()
	if !closeRetAt.IsZero() {
		for _, op := range w.stop() {
			if op.kind == "recv" || op.kind == "serve" {
				w.await(op, "close", closeRetAt)
			}
		}
	}
	weakDeadline := time.Now().Add(300 * time.Millisecond)
	for _, op := range w.stop() {
		if (op.kind == "tell" || op.kind == "ask") && !op.returned() {
			op.cancel()
		}
	}
	for _, op := range w.stop() {
		if op.kind == "tell" || op.kind == "ask" {
			select {
			case <-op.done:
			case <-time.After(time.Until(weakDeadline)):
			}
		}
	}
	// goroutine release: after the peer is closed too, nothing the library started may remain
	st.Cleanup()
	var leakFns []string
	graceStart := time.Now()
	deadline := graceStart.Add(grace)
	extended := 0
	for {
		lk := leaked(baseline)
		if len(lk) == 0 {
			break
		}
		if time.Now().After(deadline) && extended < 2 && hb.stalledSince(graceStart) {
			// the machine stalled during the grace period: measure again
			extended++
			graceStart = time.Now()
			deadline = graceStart.Add(grace)
			continue
		}
		if time.Now().After(deadline) {
			for fn, gs := range lk {
				leakFns = append(leakFns, fn)
				w.rec.log(Ev{Ev: "Leak", Fn: fn, N: len(gs), Info: gs[0].state + "; created by " + gs[0].createdBy})
			}
			break
		}
		time.Sleep(40 * time.Millisecond)
	}
	// every inner swarm the stack owns was closed by its Close (the wrapper counts the calls)
	if !closeRetAt.IsZero() {
		for _, ic := range st.Inners {
			if ic.closes.Load() == 0 {
				w.rec.log(Ev{Ev: "InnerOpen", Fn: ic.name, Info: "Close of the stack returned, this inner swarm was never closed; " + st.Info})
			}
		}
	}
	for _, ic := range st.Inners {
		if ic.closes.Load() == 0 {
			closeQuietly(ic.real)() // hygiene only, after the observations
		}
	}
	evs := w.rec.seal()
	for _, op := range w.stop() {
		op.cancel()
	}
	close(w.abort)
	sort.Strings(leakFns)
	return evs, leakFns
}

func runMatrixChild(out, scriptsPath, kind string, from int, seed int64, caseBase int) error {
	scripts, err := loadScripts(scriptsPath)
	if err != nil {
		return err
	}
	sk, err := newSink(out)
	if err != nil {
		return err
	}
	defer sk.close()
	seenLeak := map[string]int{}
	nvariant := from
	for i := from; i < len(scripts); i++ {
		sc := scripts[i]
		isVariant := strings.Contains(kind, "+")
		if isVariant && !sc.Inner {
			continue
		}
		baseline := map[int]bool{}
		for _, g := range allGoroutines() {
			baseline[g.id] = true
		}
		st, err := newStackV(kind, 7-(nvariant%7)) // multiswarm3: all three transports fail first, then every other subset
		nvariant++
		if err != nil {
			return fmt.Errorf("creating stack %s: %w", kind, err)
		}
		if sc.Hub == "ask" && (st.ServeAsk == nil || st.Ask == nil) {
			st.Close()
			st.Cleanup()
			sk.write([]Ev{{Ev: "reset", Seq: gseq.Add(1), Case: caseBase + i, Lvl: "stack", Comp: kind, Phase: "skip", Info: "no ask support"}})
			continue
		}
		grace := 1200 * time.Millisecond
		for _, n := range seenLeak {
			if n >= 2 {
				grace = 300 * time.Millisecond // the same leak again: no need to wait as long
			}
		}
		evs, leaks := runScript(st, sc, caseBase+i, baseline, grace)
		for _, fn := range leaks {
			seenLeak[fn]++
		}
		sk.write(evs)
	}
	return nil
}

// runMatrix runs one child process per stack kind (its own goroutine universe) in parallel and
// concatenates their histories. A child that dies (a panic inside the library) is recorded as a
// Panic event of the script it was running and restarted at the next script.
func runMatrix(out, scriptsPath, stacksCSV string, seed int64, caseBase int) error {
	scripts, err := loadScripts(scriptsPath)
	if err != nil {
		return err
	}
	kinds := stackKinds
	if stacksCSV != "" {
		kinds = strings.Split(stacksCSV, ",")
	}
	self, err := os.Executable()
	if err != nil {
		return err
	}
	type result struct {
		evs []byte
		err error
	}
	// one group of scripts per GOMAXPROCS value; every (stack kind, group) is a child process
	procsOf := []int{}
	groups := map[int][]Script{}
	for _, s := range scripts {
		if _, ok := groups[s.Procs]; !ok {
			procsOf = append(procsOf, s.Procs)
		}
		groups[s.Procs] = append(groups[s.Procs], s)
	}
	type unit struct {
		kind    string
		procs   int
		scripts []Script
		path    string
	}
	var units []unit
	for gi, procs := range procsOf {
		path := fmt.Sprintf("%s.scripts.%d", out, gi)
		f, err := os.Create(path)
		if err != nil {
			return err
		}
		enc := json.NewEncoder(f)
		for i := range groups[procs] {
			enc.Encode(&groups[procs][i])
		}
		f.Close()
		defer os.Remove(path)
		for _, kind := range kinds {
			units = append(units, unit{kind, procs, groups[procs], path})
		}
	}
	results := make([]result, len(units))
	var wg sync.WaitGroup
	for ki, u := range units {
		wg.Add(1)
		go func(ki int, u unit) {
			defer wg.Done()
			kind, scripts, scriptsPath := u.kind, u.scripts, u.path
			base := caseBase + (ki+1)*100000
			var all bytes.Buffer
			from := 0
			for attempt := 0; from < len(scripts) && attempt < 6; attempt++ {
				tmp := fmt.Sprintf("%s.%s.%d.%d", out, kind, ki, attempt)
				ctx, cf := context.WithTimeout(context.Background(), time.Duration(len(scripts)-from)*12*time.Second+30*time.Second)
				cmd := exec.CommandContext(ctx, self, "-mode", "matrix-child", "-stack", kind, "-scripts", scriptsPath,
					"-out", tmp, "-from", strconv.Itoa(from), "-casebase", strconv.Itoa(base))
				if u.procs > 0 {
					cmd.Env = append(os.Environ(), "GOMAXPROCS="+strconv.Itoa(u.procs))
				}
				var stderr bytes.Buffer
				cmd.Stderr = &stderr
				cmd.Stdout = io.Discard
				runErr := cmd.Run()
				cf()
				data, _ := os.ReadFile(tmp)
				os.Remove(tmp)
				all.Write(data)
				if runErr == nil {
					from = len(scripts)
					break
				}
				if ee, ok := runErr.(*exec.ExitError); ok && ee.ExitCode() == 2 && !bytes.Contains(stderr.Bytes(), []byte("panic:")) && !bytes.Contains(stderr.Bytes(), []byte("fatal error:")) {
					results[ki].err = fmt.Errorf("stack %s: %s", kind, strings.TrimSpace(stderr.String()))
					return
				}
				// the child died: find the script it was running
				started := bytes.Count(data, []byte(`"ev":"reset"`))
				crashed := from + started - 1
				if started == 0 {
					crashed = from
				}
				msg := "child process died: " + runErr.Error()
				for _, l := range strings.Split(stderr.String(), "\n") {
					if strings.HasPrefix(l, "panic:") || strings.HasPrefix(l, "fatal error:") {
						msg = l
						break
					}
				}
				if len(msg) > 300 {
					msg = msg[:300]
				}
				var evs []Ev
				if started == 0 {
					evs = append(evs, Ev{Ev: "reset", Seq: gseq.Add(1), Case: base + crashed, Lvl: "stack", Comp: kind, Phase: scripts[crashed].Ph, Info: "crashed before the first event"})
				}
				evs = append(evs, Ev{Ev: "Panic", Seq: gseq.Add(1), Case: base + crashed, Kind: "process", Fn: msg})
				for i := range evs {
					b, _ := json.Marshal(&evs[i])
					all.Write(b)
					all.WriteByte('\n')
				}
				from = crashed + 1
			}
			results[ki].evs = all.Bytes()
		}(ki, u)
	}
	wg.Wait()
	f, err := os.Create(out)
	if err != nil {
		return err
	}
	defer f.Close()
	for ki := range units {
		if results[ki].err != nil {
			return results[ki].err
		}
		f.Write(results[ki].evs)
	}
	return nil
}
