package main

import (
	"context"
	"fmt"
	"math/rand"
	"os"
	"runtime"
	"strings"
	"sync"
	"sync/atomic"
	"time"

	"go.brendoncarroll.net/p2p"
	"go.brendoncarroll.net/p2p/s/memswarm"
	"go.brendoncarroll.net/p2p/s/swarmutil"
)

type mAddr = memswarm.Addr

// hubUnderTest abstracts the three exported primitives behind the operations of the history spec.
type hubUnderTest struct {
	lvl, comp    string
	cap          int
	dkind, rkind string
	deliver      func(ctx context.Context, payload []byte) (string, int)
	receive      func(ctx context.Context, cb func(payload []byte, resp []byte) int) error
	close        func()
	purge        func() int
	qlen         func() int
}

func newHub(comp string, rng *rand.Rand) *hubUnderTest {
	src, dst := mAddr{N: 1}, mAddr{N: 2}
	switch comp {
	case "tellhub":
		h := swarmutil.NewTellHub[mAddr]()
		return &hubUnderTest{lvl: "tellhub", comp: "TellHub", dkind: "deliver", rkind: "recv",
			deliver: func(ctx context.Context, payload []byte) (string, int) {
				err := h.Deliver(ctx, p2p.Message[mAddr]{Src: src, Dst: dst, Payload: payload})
				return classify(ctx, err), 0
			},
			receive: func(ctx context.Context, cb func([]byte, []byte) int) error {
				return h.Receive(ctx, func(m p2p.Message[mAddr]) { cb(m.Payload, nil) })
			},
			close: func() { h.CloseWithError(nil) },
		}
	case "askhub":
		h := swarmutil.NewAskHub[mAddr]()
		return &hubUnderTest{lvl: "askhub", comp: "AskHub", dkind: "deliver", rkind: "serve",
			deliver: func(ctx context.Context, payload []byte) (string, int) {
				resp := make([]byte, 16)
				n, err := h.Deliver(ctx, resp, p2p.Message[mAddr]{Src: src, Dst: dst, Payload: payload})
				return classify(ctx, err), n
			},
			receive: func(ctx context.Context, cb func([]byte, []byte) int) error {
				return h.ServeAsk(ctx, func(_ context.Context, resp []byte, req p2p.Message[mAddr]) int {
					return cb(req.Payload, resp)
				})
			},
			close: func() { h.Close() },
		}
	case "queue":
		c := 1 + rng.Intn(3)
		q := swarmutil.NewQueue[mAddr](c, 64)
		return &hubUnderTest{lvl: "queue", comp: "Queue", cap: c, dkind: "qdeliver", rkind: "recv",
			deliver: func(ctx context.Context, payload []byte) (string, int) {
				// alternate between the two entry points, which share the select structure
				var ok bool
				if payload[len(payload)-1]&1 == 0 {
					ok = q.Deliver(p2p.Message[mAddr]{Src: src, Dst: dst, Payload: payload})
				} else {
					ok = q.DeliverVec(src, dst, p2p.IOVec{payload[:10], payload[10:]})
				}
				if ok {
					return "true", 0
				}
				return "false", 0
			},
			receive: func(ctx context.Context, cb func([]byte, []byte) int) error {
				return q.Receive(ctx, func(m p2p.Message[mAddr]) { cb(m.Payload, nil) })
			},
			close: func() { q.Close() },
			purge: func() int { return q.Purge() },
			qlen:  func() int { return q.Len() },
		}
	}
	panic("unknown component " + comp)
}

func jitter(rng *lockedRand) {
	switch rng.Intn(6) {
	case 0, 1:
		runtime.Gosched()
	case 2:
		runtime.Gosched()
		runtime.Gosched()
		runtime.Gosched()
	case 3:
		time.Sleep(time.Duration(rng.Intn(60)) * time.Microsecond)
	}
}

type lockedRand struct {
	mu sync.Mutex
	r  *rand.Rand
}

func (l *lockedRand) Intn(n int) int {
	l.mu.Lock()
	defer l.mu.Unlock()
	return l.r.Intn(n)
}

// per component: number of Timeout events seen; after a few the remaining windows are skipped
// (each stuck op costs a one second wait; the evidence does not get better)
var stuckCount sync.Map

func stuck(comp string) *atomic.Int32 {
	v, _ := stuckCount.LoadOrStore(comp, new(atomic.Int32))
	return v.(*atomic.Int32)
}

func stressWindow(comp string, caseID int, seed int64) []Ev {
	rng := &lockedRand{r: rand.New(rand.NewSource(seed))}
	h := newHub(comp, rng.r)
	w := newWin(caseID)
	w.rec.log(Ev{Ev: "reset", Lvl: h.lvl, Comp: h.comp, Cap: h.cap, Phase: "stress", Info: fmt.Sprint("seed=", seed)})

	nprod := 1 + rng.Intn(2)
	nrecv := 1 + rng.Intn(3)
	cancelPct := []int{0, 10, 30}[rng.Intn(3)]
	midClose := rng.Intn(100) < 35
	endByClose := rng.Intn(2) == 0
	var msgSeq atomic.Int32
	var closeOnce sync.Once
	var closedAt atomic.Int64
	var loopStop atomic.Bool

	cb := func(opRef **Op) func(payload, resp []byte) int {
		return func(payload, resp []byte) int {
			op := *opRef
			m := parsePayload(caseID, payload)
			w.rec.log(Ev{Ev: "CbBegin", Op: op.id, Kind: op.kind, Msg: m, Digest: digest(payload)})
			jitter(rng)
			n := 0
			if resp != nil {
				n = 1 + m%5
				for i := 0; i < n && i < len(resp); i++ {
					resp[i] = byte(m)
				}
			}
			jitter(rng)
			w.rec.log(Ev{Ev: "CbEnd", Op: op.id, Kind: op.kind, Msg: m, Digest: digest(payload), N: n})
			poison(payload) // the callback owns the message: use that right
			return n
		}
	}
	startRecvG := func(gate *atomic.Bool) *Op {
		var op *Op
		ready := make(chan struct{})
		op = w.startGated(gate, h.rkind, 0, 0, func(ctx context.Context) (string, int) {
			<-ready
			err := h.receive(ctx, cb(&op))
			return classify(ctx, err), 0
		})
		close(ready)
		return op
	}
	startRecv := func() *Op { return startRecvG(nil) }
	startDeliverG := func(gate *atomic.Bool) *Op {
		m := int(msgSeq.Add(1))
		payload := mkPayload(caseID, m)
		return w.startGated(gate, h.dkind, m, digest(payload), func(ctx context.Context) (string, int) {
			return h.deliver(ctx, payload)
		})
	}
	startDeliver := func() *Op { return startDeliverG(nil) }
	doClose := func(kind string) *Op {
		op := w.startForce(kind, func(ctx context.Context) (string, int) {
			h.close()
			return "ok", 0
		})
		return op
	}
	waitOp := func(op *Op) bool {
		select {
		case <-op.done:
			return true
		case <-w.abort:
			return false
		}
	}

	var prodWG sync.WaitGroup
	for p := 0; p < nprod; p++ {
		prodWG.Add(1)
		nmsg := 1 + rng.Intn(3)
		go func() {
			defer prodWG.Done()
			for i := 0; i < nmsg && !loopStop.Load(); i++ {
				jitter(rng)
				late := closedAt.Load() != 0
				op := startDeliverG(&loopStop)
				if op == nil || !waitOp(op) || late {
					return
				}
			}
		}()
	}
	for r := 0; r < nrecv; r++ {
		go func() {
			for i := 0; i < 6 && !loopStop.Load(); i++ {
				jitter(rng)
				late := closedAt.Load() != 0
				op := startRecvG(&loopStop)
				if op == nil || !waitOp(op) || late {
					return
				}
			}
		}()
	}
	// chaos: cancels and (maybe) a Close racing with the traffic
	prodDone := make(chan struct{})
	go func() { prodWG.Wait(); close(prodDone) }()
	closeNow := func(kind string) {
		op := doClose(kind)
		if w.await(op, "close", time.Now()) {
			closedAt.CompareAndSwap(0, time.Now().UnixNano())
		}
	}
	steps := 2 + rng.Intn(6)
	closeStep := rng.Intn(steps)
	for i := 0; i < steps; i++ {
		jitter(rng)
		if cancelPct > 0 {
			for _, op := range w.pending() {
				if op.kind != "close" && rng.Intn(100) < cancelPct {
					w.cancelOp(op)
				}
			}
		}
		if midClose && i == closeStep {
			closeOnce.Do(func() { closeNow("close") })
		}
	}
	select {
	case <-prodDone:
	case <-time.After(50 * time.Millisecond):
	}
	// end of the window: no new operations; everything pending is ended by cancel or by Close
	loopStop.Store(true)
	ops := w.stop()
	wasClosed := closedAt.Load() != 0
	if !wasClosed && !endByClose {
		t0 := time.Now()
		for _, op := range ops {
			if !op.returned() {
				w.cancelOp(op)
			}
		}
		for _, op := range ops {
			w.await(op, "cancel", t0)
		}
		// the queue is at rest and was never closed: whatever was accepted is still there, or was seen
		if h.lvl == "queue" && len(w.pending()) == 0 {
			w.reopen()
			if rng.Intn(2) == 0 {
				p := w.start("purge", 0, 0, func(ctx context.Context) (string, int) { return "ok", h.purge() })
				w.await(p, "cancel", time.Now())
			} else {
				for guard := 0; h.qlen() > 0 && guard < 8; guard++ {
					op := startRecv()
					if !w.await(op, "cancel", time.Now()) {
						break
					}
				}
			}
			w.stop()
			if len(w.pending()) == 0 && h.qlen() == 0 {
				w.rec.log(Ev{Ev: "Quiesce"})
			}
		}
	}
	closeOnce.Do(func() { closeNow("close") })
	t0 := time.Unix(0, closedAt.Load())
	if closedAt.Load() != 0 {
		for _, op := range w.stop() {
			if op.kind != "close" {
				w.await(op, "close", t0)
			}
		}
		// calls made after Close has returned
		w.reopen()
		late := []*Op{startRecv(), startDeliver()}
		c2 := doClose("close2")
		t1 := time.Now()
		for _, op := range append(late, c2) {
			if op != nil {
				w.await(op, "close", t1)
			}
		}
	}
	evs := w.rec.seal()
	for _, op := range w.stop() {
		op.cancel()
	}
	close(w.abort)
	for _, e := range evs {
		if e.Ev == "Timeout" {
			stuck(comp).Add(1)
		}
	}
	return evs
}

// startForce starts an operation even when the window is stopped (Close itself).
func (w *Win) startForce(kind string, f func(ctx context.Context) (string, int)) *Op {
	w.mu.Lock()
	was := w.stopped
	w.stopped = false
	w.mu.Unlock()
	op := w.start(kind, 0, 0, f)
	w.mu.Lock()
	w.stopped = was
	w.mu.Unlock()
	return op
}

func (w *Win) reopen() {
	w.mu.Lock()
	w.stopped = false
	w.mu.Unlock()
}

func runStress(out, comps string, windows, workers int, seed int64, caseBase int) error {
	sk, err := newSink(out)
	if err != nil {
		return err
	}
	type job struct {
		comp   string
		caseID int
		seed   int64
	}
	jobs := make(chan job, 64)
	var wg sync.WaitGroup
	var skipped atomic.Int32
	for i := 0; i < workers; i++ {
		wg.Add(1)
		go func() {
			defer wg.Done()
			for j := range jobs {
				if stuck(j.comp).Load() >= 6 {
					skipped.Add(1)
					continue
				}
				sk.write(stressWindow(j.comp, j.caseID, j.seed))
			}
		}()
	}
	id := caseBase
	for _, comp := range strings.Split(comps, ",") {
		for i := 0; i < windows; i++ {
			id++
			jobs <- job{comp, id, seed*1000003 + int64(id)*7919}
		}
	}
	close(jobs)
	wg.Wait()
	fmt.Fprintf(os.Stderr, "stress: %d events, %d windows skipped after repeated timeouts\n", sk.n, skipped.Load())
	return sk.close()
}
