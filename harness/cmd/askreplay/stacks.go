package main

import (
	"context"
	"crypto/ed25519"
	"encoding/binary"
	"fmt"
	"regexp"
	"strings"
	"sync/atomic"
	"time"

	"go.brendoncarroll.net/exp/crypto/sign/sig_ed25519"
	"golang.org/x/crypto/ssh"

	"go.brendoncarroll.net/p2p"
	"go.brendoncarroll.net/p2p/f/x509"
	"go.brendoncarroll.net/p2p/p/mbapp"
	"go.brendoncarroll.net/p2p/p/p2pmux"
	"go.brendoncarroll.net/p2p/s/memswarm"
	"go.brendoncarroll.net/p2p/s/multiswarm"
	"go.brendoncarroll.net/p2p/s/quicswarm"
	"go.brendoncarroll.net/p2p/s/sshswarm"
	"go.brendoncarroll.net/p2p/s/vswarm"
	"go.brendoncarroll.net/p2p/s/wlswarm"
	"verifharness/netsim"
)

// Node is one endpoint of a stack with the address type erased.
type Node struct {
	Name string
	// Addr is the (normalised) text of the address under which peers see this node.
	Addr string
	raw  any

	askFn   func(ctx context.Context, resp []byte, dst *Node, req []byte) (int, error)
	serveFn func(ctx context.Context, fn func(ctx context.Context, resp []byte, src string, payload []byte) int) error
	closeFn func() error

	// mbapp over netsim only
	sim        *netsim.Node
	setCounter func(uint32)
}

// Stack is a set of asker and server nodes of one swarm kind.
type Stack struct {
	Name    string
	Mode    string // "hub" | "stream" | "mbapp"
	Askers  []*Node
	Servers []*Node
	Net     *netsim.Net // mbapp over netsim
	Manual  bool        // the driver carries the datagrams (netsim without loop)
	cleanup []func()
}

func (st *Stack) Cleanup() {
	done := make(chan struct{})
	go func() {
		defer close(done)
		for _, f := range st.cleanup {
			func() {
				defer func() { recover() }()
				f()
			}()
		}
	}()
	select {
	case <-done:
	case <-time.After(3 * time.Second):
	}
}

var quicAddrs atomic.Int64

func ident(s string) string { return s }

var portRe = regexp.MustCompile(`:[0-9]+$`)

// sshswarm addresses carry the TCP port of the connection: an asker is seen under the ephemeral
// port of its outbound connection, so only fingerprint@ip identifies it.
func stripPort(s string) string { return portRe.ReplaceAllString(s, "") }

func mkNode[A p2p.Addr](name string, sw p2p.AskSwarm[A], norm func(string) string) (*Node, error) {
	addrs := sw.LocalAddrs()
	if len(addrs) == 0 {
		return nil, fmt.Errorf("%s: no local address", name)
	}
	txt, err := addrs[0].MarshalText()
	if err != nil {
		return nil, err
	}
	nd := &Node{Name: name, Addr: norm(string(txt)), raw: addrs[0]}
	nd.askFn = func(ctx context.Context, resp []byte, dst *Node, req []byte) (int, error) {
		return sw.Ask(ctx, resp, dst.raw.(A), p2p.IOVec{req})
	}
	nd.serveFn = func(ctx context.Context, fn func(ctx context.Context, resp []byte, src string, payload []byte) int) error {
		return sw.ServeAsk(ctx, func(ctx context.Context, resp []byte, m p2p.Message[A]) int {
			t, err := m.Src.MarshalText()
			src := string(t)
			if err != nil {
				src = "!marshal:" + err.Error()
			}
			return fn(ctx, resp, norm(src), m.Payload)
		})
	}
	nd.closeFn = sw.Close
	return nd, nil
}

func testKey(i int) ed25519.PrivateKey {
	seed := make([]byte, 32)
	binary.BigEndian.PutUint64(seed[24:], uint64(i)+7000)
	return ed25519.NewKeyFromSeed(seed)
}

func x509Key(i int) x509.PrivateKey {
	k := testKey(i)
	sch := sig_ed25519.New()
	data := make([]byte, sch.PrivateKeySize())
	priv := sig_ed25519.PrivateKeyFromStandard(k)
	sch.MarshalPrivate(data, &priv)
	return x509.PrivateKey{Algorithm: x509.Algo_Ed25519, Data: data}
}

var StackKinds = []string{"vswarm", "wlswarm", "multiswarm", "mux-string", "mux-varint", "mux-u16", "mux-u32", "mux-u64",
	"quicswarm", "sshswarm", "mbapp", "mbapp-w1", "mbapp-loop", "mbapp-mem", "mbapp-mem-w1"}

// mbWorkers: "-w1" stacks run every mbapp node with one receive worker (all datagrams of a node
// pass through one receive buffer), the others with four
func mbWorkers(kind string) int {
	if strings.HasSuffix(kind, "-w1") {
		return 1
	}
	return 4
}

// mbapp parameters: the inner datagram MTU leaves 64 payload bytes per fragment
const (
	mbInnerMTU = mbapp.HeaderSize + 64
	mbMTU      = 1 << 14
)

// NewStack builds na askers and ns servers. names: a1.., s1..
// uniq (the behaviour id) makes the keys of this stack its own: a TCP port released by a closed sshswarm of
// one behaviour may be reused by a listener of another behaviour running in parallel, and only the
// fingerprint check then keeps an Ask to the closed node from being answered by a stranger.
func NewStack(kind string, na, ns, uniq int) (*Stack, error) {
	st := &Stack{Name: kind, Mode: "hub"}
	total := na + ns
	name := func(i int) string {
		if i < na {
			return fmt.Sprintf("a%d", i+1)
		}
		return fmt.Sprintf("s%d", i-na+1)
	}
	add := func(i int, nd *Node, err error) error {
		if err != nil {
			return err
		}
		if i < na {
			st.Askers = append(st.Askers, nd)
		} else {
			st.Servers = append(st.Servers, nd)
		}
		return nil
	}
	switch kind {
	case "vswarm":
		r := memswarm.NewRealm(memswarm.WithQueueLen(16))
		for i := 0; i < total; i++ {
			sw := r.NewSwarm()
			nd, err := mkNode[memswarm.Addr](name(i), sw, ident)
			if err := add(i, nd, err); err != nil {
				return nil, err
			}
		}
	case "wlswarm":
		r := memswarm.NewSecureRealm[string](memswarm.WithQueueLen(16))
		for i := 0; i < total; i++ {
			in := r.NewSwarm(name(i))
			sw := wlswarm.WrapSecureAsk[memswarm.Addr, string](in, func(memswarm.Addr) bool { return true })
			nd, err := mkNode[memswarm.Addr](name(i), sw, ident)
			if err := add(i, nd, err); err != nil {
				return nil, err
			}
		}
	case "multiswarm":
		r := memswarm.NewSecureRealm[struct{}](memswarm.WithQueueLen(16))
		for i := 0; i < total; i++ {
			sw := multiswarm.NewSecureAsk[struct{}](map[string]multiswarm.DynSecureAskSwarm[struct{}]{
				"mem": multiswarm.WrapSecureAskSwarm[memswarm.Addr, struct{}](r.NewSwarm(struct{}{})),
			})
			nd, err := mkNode[multiswarm.Addr](name(i), sw, ident)
			if err := add(i, nd, err); err != nil {
				return nil, err
			}
		}
	case "mux-string", "mux-varint", "mux-u16", "mux-u32", "mux-u64":
		r := memswarm.NewSecureRealm[struct{}](memswarm.WithQueueLen(16))
		for i := 0; i < total; i++ {
			in := r.NewSwarm(struct{}{})
			var sw p2p.AskSwarm[memswarm.Addr]
			switch kind {
			case "mux-string":
				m := p2pmux.NewStringSecureAskMux[memswarm.Addr, struct{}](in)
				m.Open("other")
				sw = m.Open("verif/ask")
			case "mux-varint":
				m := p2pmux.NewVarintAskMux[memswarm.Addr](in)
				m.Open(3)
				sw = m.Open(300)
			case "mux-u16":
				m := p2pmux.NewUint16AskMux[memswarm.Addr](in)
				m.Open(3)
				sw = m.Open(0xbeef)
			case "mux-u32":
				m := p2pmux.NewUint32SecureAskMux[memswarm.Addr, struct{}](in)
				m.Open(3)
				sw = m.Open(0xdeadbeef)
			case "mux-u64":
				m := p2pmux.NewUint64AskMux[memswarm.Addr](in)
				m.Open(3)
				sw = m.Open(1 << 40)
			}
			// the inner swarm is left open at the end: the mux' own loops then stay parked instead of
			// depending on how the inner swarm reports its closure
			nd, err := mkNode[memswarm.Addr](name(i), sw, ident)
			if err := add(i, nd, err); err != nil {
				return nil, err
			}
		}
	case "quicswarm":
		st.Mode = "stream"
		// quic-go keeps one process-wide table of packet conns keyed by their local address text:
		// every quicswarm of this process needs its own memswarm address (memswarm realms all count from 0,
		// so the realm is built with vswarm, which memswarm wraps, and explicit addresses)
		r := vswarm.New[memswarm.Addr](memswarm.ParseAddr, vswarm.WithQueueLen[memswarm.Addr](256))
		base := int(quicAddrs.Add(int64(total))) - total
		for i := 0; i < total; i++ {
			sw, err := quicswarm.New[memswarm.Addr](r.Create(memswarm.Addr{N: base + i}), x509Key(uniq*64+i))
			if err != nil {
				return nil, err
			}
			nd, err := mkNode[quicswarm.Addr[memswarm.Addr]](name(i), sw, ident)
			if err := add(i, nd, err); err != nil {
				return nil, err
			}
			st.cleanup = append(st.cleanup, func() { sw.Close() })
		}
	case "sshswarm":
		st.Mode = "stream"
		for i := 0; i < total; i++ {
			signer, err := ssh.NewSignerFromSigner(testKey(uniq*64 + i))
			if err != nil {
				return nil, err
			}
			sw, err := sshswarm.New("127.0.0.1:", signer)
			if err != nil {
				return nil, err
			}
			nd, err := mkNode[sshswarm.Addr](name(i), sw, stripPort)
			if err := add(i, nd, err); err != nil {
				return nil, err
			}
			st.cleanup = append(st.cleanup, func() { sw.Close() })
		}
	case "mbapp", "mbapp-w1", "mbapp-loop":
		st.Mode = "mbapp"
		net := netsim.NewNet(mbInnerMTU)
		net.Loop = kind == "mbapp-loop"
		st.Net = net
		st.Manual = !net.Loop
		for i := 0; i < total; i++ {
			sim := net.Node(i + 1)
			sw := mbapp.New[netsim.Addr, string](sim.TellOnly(), mbMTU, mbapp.WithNumWorkers(mbWorkers(kind)))
			nd, err := mkNode[netsim.Addr](name(i), sw, ident)
			if err := add(i, nd, err); err != nil {
				return nil, err
			}
			nd.sim = sim
			// test-only setter of p/mbapp/verif_export.go (build tag verif); without the hook the scripts
			// still run, only with the counters the swarm chooses itself
			if sc, ok := any(sw).(interface{ VerifSetCounter(uint32) }); ok {
				nd.setCounter = sc.VerifSetCounter
			}
			st.cleanup = append(st.cleanup, func() { sw.Close() })
		}
	case "mbapp-mem", "mbapp-mem-w1":
		st.Mode = "mbapp"
		r := memswarm.NewSecureRealm[struct{}](memswarm.WithQueueLen(256), memswarm.WithMTU(mbInnerMTU))
		for i := 0; i < total; i++ {
			sw := mbapp.New[memswarm.Addr, struct{}](r.NewSwarm(struct{}{}), mbMTU, mbapp.WithNumWorkers(mbWorkers(kind)))
			nd, err := mkNode[memswarm.Addr](name(i), sw, ident)
			if err := add(i, nd, err); err != nil {
				return nil, err
			}
			st.cleanup = append(st.cleanup, func() { sw.Close() })
		}
	default:
		return nil, fmt.Errorf("unknown stack kind %q", kind)
	}
	return st, nil
}
