//go:build verif

package main

import (
	"go.brendoncarroll.net/p2p"
	"go.brendoncarroll.net/p2p/p/mbapp"
)

// mbappSetCounter uses the test-only setter of p/mbapp/verif_export.go
func mbappSetCounter[A p2p.Addr, Pub any](s *mbapp.Swarm[A, Pub]) func(uint32) {
	return s.VerifSetCounter
}
