// askreplay executes the behaviours of spec/AskGen.tla (and seeded concurrent workloads) on the real
// ask-capable swarms of /repo and records a ledger of what every Ask returned and what every
// handler invocation saw and produced (property C11).  The ledger is judged by spec/AskTrace.tla.
//
// Stacks: s/vswarm (memswarm), s/wlswarm, s/multiswarm, the five p/p2pmux framings, s/quicswarm on
// memswarm, s/sshswarm on 127.0.0.1, p/mbapp over the harness' own datagram network (netsim: the
// driver carries every fragment itself, in the order the script says), over netsim in loop mode and
// over memswarm.
//
// Scripted family (Direction A): the destination has NO standing ServeAsk caller; an `enter` step
// issues one ServeAsk call, so the script decides when a request is taken, when its handler returns
// (gate) and what it returns (class), where Close happens (before the request is taken, inside the
// handler, before the reply is delivered) and when contexts end.
// Concurrent family (Direction B): c asker goroutines, free-running servers, seeded classes, sizes,
// delays, context ends and one Close.
//
// Every event carries a sequence number from ONE atomic counter; Ask / Close / Cancel are logged
// before the call, AskRet / CloseRet after the return, HBegin / HEnd as first / last statement of the
// handler.  Nothing else is inferred from the order.
package main

import (
	"bufio"
	"context"
	"crypto/sha256"
	"encoding/json"
	"errors"
	"flag"
	"fmt"
	"io"
	"math"
	"math/rand"
	"os"
	"sort"
	"strconv"
	"strings"
	"sync"
	"sync/atomic"
	"time"

	"go.brendoncarroll.net/p2p"
)

// Event is one ledger line. All fields are always present (the trace spec reads them by name).
type Event struct {
	Seq    uint64 `json:"seq"`
	Beh    int    `json:"beh"`
	Ev     string `json:"ev"`
	ID     int    `json:"id"`
	Inv    int    `json:"inv"`
	Node   string `json:"node"`
	Src    string `json:"src"`
	N      int    `json:"n"`
	Err    string `json:"err"`
	D      string `json:"d"`
	Reqd   string `json:"reqd"`
	Buf    int    `json:"buf"`
	Ms     int    `json:"ms"`
	Info   string `json:"info"`
	Stack  string `json:"stack"`
	Family string `json:"family"`
	Mode   string `json:"mode"`
}

type Step struct {
	Op  string `json:"op"`
	K   int    `json:"k"`
	A   string `json:"a"`
	S   string `json:"s"`
	Ctr int    `json:"ctr"`
	Now int    `json:"now"`
	Cls string `json:"cls"`
	P   int    `json:"p"`
	Exp string `json:"exp"`
}

type Conc struct {
	NodesA   int     `json:"nodes_a"`
	NodesS   int     `json:"nodes_s"`
	Askers   int     `json:"askers"` // goroutines
	Asks     int     `json:"asks"`   // per goroutine
	Close    bool    `json:"close"`
	CancelPc int     `json:"cancel_pc"`
	DelayPc  int     `json:"delay_pc"`
	// ServeDelayMs: the servers' applications start calling ServeAsk only this long after the askers
	// started asking: the first asks of every asker arrive before anybody serves
	ServeDelayMs int `json:"serve_delay_ms"`
	// LenPolicy overrides the seeded choice of request lengths ("equal", "shrink", "mixed")
	LenPolicy string `json:"len_policy"`
	_        float64 `json:"-"`
}

type Behaviour struct {
	ID     int    `json:"id"`
	Family string `json:"family"` // "scripted" | "concurrent"
	Stack  string `json:"stack"`
	Seed   int64  `json:"seed"`
	Hist   []Step `json:"hist"`
	Conc   Conc   `json:"conc"`
}

var (
	gseq          atomic.Uint64
	measureBudget int64
	measureMu     sync.Mutex
	measureUsed   = map[string]int64{}
	flagSlowMs    = flag.Int("slow-ms", 1000, "an Ask that has not returned this long after its context ended is measured again")
	flagTimeoutMs = flag.Int("timeout-ms", 3000, "... and reported as Timeout if it still has not returned by then")
)

// reserveMeasurement: may this process spend another multi-second promptness measurement on this stack kind?
func reserveMeasurement(stack string) bool {
	measureMu.Lock()
	defer measureMu.Unlock()
	if measureUsed[stack] >= measureBudget {
		return false
	}
	measureUsed[stack]++
	return true
}

func digest(b []byte) string {
	s := sha256.Sum256(b)
	return fmt.Sprintf("%d:%x", len(b), s[:6])
}

func classify(err error) string {
	if err == nil {
		return "nil"
	}
	t := err.Error()
	switch {
	case errors.Is(err, context.Canceled), errors.Is(err, context.DeadlineExceeded),
		strings.Contains(t, "context canceled"), strings.Contains(t, "deadline exceeded"):
		return "ctx"
	case errors.Is(err, io.ErrShortBuffer), strings.Contains(t, "short buffer"):
		return "short"
	case errors.Is(err, p2p.ErrMTUExceeded):
		return "mtu"
	case p2p.IsErrClosed(err), strings.Contains(t, "closed"):
		return "closed"
	}
	return "other"
}

// ---------------------------------------------------------------------------------------------
// stall detector: the harness' own heartbeat

type stallRec struct {
	at  time.Time
	gap time.Duration
}

var (
	stallMu sync.Mutex
	stalls  []stallRec
)

func heartbeat() {
	last := time.Now()
	for {
		time.Sleep(5 * time.Millisecond)
		now := time.Now()
		if g := now.Sub(last); g > 150*time.Millisecond {
			stallMu.Lock()
			stalls = append(stalls, stallRec{now, g})
			stallMu.Unlock()
		}
		last = now
	}
}

// stalledSince: total length (ms) of the heartbeat gaps since t0. A measurement window is discarded when the
// process itself was not scheduled for a third of the threshold or more.
func stalledSince(t0 time.Time) int {
	stallMu.Lock()
	defer stallMu.Unlock()
	total := 0
	for _, s := range stalls {
		if s.at.After(t0) {
			total += int(s.gap.Milliseconds())
		}
	}
	if total*3 < *flagTimeoutMs {
		return 0
	}
	return total
}

func releaseMeasurement(stack string) {
	measureMu.Lock()
	measureUsed[stack]--
	measureMu.Unlock()
}

// ---------------------------------------------------------------------------------------------
// requests and responses

type reqInfo struct {
	beh, k int
	asker  string
	want   int
	cls    string
	gated  bool
	delay  int // microseconds
}

// request payload: "Q|beh|k|asker|want|cls|gated|delayus|" + seeded noise
func makeReq(q reqInfo, length int, rng *rand.Rand) []byte {
	g := 0
	if q.gated {
		g = 1
	}
	head := fmt.Sprintf("Q|%d|%d|%s|%d|%s|%d|%d|", q.beh, q.k, q.asker, q.want, q.cls, g, q.delay)
	out := []byte(head)
	for len(out) < length {
		out = append(out, byte('a'+rng.Intn(26)))
	}
	return out
}

func parseReq(p []byte) (reqInfo, bool) {
	parts := strings.SplitN(string(p), "|", 9)
	if len(parts) < 9 || parts[0] != "Q" {
		return reqInfo{}, false
	}
	var q reqInfo
	var err error
	if q.beh, err = strconv.Atoi(parts[1]); err != nil {
		return q, false
	}
	if q.k, err = strconv.Atoi(parts[2]); err != nil {
		return q, false
	}
	q.asker = parts[3]
	if q.want, err = strconv.Atoi(parts[4]); err != nil {
		return q, false
	}
	q.cls = parts[5]
	q.gated = parts[6] == "1"
	if q.delay, err = strconv.Atoi(parts[7]); err != nil {
		return q, false
	}
	return q, true
}

// respLen: the length of the answer for class cls, relative to the asker's buffer (want)
var negValues = []int{-1, -256, -2, -65536, -255, -512, -257, math.MinInt32, -1 << 24, math.MinInt64, -1 << 32, -128}

func respLen(cls string, want, k int) int {
	switch cls {
	case "zero":
		return 0
	case "small":
		return 17 + k%13
	case "exact":
		return want
	case "over":
		if k%2 == 0 {
			return want + 1
		}
		return want + 37 + k%50
	}
	return 0
}

// fillResp writes the unique answer of invocation inv of request k at server srv
func fillResp(dst []byte, beh int, srv string, k, inv int) {
	head := fmt.Sprintf("R|%d|%s|%d|%d|", beh, srv, k, inv)
	n := copy(dst, head)
	x := uint64(beh)*1000003 + uint64(k)*7919 + uint64(inv)*104729 + uint64(len(srv))*31 + uint64(srv[len(srv)-1])
	for i := n; i < len(dst); i++ {
		x ^= x << 13
		x ^= x >> 7
		x ^= x << 17
		dst[i] = byte('A' + x%26)
	}
}

// ---------------------------------------------------------------------------------------------
// one behaviour

type askState struct {
	k      int
	asker  *Node
	server *Node
	want   int
	cls    string
	req    []byte
	ctx    context.Context
	cancel context.CancelFunc

	started   bool
	arrived   bool // mbapp over the manual network: the request datagrams were taken by the destination
	done      chan struct{}
	entered   chan struct{}
	enterOnce sync.Once
	release   chan struct{}
	relOnce   sync.Once
	hend      chan struct{}
	hendOnce  sync.Once
	cancelled atomic.Bool
	abandoned atomic.Bool

	// mbapp over the manual network
	mu       sync.Mutex
	ctr, ot  uint32
	known    bool
	reqFrags []pkt
	repFrags []pkt
	repTotal int
}

type run struct {
	beh    Behaviour
	st     *Stack
	rng    *rand.Rand
	bg     context.Context
	bgStop context.CancelFunc

	mu     sync.Mutex
	events []Event
	sealed bool
	invs   map[int]int

	asks map[int]*askState
	amu  sync.RWMutex

	closeDone map[string]chan struct{}
	enteredN  map[string]*atomic.Int64

	aligned bool
	lastNow int

	// request lengths: "equal" (every request of the behaviour has the same length, one datagram),
	// "shrink" (each request is shorter than the one before), "mixed"
	lenPolicy string
	lenBase   int
	nReq      int
}

func (r *run) emit(e Event) {
	e.Beh = r.beh.ID
	e.Stack = r.beh.Stack
	e.Family = r.beh.Family
	e.Mode = r.st.Mode
	r.mu.Lock()
	defer r.mu.Unlock()
	if r.sealed {
		return
	}
	e.Seq = gseq.Add(1)
	r.events = append(r.events, e)
}

// seqEmit takes the sequence number now (before the call that follows)
func (r *run) nextInv(id int) int {
	r.mu.Lock()
	defer r.mu.Unlock()
	r.invs[id]++
	return r.invs[id]
}

func (r *run) getAsk(k int) *askState {
	r.amu.RLock()
	defer r.amu.RUnlock()
	return r.asks[k]
}

const gateMax = 8 * time.Second

func (r *run) handler(srv *Node) func(ctx context.Context, resp []byte, src string, payload []byte) int {
	return func(ctx context.Context, resp []byte, src string, payload []byte) int {
		q, ok := parseReq(payload)
		id := -1
		if ok && q.beh == r.beh.ID {
			id = q.k
		}
		inv := r.nextInv(id)
		r.emit(Event{Ev: "HBegin", ID: id, Inv: inv, Node: srv.Name, Src: src, Reqd: digest(payload), Buf: len(resp)})
		if c := r.enteredN[srv.Name]; c != nil {
			c.Add(1)
		}
		if id < 0 {
			// not a request of this behaviour (garbled on the way?): answer anyway, so that an Ask which
			// then reports success is visibly not answered by a handler that saw ITS request
			if os.Getenv("ASKDBG") != "" {
				fmt.Fprintf(os.Stderr, "unparsable request at %s from %s: %q\n", srv.Name, src, payload)
			}
			ans := []byte(fmt.Sprintf("R?|%d|%s|%d", r.beh.ID, srv.Name, inv))
			n, d := -1, ""
			if len(ans) <= len(resp) {
				n = copy(resp, ans)
				d = digest(ans)
			}
			r.emit(Event{Ev: "HEnd", ID: id, Inv: inv, Node: srv.Name, N: n, D: d, Info: "unknown"})
			return n
		}
		as := r.getAsk(id)
		if as != nil {
			as.enterOnce.Do(func() { close(as.entered) })
			if q.gated {
				select {
				case <-as.release:
				case <-time.After(gateMax):
				case <-r.bg.Done():
				}
			}
		}
		if q.delay > 0 {
			time.Sleep(time.Duration(q.delay) * time.Microsecond)
		}
		L := respLen(q.cls, q.want, id)
		n, d := -1, ""
		if q.cls != "neg" && L <= len(resp) {
			fillResp(resp[:L], r.beh.ID, srv.Name, id, inv)
			n, d = L, digest(resp[:L])
		} else if q.cls == "neg" {
			// a failure is ANY negative value: values whose low byte / low word is zero or that do not fit 32 bits
			// must fail exactly like -1
			n = negValues[(r.beh.ID+id*3+inv)%len(negValues)]
		}
		// the log carries the value clipped to what TLC's integers hold
		r.emit(Event{Ev: "HEnd", ID: id, Inv: inv, Node: srv.Name, N: max(n, -(1 << 30)), D: d, Info: q.cls})
		if as != nil {
			as.hendOnce.Do(func() { close(as.hend) })
		}
		// the handler owns its view of the request and the whole response buffer while it runs:
		// scribble over the request and over the unused tail of the response
		for i := range payload {
			payload[i] = '%'
		}
		if n >= 0 {
			for i := n; i < len(resp) && i < n+64; i++ {
				resp[i] = '%'
			}
		}
		return n
	}
}

func (r *run) doAsk(as *askState) {
	defer close(as.done)
	resp := make([]byte, as.want)
	r.emit(Event{Ev: "Ask", ID: as.k, Node: as.asker.Name, Src: as.asker.Addr, Info: as.server.Name, Reqd: digest(as.req), Buf: as.want})
	var n int
	var err error
	func() {
		defer func() {
			if p := recover(); p != nil {
				err = fmt.Errorf("panic: %v", p)
			}
		}()
		n, err = as.asker.askFn(as.ctx, resp, as.server, as.req)
	}()
	// Ask has returned: the request buffer is the caller's again
	for i := range as.req {
		as.req[i] = '#'
	}
	ev := Event{Ev: "AskRet", ID: as.k, Node: as.asker.Name, N: n, Err: classify(err), Buf: as.want}
	if err != nil {
		ev.Info = err.Error()
		if len(ev.Info) > 120 {
			ev.Info = ev.Info[:120]
		}
		if strings.HasPrefix(ev.Info, "panic:") {
			ev.Err = "panic"
		}
	} else if n >= 0 && n <= len(resp) {
		ev.D = digest(resp[:n])
	}
	r.emit(ev)
}

func waitCh(ch <-chan struct{}, d time.Duration) bool {
	select {
	case <-ch:
		return true
	default:
	}
	t := time.NewTimer(d)
	defer t.Stop()
	select {
	case <-ch:
		return true
	case <-t.C:
		return false
	}
}

// endCtx ends the context of as and measures how long Ask takes to return.
// budgeted: the known slow scenario (asker committed to a running handler) is only measured while
// the process-wide budget lasts; afterwards the context is ended without waiting.
func (r *run) endCtx(as *askState, wait bool) {
	if as.cancelled.Swap(true) {
		return
	}
	inHandler := false
	select {
	case <-as.entered:
		select {
		case <-as.hend:
		default:
			inHandler = true
		}
	default:
	}
	info := ""
	if inHandler {
		info = "in-handler"
	}
	r.emit(Event{Ev: "Cancel", ID: as.k, Node: as.asker.Name, Info: info})
	as.cancel()
	if !wait {
		return
	}
	t0 := time.Now()
	if waitCh(as.done, 50*time.Millisecond) {
		return
	}
	// Not back after 50 ms (healthy: microseconds). Measuring up to the threshold is slow, so each stack
	// kind gets a budget of such measurements per process; beyond it the ask is left alone (unmeasured).
	if !reserveMeasurement(r.beh.Stack) {
		return
	}
	if waitCh(as.done, time.Duration(*flagSlowMs)*time.Millisecond) {
		return
	}
	// measure again
	rest := time.Duration(*flagTimeoutMs-*flagSlowMs) * time.Millisecond
	if waitCh(as.done, rest) {
		r.emit(Event{Ev: "Slow", ID: as.k, Node: as.asker.Name, Ms: int(time.Since(t0).Milliseconds()), Info: info})
		return
	}
	if g := stalledSince(t0); g > 0 {
		releaseMeasurement(r.beh.Stack)
		r.emit(Event{Ev: "Stall", ID: as.k, Node: as.asker.Name, Ms: g, Info: info})
		return
	}
	as.abandoned.Store(true)
	r.emit(Event{Ev: "Timeout", ID: as.k, Node: as.asker.Name, Ms: int(time.Since(t0).Milliseconds()), Info: info})
}

func (r *run) nodeByName(name string) *Node {
	for _, n := range r.st.Askers {
		if n.Name == name {
			return n
		}
	}
	for _, n := range r.st.Servers {
		if n.Name == name {
			return n
		}
	}
	return nil
}

func (r *run) serveOnce(srv *Node) {
	go func() {
		defer func() { recover() }()
		srv.serveFn(r.bg, r.handler(srv))
	}()
}

func (r *run) serveLoop(srv *Node) {
	go func() {
		defer func() { recover() }()
		h := r.handler(srv)
		idle := 0
		for {
			called := false
			err := srv.serveFn(r.bg, func(ctx context.Context, resp []byte, src string, payload []byte) int {
				called = true
				return h(ctx, resp, src, payload)
			})
			if err != nil {
				return
			}
			// a ServeAsk that reports success without having served anything (a closed hub that lost its
			// error) would make this loop spin
			if called {
				idle = 0
			} else if idle++; idle >= 3 {
				r.emit(Event{Ev: "ServeNoop", Node: srv.Name})
				return
			}
		}
	}()
}

func (r *run) closeNode(srv *Node) {
	if _, dup := r.closeDone[srv.Name]; dup {
		return
	}
	ch := make(chan struct{})
	r.closeDone[srv.Name] = ch
	r.emit(Event{Ev: "Close", Node: srv.Name})
	go func() {
		defer close(ch)
		var err error
		func() {
			defer func() {
				if p := recover(); p != nil {
					err = fmt.Errorf("panic: %v", p)
				}
			}()
			err = srv.closeFn()
		}()
		r.emit(Event{Ev: "CloseRet", Node: srv.Name, Err: classify(err)})
	}()
}

func newRun(b Behaviour) (*run, error) {
	na, ns := 2, 2
	if b.Family == "concurrent" {
		na, ns = b.Conc.NodesA, b.Conc.NodesS
	}
	st, err := NewStack(b.Stack, na, ns, b.ID)
	if err != nil {
		return nil, err
	}
	bg, stop := context.WithCancel(context.Background())
	r := &run{beh: b, st: st, rng: rand.New(rand.NewSource(b.Seed*7919 + int64(b.ID))), bg: bg, bgStop: stop,
		invs: map[int]int{}, asks: map[int]*askState{}, closeDone: map[string]chan struct{}{}, enteredN: map[string]*atomic.Int64{}}
	for _, s := range st.Servers {
		r.enteredN[s.Name] = &atomic.Int64{}
	}
	r.lenPolicy = []string{"equal", "equal", "shrink", "mixed"}[r.rng.Intn(4)]
	r.lenBase = 44 + r.rng.Intn(21) // 44..64: one mbapp datagram (64 payload bytes)
	if b.Conc.LenPolicy != "" {
		r.lenPolicy = b.Conc.LenPolicy
	}
	return r, nil
}

func (r *run) newAsk(k int, asker, server *Node, cls string, gated bool, delay int, want int, timeout time.Duration) *askState {
	as := &askState{k: k, asker: asker, server: server, want: want, cls: cls,
		done: make(chan struct{}), entered: make(chan struct{}), release: make(chan struct{}), hend: make(chan struct{})}
	reqLen := r.nextReqLen()
	// transports that carry an ask as a framed byte stream (quicswarm, sshswarm): requests and answers far longer
	// than one packet / one read, so that a frame arrives in pieces (a reader that takes the first piece for the
	// whole frame hands on, or returns, a truncated payload)
	if r.beh.Stack == "quicswarm" || r.beh.Stack == "sshswarm" {
		if k%3 == 0 {
			reqLen = bigBody - k%7
		}
		if k%4 == 1 || k%6 == 0 {
			want = bigBody + k%5
			as.want = want
		}
	}
	as.req = makeReq(reqInfo{beh: r.beh.ID, k: k, asker: asker.Name, want: want, cls: cls, gated: gated, delay: delay}, reqLen, r.rng)
	if timeout > 0 {
		as.ctx, as.cancel = context.WithTimeout(r.bg, timeout)
	} else {
		as.ctx, as.cancel = context.WithCancel(r.bg)
	}
	r.amu.Lock()
	r.asks[k] = as
	r.amu.Unlock()
	return as
}

var wants = []int{48, 100, 150}

// bigBody: well above one QUIC packet, one TCP segment and QUIC's initial congestion window, below sshswarm's MTU
const bigBody = 100000

// nextReqLen: requests of equal length, or shorter after longer, fit into whatever buffer held the
// previous request at the destination (mbapp's single-datagram path hands on a slice of the receive
// buffer): a destination that keeps a reference instead of the bytes shows another request's payload
func (r *run) nextReqLen() int {
	r.nReq++
	switch r.lenPolicy {
	case "equal":
		return r.lenBase
	case "shrink":
		if l := r.lenBase - 2*(r.nReq-1); l >= 40 {
			return l
		}
		return 40
	}
	return 40 + r.rng.Intn(160)
}

// ---------------------------------------------------------------------------------------------
// scripted family

func (r *run) runScript() {
	h := r.beh.Hist
	cls := map[int]string{}
	for _, s := range h {
		if s.Op == "handle" {
			if _, ok := cls[s.K]; !ok {
				cls[s.K] = s.Cls
			}
		}
	}
	short := 300 * time.Millisecond
	for si, s := range h {
		switch s.Op {
		case "ask":
			a, sv := r.nodeByName(s.A), r.nodeByName(s.S)
			if a == nil || sv == nil || r.getAsk(s.K) != nil {
				continue
			}
			c, ok := cls[s.K]
			if !ok {
				c = []string{"small", "exact", "over", "neg", "zero"}[r.rng.Intn(5)]
			}
			// deadline contexts and cancel contexts alternate (quic-go only looks at deadlines while it reads)
			var to time.Duration
			if s.K%2 == 0 {
				to = 20 * time.Second
			}
			as := r.newAsk(s.K, a, sv, c, true, 0, wants[r.rng.Intn(len(wants))], to)
			if r.st.Manual {
				// a colliding pair (same asker, same counter, next step) must fall into one millisecond
				pair := si+1 < len(h) && h[si+1].Op == "ask" && h[si+1].A == s.A && h[si+1].Ctr == s.Ctr && h[si+1].Now == s.Now
				r.mbPrepare(as, s, pair)
			}
			as.started = true
			go r.doAsk(as)
			if r.st.Manual {
				r.mbCaptureRequest(as)
				as.mu.Lock()
				r.emit(Event{Ev: "MbKey", ID: as.k, Node: as.asker.Name, Info: fmt.Sprintf("%d/%d/%s", as.ctr, as.ot, as.server.Name)})
				as.mu.Unlock()
			} else {
				time.Sleep(300 * time.Microsecond)
			}
		case "arrive":
			as := r.getAsk(s.K)
			if as == nil {
				continue
			}
			if r.st.Manual {
				as.arrived = r.mbFeedRequest(as)
			} else {
				time.Sleep(300 * time.Microsecond)
			}
		case "serve":
			// the destination's application calls ServeAsk once: it is handed one of the requests waiting
			// there (usually the one the script names; the ledger does not depend on which)
			as := r.getAsk(s.K)
			if as == nil {
				continue
			}
			before := r.enteredN[as.server.Name].Load()
			if r.st.Manual && !as.arrived {
				as.arrived = r.mbFeedRequest(as) // the network delivers late what it could not deliver before
			}
			r.serveOnce(as.server)
			deadline := time.Now().Add(short)
			for r.enteredN[as.server.Name].Load() == before && time.Now().Before(deadline) {
				time.Sleep(100 * time.Microsecond)
			}
		case "handle":
			as := r.getAsk(s.K)
			if as == nil {
				continue
			}
			as.relOnce.Do(func() { close(as.release) })
			select {
			case <-as.entered:
				waitCh(as.hend, short)
				if r.st.Manual {
					r.mbCaptureReply(as)
				} else {
					waitCh(as.done, 100*time.Millisecond)
				}
			default:
			}
		case "rep":
			as := r.getAsk(s.K)
			if as == nil || !r.st.Manual {
				continue
			}
			r.mbFeedReply(as, s.P)
		case "cancel":
			if as := r.getAsk(s.K); as != nil {
				r.endCtx(as, true)
			}
		case "ret":
			if as := r.getAsk(s.K); as != nil {
				waitCh(as.done, short)
			}
		case "close":
			if sv := r.nodeByName(s.S); sv != nil {
				r.closeNode(sv)
				time.Sleep(300 * time.Microsecond)
			}
		case "closeret":
			if ch, ok := r.closeDone[s.S]; ok {
				if !waitCh(ch, 2*time.Second) {
					r.emit(Event{Ev: "CloseSlow", Node: s.S, Ms: 2000})
				}
			}
		case "tick":
			time.Sleep(2 * time.Millisecond)
		}
	}
	// settle: open every gate, let the servers serve, deliver what is still in the network
	r.amu.RLock()
	var all []*askState
	for _, as := range r.asks {
		all = append(all, as)
	}
	r.amu.RUnlock()
	sort.Slice(all, func(i, j int) bool { return all[i].k < all[j].k })
	for _, as := range all {
		as.relOnce.Do(func() { close(as.release) })
	}
	for _, sv := range r.st.Servers {
		r.serveLoop(sv)
		r.serveLoop(sv)
	}
	if r.st.Manual {
		r.mbSettle(all)
	}
	settle := time.Now().Add(150 * time.Millisecond)
	for _, as := range all {
		if d := time.Until(settle); d > 0 {
			waitCh(as.done, d)
		}
	}
	var wg sync.WaitGroup
	for _, as := range all {
		select {
		case <-as.done:
			continue
		default:
		}
		wg.Add(1)
		go func(as *askState) {
			defer wg.Done()
			r.endCtx(as, true)
		}(as)
	}
	wg.Wait()
	for _, ch := range r.closeDone {
		waitCh(ch, 2*time.Second)
	}
}

// ---------------------------------------------------------------------------------------------
// concurrent family

func (r *run) runConcurrent() {
	c := r.beh.Conc
	startServing := func() {
		for _, sv := range r.st.Servers {
			for i := 0; i < 4; i++ {
				r.serveLoop(sv)
			}
		}
	}
	if c.ServeDelayMs > 0 {
		// requests arrive before anybody serves
		time.AfterFunc(time.Duration(c.ServeDelayMs)*time.Millisecond, startServing)
	} else {
		startServing()
		if r.st.Mode == "stream" {
			time.Sleep(5 * time.Millisecond)
		}
	}
	total := c.Askers * c.Asks
	// every context ends after maxCtx at the latest; datagram and connection based stacks can only notice a
	// closed destination by that deadline, so it is kept short there
	maxCtx := 1500 * time.Millisecond
	if r.st.Mode != "hub" {
		maxCtx = 500 * time.Millisecond
	}
	classes := []string{"small", "small", "small", "small", "exact", "exact", "zero", "neg", "neg", "over", "over", "over"}
	// pre-create every ask: the handler looks them up by id
	type plan struct {
		as     *askState
		cancel time.Duration
	}
	plans := make([][]plan, c.Askers)
	id := 0
	for g := 0; g < c.Askers; g++ {
		asker := r.st.Askers[g%len(r.st.Askers)]
		for j := 0; j < c.Asks; j++ {
			id++
			sv := r.st.Servers[r.rng.Intn(len(r.st.Servers))]
			delay := 0
			if r.rng.Intn(100) < c.DelayPc {
				delay = 20 + r.rng.Intn(400)
			}
			var cancelAfter time.Duration
			to := maxCtx
			if r.rng.Intn(100) < c.CancelPc {
				if r.rng.Intn(2) == 0 {
					to = time.Duration(50+r.rng.Intn(3000)) * time.Microsecond // a deadline that really expires
				} else {
					to = 0
					cancelAfter = time.Duration(50+r.rng.Intn(3000)) * time.Microsecond
				}
			}
			as := r.newAsk(id, asker, sv, classes[r.rng.Intn(len(classes))], false, delay, wants[r.rng.Intn(len(wants))], to)
			plans[g] = append(plans[g], plan{as, cancelAfter})
		}
	}
	var issued atomic.Int64
	closeAt := int64(total / 2)
	var closeOnce sync.Once
	var wg sync.WaitGroup
	for g := 0; g < c.Askers; g++ {
		wg.Add(1)
		go func(g int) {
			defer wg.Done()
			for _, p := range plans[g] {
				as := p.as
				if c.Close && issued.Add(1) == closeAt {
					closeOnce.Do(func() { r.closeNode(r.st.Servers[len(r.st.Servers)-1]) })
				}
				t0 := time.Now()
				as.started = true
				go r.doAsk(as)
				if p.cancel > 0 {
					time.AfterFunc(p.cancel, func() {
						if !as.cancelled.Swap(true) {
							r.emit(Event{Ev: "Cancel", ID: as.k, Node: as.asker.Name})
							as.cancel()
						}
					})
				}
				limit := maxCtx + time.Duration(*flagSlowMs)*time.Millisecond
				if waitCh(as.done, limit) {
					as.cancel()
					continue
				}
				rest := time.Duration(*flagTimeoutMs-*flagSlowMs) * time.Millisecond
				if waitCh(as.done, rest) {
					r.emit(Event{Ev: "Slow", ID: as.k, Node: as.asker.Name, Ms: int(time.Since(t0).Milliseconds())})
				} else if gp := stalledSince(t0); gp > 0 {
					r.emit(Event{Ev: "Stall", ID: as.k, Node: as.asker.Name, Ms: gp})
				} else {
					as.abandoned.Store(true)
					r.emit(Event{Ev: "Timeout", ID: as.k, Node: as.asker.Name, Ms: int(time.Since(t0).Milliseconds())})
				}
				as.cancel()
			}
		}(g)
	}
	wg.Wait()
	for _, ch := range r.closeDone {
		waitCh(ch, 2*time.Second)
	}
}

// ---------------------------------------------------------------------------------------------

func runBehaviour(b Behaviour) (evs []Event) {
	r, err := newRun(b)
	if err != nil {
		return []Event{{Seq: gseq.Add(1), Beh: b.ID, Ev: "reset", Stack: b.Stack, Family: b.Family, Info: "build-error: " + err.Error()}}
	}
	r.emit(Event{Ev: "reset", Info: "ok"})
	for _, n := range append(append([]*Node{}, r.st.Askers...), r.st.Servers...) {
		r.emit(Event{Ev: "Node", Node: n.Name, Src: n.Addr})
	}
	finished := make(chan struct{})
	go func() {
		defer close(finished)
		defer func() {
			if p := recover(); p != nil {
				r.emit(Event{Ev: "HarnessPanic", Info: fmt.Sprint(p)})
			}
		}()
		if b.Family == "concurrent" {
			r.runConcurrent()
		} else {
			r.runScript()
		}
	}()
	limit := 60 * time.Second
	if b.Family == "concurrent" {
		limit = 240 * time.Second
	}
	select {
	case <-finished:
	case <-time.After(limit):
		r.emit(Event{Ev: "HarnessStuck", Ms: int(limit.Milliseconds())})
	}
	r.mu.Lock()
	r.sealed = true
	evs = r.events
	r.mu.Unlock()
	r.bgStop()
	go r.st.Cleanup()
	sort.Slice(evs, func(i, j int) bool { return evs[i].Seq < evs[j].Seq })
	return evs
}

func main() {
	in := flag.String("in", "", "behaviours (ndjson)")
	out := flag.String("out", "", "trace (ndjson)")
	par := flag.Int("par", 8, "behaviours executed concurrently")
	budget := flag.Int("inhandler", 2, "per stack kind: how many asks that do not return promptly after their context ended are measured up to the threshold")
	flag.Parse()
	measureBudget = int64(*budget)
	go heartbeat()
	f, err := os.Open(*in)
	if err != nil {
		fmt.Fprintln(os.Stderr, err)
		os.Exit(2)
	}
	var behs []Behaviour
	sc := bufio.NewScanner(f)
	sc.Buffer(make([]byte, 1<<20), 1<<26)
	for sc.Scan() {
		var b Behaviour
		if err := json.Unmarshal(sc.Bytes(), &b); err != nil {
			fmt.Fprintln(os.Stderr, "bad behaviour:", err)
			os.Exit(2)
		}
		behs = append(behs, b)
	}
	f.Close()
	results := make([][]Event, len(behs))
	durs := map[string]time.Duration{}
	var durMu sync.Mutex
	sem := make(chan struct{}, *par)
	var wg sync.WaitGroup
	t0 := time.Now()
	for i := range behs {
		wg.Add(1)
		sem <- struct{}{}
		go func(i int) {
			defer wg.Done()
			defer func() { <-sem }()
			tb := time.Now()
			results[i] = runBehaviour(behs[i])
			durMu.Lock()
			durs[behs[i].Stack+"/"+behs[i].Family] += time.Since(tb)
			durMu.Unlock()
		}(i)
	}
	wg.Wait()
	of, err := os.Create(*out)
	if err != nil {
		fmt.Fprintln(os.Stderr, err)
		os.Exit(2)
	}
	bw := bufio.NewWriterSize(of, 1<<20)
	enc := json.NewEncoder(bw)
	n, asks, oks := 0, 0, 0
	for _, evs := range results {
		for _, e := range evs {
			enc.Encode(e)
			n++
			if e.Ev == "AskRet" {
				asks++
				if e.Err == "nil" {
					oks++
				}
			}
		}
	}
	bw.Flush()
	of.Close()
	if os.Getenv("ASKDBG") != "" {
		for k, v := range durs {
			fmt.Fprintf(os.Stderr, "time %-24s %.1fs\n", k, v.Seconds())
		}
	}
	fmt.Printf("askreplay: behaviours=%d events=%d asks=%d ok=%d wall=%.1fs stalls=%d\n", len(behs), n, asks, oks, time.Since(t0).Seconds(), len(stalls))
}
