package main

import (
	"context"
	"sort"
	"time"

	"go.brendoncarroll.net/p2p/p/mbapp"
	"verifharness/netsim"
)

// pkt is a captured mbapp datagram with its parsed header
type pkt struct {
	netsim.Packet
	isAsk, isReply bool
	ctr, ot        uint32
	part, count    int
}

func parsePkt(p netsim.Packet) (pkt, bool) {
	hdr, _, err := mbapp.ParseMessage(p.Data)
	if err != nil {
		return pkt{}, false
	}
	return pkt{Packet: p, isAsk: hdr.IsAsk(), isReply: hdr.IsReply(), ctr: hdr.GetCounter(), ot: uint32(hdr.GetOriginTime()),
		part: int(hdr.GetPartIndex()), count: int(hdr.GetPartCount())}, true
}

// mbPrepare sets the asker's counter so that this ask carries the counter the script wants
// (the script's counters are small numbers: collisions between in-flight asks are the point),
// and aligns the start of a clock epoch to the beginning of a millisecond.
func (r *run) mbPrepare(as *askState, s Step, align bool) {
	if as.asker.setCounter != nil && s.Ctr > 0 {
		as.asker.setCounter(uint32(1000 + s.Ctr - 1)) // getCounter pre-increments
	}
	if align || !r.aligned || s.Now != r.lastNow {
		r.aligned, r.lastNow = true, s.Now
		ms := time.Now().UnixMilli()
		for time.Now().UnixMilli() == ms {
		}
	}
}

// mbPump takes everything the nodes have emitted and files it under the ask it belongs to
func (r *run) mbPump(capturing *askState) {
	nodes := append(append([]*Node{}, r.st.Askers...), r.st.Servers...)
	for _, nd := range nodes {
		for _, raw := range nd.sim.Take() {
			p, ok := parsePkt(raw)
			if !ok || !p.isAsk {
				continue
			}
			r.amu.RLock()
			for _, as := range r.asks {
				as.mu.Lock()
				if p.isReply {
					if as.known && as.ctr == p.ctr && as.ot == p.ot && as.asker.sim.Addr() == p.Dst && as.server.sim.Addr() == p.Src {
						dup := false
						for _, q := range as.repFrags {
							if q.part == p.part {
								dup = true
							}
						}
						if !dup {
							as.repFrags = append(as.repFrags, p)
							as.repTotal = p.count
						}
					}
				} else if as.asker.sim.Addr() == p.Src && as.server.sim.Addr() == p.Dst {
					if as == capturing && !as.known {
						as.known, as.ctr, as.ot = true, p.ctr, p.ot
					}
					if as.known && as.ctr == p.ctr && as.ot == p.ot && (as == capturing || len(as.reqFrags) < p.count) {
						have := false
						for _, q := range as.reqFrags {
							if q.part == p.part {
								have = true
							}
						}
						if !have {
							as.reqFrags = append(as.reqFrags, p)
						}
					}
				}
				as.mu.Unlock()
			}
			r.amu.RUnlock()
		}
	}
}

func (r *run) mbCaptureRequest(as *askState) {
	deadline := time.Now().Add(300 * time.Millisecond)
	for time.Now().Before(deadline) {
		r.mbPump(as)
		as.mu.Lock()
		n, want := len(as.reqFrags), 0
		if n > 0 {
			want = as.reqFrags[0].count
			if want < 1 {
				want = 1
			}
		}
		as.mu.Unlock()
		if n > 0 && n >= want {
			return
		}
		select {
		case <-as.done: // refused locally (closed, MTU)
			return
		default:
		}
		time.Sleep(100 * time.Microsecond)
	}
}

func (r *run) feed(nd *Node, p pkt) error {
	// healthy: microseconds. A destination whose receive workers are all busy does not take the datagram:
	// it is lost (and may be delivered again later)
	ctx, cf := context.WithTimeout(r.bg, 60*time.Millisecond)
	defer cf()
	return nd.sim.Feed(ctx, p.Packet)
}

// mbFeedRequest delivers the request fragments of as to its destination, in a seeded order;
// true if the destination took them all
func (r *run) mbFeedRequest(as *askState) bool {
	r.mbPump(nil)
	as.mu.Lock()
	frags := append([]pkt{}, as.reqFrags...)
	as.mu.Unlock()
	r.rng.Shuffle(len(frags), func(i, j int) { frags[i], frags[j] = frags[j], frags[i] })
	ok := len(frags) > 0
	for _, p := range frags {
		if r.feed(as.server, p) != nil {
			ok = false
			break
		}
	}
	return ok
}

func (r *run) mbCaptureReply(as *askState) {
	deadline := time.Now().Add(300 * time.Millisecond)
	for time.Now().Before(deadline) {
		r.mbPump(nil)
		as.mu.Lock()
		n, want := len(as.repFrags), as.repTotal
		as.mu.Unlock()
		if n > 0 && n >= want {
			return
		}
		time.Sleep(100 * time.Microsecond)
	}
}

// mbFeedReply delivers abstract part p (1: the first half of the fragments, 2: the second half;
// a one-fragment reply is delivered again) of the answer to as to the asker
func (r *run) mbFeedReply(as *askState, p int) {
	r.mbPump(nil)
	as.mu.Lock()
	frags := append([]pkt{}, as.repFrags...)
	as.mu.Unlock()
	if len(frags) == 0 {
		return
	}
	sort.Slice(frags, func(i, j int) bool { return frags[i].part < frags[j].part })
	half := (len(frags) + 1) / 2
	var sel []pkt
	if p == 1 {
		sel = frags[:half]
	} else if half < len(frags) {
		sel = frags[half:]
	} else {
		sel = frags
	}
	if r.rng.Intn(2) == 0 {
		for i, j := 0, len(sel)-1; i < j; i, j = i+1, j-1 {
			sel[i], sel[j] = sel[j], sel[i]
		}
	}
	for _, f := range sel {
		r.feed(as.asker, f)
	}
	time.Sleep(200 * time.Microsecond)
}

// mbSettle carries everything that is still in flight, for a bounded time
func (r *run) mbSettle(all []*askState) {
	deadline := time.Now().Add(150 * time.Millisecond)
	fedReq := map[int]bool{}
	fedRep := map[int]int{}
	for time.Now().Before(deadline) {
		r.mbPump(nil)
		progress := false
		for _, as := range all {
			select {
			case <-as.done:
				continue
			default:
			}
			as.mu.Lock()
			req := append([]pkt{}, as.reqFrags...)
			rep := append([]pkt{}, as.repFrags...)
			as.mu.Unlock()
			select {
			case <-as.entered:
			default:
				if !fedReq[as.k] && !as.arrived && len(req) > 0 {
					fedReq[as.k] = true
					as.arrived = true
					progress = true
					for _, p := range req {
						r.feed(as.server, p)
					}
				}
			}
			if len(rep) > fedRep[as.k] && len(rep) >= as.repTotal {
				fedRep[as.k] = len(rep)
				progress = true
				for i := len(rep) - 1; i >= 0; i-- { // last fragment first
					r.feed(as.asker, rep[i])
				}
			}
		}
		pending := false
		for _, as := range all {
			select {
			case <-as.done:
			default:
				pending = true
			}
		}
		if !pending {
			return
		}
		if !progress {
			time.Sleep(500 * time.Microsecond)
		}
	}
}
