// fragreplay replays TLC-generated fragment schedules (spec/FragGen.tla) on the real
// reassembly layers (s/fragswarm, p/mbapp) with the harness as inner transport (netsim):
// the real sender-side layer is told each message and netsim captures the real fragments; the
// schedule (single fragments, or bursts racing on several receive workers; repetitions and
// omissions) is fed to the real receiver-side layer; every payload its Receive callback sees is
// decoded into blocks and logged.  The ndjson trace is validated by spec/FragTrace.tla.
// Only public APIs of the layers are used.
package main

import (
	"bufio"
	"context"
	"encoding/json"
	"flag"
	"fmt"
	"os"
	"runtime"
	"sort"
	"sync"
	"time"

	"go.brendoncarroll.net/p2p"
	"go.brendoncarroll.net/p2p/p/mbapp"
	"go.brendoncarroll.net/p2p/s/fragswarm"
	"verifharness/netsim"
	"verifharness/trace"
)

const (
	blockSize = 8
	numWorker = 4
	layerMTU  = 1 << 20
)

type Frag = [3]int // src, msg, idx

type Behaviour struct {
	ID    int      `json:"id"`
	Layer string   `json:"layer"`
	Cap   int      `json:"cap"`
	Lens  [][]int  `json:"lens"`
	Lost  []Frag   `json:"lost"`
	Steps [][]Frag `json:"steps"`
}

func block(s, m, off int) []byte {
	return []byte{0xB1, byte(s), byte(m), byte(off >> 8), byte(off), ^byte(s), ^byte(m), 0x1B}
}

func decodeBlock(b []byte) (s, m, off int, ok bool) {
	if len(b) < blockSize || b[0] != 0xB1 || b[7] != 0x1B || b[1] != ^b[5] || b[2] != ^b[6] {
		return 0, 0, 0, false
	}
	return int(b[1]), int(b[2]), int(b[3])<<8 | int(b[4]), true
}

func payload(s, m, n int) []byte {
	out := make([]byte, 0, n*blockSize)
	for i := 0; i < n; i++ {
		out = append(out, block(s, m, i)...)
	}
	return out
}

// runs decodes a delivered payload into runs [s, m, off, count]; bytes that are not a block
// become blocks [0, 0, position].
func runs(p []byte) [][4]int {
	var out [][4]int
	add := func(s, m, off int) {
		if n := len(out); n > 0 && out[n-1][0] == s && out[n-1][1] == m && out[n-1][2]+out[n-1][3] == off && s != 0 {
			out[n-1][3]++
			return
		}
		out = append(out, [4]int{s, m, off, 1})
	}
	for i := 0; i < len(p); i += blockSize {
		end := i + blockSize
		if end > len(p) {
			end = len(p)
		}
		if s, m, off, ok := decodeBlock(p[i:end]); ok {
			add(s, m, off)
		} else {
			add(0, 0, i/blockSize)
		}
	}
	if out == nil {
		out = [][4]int{}
	}
	return out
}

// firstOffset finds the block offset of the first block of message (s, m) inside a captured packet.
func firstOffset(pkt []byte, s, m int) (int, bool) {
	for h := 0; h+blockSize <= len(pkt) && h < 64; h++ {
		if bs, bm, off, ok := decodeBlock(pkt[h : h+blockSize]); ok && bs == s && bm == m {
			return off, true
		}
	}
	return 0, false
}

type layer interface {
	p2p.Swarm[netsim.Addr]
}

func newLayer(kind string, nd *netsim.Node) (layer, int) {
	switch kind {
	case "frag":
		// fragswarm starts runtime.GOMAXPROCS(0) receive workers
		return fragswarm.New[netsim.Addr](nd.TellOnly(), layerMTU), runtime.GOMAXPROCS(0)
	case "mbapp":
		return mbapp.New[netsim.Addr, string](nd, layerMTU, mbapp.WithNumWorkers(numWorker)), numWorker
	}
	panic("unknown layer " + kind)
}

func innerMTU(kind string, cap int) int {
	switch kind {
	case "frag":
		return cap*blockSize + fragswarm.Overhead
	case "mbapp":
		return cap*blockSize + mbapp.HeaderSize
	}
	panic("unknown layer " + kind)
}

func errClass(err error) string {
	switch {
	case err == nil:
		return "nil"
	case p2p.IsErrMTUExceeded(err):
		return "mtu"
	default:
		return "other"
	}
}

type ev = map[string]any

func replay(b Behaviour, w *trace.Writer) (err error) {
	defer func() {
		if r := recover(); r != nil {
			err = fmt.Errorf("behaviour %d: panic in harness goroutine: %v", b.ID, r)
		}
	}()
	ctx, cancel := context.WithCancel(context.Background())
	defer cancel()
	net := netsim.NewNet(innerMTU(b.Layer, b.Cap))
	w.Emit(ev{"ev": "init", "beh": b.ID, "layer": b.Layer, "cap": b.Cap})

	dstNode := net.Node(0)
	recvLayer, nw := newLayer(b.Layer, dstNode)
	defer recvLayer.Close()
	nw = dstNode.Workers(nw, 2*time.Second)
	if nw < 1 {
		return fmt.Errorf("behaviour %d: the receiving layer never called Receive on its inner swarm", b.ID)
	}

	// Fragments handed to the receiver are logged lazily: a "feed" event lists every fragment whose Feed
	// was CALLED since the previous one, and is written before the next delivery (and at the end), so a
	// delivery is always preceded in the log by exactly the fragments handed over before it.
	var fmu sync.Mutex
	var pending []Frag
	noteFeed := func(fs []Frag) {
		fmu.Lock()
		pending = append(pending, fs...)
		fmu.Unlock()
	}
	flushFeed := func() {
		fmu.Lock()
		if len(pending) > 0 {
			w.Emit(ev{"ev": "feed", "beh": b.ID, "frags": pending})
			pending = nil
		}
		fmu.Unlock()
	}

	// the application on top of the receiving layer
	var mu sync.Mutex
	counts := map[[2]int]int{}
	var wg sync.WaitGroup
	for i := 0; i < 2; i++ {
		wg.Add(1)
		go func() {
			defer wg.Done()
			for {
				if err := recvLayer.Receive(ctx, func(m p2p.Message[netsim.Addr]) {
					rs := runs(m.Payload)
					mu.Lock()
					if len(rs) > 0 {
						counts[[2]int{rs[0][0], rs[0][1]}]++
					}
					mu.Unlock()
					flushFeed()
					w.Emit(ev{"ev": "deliver", "beh": b.ID, "src": m.Src.N, "runs": rs, "bytes": len(m.Payload)})
					netsim.Scribble(m.Payload) // the callback owns the message: modify it before returning
				}); err != nil {
					return
				}
			}
		}()
	}

	// real senders: capture the real fragments
	pkts := map[Frag]netsim.Packet{}
	for si, ls := range b.Lens {
		s := si + 1
		nd := net.Node(s)
		sl, _ := newLayer(b.Layer, nd)
		for mi, n := range ls {
			m := mi + 1
			nd.Take()
			tctx, tcf := context.WithTimeout(ctx, 20*time.Second)
			terr := sl.Tell(tctx, dstNode.Addr(), p2p.IOVec{payload(s, m, n)})
			tcf()
			got := nd.Take()
			type po struct {
				off int
				p   netsim.Packet
			}
			var ps []po
			for i, p := range got {
				off, ok := firstOffset(p.Data, s, m)
				if !ok {
					off = 1<<20 + i
				}
				ps = append(ps, po{off, p})
			}
			sort.SliceStable(ps, func(i, j int) bool { return ps[i].off < ps[j].off })
			for i, p := range ps {
				pkts[Frag{s, m, i}] = p.p
			}
			w.Emit(ev{"ev": "tell", "beh": b.ID, "s": s, "m": m, "len": n, "nfrag": len(got), "err": errClass(terr)})
		}
		sl.Close()
	}

	// the schedule
	for _, st := range b.Steps {
		var have []Frag
		for _, f := range st {
			if _, ok := pkts[f]; ok {
				have = append(have, f)
			}
		}
		if len(have) == 0 {
			continue
		}
		noteFeed(have)
		if len(have) == 1 {
			if err := dstNode.Feed(ctx, pkts[have[0]]); err != nil {
				return fmt.Errorf("behaviour %d: feed: %v", b.ID, err)
			}
		} else {
			var fw sync.WaitGroup
			for _, f := range have {
				fw.Add(1)
				go func(p netsim.Packet) {
					defer fw.Done()
					dstNode.Feed(ctx, p)
				}(pkts[f])
			}
			fw.Wait()
		}
		if !dstNode.WaitIdle(nw, 20*time.Second) {
			return fmt.Errorf("behaviour %d: receiving layer did not become idle (a receive worker is stuck or died)", b.ID)
		}
	}
	flushFeed()
	mu.Lock()
	deliv := [][3]int{}
	for k, c := range counts {
		deliv = append(deliv, [3]int{k[0], k[1], c})
	}
	mu.Unlock()
	sort.Slice(deliv, func(i, j int) bool {
		return deliv[i][0] < deliv[j][0] || deliv[i][0] == deliv[j][0] && deliv[i][1] < deliv[j][1]
	})
	w.Emit(ev{"ev": "end", "beh": b.ID, "deliv": deliv})
	cancel()
	recvLayer.Close()
	wg.Wait()
	return nil
}

func main() {
	in := flag.String("in", "", "behaviours (ndjson)")
	out := flag.String("out", "", "trace (ndjson)")
	flag.Parse()
	runtime.GOMAXPROCS(numWorker)
	f, err := os.Open(*in)
	if err != nil {
		fmt.Fprintln(os.Stderr, err)
		os.Exit(2)
	}
	w, err := trace.Create(*out)
	if err != nil {
		fmt.Fprintln(os.Stderr, err)
		os.Exit(2)
	}
	sc := bufio.NewScanner(f)
	sc.Buffer(make([]byte, 1<<20), 1<<28)
	n := 0
	for sc.Scan() {
		var b Behaviour
		if err := json.Unmarshal(sc.Bytes(), &b); err != nil {
			fmt.Fprintln(os.Stderr, "bad behaviour:", err)
			os.Exit(2)
		}
		if err := replay(b, w); err != nil {
			// a panic inside the layer's own goroutines kills the process (exit status 2 + stack);
			// errors reported here are harness-level
			w.Close()
			fmt.Fprintln(os.Stderr, err)
			os.Exit(3)
		}
		n++
	}
	if err := w.Close(); err != nil {
		fmt.Fprintln(os.Stderr, err)
		os.Exit(2)
	}
	fmt.Printf("replayed %d behaviours, %d events\n", n, w.Count())
}
