// dhtnodereplay binds spec/DHTNode.tla and spec/Chord.tla to the real code.
//
// Default mode: every behaviour TLC generated from DHTNode.tla (ndjson, one per line) is executed on a
// real kademlia.NewDHTNode through its PUBLIC API with an injected clock (DHTNodeParams.Now). After
// every call the replayer logs what the call returned and everything that can be observed of the node
// at that clock value (GetPeer/HasPeer/ListPeers over the id universe, Get/Count/WouldAdd over the key
// universe, HandleGet for every query key, HandleFindNode and ListNodeInfos for every target and
// limit). The log is validated by spec/DHTNodeTrace.tla.
//
// -chord: every case (a ring point `a` and a list of points `bs`, or a buffer-length triple) is run
// through chord.DistanceForward / DistanceAbsolute; validated by spec/ChordTrace.tla.
package main

import (
	"bufio"
	"encoding/json"
	"flag"
	"fmt"
	"os"
	"time"

	"go.brendoncarroll.net/p2p"
	"go.brendoncarroll.net/p2p/p/chord"
	"go.brendoncarroll.net/p2p/p/kademlia"

	"verifharness/trace"
)

type Key = []int

type Op struct {
	Op  string `json:"op"`
	Key Key    `json:"key"`
	V   int    `json:"v"`
	TTL int    `json:"ttl"`
	T   int    `json:"t"`
}

type Behaviour struct {
	ID         int    `json:"id"`
	Fam        string `json:"fam"`
	Local      Key    `json:"local"`
	PMax       int    `json:"pmax"`
	DMax       int    `json:"dmax"`
	PeerTTL    int    `json:"peerTTL"`
	MaxDataTTL int    `json:"maxDataTTL"`
	Epoch      string `json:"epoch"` // "past": the injected clock is in 1970, "future": in 2100
	Prefill    []Key  `json:"prefill"`
	Peers      []Key  `json:"peers"`
	Keys       []Key  `json:"keys"`
	Targets    []Key  `json:"targets"`
	Limits     []int  `json:"limits"`
	Ops        []Op   `json:"ops"`
	Silent     int    `json:"silent"` // leading operations executed without an event of their own
}

type KV struct {
	K Key `json:"k"`
	V int `json:"v"`
}
type KB struct {
	K Key  `json:"k"`
	B bool `json:"b"`
}
type NS struct {
	N int   `json:"n"`
	S []Key `json:"s"`
}
type QNS struct {
	Q Key   `json:"q"`
	N int   `json:"n"`
	S []Key `json:"s"`
}
type Stamp struct {
	K Key `json:"k"`
	C int `json:"c"` // CreatedAt, in clock units relative to the behaviour's epoch
	E int `json:"e"` // ExpiresAt
}
type HGet struct {
	Q  Key   `json:"q"`
	V  int   `json:"v"`
	S  []Key `json:"s"`
	SI []int `json:"si"`
}

type Event struct {
	Ev     string `json:"ev"`
	Beh    int    `json:"beh"`
	Fam    string `json:"fam"`
	PMax   int    `json:"pmax"`
	DMax   int    `json:"dmax"`
	Jump   bool   `json:"jump"`
	Prefix []Op   `json:"prefix"` // init only: prefill AddPeers followed by the silent operations
	Key    Key    `json:"key"`
	V      int    `json:"v"`
	TTL    int    `json:"ttl"`
	T      int    `json:"t"`
	Ret    bool   `json:"ret"`
	Acc    bool   `json:"acc"`
	Closer []Key  `json:"closer"`
	Panic  bool   `json:"panic"`
	PanicV string `json:"panicv"`
	// observation
	Peers []KV    `json:"peers"`
	Has   []Key   `json:"has"`
	List  []NS    `json:"list"`
	Data  []KV    `json:"data"`
	Count int     `json:"count"`
	HGet  []HGet  `json:"hget"`
	Find  []QNS   `json:"find"`
	Infos []QNS   `json:"infos"`
	Would []KB    `json:"would"`
	PSt   []Stamp `json:"pst"` // VerifCaches + VerifDump: the stamps of every peer / data entry
	DSt   []Stamp `json:"dst"`
}

const (
	hugeTTL   = 99            // model constant Huge
	hugeTTLms = 9223372036855 // * 1e6 ns overflows int64 (time.Duration) to a negative value
	pastBase  = 1_000_000     // 1970-01-12
	futurBase = 4_102_444_800 // 2100-01-01
	magic     = 0xAA
	scribble  = 0xEE
)

var listLimits = []int{-1, 0, 1, 2}

func toBytes(k Key) []byte {
	out := make([]byte, len(k))
	for i, x := range k {
		out[i] = byte(x)
	}
	return out
}

func fromBytes(b []byte) Key {
	out := make(Key, len(b))
	for i, x := range b {
		out[i] = int(x)
	}
	return out
}

type replayer struct {
	b     *Behaviour
	node  *kademlia.DHTNode
	clk   time.Time
	base  int64
	idLen int
}

func (r *replayer) toID(k Key) (id p2p.PeerID) {
	copy(id[:], toBytes(k))
	return id
}

// fromID undoes toID; an id whose padding is not zero is reported in full (it is then outside the universe).
func (r *replayer) fromID(id p2p.PeerID) Key {
	for _, x := range id[r.idLen:] {
		if x != 0 {
			return fromBytes(id[:])
		}
	}
	return fromBytes(id[:r.idLen])
}

// enc builds the bytes stored for value class v under key k: v, the key's first two bytes, a magic byte.
// Class 3 is the empty (non-nil) value.
func enc(v int, k Key) []byte {
	if v == 3 {
		return []byte{}
	}
	kb := toBytes(k)
	for len(kb) < 2 {
		kb = append(kb, 0)
	}
	return []byte{byte(v), kb[0], kb[1], magic}
}

// dec: 0 = nil, 3 = empty, v = a well-formed value of class v stored for THIS key, 77 = anything else
// (another key's value, or bytes somebody scribbled on).
func dec(b []byte, k Key) int {
	if b == nil {
		return 0
	}
	if len(b) == 0 {
		return 3
	}
	kb := toBytes(k)
	for len(kb) < 2 {
		kb = append(kb, 0)
	}
	if len(b) == 4 && b[3] == magic && b[1] == kb[0] && b[2] == kb[1] && b[0] != 3 && b[0] != 0 {
		return int(b[0])
	}
	return 77
}

func smudge(bs ...[]byte) {
	for _, b := range bs {
		for i := range b {
			b[i] = scribble
		}
	}
}

func guard(fn func()) (panicked bool, what string) {
	defer func() {
		if r := recover(); r != nil {
			panicked = true
			what = fmt.Sprint(r)
		}
	}()
	fn()
	return false, ""
}

func (r *replayer) setClock(t int) { r.clk = time.Unix(r.base+int64(t), 0) }

// apply executes one call at clock value op.T.
func (r *replayer) apply(op Op, ev *Event) {
	r.setClock(op.T)
	var from p2p.PeerID
	from[0], from[31] = 0x11, 0x01
	switch op.Op {
	case "tick":
	case "addpeer":
		info := enc(op.V, op.Key)
		ev.Ret = r.node.AddPeer(r.toID(op.Key), info)
		smudge(info)
	case "rmpeer":
		ev.Ret = r.node.RemovePeer(r.toID(op.Key))
	case "put":
		k, v := toBytes(op.Key), enc(op.V, op.Key)
		ev.Ret = r.node.Put(k, v, time.Duration(op.TTL)*time.Second)
		smudge(k, v)
	case "hput":
		k, v := toBytes(op.Key), enc(op.V, op.Key)
		ttlms := uint64(op.TTL) * 1000
		if op.TTL == hugeTTL {
			ttlms = hugeTTLms
		}
		res, err := r.node.HandlePut(from, kademlia.PutReq{Key: k, Value: v, TTLms: ttlms})
		if err != nil {
			panic("HandlePut: " + err.Error())
		}
		ev.Acc = res.Accepted
		for _, ni := range res.Closer {
			ev.Closer = append(ev.Closer, r.fromID(ni.ID))
		}
		smudge(k, v)
	default:
		panic("unknown op " + op.Op)
	}
}

// rel converts a time stamp to clock units relative to the behaviour's epoch; anything far from the injected
// clock (the wall clock, an overflowed TTL) is reported as +-1000000.
func (r *replayer) rel(t time.Time) int {
	d := t.Unix() - r.base
	if t.IsZero() || d > 1000000 {
		return 1000000
	}
	if d < -1000000 {
		return -1000000
	}
	return int(d)
}

// stamps reads CreatedAt / ExpiresAt of every entry of the two caches (read-only hook, build tag verif).
func (r *replayer) stamps() (ps, ds []Stamp) {
	ps, ds = []Stamp{}, []Stamp{}
	pc, dc := r.node.VerifCaches()
	_, pb := pc.VerifDump()
	for _, b := range pb {
		for _, e := range b.Entries {
			ps = append(ps, Stamp{K: r.fromID(peerID(e.Key)), C: r.rel(e.CreatedAt), E: r.rel(e.ExpiresAt)})
		}
	}
	_, db := dc.VerifDump()
	for _, b := range db {
		for _, e := range b.Entries {
			ds = append(ds, Stamp{K: fromBytes(e.Key), C: r.rel(e.CreatedAt), E: r.rel(e.ExpiresAt)})
		}
	}
	return ps, ds
}

func peerID(b []byte) (id p2p.PeerID) {
	copy(id[:], b)
	return id
}

// observe calls every read-only method over the universes, at the current clock value. The methods are
// called in an order that rotates with rot (each of them is, in some observations, the first call after the
// clock moved: a method that forgot to purge the expired entries cannot hide behind the others).
func (r *replayer) observe(ev *Event, rot int) {
	b := r.b
	var from p2p.PeerID
	from[0], from[31] = 0x11, 0x02
	ev.Peers, ev.Has, ev.List, ev.Data = []KV{}, []Key{}, []NS{}, []KV{}
	ev.HGet, ev.Find, ev.Infos, ev.Would = []HGet{}, []QNS{}, []QNS{}, []KB{}
	ev.PSt, ev.DSt = r.stamps()
	queries := []Key{}
	seen := map[string]bool{}
	for _, q := range append(append([]Key{}, b.Keys...), b.Targets...) {
		if !seen[fmt.Sprint(q)] {
			seen[fmt.Sprint(q)] = true
			queries = append(queries, q)
		}
	}
	sections := []func(){
		func() {
			for _, id := range b.Peers {
				if info, ok := r.node.GetPeer(r.toID(id)); ok {
					ev.Peers = append(ev.Peers, KV{K: id, V: dec(info, id)})
				}
			}
		},
		func() {
			for _, id := range b.Peers {
				if r.node.HasPeer(r.toID(id)) {
					ev.Has = append(ev.Has, id)
				}
			}
		},
		func() {
			for _, n := range listLimits {
				s := []Key{}
				for _, id := range r.node.ListPeers(n) {
					s = append(s, r.fromID(id))
				}
				ev.List = append(ev.List, NS{N: n, S: s})
			}
		},
		func() {
			for _, k := range b.Keys {
				if v := dec(r.node.Get(toBytes(k)), k); v != 0 {
					ev.Data = append(ev.Data, KV{K: k, V: v})
				}
			}
		},
		func() {
			for _, k := range b.Keys {
				ev.Would = append(ev.Would, KB{K: k, B: r.node.WouldAdd(toBytes(k))})
			}
		},
		func() { ev.Count = r.node.Count() },
		func() {
			for _, q := range queries {
				res, err := r.node.HandleGet(from, kademlia.GetReq{Key: toBytes(q)})
				if err != nil {
					panic("HandleGet: " + err.Error())
				}
				h := HGet{Q: q, V: dec(res.Value, q), S: []Key{}, SI: []int{}}
				for _, ni := range res.Closer {
					id := r.fromID(ni.ID)
					h.S = append(h.S, id)
					h.SI = append(h.SI, dec(ni.Info, id))
				}
				ev.HGet = append(ev.HGet, h)
			}
		},
		func() {
			for _, tg := range b.Targets {
				for _, n := range b.Limits {
					res, err := r.node.HandleFindNode(from, kademlia.FindNodeReq{Target: r.toID(tg), Limit: n})
					if err != nil {
						panic("HandleFindNode: " + err.Error())
					}
					s := []Key{}
					for _, ni := range res.Nodes {
						s = append(s, r.fromID(ni.ID))
					}
					ev.Find = append(ev.Find, QNS{Q: tg, N: n, S: s})
				}
			}
		},
		func() {
			for _, tg := range b.Targets {
				for _, n := range b.Limits {
					s := []Key{}
					tid := r.toID(tg)
					for _, ni := range r.node.ListNodeInfos(tid[:], n) {
						s = append(s, r.fromID(ni.ID))
					}
					ev.Infos = append(ev.Infos, QNS{Q: tg, N: n, S: s})
				}
			}
		},
	}
	for i := range sections {
		sections[(i+rot)%len(sections)]()
	}
}

func blank(name string, b *Behaviour) Event {
	return Event{Ev: name, Beh: b.ID, Fam: b.Fam, PMax: b.PMax, DMax: b.DMax, Prefix: []Op{}, Key: Key{}, Closer: []Key{},
		Peers: []KV{}, Has: []Key{}, List: []NS{}, Data: []KV{}, HGet: []HGet{}, Find: []QNS{}, Infos: []QNS{}, Would: []KB{},
		PSt: []Stamp{}, DSt: []Stamp{}}
}

func (r *replayer) run(w *trace.Writer) {
	b := r.b
	r.idLen = len(b.Local)
	r.base = pastBase
	if b.Epoch == "future" {
		r.base = futurBase
	}
	ev := blank("init", b)
	ev.T = 1
	ev.Jump = b.Silent > 0
	p, what := guard(func() {
		r.setClock(1)
		r.node = kademlia.NewDHTNode(kademlia.DHTNodeParams{
			LocalID:       r.toID(b.Local),
			PeerCacheSize: b.PMax,
			DataCacheSize: b.DMax,
			Now:           func() time.Time { return r.clk },
			MaxPeerTTL:    time.Duration(b.PeerTTL) * time.Second,
			MaxDataTTL:    time.Duration(b.MaxDataTTL) * time.Second,
		})
		for _, id := range b.Prefill {
			op := Op{Op: "addpeer", Key: id, V: 1, T: 1}
			ev.Prefix = append(ev.Prefix, op)
			r.apply(op, &Event{})
		}
		for _, op := range b.Ops[:b.Silent] {
			if op.Key == nil {
				op.Key = Key{}
			}
			ev.Prefix = append(ev.Prefix, op)
			ev.T = op.T
			r.apply(op, &Event{})
		}
		r.observe(&ev, b.ID)
	})
	if p {
		ev = blank("init", b)
		ev.Panic, ev.PanicV = true, "NewDHTNode/prefix: "+what
		w.Emit(ev)
		return
	}
	w.Emit(ev)
	for step, op := range b.Ops[b.Silent:] {
		ev := blank(op.Op, b)
		ev.Key, ev.V, ev.TTL, ev.T = op.Key, op.V, op.TTL, op.T
		if ev.Key == nil {
			ev.Key = Key{}
		}
		p, what := guard(func() {
			r.apply(op, &ev)
			r.observe(&ev, b.ID+step+1)
		})
		if p {
			ev2 := blank(op.Op, b)
			ev2.Key, ev2.V, ev2.TTL, ev2.T = ev.Key, op.V, op.TTL, op.T
			ev2.Panic, ev2.PanicV = true, op.Op+": "+what
			w.Emit(ev2)
			return
		}
		w.Emit(ev)
	}
}

// cacheProbes records a fact about kademlia.Cache that DHTNode.RemovePeer has to work around (event "cachedel":
// Ret = Delete of an absent key returned a non-nil *Entry, Acc = the key's bucket existed).
func cacheProbes(w *trace.Writer) {
	at := func(t int) time.Time {
		if t == 0 {
			return time.Time{}
		}
		return time.Unix(pastBase+int64(t), 0)
	}
	// Delete of a key that is not there, its bucket existing or not
	for _, present := range []bool{false, true} {
		kc := kademlia.NewCache[int]([]byte{0xa5}, 4, 0)
		if present {
			kc.Put([]byte{0x25}, 7, at(1), at(0))
		}
		ev := blank("cachedel", &Behaviour{})
		ev.Acc = present
		ev.Ret = kc.Delete([]byte{0x26}) != nil
		ev.Count = kc.Count()
		w.Emit(ev)
	}
}

// ---------------------------------------------------------------------------
// chord

type ChordCase struct {
	ID int   `json:"id"`
	A  Key   `json:"a"`
	Bs []Key `json:"bs"`
	// Lens, when set, is a buffer-length case: len(out), len(to), len(from)
	Lens []int `json:"lens"`
}

type ChordRow struct {
	B     Key  `json:"b"`
	Fwd   Key  `json:"fwd"`   // DistanceForward(out, to=b, from=a)
	Bwd   Key  `json:"bwd"`   // DistanceForward(out, to=a, from=b)
	Abs   Key  `json:"abs"`   // DistanceAbsolute(out, to=b, from=a)
	AbsBA Key  `json:"absba"` // DistanceAbsolute(out, to=a, from=b)
	Clean bool `json:"clean"` // the inputs were left untouched
}

type ChordEvent struct {
	Ev     string     `json:"ev"`
	ID     int        `json:"id"`
	A      Key        `json:"a"`
	Rows   []ChordRow `json:"rows"`
	Lens   []int      `json:"lens"`
	PanicF bool       `json:"panicf"` // DistanceForward panicked
	PanicA bool       `json:"panica"` // DistanceAbsolute panicked
	PanicV string     `json:"panicv"`
}

func runChord(in *os.File, w *trace.Writer) int {
	sc := bufio.NewScanner(in)
	sc.Buffer(make([]byte, 1<<20), 1<<28)
	n := 0
	for sc.Scan() {
		var c ChordCase
		if err := json.Unmarshal(sc.Bytes(), &c); err != nil {
			fmt.Fprintln(os.Stderr, "bad case:", err)
			os.Exit(2)
		}
		ev := ChordEvent{Ev: "pairs", ID: c.ID, A: c.A, Rows: []ChordRow{}, Lens: []int{}}
		if ev.A == nil {
			ev.A = Key{}
		}
		if len(c.Lens) == 3 {
			ev.Ev, ev.Lens = "lens", c.Lens
			mk := func(n int) []byte { return make([]byte, n) }
			ev.PanicF, ev.PanicV = guard(func() { chord.DistanceForward(mk(c.Lens[0]), mk(c.Lens[1]), mk(c.Lens[2])) })
			var what string
			ev.PanicA, what = guard(func() { chord.DistanceAbsolute(mk(c.Lens[0]), mk(c.Lens[1]), mk(c.Lens[2])) })
			if what != "" {
				ev.PanicV = what
			}
			w.Emit(ev)
			n++
			continue
		}
		a := toBytes(c.A)
		for _, bk := range c.Bs {
			b := toBytes(bk)
			row := ChordRow{B: bk}
			a0, b0 := append([]byte{}, a...), append([]byte{}, b...)
			out := func() []byte { // a dirty buffer: the functions must overwrite every byte
				o := make([]byte, len(a))
				smudge(o)
				return o
			}
			pf, what := guard(func() {
				o := out()
				chord.DistanceForward(o, b, a)
				row.Fwd = fromBytes(o)
				o = out()
				chord.DistanceForward(o, a, b)
				row.Bwd = fromBytes(o)
			})
			if pf {
				ev.PanicF, ev.PanicV = true, what
			}
			pa, what := guard(func() {
				o := out()
				chord.DistanceAbsolute(o, b, a)
				row.Abs = fromBytes(o)
				o = out()
				chord.DistanceAbsolute(o, a, b)
				row.AbsBA = fromBytes(o)
			})
			if pa {
				ev.PanicA, ev.PanicV = true, what
			}
			row.Clean = string(a0) == string(a) && string(b0) == string(b)
			for _, p := range []*Key{&row.Fwd, &row.Bwd, &row.Abs, &row.AbsBA} {
				if *p == nil {
					*p = Key{}
				}
			}
			ev.Rows = append(ev.Rows, row)
			n++
		}
		w.Emit(ev)
	}
	return n
}

func main() {
	in := flag.String("in", "", "behaviours / cases (ndjson)")
	out := flag.String("out", "", "trace (ndjson)")
	chordMode := flag.Bool("chord", false, "run chord cases")
	probes := flag.Bool("probes", false, "emit the kademlia.Cache probe events first")
	flag.Parse()
	f, err := os.Open(*in)
	if err != nil {
		fmt.Fprintln(os.Stderr, err)
		os.Exit(2)
	}
	defer f.Close()
	w, err := trace.Create(*out)
	if err != nil {
		fmt.Fprintln(os.Stderr, err)
		os.Exit(2)
	}
	if *chordMode {
		n := runChord(f, w)
		if err := w.Close(); err != nil {
			fmt.Fprintln(os.Stderr, err)
			os.Exit(2)
		}
		fmt.Printf("chord: %d pairs/cases, %d events\n", n, w.Count())
		return
	}
	if *probes {
		cacheProbes(w)
	}
	sc := bufio.NewScanner(f)
	sc.Buffer(make([]byte, 1<<20), 1<<28)
	nb := 0
	for sc.Scan() {
		var b Behaviour
		if err := json.Unmarshal(sc.Bytes(), &b); err != nil {
			fmt.Fprintln(os.Stderr, "bad behaviour:", err)
			os.Exit(2)
		}
		(&replayer{b: &b}).run(w)
		nb++
	}
	n := w.Count()
	if err := w.Close(); err != nil {
		fmt.Fprintln(os.Stderr, err)
		os.Exit(2)
	}
	fmt.Printf("dhtnode: %d behaviours, %d events\n", nb, n)
}
