package main

import (
	"context"
	"crypto"
	"crypto/ecdsa"
	"crypto/ed25519"
	"crypto/elliptic"
	"crypto/rand"
	"crypto/tls"
	stdx509 "crypto/x509"
	"encoding/binary"
	"errors"
	"fmt"
	"io"
	"math/big"
	"net"
	"sync"
	"time"

	"github.com/quic-go/quic-go"
	"go.brendoncarroll.net/p2p"
	"go.brendoncarroll.net/p2p/f/x509"
	"go.brendoncarroll.net/p2p/p2pconn"
	"go.brendoncarroll.net/p2p/s/memswarm"
	"go.brendoncarroll.net/p2p/s/quicswarm"
	"verifharness/attacker"
)

type qAddr = quicswarm.Addr[memswarm.Addr]

func quicID(name string) p2p.PeerID {
	return quicswarm.DefaultFingerprinter(attacker.X509Public(edKey(name)))
}

func quicIDName(id p2p.PeerID) string {
	for _, n := range nodeNames {
		if quicID(n) == id {
			return n
		}
	}
	ecKey()
	if quicswarm.DefaultFingerprinter(mePub) == id {
		return "Me"
	}
	if quicswarm.DefaultFingerprinter(x509.PublicKey{}) == id {
		return "zero"
	}
	return "other"
}

// M's second key pair: ECDSA P-256, an algorithm the swarms' default registry (Ed25519 only) cannot load.
var (
	meOnce sync.Once
	meKey  *ecdsa.PrivateKey
	mePub  x509.PublicKey // as the library parses it out of a certificate
)

func ecKey() *ecdsa.PrivateKey {
	meOnce.Do(func() {
		k, err := ecdsa.GenerateKey(elliptic.P256(), rand.Reader)
		if err != nil {
			panic(err)
		}
		meKey = k
		spki, err := stdx509.MarshalPKIXPublicKey(&k.PublicKey)
		if err != nil {
			panic(err)
		}
		mePub, err = x509.ParsePublicKey(spki)
		if err != nil {
			panic(err)
		}
	})
	return meKey
}

func stdPub(k string) crypto.PublicKey {
	if k == "Me" {
		return &ecKey().PublicKey
	}
	return edKey(k).Public()
}

// claimSigner is the TLS private key of a leaf certificate that carries an arbitrary public key: it signs
// CertificateVerify with the matching private key if M has it, otherwise with M's main key ("own"), or
// with nothing at all.
type claimSigner struct {
	k   string
	own bool
}

func (s *claimSigner) Public() crypto.PublicKey { return stdPub(s.k) }
func (s *claimSigner) Sign(r io.Reader, digest []byte, opts crypto.SignerOpts) ([]byte, error) {
	switch {
	case s.own && s.k == "Me":
		return ecKey().Sign(r, digest, opts)
	case s.own:
		return edKey("M").Sign(r, digest, opts)
	}
	return garbage(ed25519.SignatureSize, len(digest)), nil
}

func certTemplate() *stdx509.Certificate {
	max := new(big.Int).Lsh(big.NewInt(1), 120)
	serial, _ := rand.Int(rand.Reader, max)
	return &stdx509.Certificate{
		ExtKeyUsage:           []stdx509.ExtKeyUsage{stdx509.ExtKeyUsageClientAuth, stdx509.ExtKeyUsageServerAuth},
		BasicConstraintsValid: true,
		NotBefore:             time.Now().Add(-time.Minute),
		NotAfter:              time.Now().AddDate(0, 1, 0),
		KeyUsage:              stdx509.KeyUsageKeyEncipherment | stdx509.KeyUsageDigitalSignature | stdx509.KeyUsageCertSign,
		SerialNumber:          serial,
		IsCA:                  true,
	}
}

// claimCert builds M's certificate chain: a leaf whose subject public key is k's, optionally followed by one
// more certificate that merely CONTAINS the public key of extra (anybody can make such a certificate: public
// keys are public). Every certificate is issued with M's main key; nobody verifies issuer signatures
// (InsecureSkipVerify, RequireAnyClientCert), TLS only makes the peer prove the LEAF's private key.
func claimCert(k, proof, extra string) (tls.Certificate, error) {
	leafT := certTemplate()
	der, err := stdx509.CreateCertificate(rand.Reader, leafT, leafT, stdPub(k), edKey("M"))
	if err != nil {
		return tls.Certificate{}, err
	}
	chain := [][]byte{der}
	if extra != "" && extra != "-" {
		xder, err := stdx509.CreateCertificate(rand.Reader, certTemplate(), leafT, stdPub(extra), edKey("M"))
		if err != nil {
			return tls.Certificate{}, err
		}
		chain = append(chain, xder)
	}
	return tls.Certificate{Certificate: chain, PrivateKey: &claimSigner{k: k, own: proof == "own"}}, nil
}

// usedKey is the ground truth about a presentation: the key whose private half M really used.
func usedKey(k, proof string) string {
	switch {
	case proof != "own":
		return "none"
	case k == "Me":
		return "Me"
	}
	return "M"
}

type mtuConn struct{ net.PacketConn }

func (c mtuConn) WriteTo(data []byte, addr net.Addr) (int, error) {
	n, err := c.PacketConn.WriteTo(data, addr)
	if p2p.IsErrMTUExceeded(err) {
		return len(data), nil
	}
	return n, err
}

func quicConf() *quic.Config {
	return &quic.Config{EnableDatagrams: true, HandshakeIdleTimeout: 2 * time.Second, MaxIdleTimeout: 20 * time.Second}
}

type mQConn struct {
	peer  string
	conn  quic.Connection
	used  string
	bound bool
}

type quicWorld struct {
	r      *run
	ctx    context.Context
	cf     context.CancelFunc
	inner  map[string]p2p.Swarm[memswarm.Addr]
	addr   map[string]memswarm.Addr
	owner  map[string]string
	swarms map[string]*quicswarm.Swarm[memswarm.Addr]

	tr *quic.Transport
	ln *quic.Listener

	mu      sync.Mutex
	pol     [3]string
	dials   map[int]*mQConn
	answers map[string]*mQConn // latest connection each peer opened to M
	ansConn map[int]*mQConn    // model connection -> connection
}

func newQUICWorld(r *run) (world, error) {
	w := &quicWorld{r: r, inner: map[string]p2p.Swarm[memswarm.Addr]{}, addr: map[string]memswarm.Addr{}, owner: map[string]string{},
		swarms: map[string]*quicswarm.Swarm[memswarm.Addr]{}, pol: [3]string{"M", "own", "-"}, dials: map[int]*mQConn{}, answers: map[string]*mQConn{}, ansConn: map[int]*mQConn{}}
	w.ctx, w.cf = context.WithCancel(context.Background())
	realm := sharedRealm
	for _, n := range nodeNames {
		sw := realm.NewSwarm()
		w.inner[n] = sw
		w.addr[n] = sw.LocalAddrs()[0]
		w.owner[w.addr[n].Key()] = n
	}
	for _, n := range []string{"A", "B"} {
		n := n
		allow := allowSet(r.b.Wl[n])
		sw, err := quicswarm.New[memswarm.Addr](w.inner[n], attacker.X509Private(edKey(n)),
			quicswarm.WithWhilelist[memswarm.Addr](func(a p2p.Addr) bool {
				qa, ok := a.(qAddr)
				return ok && allow[quicIDName(qa.ID)]
			}))
		if err != nil {
			w.Close()
			return nil, err
		}
		w.swarms[n] = sw
		lookup := func(src qAddr) string {
			return lookupName[qAddr, x509.PublicKey](sw, src, func(k x509.PublicKey) string { return x509Name(&k) })
		}
		go func() {
			for {
				if err := sw.Receive(w.ctx, func(m p2p.Message[qAddr]) {
					r.onDeliver(n, quicIDName(m.Src.ID), lookup(m.Src), m.Payload, false, m.Src, w.owner[m.Src.Addr.Key()])
				}); err != nil {
					return
				}
			}
		}()
		go func() {
			for {
				if err := sw.ServeAsk(w.ctx, func(ctx context.Context, resp []byte, m p2p.Message[qAddr]) int {
					r.onDeliver(n, quicIDName(m.Src.ID), lookup(m.Src), m.Payload, true, m.Src, w.owner[m.Src.Addr.Key()])
					return copy(resp, "ok")
				}); err != nil {
					return
				}
			}
		}()
	}
	// M: a bare quic-go endpoint on its memswarm node; listens with whatever certificate the policy says
	w.tr = &quic.Transport{Conn: mtuConn{p2pconn.NewPacketConn(w.inner["M"])}}
	srvTLS := &tls.Config{
		GetCertificate: func(*tls.ClientHelloInfo) (*tls.Certificate, error) {
			w.mu.Lock()
			pol := w.pol
			w.mu.Unlock()
			c, err := claimCert(pol[0], pol[1], pol[2])
			return &c, err
		},
		NextProtos:         []string{"p2p"},
		ClientAuth:         tls.RequireAnyClientCert,
		InsecureSkipVerify: true,
	}
	ln, err := w.tr.Listen(srvTLS, quicConf())
	if err != nil {
		w.Close()
		return nil, err
	}
	w.ln = ln
	go func() {
		for {
			conn, err := ln.Accept(w.ctx)
			if err != nil {
				return
			}
			peer := "other"
			if ra, ok := conn.RemoteAddr().(p2pconn.Addr[memswarm.Addr]); ok {
				peer = w.owner[ra.Addr.Key()]
			}
			w.mu.Lock()
			used := usedKey(w.pol[0], w.pol[1])
			w.answers[peer] = &mQConn{peer: peer, conn: conn, used: used}
			w.mu.Unlock()
			go w.mRead(conn)
		}
	}()
	return w, nil
}

// mRead records every payload that reaches M's endpoint over a QUIC connection.
func (w *quicWorld) mRead(conn quic.Connection) {
	go func() {
		for {
			st, err := conn.AcceptUniStream(w.ctx)
			if err != nil {
				return
			}
			go func() {
				data, _ := io.ReadAll(io.LimitReader(st, 1<<16))
				w.r.onSaw(data)
			}()
		}
	}()
	for {
		st, err := conn.AcceptStream(w.ctx)
		if err != nil {
			return
		}
		go func() {
			defer st.Close()
			st.SetDeadline(time.Now().Add(3 * time.Second))
			data, err := readFrameQ(st)
			if err != nil {
				return
			}
			w.r.onSaw(data)
			writeFrameQ(st, []byte("ok"))
		}()
	}
}

func writeFrameQ(wr io.Writer, data []byte) error {
	var l [4]byte
	binary.BigEndian.PutUint32(l[:], uint32(len(data)))
	if _, err := wr.Write(l[:]); err != nil {
		return err
	}
	_, err := wr.Write(data)
	return err
}

func readFrameQ(rd io.Reader) ([]byte, error) {
	var l [4]byte
	if _, err := io.ReadFull(rd, l[:]); err != nil {
		return nil, err
	}
	n := binary.BigEndian.Uint32(l[:])
	if n > 1<<16 {
		return nil, errors.New("frame too big")
	}
	out := make([]byte, n)
	_, err := io.ReadFull(rd, out)
	return out, err
}

func (w *quicWorld) full(x, t string) qAddr { return qAddr{ID: quicID(x), Addr: w.addr[t]} }

func (w *quicWorld) send(n string, dst qAddr, ask bool, payload []byte, timeout time.Duration) error {
	ctx, cf := context.WithTimeout(w.ctx, timeout)
	defer cf()
	done := make(chan error, 1)
	go func() {
		if ask {
			resp := make([]byte, 64)
			_, err := w.swarms[n].Ask(ctx, resp, dst, p2p.IOVec{payload})
			done <- err
		} else {
			done <- w.swarms[n].Tell(ctx, dst, p2p.IOVec{payload})
		}
	}()
	select {
	case err := <-done:
		return err
	case <-time.After(timeout + 500*time.Millisecond):
		return errors.New("harness: call did not return in time")
	}
}

func (w *quicWorld) Send(n, x, t string, ask bool, payload []byte, timeout time.Duration) error {
	return w.send(n, w.full(x, t), ask, payload, timeout)
}

func (w *quicWorld) Reply(n string, addr any, ask bool, payload []byte, timeout time.Duration) error {
	return w.send(n, addr.(qAddr), ask, payload, timeout)
}

func (w *quicWorld) MListen(k, proof, extra string) {
	w.mu.Lock()
	w.pol = [3]string{k, proof, extra}
	w.mu.Unlock()
}

func (w *quicWorld) BindAnswer(c int, peer string) {
	// M's side of a connection may be registered a moment after the dialler's call returned
	for i := 0; i < 30; i++ {
		w.mu.Lock()
		if a := w.answers[peer]; a != nil && !a.bound {
			a.bound = true
			w.ansConn[c] = a
			w.mu.Unlock()
			return
		}
		w.mu.Unlock()
		time.Sleep(10 * time.Millisecond)
	}
}

func (w *quicWorld) MDial(c int, t string) string {
	w.mu.Lock()
	w.dials[c] = &mQConn{peer: t, used: "none"}
	w.mu.Unlock()
	return "ok"
}

// MPresent is one QUIC connection attempt of M with a client certificate that carries key k.
func (w *quicWorld) MPresent(c int, k, proof, extra string) string {
	w.mu.Lock()
	d := w.dials[c]
	w.mu.Unlock()
	if d == nil {
		return "no such connection"
	}
	cert, err := claimCert(k, proof, extra)
	if err != nil {
		return "certificate: " + err.Error()
	}
	cliTLS := &tls.Config{Certificates: []tls.Certificate{cert}, InsecureSkipVerify: true, NextProtos: []string{"p2p"}}
	// an honest-equivalent attempt is given more time (a busy machine is slow; a refusal fails by itself)
	patience := 600 * time.Millisecond
	if (k == "M" || k == "Me") && proof == "own" {
		patience = 2 * time.Second
	}
	ctx, cf := context.WithTimeout(w.ctx, patience)
	defer cf()
	conn, err := w.tr.Dial(ctx, p2pconn.NewAddr[memswarm.Addr](w.inner["M"], w.addr[d.peer]), cliTLS, quicConf())
	if err != nil {
		return errText(err)
	}
	w.mu.Lock()
	if d.conn != nil {
		d.conn.CloseWithError(0, "")
	}
	d.conn = conn
	d.used = usedKey(k, proof)
	w.mu.Unlock()
	go w.mRead(conn)
	// the server checks the client's CertificateVerify after the client believes the handshake is over
	select {
	case <-conn.Context().Done():
		return "dialled, then closed by peer: " + fmt.Sprint(context.Cause(conn.Context()))
	case <-time.After(60 * time.Millisecond):
		return "connected"
	}
}

func (w *quicWorld) MHello(c int, k, proof string) string { return "not a P2PKE world" }
func (w *quicWorld) MFinish(c int) string                 { return "not a P2PKE world" }

func (w *quicWorld) Lookup(n, x, t string, timeout time.Duration) string {
	ctx, cf := context.WithTimeout(w.ctx, timeout)
	defer cf()
	res := make(chan string, 1)
	go func() {
		k, err := w.swarms[n].LookupPublicKey(ctx, w.full(x, t))
		if err != nil {
			res <- "err"
			return
		}
		res <- x509Name(&k)
	}()
	select {
	case r := <-res:
		return r
	case <-time.After(timeout + 500*time.Millisecond):
		return "err"
	}
}

func (w *quicWorld) MAuth(c int, steps []Step) (string, [][]string) {
	return "not an SSH world", nil
}

func (w *quicWorld) mconn(c int, role, peer string) *mQConn {
	if role == "dial" {
		return w.dials[c]
	}
	return w.ansConn[c]
}

func (w *quicWorld) MUsed(c int, role, peer string) (string, bool) {
	w.mu.Lock()
	defer w.mu.Unlock()
	m := w.mconn(c, role, peer)
	if m == nil || m.conn == nil {
		return "none", false
	}
	return m.used, true
}

func (w *quicWorld) MSend(c int, role, peer string, ask bool, payload []byte, timeout time.Duration) error {
	w.mu.Lock()
	m := w.mconn(c, role, peer)
	w.mu.Unlock()
	if m == nil || m.conn == nil {
		return errors.New("no connection")
	}
	done := make(chan error, 1)
	go func() {
		if !ask {
			st, err := m.conn.OpenUniStream()
			if err != nil {
				done <- err
				return
			}
			st.SetWriteDeadline(time.Now().Add(timeout))
			if _, err := st.Write(payload); err != nil {
				done <- err
				return
			}
			done <- st.Close()
			return
		}
		ctx, cf := context.WithTimeout(w.ctx, timeout)
		defer cf()
		st, err := m.conn.OpenStreamSync(ctx)
		if err != nil {
			done <- err
			return
		}
		defer st.Close()
		st.SetDeadline(time.Now().Add(timeout))
		if err := writeFrameQ(st, payload); err != nil {
			done <- err
			return
		}
		_, err = readFrameQ(st)
		done <- err
	}()
	select {
	case err := <-done:
		return err
	case <-time.After(timeout + 300*time.Millisecond):
		return errors.New("harness: send did not return in time")
	}
}

func (w *quicWorld) Close() {
	w.cf()
	w.mu.Lock()
	for _, m := range w.dials {
		if m.conn != nil {
			m.conn.CloseWithError(0, "")
		}
	}
	for _, m := range w.answers {
		if m.conn != nil {
			m.conn.CloseWithError(0, "")
		}
	}
	w.mu.Unlock()
	done := make(chan struct{})
	go func() {
		for _, sw := range w.swarms {
			sw.Close()
		}
		if w.ln != nil {
			w.ln.Close()
		}
		w.inner["M"].Close()
		if w.tr != nil {
			w.tr.Close()
		}
		close(done)
	}()
	select {
	case <-done:
	case <-time.After(3 * time.Second):
	}
}
