package main

import (
	"bytes"
	"context"
	"crypto/ed25519"
	"encoding/binary"
	"fmt"
	"sync"
	"time"

	"github.com/flynn/noise"
	"go.brendoncarroll.net/p2p"
	"go.brendoncarroll.net/p2p/f/x509"
	"go.brendoncarroll.net/p2p/s/memswarm"
	"go.brendoncarroll.net/p2p/s/p2pkeswarm"
	"verifharness/attacker"
)

type pkAddr = p2pkeswarm.Addr[memswarm.Addr]

// One realm for the whole process: quic-go keeps a process-wide table of packet connections keyed by
// their local address string, so every node of every behaviour needs an address of its own. Behaviours
// never learn each other's addresses.
var sharedRealm = memswarm.NewRealm(memswarm.WithQueueLen(64))

// x509 names: map public keys / fingerprints back to node names
func x509Name(pk *x509.PublicKey) string {
	if pk == nil || pk.IsZero() {
		return "zero"
	}
	data := x509.MarshalPublicKey(nil, pk)
	ecKey()
	if bytes.Equal(data, x509.MarshalPublicKey(nil, &mePub)) {
		return "Me"
	}
	for _, n := range nodeNames {
		if bytes.Equal(data, attacker.X509PublicBytes(edKey(n))) {
			return n
		}
	}
	return "other"
}

func pkIDName(id p2p.PeerID) string {
	for _, n := range nodeNames {
		pk := attacker.X509Public(edKey(n))
		if p2pkeswarm.DefaultFingerprinter(&pk) == id {
			return n
		}
	}
	zero := x509.PublicKey{}
	if p2pkeswarm.DefaultFingerprinter(&zero) == id {
		return "zero"
	}
	return "other"
}

func pkID(name string) p2p.PeerID {
	pk := attacker.X509Public(edKey(name))
	return p2pkeswarm.DefaultFingerprinter(&pk)
}

func allowSet(names []string) map[string]bool {
	m := map[string]bool{}
	for _, n := range names {
		m[n] = true
	}
	return m
}

// lookupName calls p2p.LookupPublicKeyInHandler and names the result; "panic" if it panicked.
func lookupName[A p2p.Addr, K any](s p2p.Secure[A, K], src A, name func(K) string) (res string) {
	defer func() {
		if e := recover(); e != nil {
			res = "panic"
		}
	}()
	return name(p2p.LookupPublicKeyInHandler[A, K](s, src))
}

type pendingP2PKE struct {
	adv      *attacker.Adv
	cs       *attacker.Ciphers
	own      bool
	patience time.Duration
}

type mDialP2PKE struct {
	pending *pendingP2PKE // first half of a handshake done, InitDone withheld
	peer    string
	ciphers *attacker.Ciphers
	nonce   uint32
	used    string
	rh, rd  chan []byte
}

type mAnsP2PKE struct {
	ciphers  *attacker.Ciphers
	nonce    uint32
	used     string
	dataMode bool
	bound    bool
	ih, rh   []byte // the InitHello this state answers and the RespHello sent for it
}

type p2pkeWorld struct {
	r      *run
	ctx    context.Context
	cf     context.CancelFunc
	inner  map[string]p2p.Swarm[memswarm.Addr]
	addr   map[string]memswarm.Addr
	owner  map[string]string // memswarm address key -> node name
	swarms map[string]*p2pkeswarm.Swarm[memswarm.Addr]

	mu       sync.Mutex
	pol      [2]string
	captured map[string][]byte // InitHello bytes an honest node sent to M
	dials    map[int]*mDialP2PKE
	answers  map[string]*mAnsP2PKE // latest handshake each peer started with M
	ansConn  map[int]*mAnsP2PKE    // model connection -> handshake
	attempt  int
	extra    int
	wg       sync.WaitGroup
}

func newP2PKEWorld(r *run) (world, error) {
	w := &p2pkeWorld{r: r, inner: map[string]p2p.Swarm[memswarm.Addr]{}, addr: map[string]memswarm.Addr{}, owner: map[string]string{},
		swarms: map[string]*p2pkeswarm.Swarm[memswarm.Addr]{}, pol: [2]string{"M", "own"}, captured: map[string][]byte{},
		dials: map[int]*mDialP2PKE{}, answers: map[string]*mAnsP2PKE{}, ansConn: map[int]*mAnsP2PKE{}}
	w.ctx, w.cf = context.WithCancel(context.Background())
	realm := sharedRealm
	for _, n := range nodeNames {
		sw := realm.NewSwarm()
		w.inner[n] = sw
		w.addr[n] = sw.LocalAddrs()[0]
		w.owner[w.addr[n].Key()] = n
	}
	for _, n := range []string{"A", "B"} {
		n := n
		allow := allowSet(r.b.Wl[n])
		sw := p2pkeswarm.New[memswarm.Addr](w.inner[n], attacker.X509Private(edKey(n)),
			p2pkeswarm.WithWhitelist[memswarm.Addr](func(a pkAddr) bool { return allow[pkIDName(a.ID)] }))
		w.swarms[n] = sw
		w.wg.Add(1)
		go func() {
			defer w.wg.Done()
			for {
				err := sw.Receive(w.ctx, func(m p2p.Message[pkAddr]) {
					lk := lookupName[pkAddr, x509.PublicKey](sw, m.Src, func(k x509.PublicKey) string { return x509Name(&k) })
					r.onDeliver(n, pkIDName(m.Src.ID), lk, m.Payload, false, m.Src, w.owner[m.Src.Addr.Key()])
				})
				if err != nil {
					return
				}
			}
		}()
	}
	w.wg.Add(1)
	go w.mLoop()
	return w, nil
}

func (w *p2pkeWorld) full(x, t string) pkAddr { return pkAddr{ID: pkID(x), Addr: w.addr[t]} }

func (w *p2pkeWorld) Send(n, x, t string, ask bool, payload []byte, timeout time.Duration) error {
	ctx, cf := context.WithTimeout(w.ctx, timeout)
	defer cf()
	return w.swarms[n].Tell(ctx, w.full(x, t), p2p.IOVec{payload})
}

func (w *p2pkeWorld) Reply(n string, addr any, ask bool, payload []byte, timeout time.Duration) error {
	ctx, cf := context.WithTimeout(w.ctx, timeout)
	defer cf()
	return w.swarms[n].Tell(ctx, addr.(pkAddr), p2p.IOVec{payload})
}

func (w *p2pkeWorld) mTell(to string, pkt []byte) {
	ctx, cf := context.WithTimeout(w.ctx, time.Second)
	defer cf()
	w.inner["M"].Tell(ctx, w.addr[to], p2p.IOVec{pkt})
}

func garbage(n int, salt int) []byte {
	out := make([]byte, n)
	for i := range out {
		out[i] = byte(37*i + 11*salt + 5)
	}
	return out
}

func (w *p2pkeWorld) newAdv() *attacker.Adv {
	w.attempt++
	seed := make([]byte, 32)
	binary.BigEndian.PutUint64(seed[8:], uint64(w.r.b.ID)+1)
	binary.BigEndian.PutUint64(seed[24:], uint64(w.attempt)+77)
	copy(seed, "secreplay")
	return attacker.New(edKey("M"), seed)
}

// mLoop is M's transport endpoint: it answers dials according to the current policy, hands handshake
// replies to the dial attempt waiting for them and tries to decrypt every data packet with the
// transport keys M legitimately owns.
func (w *p2pkeWorld) mLoop() {
	defer w.wg.Done()
	for {
		var src memswarm.Addr
		var data []byte
		err := w.inner["M"].Receive(w.ctx, func(m p2p.Message[memswarm.Addr]) {
			src = m.Src
			data = append([]byte{}, m.Payload...)
		})
		if err != nil {
			return
		}
		if len(data) < 4 {
			continue
		}
		peer := w.owner[src.Key()]
		hdr := binary.BigEndian.Uint32(data[:4])
		w.mu.Lock()
		switch {
		case hdr == 0: // InitHello of somebody who dialled M's address
			if a := w.answers[peer]; a != nil && bytes.Equal(a.ih, data) {
				// a retransmission: a responder answers it with the RespHello it already sent
				rh := a.rh
				w.mu.Unlock()
				w.mTell(peer, rh)
				continue
			}
			w.captured[peer] = data
			adv := w.newAdv()
			own := w.pol[1] == "own" || w.pol[1] == "data"
			rh, cs, err := adv.RespHello(data, attacker.X509PublicBytes(edKey(w.pol[0])), own, garbage(64, w.attempt))
			if err == nil {
				used := "none"
				if own {
					used = "M"
				}
				w.answers[peer] = &mAnsP2PKE{ciphers: cs, nonce: 16, used: used, dataMode: w.pol[1] == "data", ih: data, rh: rh}
				w.mu.Unlock()
				w.mTell(peer, rh)
				continue
			}
		case hdr == 1 || hdr == 3:
			for _, d := range w.dials {
				if d.peer == peer {
					ch := d.rh
					if hdr == 3 {
						ch = d.rd
					}
					select {
					case ch <- data:
					default:
					}
				}
			}
		case hdr == 2: // InitDone of a dialler that accepted M's RespHello
			if a := w.answers[peer]; a != nil {
				if _, err := a.ciphers.I2R.Decrypt(nil, 2, data[:4], data[4:]); err == nil {
					rd := attacker.RespDone(a.ciphers)
					if a.dataMode {
						// no RespDone: application data is what completes the dialler's handshake (F21).
						// The payload is announced like every other send, before it goes out.
						w.extra++
						p := 100 + w.extra
						w.r.emit(Event{Ev: "send", A: "msend", P: p, From: "M", X: peer, T: peer, Used: a.used,
							Exp: ExpRec{P: p, From: "M", St: "-", At: "-", Src: "-"}})
						rd = attacker.Data(a.ciphers, false, a.nonce, payloadFor(w.r.b.ID, p, "M"))
						a.nonce++
					}
					w.mu.Unlock()
					w.mTell(peer, rd)
					continue
				}
			}
		default: // data: readable only with keys of a handshake M took part in
			var cands []noise.Cipher
			if a := w.answers[peer]; a != nil {
				cands = append(cands, a.ciphers.I2R)
			}
			for _, d := range w.dials {
				if d.peer == peer && d.ciphers != nil {
					cands = append(cands, d.ciphers.R2I)
				}
			}
			for _, c := range cands {
				if pt, err := c.Decrypt(nil, uint64(hdr), data[:4], data[4:]); err == nil {
					w.mu.Unlock()
					w.r.onSaw(pt)
					w.mu.Lock()
					break
				}
			}
		}
		w.mu.Unlock()
	}
}

func (w *p2pkeWorld) MListen(k, proof, extra string) {
	w.mu.Lock()
	w.pol = [2]string{k, proof}
	w.mu.Unlock()
}

func (w *p2pkeWorld) BindAnswer(c int, peer string) {
	// M's side of a connection may be registered a moment after the dialler's call returned
	for i := 0; i < 30; i++ {
		w.mu.Lock()
		if a := w.answers[peer]; a != nil && !a.bound {
			a.bound = true
			w.ansConn[c] = a
			w.mu.Unlock()
			return
		}
		w.mu.Unlock()
		time.Sleep(10 * time.Millisecond)
	}
}

func (w *p2pkeWorld) MDial(c int, t string) string {
	w.mu.Lock()
	w.dials[c] = &mDialP2PKE{peer: t, nonce: 16, used: "none", rh: make(chan []byte, 4), rd: make(chan []byte, 4)}
	w.mu.Unlock()
	return "ok"
}

func drain(ch chan []byte) {
	for {
		select {
		case <-ch:
		default:
			return
		}
	}
}

// MPresent is one complete handshake attempt of M as initiator presenting key k.
func (w *p2pkeWorld) MPresent(c int, k, proof, extra string) string {
	if res := w.MHello(c, k, proof); res != "RespHello received" {
		return res
	}
	return w.MFinish(c)
}

// MHello is the first half of a handshake attempt: M's InitHello goes out and the RespHello is awaited.
// From now on the honest node has a channel for M's transport address with a handshake in flight.
func (w *p2pkeWorld) MHello(c int, k, proof string) string {
	w.mu.Lock()
	d := w.dials[c]
	if d == nil {
		w.mu.Unlock()
		return "no such connection"
	}
	adv := w.newAdv()
	drain(d.rh)
	drain(d.rd)
	keyBytes := attacker.X509PublicBytes(edKey(k))
	var ts, sig []byte
	switch proof {
	case "own":
		// M signs the timestamp with the only private key it has
		_, ts, _ = adv.OwnClaim(time.Now())
		sig = ed25519.Sign(edKey("M"), attacker.PreSig(attacker.PurposeTimestamp, ts))
	case "splice":
		if ih := w.captured[k]; ih != nil {
			_, kb, t2, s2, err := attacker.ParseInitHello(ih)
			if err == nil {
				keyBytes, ts, sig = kb, t2, s2
			}
		}
	}
	if ts == nil {
		_, ts, _ = adv.OwnClaim(time.Now())
		sig = garbage(64, w.attempt)
	}
	ih, hs := adv.InitHello(keyBytes, ts, sig)
	d.ciphers = nil
	d.used = "none"
	d.pending = nil
	peer := d.peer
	w.mu.Unlock()
	w.mTell(peer, ih)
	// an honest-equivalent attempt is given more time: on a busy machine the answer is slow, and a refusal
	// is silence either way
	patience := 150 * time.Millisecond
	if k == "M" && proof == "own" {
		patience = 600 * time.Millisecond
	}
	var cs *attacker.Ciphers
	deadline := time.After(patience)
	for cs == nil {
		select {
		case rh := <-d.rh:
			// a RespHello of an earlier attempt does not fit this handshake state: keep waiting
			if c2, _, err := attacker.ReadRespHello(hs, rh); err == nil {
				cs = c2
			}
		case <-deadline:
			return "no RespHello"
		}
	}
	w.mu.Lock()
	d.pending = &pendingP2PKE{adv: adv, cs: cs, own: proof == "own", patience: patience}
	w.mu.Unlock()
	return "RespHello received"
}

// MFinish is the second half: M's InitDone (signed with M's key, or garbage).
func (w *p2pkeWorld) MFinish(c int) string {
	w.mu.Lock()
	d := w.dials[c]
	if d == nil || d.pending == nil {
		w.mu.Unlock()
		return "no handshake in flight"
	}
	pd := d.pending
	d.pending = nil
	id := pd.adv.InitDone(pd.cs, pd.own, garbage(64, w.attempt+1))
	d.ciphers = pd.cs
	d.nonce = 16
	if pd.own {
		d.used = "M"
	}
	peer := d.peer
	drain(d.rd)
	w.mu.Unlock()
	w.mTell(peer, id)
	select {
	case <-d.rd:
		return "RespDone received"
	case <-time.After(pd.patience):
		return "no RespDone"
	}
}

func (w *p2pkeWorld) Lookup(n, x, t string, timeout time.Duration) string {
	ctx, cf := context.WithTimeout(w.ctx, timeout)
	defer cf()
	k, err := w.swarms[n].LookupPublicKey(ctx, w.full(x, t))
	if err != nil {
		return "err"
	}
	return x509Name(&k)
}

func (w *p2pkeWorld) MAuth(c int, steps []Step) (string, [][]string) {
	return "not an SSH world", nil
}

func (w *p2pkeWorld) MUsed(c int, role, peer string) (string, bool) {
	w.mu.Lock()
	defer w.mu.Unlock()
	if role == "dial" {
		if d := w.dials[c]; d != nil {
			return d.used, true
		}
		return "none", false
	}
	if a := w.ansConn[c]; a != nil {
		return a.used, true
	}
	return "none", false
}

func (w *p2pkeWorld) MSend(c int, role, peer string, ask bool, payload []byte, timeout time.Duration) error {
	w.mu.Lock()
	var pkt []byte
	if role == "dial" {
		d := w.dials[c]
		if d != nil && d.ciphers != nil {
			pkt = attacker.Data(d.ciphers, true, d.nonce, payload)
			d.nonce++
		} else {
			// no transport keys at all: early data under a key nobody shares
			pkt = append(attacker.Hdr(16), garbage(len(payload)+16, 3)...)
		}
	} else {
		a := w.ansConn[c]
		if a == nil {
			w.mu.Unlock()
			return fmt.Errorf("nobody dialled M")
		}
		pkt = attacker.Data(a.ciphers, false, a.nonce, payload)
		a.nonce++
	}
	w.mu.Unlock()
	w.mTell(peer, pkt)
	return nil
}

func (w *p2pkeWorld) Close() {
	w.cf()
	for _, n := range []string{"A", "B"} {
		w.swarms[n].Close()
	}
	w.inner["M"].Close()
	done := make(chan struct{})
	go func() { w.wg.Wait(); close(done) }()
	select {
	case <-done:
	case <-time.After(2 * time.Second):
	}
}
