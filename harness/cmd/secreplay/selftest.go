package main

import "fmt"

// selfTest checks that the drivers are alive before any verdict is based on them: an honest pair of every
// kind delivers, M's honest-equivalent handshakes (own key, own proof) are accepted by the real swarms
// and its messages are handed up, and M's endpoint reads what is sent to it under its own identity.
// Only liveness is checked here (WHAT was delivered under WHICH identity is the property's business and is
// judged on the trace).
func selfTest() error {
	all := []string{"A", "B", "M"}
	wl := map[string][]string{"A": all, "B": all}
	id := -1
	for _, kind := range []string{"p2pke", "quic", "ssh"} {
		auth := []Step{{A: "present", C: 1, K: "M", Proof: "own"}}
		if kind == "ssh" {
			auth = []Step{{A: "query", C: 1, K: "M"}, {A: "signed", C: 1, K: "M"}}
		}
		hist := append([]Step{{A: "tell", N: "A", X: "B", T: "B", P: 1}, {A: "mdial", C: 1, T: "A"}}, auth...)
		hist = append(hist, Step{A: "msend", C: 1, P: 2, Peer: "A", Role: "dial"}, Step{A: "tell", N: "B", X: "M", T: "M", P: 3})
		b := &Behaviour{ID: id, Family: "selftest", Kind: kind, Wl: wl, Hist: hist, Exp: []ExpRec{
			{P: 1, From: "A", Sure: true, Dl: true, At: "B", Src: "A", St: "done"},
			{P: 2, From: "M", Sure: true, Dl: true, At: "A", Src: "M", St: "done"},
			{P: 3, From: "B", Sure: true, Seen: true, At: "-", Src: "-", St: "done"}}}
		id--
		evs := execute(b)
		want := map[string]bool{"1/B": false, "2/A": false, "saw3": false}
		for _, e := range evs {
			if e.Ev == "deliver" {
				want[fmt.Sprintf("%d/%s", e.P, e.At)] = true
			}
			if e.Ev == "saw" && e.P == 3 {
				want["saw3"] = true
			}
		}
		for k, ok := range want {
			if !ok {
				detail := ""
				for _, e := range evs {
					detail += fmt.Sprintf("\n   %s %s p=%d at=%s src=%s lk=%s res=%s", e.Ev, e.A, e.P, e.At, e.Src, e.Lk, e.Res)
				}
				return fmt.Errorf("%s: expected observation %s is missing%s", kind, k, detail)
			}
		}
	}
	return nil
}
