// secreplay executes TLC-generated scripts of spec/SecureSwarmGen.tla on REAL secure swarms
// (s/p2pkeswarm and s/quicswarm over s/memswarm, s/sshswarm wrapped in s/wlswarm on 127.0.0.1) and
// records what property C04 talks about: the Src of every message handed to a Receive / ServeAsk
// callback, the key p2p.LookupPublicKeyInHandler returns from inside that callback (or its panic),
// which node's callback (or the adversary's endpoint) obtained which payload, and the errors the
// senders got.  Nodes A and B run the library and own exactly their private key; M is played by
// the harness with real cryptography and only M's private key: the P2PKE toolkit of
// harness/attacker, a quic-go endpoint whose TLS certificate carries any public key, an
// x/crypto/ssh client whose scripted ssh.PublicKey objects choose the exact order of
// Query(k)/Signed(k) requests, and listeners that present any key.  Ground truth (who holds which
// private key, which key signed in which connection) comes from the harness; spec/SecureSwarmTrace.tla
// evaluates Attribution / DialSafety / Whitelist on the log.
package main

import (
	"bufio"
	"crypto/ed25519"
	"encoding/json"
	"flag"
	"fmt"
	"io"
	"log"
	"os"
	"strconv"
	"strings"
	"sync"
	"time"

	"verifharness/attacker"
)

type Step struct {
	A     string `json:"a"`
	N     string `json:"n"`
	X     string `json:"x"`
	T     string `json:"t"`
	Ask   bool   `json:"ask"`
	P     int    `json:"p"`
	Re    int    `json:"re"`
	C     int    `json:"c"`
	K     string `json:"k"`
	Proof string `json:"proof"`
	Peer  string `json:"peer"`
	Role  string `json:"role"`
	NewC  bool   `json:"newc"`  // the model created connection C for this Tell/Ask
	Async bool   `json:"async"` // issue the call and go on with the script; "join" collects it
	Extra string `json:"extra"` // QUIC: key inside one additional, UNPROVEN certificate of M's chain ("-": none)
}

type ExpRec struct {
	P    int    `json:"p"`
	From string `json:"from"`
	St   string `json:"st"`
	Sure bool   `json:"sure"`
	Dl   bool   `json:"dl"`
	At   string `json:"at"`
	Src  string `json:"src"`
	Seen bool   `json:"seen"`
	Lk   bool   `json:"lk"`  // a LookupPublicKey call
	Res  string `json:"res"` // the key the model expects it to return
}

type Behaviour struct {
	ID     int                 `json:"id"`
	Family string              `json:"fam"`
	Kind   string              `json:"kind"`
	Wl     map[string][]string `json:"wl"`
	Hist   []Step              `json:"hist"`
	Exp    []ExpRec            `json:"exp"`
}

// Event is one line of the trace. Every field is always present (the trace spec reads them unguarded).
type Event struct {
	Ev     string              `json:"ev"`
	Beh    int                 `json:"beh"`
	Kind   string              `json:"kind"`
	Family string              `json:"fam"`
	Wl     map[string][]string `json:"wl"`
	Holds  map[string][]string `json:"holds"`
	A      string              `json:"a"`    // script step this event belongs to
	P      int                 `json:"p"`    // payload id
	From   string              `json:"from"` // sender (ground truth)
	X      string              `json:"x"`    // identity the payload was addressed to
	T      string              `json:"t"`    // owner of the transport address it was addressed to
	Ask    bool                `json:"ask"`
	Used   string              `json:"used"` // ground truth: key whose private half the sender used in the handshake of the carrying connection
	At     string              `json:"at"`   // node whose callback / endpoint obtained the payload
	Src    string              `json:"src"`  // name of the key whose fingerprint is Src.ID ("zero", "other")
	Lk     string              `json:"lk"`   // name of the key returned by LookupPublicKeyInHandler ("panic", "other")
	Res    string              `json:"res"`  // result / error text of the step
	Exp    ExpRec              `json:"exp"`
	Wire   [][]string          `json:"wire"` // SSH: the user-auth requests that really went out
}

var nodeNames = []string{"A", "B", "M"}

func edKey(name string) ed25519.PrivateKey {
	switch name {
	case "A":
		return attacker.TestKey(0)
	case "B":
		return attacker.TestKey(1)
	case "M":
		return attacker.TestKey(2)
	}
	panic("unknown key " + name)
}

// world is one swarm kind with nodes A, B (real code) and M (harness).
type world interface {
	// Send performs Tell/Ask of honest node n to (identity of x, transport address of t).
	Send(n, x, t string, ask bool, payload []byte, timeout time.Duration) error
	// Reply performs Tell/Ask of honest node n to an address it saw as Src of a delivered message.
	Reply(n string, addr any, ask bool, payload []byte, timeout time.Duration) error
	// Lookup performs LookupPublicKey of honest node n for (identity of x, transport address of t), outside a
	// handler, and names the key ("err" if none came back).
	Lookup(n, x, t string, timeout time.Duration) string
	// MHello / MFinish are the two halves of a P2PKE handshake attempt of M as initiator.
	MHello(c int, k, proof string) string
	MFinish(c int) string
	MListen(k, proof, extra string)
	// BindAnswer ties the model's connection c to the connection peer most recently opened to M.
	BindAnswer(c int, peer string)
	MDial(c int, t string) string
	MPresent(c int, k, proof, extra string) string
	MAuth(c int, steps []Step) (string, [][]string)
	// MUsed reports whether M has something to write into (has) and the key whose private half M used there.
	MUsed(c int, role, peer string) (used string, has bool)
	MSend(c int, role, peer string, ask bool, payload []byte, timeout time.Duration) error
	Close()
}

type run struct {
	b    *Behaviour
	mu   sync.Mutex
	cond *sync.Cond
	evs  []Event
	got  map[int]int // payload id -> times handed to an honest callback
	seen map[int]int // payload id -> times obtained by M
	srcs map[string]savedSrc
	wg   sync.WaitGroup // calls issued asynchronously
}

// savedSrc is the Src address an honest node saw on a delivered message (destination of a later reply).
type savedSrc struct {
	addr  any
	id    string // name of the key whose fingerprint is Src.ID
	owner string // node that owns the transport part of the address
}

func (r *run) emit(e Event) {
	e.Beh = r.b.ID
	if e.Wl == nil {
		e.Wl = map[string][]string{}
	}
	if e.Holds == nil {
		e.Holds = map[string][]string{}
	}
	if e.Wire == nil {
		e.Wire = [][]string{}
	}
	r.mu.Lock()
	r.evs = append(r.evs, e)
	r.mu.Unlock()
}

func payloadFor(beh, p int, from string) []byte {
	s := fmt.Sprintf("C04|%d|%d|%s|", beh, p, from)
	for len(s) < 48 {
		s += "."
	}
	return []byte(s)
}

// parsePayload returns the payload id, or -1 for bytes this behaviour never sent.
func (r *run) parsePayload(x []byte) int {
	parts := strings.Split(string(x), "|")
	if len(parts) < 5 || parts[0] != "C04" {
		return -1
	}
	beh, err1 := strconv.Atoi(parts[1])
	p, err2 := strconv.Atoi(parts[2])
	if err1 != nil || err2 != nil || beh != r.b.ID {
		return -1
	}
	return p
}

// onDeliver is called from inside Receive / ServeAsk callbacks of honest nodes.
func (r *run) onDeliver(at, src, lk string, payload []byte, ask bool, addr any, owner string) {
	p := r.parsePayload(payload)
	r.emit(Event{Ev: "deliver", At: at, Src: src, Lk: lk, P: p, Ask: ask, T: owner})
	r.mu.Lock()
	r.got[p]++
	r.srcs[at+"|"+strconv.Itoa(p)] = savedSrc{addr: addr, id: src, owner: owner}
	r.cond.Broadcast()
	r.mu.Unlock()
}

// onSaw is called when the adversary's endpoint obtained a payload in clear.
func (r *run) onSaw(payload []byte) {
	p := r.parsePayload(payload)
	if p < 0 {
		return
	}
	r.emit(Event{Ev: "saw", At: "M", P: p})
	r.mu.Lock()
	r.seen[p]++
	r.cond.Broadcast()
	r.mu.Unlock()
}

func (r *run) waitFor(m map[int]int, p int, d time.Duration) bool {
	deadline := time.Now().Add(d)
	t := time.AfterFunc(d, func() { r.mu.Lock(); r.cond.Broadcast(); r.mu.Unlock() })
	defer t.Stop()
	r.mu.Lock()
	defer r.mu.Unlock()
	for m[p] == 0 && time.Now().Before(deadline) {
		r.cond.Wait()
	}
	return m[p] > 0
}

func (r *run) expOf(p int) ExpRec {
	for _, e := range r.b.Exp {
		if e.P == p {
			return e
		}
	}
	return ExpRec{P: p, At: "-", Src: "-", St: "-", From: "-"}
}

var (
	asyncWait = 1500 * time.Millisecond // context of a call that is issued while a handshake is held back
	asyncLead = 150 * time.Millisecond  // time given to such a call to get going before the script goes on
	settle    = 120 * time.Millisecond
	longWait  = 4 * time.Second
	failWait  = 350 * time.Millisecond
)

func errText(err error) string {
	if err == nil {
		return "ok"
	}
	s := err.Error()
	if len(s) > 120 {
		s = s[:120]
	}
	return "err: " + s
}

// afterSend waits for the effects of one send: what the model expects, or - when it expects nothing -
// long enough for an unexpected delivery to show up.
func (r *run) afterSend(p int, e ExpRec) {
	switch {
	case e.Sure && e.Dl:
		r.waitFor(r.got, p, longWait)
	case e.Sure && e.Seen:
		r.waitFor(r.seen, p, longWait)
	default:
		if !r.waitFor(r.got, p, settle) {
			// nothing at the honest nodes; M's endpoint is checked with the same patience
			r.waitFor(r.seen, p, settle/4)
		}
	}
}

func execute(b *Behaviour) []Event {
	r := &run{b: b, got: map[int]int{}, seen: map[int]int{}, srcs: map[string]savedSrc{}}
	r.cond = sync.NewCond(&r.mu)
	// "Me" is M's second key pair (ECDSA): its own, but of an algorithm the swarms' registry cannot load.
	// Whitelists are sets of NODES: one that admits M admits both of M's identities.
	holds := map[string][]string{"A": {"A"}, "B": {"B"}, "M": {"M", "Me"}}
	wl := map[string][]string{}
	for n, ks := range b.Wl {
		wl[n] = append([]string{}, ks...)
		for _, k := range ks {
			if k == "M" {
				wl[n] = append(wl[n], "Me")
			}
		}
	}
	b.Wl = wl
	r.emit(Event{Ev: "init", Kind: b.Kind, Family: b.Family, Wl: b.Wl, Holds: holds})
	var w world
	var err error
	switch b.Kind {
	case "p2pke":
		w, err = newP2PKEWorld(r)
	case "quic":
		w, err = newQUICWorld(r)
	case "ssh":
		w, err = newSSHWorld(r)
	default:
		err = fmt.Errorf("unknown kind %q", b.Kind)
	}
	if err != nil {
		r.emit(Event{Ev: "step", A: "setup", Res: errText(err)})
		r.emit(Event{Ev: "end"})
		return r.evs
	}
	defer w.Close()
	for i := 0; i < len(b.Hist); i++ {
		st := b.Hist[i]
		switch st.A {
		case "tell", "reply":
			e := r.expOf(st.P)
			// only p2pkeswarm BLOCKS on a destination it cannot reach (until the context ends); the other two
			// return by themselves, and a short deadline would only cut a slow handshake in half
			timeout := longWait
			if b.Kind == "p2pke" && !(e.Sure && e.St != "err") {
				timeout = failWait
			}
			pl := payloadFor(b.ID, st.P, st.N)
			if st.A == "tell" && st.Async {
				r.emit(Event{Ev: "send", A: "tell", P: st.P, From: st.N, X: st.X, T: st.T, Ask: st.Ask, Used: st.N, Exp: e})
				r.wg.Add(1)
				go func(st Step) {
					defer r.wg.Done()
					err := w.Send(st.N, st.X, st.T, st.Ask, pl, asyncWait)
					r.emit(Event{Ev: "ret", A: "tell", P: st.P, From: st.N, Res: errText(err)})
				}(st)
				time.Sleep(asyncLead)
				continue
			}
			if st.A == "tell" {
				r.emit(Event{Ev: "send", A: "tell", P: st.P, From: st.N, X: st.X, T: st.T, Ask: st.Ask, Used: st.N, Exp: e})
				err := w.Send(st.N, st.X, st.T, st.Ask, pl, timeout)
				r.emit(Event{Ev: "ret", A: "tell", P: st.P, From: st.N, Res: errText(err)})
				if st.NewC && st.T == "M" {
					w.BindAnswer(st.C, st.N)
				}
			} else {
				// the destination is the Src the node REALLY saw on payload re
				r.mu.Lock()
				sv, ok := r.srcs[st.N+"|"+strconv.Itoa(st.Re)]
				r.mu.Unlock()
				if !ok {
					r.emit(Event{Ev: "step", A: "reply", P: st.P, From: st.N, Res: "skipped: nothing was delivered to reply to"})
					continue
				}
				r.emit(Event{Ev: "send", A: "reply", P: st.P, From: st.N, X: sv.id, T: sv.owner, Ask: st.Ask, Used: st.N, Exp: e})
				err := w.Reply(st.N, sv.addr, st.Ask, pl, timeout)
				r.emit(Event{Ev: "ret", A: "reply", P: st.P, From: st.N, Res: errText(err)})
				if st.NewC && sv.owner == "M" {
					w.BindAnswer(st.C, st.N)
				}
			}
			r.afterSend(st.P, e)
		case "lookup":
			e := r.expOf(st.P)
			do := func(st Step, d time.Duration) {
				res := w.Lookup(st.N, st.X, st.T, d)
				r.emit(Event{Ev: "lookup", A: "lookup", P: st.P, From: st.N, X: st.X, T: st.T, Lk: res, Exp: e})
			}
			if st.Async {
				r.wg.Add(1)
				go func(st Step) { defer r.wg.Done(); do(st, asyncWait) }(st)
				time.Sleep(asyncLead)
			} else {
				d := longWait
				if b.Kind == "p2pke" && !(e.Sure && e.St == "got") {
					d = failWait
				}
				do(st, d)
			}
		case "join":
			r.wg.Wait()
			time.Sleep(settle)
		case "hello":
			res := w.MHello(st.C, st.K, st.Proof)
			r.emit(Event{Ev: "step", A: "hello", X: st.K, Res: st.Proof + ": " + res})
		case "finish":
			res := w.MFinish(st.C)
			r.emit(Event{Ev: "step", A: "finish", Res: res})
		case "mlisten":
			w.MListen(st.K, st.Proof, st.Extra)
			r.emit(Event{Ev: "step", A: "mlisten", X: st.K, Res: st.Proof + " +" + st.Extra})
		case "mdial":
			res := w.MDial(st.C, st.T)
			r.emit(Event{Ev: "step", A: "mdial", T: st.T, Res: res})
		case "present":
			res := w.MPresent(st.C, st.K, st.Proof, st.Extra)
			r.emit(Event{Ev: "step", A: "present", X: st.K, Res: st.Proof + " +" + st.Extra + ": " + res})
		case "query", "signed":
			j := i
			for j+1 < len(b.Hist) && (b.Hist[j+1].A == "query" || b.Hist[j+1].A == "signed") && b.Hist[j+1].C == st.C {
				j++
			}
			res, wire := w.MAuth(st.C, b.Hist[i:j+1])
			r.emit(Event{Ev: "auth", A: "auth", Res: res, Wire: wire})
			i = j
		case "msend":
			e := r.expOf(st.P)
			used, has := w.MUsed(st.C, st.Role, st.Peer)
			if !has {
				r.emit(Event{Ev: "step", A: "msend", P: st.P, Res: "skipped: M has no connection to write into"})
				continue
			}
			pl := payloadFor(b.ID, st.P, "M")
			r.emit(Event{Ev: "send", A: "msend", P: st.P, From: "M", X: st.Peer, T: st.Peer, Ask: st.Ask, Used: used, Exp: e})
			err := w.MSend(st.C, st.Role, st.Peer, st.Ask, pl, failWait)
			r.emit(Event{Ev: "ret", A: "msend", P: st.P, From: "M", Res: errText(err)})
			r.afterSend(st.P, e)
		default:
			r.emit(Event{Ev: "step", A: st.A, Res: "unknown step"})
		}
	}
	r.wg.Wait()
	time.Sleep(settle)
	r.emit(Event{Ev: "end"})
	r.mu.Lock()
	out := append([]Event{}, r.evs...)
	r.mu.Unlock()
	return out
}

func main() {
	in := flag.String("in", "", "behaviours (ndjson)")
	out := flag.String("out", "", "trace (ndjson)")
	par := flag.Int("par", 6, "behaviours executed concurrently")
	flag.Int("seed", 1, "unused: scripts are deterministic")
	flag.Parse()
	log.SetOutput(io.Discard) // the swarms log every failed handshake
	f, err := os.Open(*in)
	if err != nil {
		fmt.Fprintln(os.Stderr, err)
		os.Exit(2)
	}
	var behs []*Behaviour
	sc := bufio.NewScanner(f)
	sc.Buffer(make([]byte, 1<<20), 1<<26)
	for sc.Scan() {
		if len(sc.Bytes()) == 0 {
			continue
		}
		b := &Behaviour{}
		if err := json.Unmarshal(sc.Bytes(), b); err != nil {
			fmt.Fprintln(os.Stderr, "bad behaviour:", err)
			os.Exit(2)
		}
		behs = append(behs, b)
	}
	f.Close()
	if err := selfTest(); err != nil {
		fmt.Fprintln(os.Stderr, "self-test failed:", err)
		os.Exit(2)
	}
	results := make([][]Event, len(behs))
	var wg sync.WaitGroup
	sem := make(chan struct{}, *par)
	t0 := time.Now()
	for i := range behs {
		wg.Add(1)
		sem <- struct{}{}
		go func(i int) {
			defer wg.Done()
			defer func() { <-sem }()
			done := make(chan []Event, 1)
			go func() { done <- execute(behs[i]) }()
			select {
			case evs := <-done:
				results[i] = evs
			case <-time.After(90 * time.Second):
				// a wedged script is an infrastructure failure, never a verdict
				fmt.Fprintf(os.Stderr, "behaviour %d timed out\n", behs[i].ID)
				os.Exit(2)
			}
		}(i)
	}
	wg.Wait()
	of, err := os.Create(*out)
	if err != nil {
		fmt.Fprintln(os.Stderr, err)
		os.Exit(2)
	}
	bw := bufio.NewWriterSize(of, 1<<20)
	n, nd, ns := 0, 0, 0
	for _, evs := range results {
		for _, e := range evs {
			data, _ := json.Marshal(e)
			bw.Write(data)
			bw.WriteByte('\n')
			n++
			if e.Ev == "deliver" {
				nd++
			}
			if e.Ev == "saw" {
				ns++
			}
		}
	}
	bw.Flush()
	of.Close()
	fmt.Printf("behaviours=%d events=%d deliveries=%d saw=%d wall=%.1fs\n", len(behs), n, nd, ns, time.Since(t0).Seconds())
}
