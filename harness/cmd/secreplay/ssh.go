package main

import (
	"bytes"
	"context"
	"errors"
	"io"
	"net"
	"net/netip"
	"strconv"
	"sync"
	"time"

	"go.brendoncarroll.net/p2p"
	"go.brendoncarroll.net/p2p/s/sshswarm"
	"go.brendoncarroll.net/p2p/s/wlswarm"
	"golang.org/x/crypto/ssh"
)

func sshSigner(name string) ssh.Signer {
	s, err := ssh.NewSignerFromSigner(edKey(name))
	if err != nil {
		panic(err)
	}
	return s
}

func sshKeyName(k ssh.PublicKey) string {
	if k == nil {
		return "zero"
	}
	for _, n := range nodeNames {
		if bytes.Equal(k.Marshal(), sshSigner(n).PublicKey().Marshal()) {
			return n
		}
	}
	return "other"
}

func sshFPName(fp string) string {
	for _, n := range nodeNames {
		if ssh.FingerprintSHA256(sshSigner(n).PublicKey()) == fp {
			return n
		}
	}
	return "other"
}

// scriptKey is an ssh.PublicKey whose wire form changes from call to call. The x/crypto/ssh client
// marshals the key of each signer three times (client_auth.go: validateKey -> the query; confirmKeyAck
// -> comparison with the server's PK_OK; auth -> the signed request), so the sequence decides which
// Query(k) and which Signed(k) the server sees.
type scriptKey struct {
	w    *sshWorld
	seq  [][]byte // successive results of Marshal
	tags []string // what each Marshal call means on the wire: "q:<key>", "", "s:<key>"
	i    int
}

func (k *scriptKey) Type() string { return ssh.KeyAlgoED25519 }
func (k *scriptKey) Marshal() []byte {
	j := k.i
	if j >= len(k.seq) {
		j = len(k.seq) - 1
	}
	k.i++
	if j < len(k.tags) && k.tags[j] != "" {
		k.w.wire = append(k.w.wire, []string{k.tags[j][:1], k.tags[j][2:]})
	}
	return k.seq[j]
}
func (k *scriptKey) Verify(data []byte, sig *ssh.Signature) error {
	return errors.New("not a real key")
}

// scriptSigner always signs with M's private key, whatever public key it claims.
type scriptSigner struct{ pk *scriptKey }

func (s scriptSigner) PublicKey() ssh.PublicKey { return s.pk }
func (s scriptSigner) Sign(rand io.Reader, data []byte) (*ssh.Signature, error) {
	return sshSigner("M").Sign(rand, data)
}

// claimHostKey is M's host key when it answers: public part k, signatures by M or by nobody.
type claimHostKey struct {
	k   string
	own bool
}

func (h claimHostKey) PublicKey() ssh.PublicKey { return sshSigner(h.k).PublicKey() }
func (h claimHostKey) Sign(rand io.Reader, data []byte) (*ssh.Signature, error) {
	if h.own {
		return sshSigner("M").Sign(rand, data)
	}
	return &ssh.Signature{Format: ssh.KeyAlgoED25519, Blob: garbage(64, len(data))}, nil
}

type mSSHConn struct {
	peer    string
	tcp     net.Conn
	conn    ssh.Conn
	used    string
	authErr string
	bound   bool
}

type sshWorld struct {
	r     *run
	ctx   context.Context
	cf    context.CancelFunc
	raw   map[string]*sshswarm.Swarm
	wrap  map[string]p2p.SecureAskSwarm[sshswarm.Addr, sshswarm.PublicKey]
	ports map[string]uint16
	ln    net.Listener

	mu      sync.Mutex
	pol     [2]string
	dials   map[int]*mSSHConn
	answers map[string]*mSSHConn // latest connection each peer opened to M
	ansConn map[int]*mSSHConn    // model connection -> connection
	wire    [][]string
	tcps    []net.Conn
}

var loopback = netip.MustParseAddr("127.0.0.1")

func newSSHWorld(r *run) (world, error) {
	w := &sshWorld{r: r, raw: map[string]*sshswarm.Swarm{}, wrap: map[string]p2p.SecureAskSwarm[sshswarm.Addr, sshswarm.PublicKey]{},
		ports: map[string]uint16{}, pol: [2]string{"M", "own"}, dials: map[int]*mSSHConn{}, answers: map[string]*mSSHConn{}, ansConn: map[int]*mSSHConn{}}
	w.ctx, w.cf = context.WithCancel(context.Background())
	for _, n := range []string{"A", "B"} {
		n := n
		sw, err := sshswarm.New("127.0.0.1:0", sshSigner(n))
		if err != nil {
			w.Close()
			return nil, err
		}
		w.raw[n] = sw
		w.ports[n] = sw.LocalAddrs()[0].Port
		allow := allowSet(r.b.Wl[n])
		// the whitelist of an sshswarm is s/wlswarm around it
		ws := wlswarm.WrapSecureAsk[sshswarm.Addr, sshswarm.PublicKey](sw, func(a sshswarm.Addr) bool { return allow[sshFPName(a.Fingerprint)] })
		w.wrap[n] = ws
		lookup := func(src sshswarm.Addr) string {
			return lookupName[sshswarm.Addr, sshswarm.PublicKey](ws, src, sshKeyName)
		}
		go func() {
			for {
				if err := ws.Receive(w.ctx, func(m p2p.Message[sshswarm.Addr]) {
					r.onDeliver(n, sshFPName(m.Src.Fingerprint), lookup(m.Src), m.Payload, false, m.Src, w.ownerOf(m.Src, n))
				}); err != nil {
					return
				}
			}
		}()
		go func() {
			for {
				if err := ws.ServeAsk(w.ctx, func(ctx context.Context, resp []byte, m p2p.Message[sshswarm.Addr]) int {
					r.onDeliver(n, sshFPName(m.Src.Fingerprint), lookup(m.Src), m.Payload, true, m.Src, w.ownerOf(m.Src, n))
					return copy(resp, "ok")
				}); err != nil {
					return
				}
			}
		}()
	}
	ln, err := net.Listen("tcp", "127.0.0.1:0")
	if err != nil {
		w.Close()
		return nil, err
	}
	w.ln = ln
	w.ports["M"] = uint16(ln.Addr().(*net.TCPAddr).Port)
	go w.mServe()
	return w, nil
}

// ownerOf names the node at the other end of the TCP connection a message came over (ground truth kept
// by the harness: ephemeral ports of M's own dials and of the honest nodes' listeners).
func (w *sshWorld) ownerOf(src sshswarm.Addr, self string) string {
	for n, p := range w.ports {
		if p == src.Port {
			return n
		}
	}
	w.mu.Lock()
	defer w.mu.Unlock()
	for _, d := range w.dials {
		if d.tcp != nil && uint16(d.tcp.LocalAddr().(*net.TCPAddr).Port) == src.Port {
			return "M"
		}
	}
	// an ephemeral port that is not M's: the other honest node dialled
	if self == "A" {
		return "B"
	}
	return "A"
}

// mServe is M answering at its own transport address with whatever host key the policy says.
func (w *sshWorld) mServe() {
	for {
		tcp, err := w.ln.Accept()
		if err != nil {
			return
		}
		w.mu.Lock()
		pol := w.pol
		w.tcps = append(w.tcps, tcp)
		w.mu.Unlock()
		go func() {
			var peerKey ssh.PublicKey
			cfg := &ssh.ServerConfig{PublicKeyCallback: func(md ssh.ConnMetadata, pk ssh.PublicKey) (*ssh.Permissions, error) {
				peerKey = pk
				return &ssh.Permissions{}, nil
			}}
			cfg.AddHostKey(claimHostKey{k: pol[0], own: pol[1] == "own"})
			tcp.SetDeadline(time.Now().Add(3 * time.Second))
			sconn, chans, reqs, err := ssh.NewServerConn(tcp, cfg)
			if err != nil {
				tcp.Close()
				return
			}
			tcp.SetDeadline(time.Time{})
			peer := sshKeyName(peerKey)
			used := "none"
			if pol[1] == "own" {
				used = "M"
			}
			w.mu.Lock()
			w.answers[peer] = &mSSHConn{peer: peer, tcp: tcp, conn: sconn, used: used}
			w.mu.Unlock()
			go w.mRead(chans, reqs)
		}()
	}
}

func (w *sshWorld) mRead(chans <-chan ssh.NewChannel, reqs <-chan *ssh.Request) {
	go func() {
		for nc := range chans {
			nc.Reject(ssh.Prohibited, "no channels")
		}
	}()
	for req := range reqs {
		w.r.onSaw(req.Payload)
		if req.WantReply {
			req.Reply(true, []byte("ok"))
		}
	}
}

func (w *sshWorld) full(x, t string) sshswarm.Addr {
	return sshswarm.Addr{Fingerprint: ssh.FingerprintSHA256(sshSigner(x).PublicKey()), IP: loopback, Port: w.ports[t]}
}

func (w *sshWorld) send(n string, dst sshswarm.Addr, ask bool, payload []byte, timeout time.Duration) error {
	ctx, cf := context.WithTimeout(w.ctx, timeout)
	defer cf()
	done := make(chan error, 1)
	go func() {
		if ask {
			resp := make([]byte, 64)
			_, err := w.wrap[n].Ask(ctx, resp, dst, p2p.IOVec{payload})
			done <- err
		} else {
			done <- w.wrap[n].Tell(ctx, dst, p2p.IOVec{payload})
		}
	}()
	select {
	case err := <-done:
		return err
	case <-time.After(timeout + 500*time.Millisecond):
		// sshswarm ignores the context; a wedged call is reported, not waited for
		return errors.New("harness: call did not return in time")
	}
}

func (w *sshWorld) Send(n, x, t string, ask bool, payload []byte, timeout time.Duration) error {
	return w.send(n, w.full(x, t), ask, payload, timeout)
}

func (w *sshWorld) Reply(n string, addr any, ask bool, payload []byte, timeout time.Duration) error {
	return w.send(n, addr.(sshswarm.Addr), ask, payload, timeout)
}

func (w *sshWorld) MListen(k, proof, extra string) {
	w.mu.Lock()
	w.pol = [2]string{k, proof}
	w.mu.Unlock()
}

func (w *sshWorld) BindAnswer(c int, peer string) {
	// M's side of a connection may be registered a moment after the dialler's call returned
	for i := 0; i < 30; i++ {
		w.mu.Lock()
		if a := w.answers[peer]; a != nil && !a.bound {
			a.bound = true
			w.ansConn[c] = a
			w.mu.Unlock()
			return
		}
		w.mu.Unlock()
		time.Sleep(10 * time.Millisecond)
	}
}

func (w *sshWorld) MDial(c int, t string) string {
	tcp, err := net.DialTimeout("tcp", net.JoinHostPort("127.0.0.1", strconv.Itoa(int(w.ports[t]))), 2*time.Second)
	w.mu.Lock()
	defer w.mu.Unlock()
	if err != nil {
		w.dials[c] = &mSSHConn{peer: t, used: "none"}
		return errText(err)
	}
	w.tcps = append(w.tcps, tcp)
	w.dials[c] = &mSSHConn{peer: t, tcp: tcp, used: "none"}
	return "ok"
}

func (w *sshWorld) MPresent(c int, k, proof, extra string) string {
	return "not an atomic world"
}
func (w *sshWorld) MHello(c int, k, proof string) string { return "not a P2PKE world" }
func (w *sshWorld) MFinish(c int) string                 { return "not a P2PKE world" }

func (w *sshWorld) Lookup(n, x, t string, timeout time.Duration) string {
	ctx, cf := context.WithTimeout(w.ctx, timeout)
	defer cf()
	k, err := w.wrap[n].LookupPublicKey(ctx, w.full(x, t))
	if err != nil {
		return "err"
	}
	return sshKeyName(k)
}

// MAuth runs the SSH client over the TCP connection of c with signers that put exactly the scripted
// user-auth requests on the wire. A Signed(k) that does not directly follow a Query is sent as
// Query(k), Signed(k): the client cannot do otherwise, and the server's callback sequence and cache
// are the same (the query is what misses the cache instead of the signed request).
func (w *sshWorld) MAuth(c int, steps []Step) (string, [][]string) {
	w.mu.Lock()
	d := w.dials[c]
	w.wire = nil
	w.mu.Unlock()
	if d == nil || d.tcp == nil {
		return "no TCP connection", nil
	}
	keyBytes := func(n string) []byte { return sshSigner(n).PublicKey().Marshal() }
	var signers []ssh.Signer
	for i := 0; i < len(steps); i++ {
		st := steps[i]
		switch {
		case st.A == "query" && i+1 < len(steps) && steps[i+1].A == "signed":
			k2 := steps[i+1].K
			signers = append(signers, scriptSigner{&scriptKey{w: w, seq: [][]byte{keyBytes(st.K), keyBytes(st.K), keyBytes(k2)},
				tags: []string{"q:" + st.K, "", "s:" + k2}}})
			i++
		case st.A == "query":
			// the answer is compared with something else, so the client moves on without signing
			signers = append(signers, scriptSigner{&scriptKey{w: w, seq: [][]byte{keyBytes(st.K), garbage(51, i)}, tags: []string{"q:" + st.K}}})
		default:
			signers = append(signers, scriptSigner{&scriptKey{w: w, seq: [][]byte{keyBytes(st.K), keyBytes(st.K), keyBytes(st.K)},
				tags: []string{"q:" + st.K, "", "s:" + st.K}}})
		}
	}
	cfg := &ssh.ClientConfig{
		User:            "m",
		Auth:            []ssh.AuthMethod{ssh.PublicKeysCallback(func() ([]ssh.Signer, error) { return signers, nil })},
		HostKeyCallback: ssh.InsecureIgnoreHostKey(),
		Timeout:         2 * time.Second,
	}
	d.tcp.SetDeadline(time.Now().Add(3 * time.Second))
	conn, chans, reqs, err := ssh.NewClientConn(d.tcp, d.tcp.RemoteAddr().String(), cfg)
	w.mu.Lock()
	wire := append([][]string{}, w.wire...)
	w.mu.Unlock()
	if err != nil {
		d.authErr = err.Error()
		return errText(err), wire
	}
	d.tcp.SetDeadline(time.Time{})
	w.mu.Lock()
	d.conn = conn
	d.used = "M" // every signature of this connection was made with M's private key
	w.mu.Unlock()
	go w.mRead(chans, reqs)
	return "authenticated", wire
}

func (w *sshWorld) mconn(c int, role, peer string) *mSSHConn {
	if role == "dial" {
		return w.dials[c]
	}
	return w.ansConn[c]
}

func (w *sshWorld) MUsed(c int, role, peer string) (string, bool) {
	w.mu.Lock()
	defer w.mu.Unlock()
	m := w.mconn(c, role, peer)
	if m == nil || m.conn == nil {
		return "none", false
	}
	return m.used, true
}

func (w *sshWorld) MSend(c int, role, peer string, ask bool, payload []byte, timeout time.Duration) error {
	w.mu.Lock()
	m := w.mconn(c, role, peer)
	w.mu.Unlock()
	if m == nil || m.conn == nil {
		return errors.New("no connection")
	}
	done := make(chan error, 1)
	go func() {
		ok, _, err := m.conn.SendRequest("", ask, payload)
		if err == nil && ask && !ok {
			err = errors.New("request refused")
		}
		done <- err
	}()
	select {
	case err := <-done:
		return err
	case <-time.After(timeout + 300*time.Millisecond):
		return errors.New("harness: send did not return in time")
	}
}

func (w *sshWorld) Close() {
	w.cf()
	if w.ln != nil {
		w.ln.Close()
	}
	w.mu.Lock()
	for _, m := range w.dials {
		if m.conn != nil {
			m.conn.Close()
		}
	}
	for _, m := range w.answers {
		if m.conn != nil {
			m.conn.Close()
		}
	}
	for _, t := range w.tcps {
		t.Close()
	}
	w.mu.Unlock()
	for _, sw := range w.raw {
		sw.Close()
	}
}
