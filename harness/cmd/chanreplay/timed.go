package main

import (
	"bufio"
	"bytes"
	"context"
	"crypto/ed25519"
	"encoding/json"
	"fmt"
	"os"
	"sync"
	"time"

	"go.brendoncarroll.net/p2p"
	"go.brendoncarroll.net/p2p/f/x509"
	"go.brendoncarroll.net/p2p/p/p2pke"
	"go.uber.org/zap"
	"verifharness/attacker"
	"verifharness/trace"
)

// TimedCase is one case of spec/ChannelTime.tla (intervals in ticks).
type TimedCase struct {
	ID        int    `json:"id"`
	K         int    `json:"K"`
	R         int    `json:"R"`
	J         int    `json:"J"`
	Pat       string `json:"pat"`
	Horizon   int    `json:"horizon"`
	Post      string `json:"post"` // "none" | "stranger" | "resume": what follows the traffic
	Hellos    int    `json:"hellos"`
	MaxHellos int    `json:"maxhellos"`
}

type TimedEvent struct {
	Ev        string `json:"ev"`
	Beh       int    `json:"beh"`
	K         int    `json:"K"`
	R         int    `json:"R"`
	J         int    `json:"J"`
	Pat       string `json:"pat"`
	Kms       int    `json:"kms"`
	MaxHellos int    `json:"maxhellos"`
	Model     int    `json:"modelhellos"`
	Hellos    int    `json:"hellos"`
	Sends     int    `json:"sends"`
	SendFail  int    `json:"sendfail"`
	Received  int    `json:"received"`
	Dups      int    `json:"dups"`
	Unknown   int    `json:"unknown"`
	Replayed  int    `json:"replayed"`
	StallMs   int    `json:"stall_ms"`
	Ticks     int    `json:"ticks"` // real duration of the traffic phase, in ticks (>= horizon; larger on a busy machine)
	Post      string `json:"post"`
	// stranger phase (ground truth from the harness: it knows which channel holds which key)
	ToStranger    int    `json:"to_stranger"`   // payloads of a that the stranger's channel handed up
	FromStranger  int    `json:"from_stranger"` // payloads of the stranger that a handed up
	StrangerSent  int    `json:"stranger_sent"` // Sends of a / the stranger that returned nil in the stranger phase
	StrangerSentA int    `json:"stranger_sent_a"`
	RkChanged     bool   `json:"rk_changed"`    // a.RemoteKey() is no longer b's key
	PendingSends  int    `json:"pending_sends"` // Sends entered during the outage (after every session had expired)
	PendingFail   int    `json:"pending_fail"`  // ... that had not returned nil 1.5 s after the network healed
	PendingMs     int    `json:"pending_ms"`    // slowest completion after the heal
	ResumeSends   int    `json:"resume_sends"`
	ResumeFail    int    `json:"resume_fail"`
	Panic         bool   `json:"panic"`
	PanicV        string `json:"panicv"`
}

const tick = 25 * time.Millisecond

func runTimed(c *TimedCase) (ev TimedEvent) {
	if c.Post == "" {
		c.Post = "none"
	}
	ev = TimedEvent{Ev: "timed", Beh: c.ID, K: c.K, R: c.R, J: c.J, Pat: c.Pat, Post: c.Post, MaxHellos: c.MaxHellos, Model: c.Hellos,
		Kms: int(time.Duration(c.K) * tick / time.Millisecond)}
	defer func() {
		if x := recover(); x != nil {
			ev.Panic, ev.PanicV = true, fmt.Sprint(x)
		}
	}()
	keys := map[string]ed25519.PrivateKey{"a": attacker.TestKey(0), "b": attacker.TestKey(1), "c": attacker.TestKey(2)}
	var mu sync.Mutex
	chans := map[string]*p2pke.Channel{}
	hellos := map[string]bool{}
	var firstData [][]byte // one early ciphertext per distinct sender/session epoch, replayed at the end
	got := map[string]int{}
	gotBy := map[string]int{}                                // receiving channel + "<" + payload
	route := map[string]string{"a": "a", "b": "b", "c": "c"} // who answers at a peer name
	cut := map[string]bool{}                                 // endpoints whose output goes nowhere any more
	sent := map[string]bool{}
	mk := func(name, peer string) *p2pke.Channel {
		return p2pke.NewChannel(p2pke.ChannelConfig{
			PrivateKey: attacker.X509Private(keys[name]),
			AcceptKey:  func(*x509.PublicKey) bool { return true },
			Logger:     zap.NewNop(),
			Send: func(x []byte) {
				x = append([]byte{}, x...)
				mu.Lock()
				if typeOf(x) == "IH" {
					hellos[string(x)] = true
				}
				if typeOf(x) == "DATA" && len(firstData) < 64 {
					firstData = append(firstData, append([]byte(peer+":"), x...))
				}
				dst := chans[route[peer]]
				dstName := route[peer]
				if cut[name] {
					dst = nil
				}
				mu.Unlock()
				if dst == nil {
					return
				}
				go func() { // reliable, prompt network
					out, _ := dst.Deliver(nil, x)
					if out != nil {
						mu.Lock()
						got[string(out)]++
						gotBy[dstName+"<"+string(out)]++
						mu.Unlock()
					}
				}()
			},
			HandshakeBackoff: 10 * time.Millisecond,
			KeepAliveTimeout: time.Duration(c.K) * tick,
			RekeyAfterTime:   time.Duration(c.R) * tick,
			RejectAfterTime:  time.Duration(c.J) * tick,
		})
	}
	mu.Lock()
	chans["a"], chans["b"] = mk("a", "b"), mk("b", "a")
	mu.Unlock()
	defer chans["a"].Close()
	defer chans["b"].Close()
	senders := []string{"a", "b"}
	if c.Pat == "a2b" {
		senders = []string{"a"}
	} else if c.Pat == "b2a" {
		senders = []string{"b"}
	}
	var wg sync.WaitGroup
	last := time.Now()
	start := last
	for i := 0; i < c.Horizon; i++ {
		for _, s := range senders {
			payload := fmt.Sprintf("T:%s:%d:%d:0123456789", s, c.ID, i)
			mu.Lock()
			sent[payload] = true
			ev.Sends++
			ch := chans[s]
			mu.Unlock()
			wg.Add(1)
			go func() {
				defer wg.Done()
				ctx, cf := context.WithTimeout(context.Background(), time.Second)
				defer cf()
				if err := ch.Send(ctx, p2p.IOVec{[]byte(payload)}); err != nil {
					mu.Lock()
					ev.SendFail++
					mu.Unlock()
				}
			}()
		}
		time.Sleep(tick)
		now := time.Now()
		if gap := int((now.Sub(last) - tick) / time.Millisecond); gap > ev.StallMs {
			ev.StallMs = gap
		}
		last = now
	}
	wg.Wait()
	time.Sleep(30 * time.Millisecond)
	ev.Ticks = int((time.Since(start) + tick - 1) / tick)
	mu.Lock()
	ev.Hellos = len(hellos)
	mu.Unlock()
	// replay early ciphertexts of every epoch (sessions have rotated meanwhile): none may be handed up again
	mu.Lock()
	fd := firstData
	mu.Unlock()
	for _, x := range fd {
		i := bytes.IndexByte(x, ':')
		dst := chans[string(x[:i])]
		out, _ := dst.Deliver(nil, x[i+1:])
		ev.Replayed++
		if out != nil {
			mu.Lock()
			got[string(out)]++
			mu.Unlock()
		}
	}
	if c.Post == "pending" {
		// outage; once every session has expired a Send is entered on each sender and WAITS; the outage goes on for
		// more than two reject intervals, then the network heals: the waiting Sends must complete, nobody calls Send again
		mu.Lock()
		cut["a"], cut["b"] = true, true
		mu.Unlock()
		time.Sleep(time.Duration(c.J+c.K+2) * tick)
		type res struct {
			err error
			at  time.Time
		}
		out := make(chan res, len(senders))
		for _, s := range senders {
			payload := fmt.Sprintf("P:%s:%d:0123456789", s, c.ID)
			mu.Lock()
			sent[payload] = true
			ch := chans[s]
			mu.Unlock()
			ev.PendingSends++
			go func() {
				ctx, cf := context.WithTimeout(context.Background(), time.Duration(2*c.J+2)*tick+3*time.Second)
				defer cf()
				err := ch.Send(ctx, p2p.IOVec{[]byte(payload)})
				out <- res{err, time.Now()}
			}()
		}
		time.Sleep(time.Duration(2*c.J+2) * tick)
		mu.Lock()
		cut["a"], cut["b"] = false, false
		mu.Unlock()
		healed := time.Now()
		deadline := time.After(1500 * time.Millisecond)
		for i := 0; i < ev.PendingSends; i++ {
			select {
			case r := <-out:
				if r.err != nil {
					ev.PendingFail++
				} else if ms := int(r.at.Sub(healed) / time.Millisecond); ms > ev.PendingMs {
					ev.PendingMs = ms
				}
			case <-deadline:
				ev.PendingFail += ev.PendingSends - i
				i = ev.PendingSends
			}
		}
	}
	if c.Post == "stranger" || c.Post == "resume" {
		// nothing is sent and nothing gets through (so the rekey timers cannot renew anything either) until every
		// established session of both endpoints has expired
		mu.Lock()
		cut["a"], cut["b"] = true, true
		mu.Unlock()
		time.Sleep(time.Duration(c.J+c.K+2) * tick)
		mu.Lock()
		cut["a"] = false
		cut["b"] = c.Post == "stranger"
		mu.Unlock()
		trySend := func(ch *p2pke.Channel, payload string, d time.Duration) bool {
			mu.Lock()
			sent[payload] = true
			mu.Unlock()
			ctx, cf := context.WithTimeout(context.Background(), d)
			defer cf()
			return ch.Send(ctx, p2p.IOVec{[]byte(payload)}) == nil
		}
		if c.Post == "resume" {
			for i := 0; i < 3; i++ {
				for _, s := range senders {
					ev.ResumeSends++
					if !trySend(chans[s], fmt.Sprintf("R:%s:%d:%d:0123456789", s, c.ID, i), time.Second) {
						ev.ResumeFail++
					}
				}
			}
			time.Sleep(30 * time.Millisecond)
		} else {
			// a party with another key (which AcceptKey accepts) takes b's place: "b" as seen by a is now c, and c talks to a
			cch := mk("c", "a")
			mu.Lock()
			chans["c"] = cch
			route["b"] = "c"
			mu.Unlock()
			defer cch.Close()
			var swg sync.WaitGroup
			for i := 0; i < 3; i++ { // several attempts: each one runs expireSessions once more
				for _, who := range []string{"a", "c"} {
					swg.Add(1)
					go func(who string, i int) {
						defer swg.Done()
						mu.Lock()
						ch := chans[who]
						mu.Unlock()
						if trySend(ch, fmt.Sprintf("S:%s:%d:%d:0123456789", who, c.ID, i), 250*time.Millisecond) {
							mu.Lock()
							ev.StrangerSent++
							if who == "a" {
								ev.StrangerSentA++
							}
							mu.Unlock()
						}
					}(who, i)
				}
				swg.Wait()
			}
			time.Sleep(30 * time.Millisecond)
			rk := chans["a"].RemoteKey()
			want := attacker.X509Public(keys["b"])
			ev.RkChanged = !x509.EqualPublicKeys(&rk, &want)
			mu.Lock()
			for k := range gotBy {
				i := bytes.IndexByte([]byte(k), '<')
				recv, payload := k[:i], k[i+1:]
				if recv == "c" && len(payload) > 2 && (payload[:2] == "S:" || payload[:2] == "T:") && payload[2] == 'a' {
					ev.ToStranger++
				}
				if recv == "a" && len(payload) > 3 && payload[:3] == "S:c" {
					ev.FromStranger++
				}
			}
			mu.Unlock()
		}
	}
	mu.Lock()
	defer mu.Unlock()
	for p, n := range got {
		ev.Received++
		if n > 1 {
			ev.Dups++
		}
		if !sent[p] {
			ev.Unknown++
		}
	}
	return ev
}

func timedMain(in, out string) {
	f, err := os.Open(in)
	if err != nil {
		fmt.Fprintln(os.Stderr, err)
		os.Exit(2)
	}
	defer f.Close()
	w, err := trace.Create(out)
	if err != nil {
		fmt.Fprintln(os.Stderr, err)
		os.Exit(2)
	}
	var cases []*TimedCase
	sc := bufio.NewScanner(f)
	for sc.Scan() {
		var c TimedCase
		if err := json.Unmarshal(sc.Bytes(), &c); err != nil {
			fmt.Fprintln(os.Stderr, "bad case:", err)
			os.Exit(2)
		}
		cases = append(cases, &c)
	}
	results := make([]TimedEvent, len(cases))
	var wg sync.WaitGroup
	sem := make(chan struct{}, 8)
	for i := range cases {
		wg.Add(1)
		sem <- struct{}{}
		go func(i int) {
			defer wg.Done()
			defer func() { <-sem }()
			ev := runTimed(cases[i])
			// re-measure a suspicious result (the machine may have been busy)
			for try := 0; try < 2 && !ev.Panic && (ev.Hellos > ev.MaxHellos+1 || ev.SendFail > 0); try++ {
				ev = runTimed(cases[i])
			}
			results[i] = ev
		}(i)
	}
	wg.Wait()
	for _, ev := range results {
		w.Emit(ev)
	}
	if err := w.Close(); err != nil {
		fmt.Fprintln(os.Stderr, err)
		os.Exit(2)
	}
	fmt.Printf("replayed=%d events=%d\n", len(cases), len(results))
}
