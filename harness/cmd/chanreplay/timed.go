package main

import (
	"bufio"
	"bytes"
	"context"
	"crypto/ed25519"
	"encoding/json"
	"fmt"
	"os"
	"sync"
	"time"

	"go.brendoncarroll.net/p2p"
	"go.brendoncarroll.net/p2p/f/x509"
	"go.brendoncarroll.net/p2p/p/p2pke"
	"go.uber.org/zap"
	"verifharness/attacker"
	"verifharness/trace"
)

// TimedCase is one case of spec/ChannelTime.tla (intervals in ticks).
type TimedCase struct {
	ID        int    `json:"id"`
	K         int    `json:"K"`
	R         int    `json:"R"`
	J         int    `json:"J"`
	Pat       string `json:"pat"`
	Horizon   int    `json:"horizon"`
	Hellos    int    `json:"hellos"`
	MaxHellos int    `json:"maxhellos"`
}

type TimedEvent struct {
	Ev        string `json:"ev"`
	Beh       int    `json:"beh"`
	K         int    `json:"K"`
	R         int    `json:"R"`
	J         int    `json:"J"`
	Pat       string `json:"pat"`
	Kms       int    `json:"kms"`
	MaxHellos int    `json:"maxhellos"`
	Model     int    `json:"modelhellos"`
	Hellos    int    `json:"hellos"`
	Sends     int    `json:"sends"`
	SendFail  int    `json:"sendfail"`
	Received  int    `json:"received"`
	Dups      int    `json:"dups"`
	Unknown   int    `json:"unknown"`
	Replayed  int    `json:"replayed"`
	StallMs   int    `json:"stall_ms"`
	Panic     bool   `json:"panic"`
	PanicV    string `json:"panicv"`
}

const tick = 25 * time.Millisecond

func runTimed(c *TimedCase) (ev TimedEvent) {
	ev = TimedEvent{Ev: "timed", Beh: c.ID, K: c.K, R: c.R, J: c.J, Pat: c.Pat, MaxHellos: c.MaxHellos, Model: c.Hellos,
		Kms: int(time.Duration(c.K) * tick / time.Millisecond)}
	defer func() {
		if x := recover(); x != nil {
			ev.Panic, ev.PanicV = true, fmt.Sprint(x)
		}
	}()
	keys := map[string]ed25519.PrivateKey{"a": attacker.TestKey(0), "b": attacker.TestKey(1)}
	var mu sync.Mutex
	chans := map[string]*p2pke.Channel{}
	hellos := map[string]bool{}
	var firstData [][]byte // one early ciphertext per distinct sender/session epoch, replayed at the end
	got := map[string]int{}
	sent := map[string]bool{}
	mk := func(name, peer string) *p2pke.Channel {
		return p2pke.NewChannel(p2pke.ChannelConfig{
			PrivateKey: attacker.X509Private(keys[name]),
			AcceptKey:  func(*x509.PublicKey) bool { return true },
			Logger:     zap.NewNop(),
			Send: func(x []byte) {
				x = append([]byte{}, x...)
				mu.Lock()
				if typeOf(x) == "IH" {
					hellos[string(x)] = true
				}
				if typeOf(x) == "DATA" && len(firstData) < 64 {
					firstData = append(firstData, append([]byte(peer+":"), x...))
				}
				dst := chans[peer]
				mu.Unlock()
				go func() { // reliable, prompt network
					out, _ := dst.Deliver(nil, x)
					if out != nil {
						mu.Lock()
						got[string(out)]++
						mu.Unlock()
					}
				}()
			},
			HandshakeBackoff: 10 * time.Millisecond,
			KeepAliveTimeout: time.Duration(c.K) * tick,
			RekeyAfterTime:   time.Duration(c.R) * tick,
			RejectAfterTime:  time.Duration(c.J) * tick,
		})
	}
	mu.Lock()
	chans["a"], chans["b"] = mk("a", "b"), mk("b", "a")
	mu.Unlock()
	defer chans["a"].Close()
	defer chans["b"].Close()
	senders := []string{"a", "b"}
	if c.Pat == "a2b" {
		senders = []string{"a"}
	} else if c.Pat == "b2a" {
		senders = []string{"b"}
	}
	var wg sync.WaitGroup
	last := time.Now()
	for i := 0; i < c.Horizon; i++ {
		for _, s := range senders {
			payload := fmt.Sprintf("T:%s:%d:%d:0123456789", s, c.ID, i)
			mu.Lock()
			sent[payload] = true
			ev.Sends++
			ch := chans[s]
			mu.Unlock()
			wg.Add(1)
			go func() {
				defer wg.Done()
				ctx, cf := context.WithTimeout(context.Background(), time.Second)
				defer cf()
				if err := ch.Send(ctx, p2p.IOVec{[]byte(payload)}); err != nil {
					mu.Lock()
					ev.SendFail++
					mu.Unlock()
				}
			}()
		}
		time.Sleep(tick)
		now := time.Now()
		if gap := int((now.Sub(last) - tick) / time.Millisecond); gap > ev.StallMs {
			ev.StallMs = gap
		}
		last = now
	}
	wg.Wait()
	time.Sleep(30 * time.Millisecond)
	// replay early ciphertexts of every epoch (sessions have rotated meanwhile): none may be handed up again
	mu.Lock()
	fd := firstData
	mu.Unlock()
	for _, x := range fd {
		i := bytes.IndexByte(x, ':')
		dst := chans[string(x[:i])]
		out, _ := dst.Deliver(nil, x[i+1:])
		ev.Replayed++
		if out != nil {
			mu.Lock()
			got[string(out)]++
			mu.Unlock()
		}
	}
	mu.Lock()
	defer mu.Unlock()
	ev.Hellos = len(hellos)
	for p, n := range got {
		ev.Received++
		if n > 1 {
			ev.Dups++
		}
		if !sent[p] {
			ev.Unknown++
		}
	}
	return ev
}

func timedMain(in, out string) {
	f, err := os.Open(in)
	if err != nil {
		fmt.Fprintln(os.Stderr, err)
		os.Exit(2)
	}
	defer f.Close()
	w, err := trace.Create(out)
	if err != nil {
		fmt.Fprintln(os.Stderr, err)
		os.Exit(2)
	}
	var cases []*TimedCase
	sc := bufio.NewScanner(f)
	for sc.Scan() {
		var c TimedCase
		if err := json.Unmarshal(sc.Bytes(), &c); err != nil {
			fmt.Fprintln(os.Stderr, "bad case:", err)
			os.Exit(2)
		}
		cases = append(cases, &c)
	}
	results := make([]TimedEvent, len(cases))
	var wg sync.WaitGroup
	sem := make(chan struct{}, 8)
	for i := range cases {
		wg.Add(1)
		sem <- struct{}{}
		go func(i int) {
			defer wg.Done()
			defer func() { <-sem }()
			ev := runTimed(cases[i])
			// re-measure a suspicious result (the machine may have been busy)
			for try := 0; try < 2 && !ev.Panic && (ev.Hellos > ev.MaxHellos+1 || ev.SendFail > 0); try++ {
				ev = runTimed(cases[i])
			}
			results[i] = ev
		}(i)
	}
	wg.Wait()
	for _, ev := range results {
		w.Emit(ev)
	}
	if err := w.Close(); err != nil {
		fmt.Fprintln(os.Stderr, err)
		os.Exit(2)
	}
	fmt.Printf("replayed=%d events=%d\n", len(cases), len(results))
}
