// chanreplay replays TLC-generated behaviours of spec/Channel.tla on two real p2pke.Channel
// endpoints. The harness is the network: it captures everything the channels hand to their Send
// callback and delivers exactly the messages the behaviour says, in the behaviour's order. The
// channels' own timers run for real (short HandshakeBackoff); after every environment action the
// harness waits until the effects the model predicts for the zero-delay timers have appeared.
// The rekey timer's expiry is an environment action (hook VerifOnRekey). After the behaviour the
// network becomes reliable (settle phase) and every pending Send must complete (C07).
package main

import (
	"bufio"
	"bytes"
	"context"
	"crypto/ed25519"
	"encoding/json"
	"flag"
	"fmt"
	"os"
	"sort"
	"sync"
	"time"

	"go.brendoncarroll.net/p2p"
	"go.brendoncarroll.net/p2p/f/x509"
	"go.brendoncarroll.net/p2p/p/p2pke"
	"go.uber.org/zap"
	"golang.org/x/crypto/blake2b"
	"verifharness/attacker"
	"verifharness/trace"
)

type Msg struct {
	T        string `json:"t"`
	H        int    `json:"h"`
	Rs       int    `json:"rs"`
	To       string `json:"to"`
	FromInit bool   `json:"fromInit"`
	N        int    `json:"n"`
}

type Act struct {
	A   string `json:"a"`
	C   string `json:"c"`
	M   *Msg   `json:"m"`
	Key string `json:"key"`
	Out []Msg  `json:"out"`
	App bool   `json:"app"`
	Err bool   `json:"err"`
	Cmp []int  `json:"cmp"`
}

type SlotSnap struct {
	P     bool   `json:"p"`
	Init  bool   `json:"init"`
	Ready bool   `json:"ready"`
	Rkey  string `json:"rkey"`
}

type Snap struct {
	Slots   map[string]SlotSnap `json:"slots"`
	Bound   string              `json:"bound"`
	Pending int                 `json:"pending"`
}

type Step struct {
	Act Act  `json:"act"`
	A   Snap `json:"a"`
	B   Snap `json:"b"`
	Kf  bool `json:"kf"`
}

type Behaviour struct {
	ID      int      `json:"id"`
	Family  string   `json:"family"`
	AcceptA []string `json:"acceptA"`
	AcceptB []string `json:"acceptB"`
	Hist    []Step   `json:"hist"`
}

// ---- log -----------------------------------------------------------------------------------

type RSlot struct {
	P     bool   `json:"p"`
	Init  bool   `json:"init"`
	Ready bool   `json:"ready"`
	Rkey  string `json:"rkey"`
	ID    string `json:"id"`
}

type RSnap struct {
	Slots   []RSlot `json:"slots"`
	Bound   string  `json:"bound"`
	Pending int     `json:"pending"` // Send calls started and not yet returned
	Key     string  `json:"key"`
	Gen     int     `json:"gen"`
}

type NewMsg struct {
	ID   int    `json:"id"`
	From string `json:"from"`
	T    string `json:"t"`
}

type Event struct {
	Ev      string   `json:"ev"`
	Beh     int      `json:"beh"`
	Family  string   `json:"family"`
	AcceptA []string `json:"acceptA"`
	AcceptB []string `json:"acceptB"`
	C       string   `json:"c"`
	M       int      `json:"m"`
	MT      string   `json:"mt"`      // type of the delivered message
	MKey    string   `json:"mkey"`    // for a delivered InitHello: the key it claims
	Key     string   `json:"key"`     // restart key
	App     bool     `json:"app"`     // Deliver handed application data up
	Data    string   `json:"data"`    // id of that data ("" = none, "?" = not a plaintext that was sent)
	Sent    []string `json:"sent"`    // data ids whose Send completed during this step
	SentKey []string `json:"sentkey"` // remote key of the current session when each completed
	New     []NewMsg `json:"new"`
	A       RSnap    `json:"a"`
	B       RSnap    `json:"b"`
	ExpA    Snap     `json:"expa"`
	ExpB    Snap     `json:"expb"`
	Valid   bool     `json:"valid"`
	Kf      bool     `json:"kf"`
	Queries []string `json:"queries"` // "<endpoint>:<key>:<answer>" AcceptKey calls during this step
	Panic   bool     `json:"panic"`
	PanicV  string   `json:"panicv"`
	Why     string   `json:"why"`
	// settle
	Ok       bool `json:"ok"`
	Elapsed  int  `json:"elapsed_ms"`
	Retries  int  `json:"retries"`
	WasPend  int  `json:"waspending"`
	StallMax int  `json:"stall_ms"`
}

// ---- harness -------------------------------------------------------------------------------

const backoff = 15 * time.Millisecond

var keyIndex = map[string]int{"A": 0, "B": 1, "M": 7}

type wire struct {
	id    int
	from  string
	gen   int
	bytes []byte
	t     string
}

type endpoint struct {
	name    string
	key     string
	gen     int
	ch      *p2pke.Channel
	pending int
	dataSeq int
	ctx     context.Context
	cancel  context.CancelFunc
}

type run struct {
	b        *Behaviour
	mu       sync.Mutex
	keys     map[string]ed25519.PrivateKey
	ep       map[string]*endpoint
	msgs     []wire
	fresh    []int          // ids not yet reported as new
	bind     map[string]int // model message -> real id
	sentBy   map[string]string
	done     []string // data ids whose Send returned nil
	doneKey  []string
	queries  []string
	events   []Event
	valid    bool
	settling bool
	rerolled bool
	accept   map[string]map[string]bool
	log      *zap.Logger
}

func msgKey(m *Msg) string {
	b, _ := json.Marshal(m)
	return string(b)
}

func typeOf(b []byte) string {
	if len(b) < 4 {
		return "?"
	}
	n := uint32(b[0])<<24 | uint32(b[1])<<16 | uint32(b[2])<<8 | uint32(b[3])
	switch n {
	case 0:
		return "IH"
	case 1:
		return "RH"
	case 2:
		return "ID"
	case 3:
		return "RD"
	}
	return "DATA"
}

func (r *run) keyName(pk x509.PublicKey) string {
	if pk.IsZero() {
		return "none"
	}
	for name, k := range r.keys {
		p := attacker.X509Public(k)
		if x509.EqualPublicKeys(&p, &pk) {
			return name
		}
	}
	return "?"
}

func (r *run) keyNameRaw(data []byte) string {
	if len(data) == 0 {
		return "none"
	}
	for name, k := range r.keys {
		if bytes.Equal(attacker.X509Public(k).Data, data) {
			return name
		}
	}
	return "?"
}

func (r *run) newChannel(e *endpoint) {
	name, gen := e.name, e.gen
	if e.cancel != nil {
		e.cancel() // Sends of the previous incarnation end now
	}
	e.ctx, e.cancel = context.WithTimeout(context.Background(), 20*time.Second)
	r.mu.Lock()
	e.pending = 0
	r.mu.Unlock()
	e.ch = p2pke.NewChannel(p2pke.ChannelConfig{
		PrivateKey: attacker.X509Private(r.keys[e.key]),
		Send: func(x []byte) {
			r.mu.Lock()
			defer r.mu.Unlock()
			for _, m := range r.msgs {
				if bytes.Equal(m.bytes, x) {
					if r.settling {
						r.fresh = append(r.fresh, m.id) // reliable network: retransmissions arrive too
					}
					return // retransmission of identical bytes
				}
			}
			w := wire{id: len(r.msgs) + 1, from: name, gen: gen, bytes: append([]byte{}, x...), t: typeOf(x)}
			r.msgs = append(r.msgs, w)
			r.fresh = append(r.fresh, w.id)
		},
		AcceptKey: func(pk *x509.PublicKey) bool {
			kn := r.keyName(*pk)
			ans := r.accept[name][kn]
			r.mu.Lock()
			r.queries = append(r.queries, fmt.Sprintf("%s:%s:%v", name, kn, ans))
			r.mu.Unlock()
			return ans
		},
		Logger:           r.log,
		HandshakeBackoff: backoff,
		KeepAliveTimeout: time.Hour,
		RekeyAfterTime:   time.Hour,
		RejectAfterTime:  2 * time.Hour,
	})
}

func (r *run) snapshot(e *endpoint) RSnap {
	s := e.ch.VerifSnapshot()
	out := RSnap{Key: e.key, Gen: e.gen, Bound: "none"}
	for i := 0; i < 3; i++ {
		sl := s.Slots[i]
		rs := RSlot{P: sl.Present, Init: sl.IsInit, Ready: sl.Ready, Rkey: "none"}
		if sl.Present {
			rs.Rkey = r.keyNameRaw(sl.RemoteKey)
			rs.ID = fmt.Sprintf("%x", sl.ID[:6])
		}
		out.Slots = append(out.Slots, rs)
	}
	out.Bound = r.keyName(e.ch.RemoteKey())
	r.mu.Lock()
	out.Pending = e.pending
	r.mu.Unlock()
	return out
}

func (r *run) startSend(e *endpoint) {
	e.dataSeq++
	id := fmt.Sprintf("%s%d.%d", e.name, e.gen, e.dataSeq)
	payload := []byte("DATA:" + id + ":0123456789abcdef")
	r.mu.Lock()
	e.pending++
	r.sentBy[string(payload)] = id
	r.mu.Unlock()
	ch, ctx, gen := e.ch, e.ctx, e.gen
	go func() {
		err := ch.Send(ctx, p2p.IOVec{payload})
		r.mu.Lock()
		defer r.mu.Unlock()
		if e.gen == gen {
			e.pending--
		}
		if err == nil {
			r.done = append(r.done, id)
			kn := "none"
			if e.ch == ch {
				s := ch.VerifSnapshot()
				if s.Slots[1].Present {
					kn = r.keyNameRaw(s.Slots[1].RemoteKey)
				}
			}
			r.doneKey = append(r.doneKey, kn)
		}
	}()
}

// helloID returns the channel's session id (hash of the InitHello bytes) of the model's hello h.
func (r *run) helloID(h int) ([32]byte, bool) {
	for _, to := range []string{"a", "b"} {
		if id, ok := r.bind[msgKey(&Msg{T: "IH", H: h, To: to})]; ok {
			return blake2b.Sum256(r.msgs[id-1].bytes), true
		}
	}
	return [32]byte{}, false
}

func peer(c string) string {
	if c == "a" {
		return "b"
	}
	return "a"
}

// waitFor waits until the predicted emissions (emitter/type counts) and Send completions have shown up.
func (r *run) waitFor(want map[string]int, wantDone int, max time.Duration) {
	deadline := time.Now().Add(max)
	for {
		r.mu.Lock()
		have := map[string]int{}
		for _, id := range r.fresh {
			m := r.msgs[id-1]
			have[m.from+"/"+m.t]++
		}
		nd := len(r.done)
		r.mu.Unlock()
		ok := nd >= wantDone
		for k, n := range want {
			if have[k] < n {
				ok = false
			}
		}
		if ok || time.Now().After(deadline) {
			break
		}
		time.Sleep(500 * time.Microsecond)
	}
	time.Sleep(2 * time.Millisecond) // let anything unpredicted show up too
}

func guard(fn func()) (panicked bool, what string) {
	defer func() {
		if x := recover(); x != nil {
			panicked, what = true, fmt.Sprint(x)
		}
	}()
	fn()
	return
}

func (r *run) emit(ev Event) {
	ev.Beh, ev.Family = r.b.ID, r.b.Family
	if ev.New == nil {
		ev.New = []NewMsg{}
	}
	if ev.Sent == nil {
		ev.Sent, ev.SentKey = []string{}, []string{}
	}
	if ev.Queries == nil {
		ev.Queries = []string{}
	}
	if ev.AcceptA == nil {
		ev.AcceptA, ev.AcceptB = []string{}, []string{}
	}
	if ev.A.Slots == nil {
		ev.A.Slots, ev.B.Slots = []RSlot{}, []RSlot{}
	}
	if ev.ExpA.Slots == nil {
		ev.ExpA.Slots, ev.ExpB.Slots = map[string]SlotSnap{}, map[string]SlotSnap{}
	}
	r.events = append(r.events, ev)
}

func isEnv(a string) bool {
	return a == "sendcall" || a == "rekeyfire" || a == "deliver" || a == "restart"
}

// attempt replays the behaviour once; returns whether the settle phase succeeded.
func (r *run) attempt() bool {
	b := r.b
	r.keys = map[string]ed25519.PrivateKey{}
	for name, i := range keyIndex {
		r.keys[name] = attacker.TestKey(i)
	}
	r.accept = map[string]map[string]bool{"a": {}, "b": {}}
	for _, k := range b.AcceptA {
		r.accept["a"][k] = true
	}
	for _, k := range b.AcceptB {
		r.accept["b"][k] = true
	}
	r.ep = map[string]*endpoint{"a": {name: "a", key: "A"}, "b": {name: "b", key: "B"}}
	r.msgs, r.fresh, r.bind, r.sentBy, r.done, r.doneKey, r.queries, r.events, r.valid = nil, nil, map[string]int{}, map[string]string{}, nil, nil, nil, nil, true
	r.settling, r.rerolled = false, false
	for _, e := range r.ep {
		r.newChannel(e)
	}
	defer func() {
		for _, e := range r.ep {
			e.cancel()
			e.ch.Close()
		}
	}()
	r.emit(Event{Ev: "init", AcceptA: b.AcceptA, AcceptB: b.AcceptB})
	kf := false
	doneSeen := 0
	for i := 0; i < len(b.Hist); {
		st := &b.Hist[i]
		if !isEnv(st.Act.A) {
			i++ // a timer action not preceded by an environment action (cannot happen)
			continue
		}
		// the group: this environment action and the timer actions that follow it
		j := i + 1
		for j < len(b.Hist) && !isEnv(b.Hist[j].Act.A) {
			j++
		}
		group := b.Hist[i:j]
		lastSt := &group[len(group)-1]
		if lastSt.Kf {
			kf = true
		}
		// predicted new emissions and Send completions of the group
		var predicted []Msg
		wantDone := doneSeen
		for _, g := range group {
			for _, m := range g.Act.Out {
				mm := m
				if _, ok := r.bind[msgKey(&mm)]; !ok {
					dup := false
					for _, p := range predicted {
						if p == mm {
							dup = true
						}
					}
					if !dup {
						predicted = append(predicted, mm)
					}
				}
			}
			if g.Act.A == "sendcommit" {
				wantDone++
			}
		}
		want := map[string]int{}
		for _, m := range predicted {
			want[peer(m.To)+"/"+m.T]++
		}
		ev := Event{Ev: st.Act.A, C: st.Act.C, ExpA: lastSt.A, ExpB: lastSt.B, Kf: lastSt.Kf}
		skip, reroll := false, false
		p, what := guard(func() {
			switch st.Act.A {
			case "sendcall":
				r.startSend(r.ep[st.Act.C])
			case "rekeyfire":
				r.ep[st.Act.C].ch.VerifOnRekey()
			case "restart":
				e := r.ep["a"]
				e.ch.Close()
				e.gen++
				e.key = st.Act.Key
				e.dataSeq = 0
				r.newChannel(e)
				ev.Key = st.Act.Key
			case "deliver":
				id, ok := r.bind[msgKey(st.Act.M)]
				if !ok {
					skip = true
					return
				}
				// The tie-break between two hellos compares their ids (hashes). The model orders hellos
				// by creation; if the real hashes happen to be ordered the other way this attempt cannot
				// follow the behaviour: start over (fresh ephemerals give fresh hashes).
				if len(st.Act.Cmp) == 2 {
					x, okx := r.helloID(st.Act.Cmp[0])
					y, oky := r.helloID(st.Act.Cmp[1])
					if okx && oky && (st.Act.Cmp[0] < st.Act.Cmp[1]) != (bytes.Compare(x[:], y[:]) < 0) {
						reroll = true
						return
					}
				}
				w := r.msgs[id-1]
				ev.M, ev.MT = id, w.t
				if w.t == "IH" {
					if _, kx, _, _, err := attacker.ParseInitHello(w.bytes); err == nil {
						if pk, err := x509.ParsePublicKey(kx); err == nil {
							ev.MKey = r.keyName(pk)
						}
					}
				}
				out, err := r.ep[st.Act.C].ch.Deliver(nil, append([]byte(nil), w.bytes...))
				_ = err
				if out != nil {
					ev.App = true
					r.mu.Lock()
					if did, ok := r.sentBy[string(out)]; ok {
						ev.Data = did
					} else {
						ev.Data = "?"
					}
					r.mu.Unlock()
				}
			}
		})
		if reroll {
			r.rerolled = true
			return true
		}
		if skip {
			r.emit(Event{Ev: "skip", Why: "message does not exist in the real run"})
			r.valid = false
			i = j
			continue
		}
		if p {
			ev.Panic, ev.PanicV = true, what
			r.emit(ev)
			return true
		}
		r.waitFor(want, wantDone, 300*time.Millisecond)
		// collect what appeared, bind predicted messages to real ones by (emitter, type)
		r.mu.Lock()
		fresh := r.fresh
		r.fresh = nil
		ev.Sent = append([]string{}, r.done[doneSeen:]...)
		ev.SentKey = append([]string{}, r.doneKey[doneSeen:]...)
		doneSeen = len(r.done)
		ev.Queries = r.queries
		r.queries = nil
		r.mu.Unlock()
		used := map[int]bool{}
		for _, m := range predicted {
			for _, id := range fresh {
				w := r.msgs[id-1]
				if !used[id] && w.from == peer(m.To) && w.t == m.T {
					used[id] = true
					mm := m
					r.bind[msgKey(&mm)] = id
					break
				}
			}
		}
		for _, id := range fresh {
			w := r.msgs[id-1]
			ev.New = append(ev.New, NewMsg{ID: id, From: w.from, T: w.t})
		}
		if len(fresh) != len(predicted) {
			r.valid = false
		}
		ev.A, ev.B = r.snapshot(r.ep["a"]), r.snapshot(r.ep["b"])
		ev.Valid = r.valid
		r.emit(ev)
		i = j
	}
	return r.settle(kf)
}

// settle: the network becomes reliable. Every message emitted from now on is delivered promptly and in
// order; each side issues one more Send. All Sends (those left pending by the prefix too) must complete.
func (r *run) settle(kf bool) bool {
	ev := Event{Ev: "settle", Kf: kf}
	r.mu.Lock()
	ev.WasPend = r.ep["a"].pending + r.ep["b"].pending
	r.fresh = nil
	r.settling = true
	start := len(r.done)
	r.mu.Unlock()
	t0 := time.Now()
	p, what := guard(func() {
		r.startSend(r.ep["a"])
		r.startSend(r.ep["b"])
		want := ev.WasPend + 2
		deadline := t0.Add(1500 * time.Millisecond)
		last := time.Now()
		for time.Now().Before(deadline) {
			r.mu.Lock()
			fresh := r.fresh
			r.fresh = nil
			nd := len(r.done) - start
			var batch []wire
			for _, id := range fresh {
				batch = append(batch, r.msgs[id-1])
			}
			r.mu.Unlock()
			for _, w := range batch {
				dst := r.ep[peer(w.from)]
				out, _ := dst.ch.Deliver(nil, append([]byte(nil), w.bytes...))
				if out != nil {
					r.mu.Lock()
					_, known := r.sentBy[string(out)]
					r.mu.Unlock()
					if !known {
						ev.Data = "?"
					}
				}
			}
			if nd >= want {
				ev.Ok = true
				break
			}
			now := time.Now()
			if gap := int(now.Sub(last) / time.Millisecond); gap > ev.StallMax {
				ev.StallMax = gap // the harness itself was not scheduled: do not trust a failure
			}
			last = now
			time.Sleep(time.Millisecond)
		}
	})
	if p {
		ev.Panic, ev.PanicV = true, what
	}
	ev.Elapsed = int(time.Since(t0) / time.Millisecond)
	ev.A, ev.B = r.snapshot(r.ep["a"]), r.snapshot(r.ep["b"])
	r.emit(ev)
	return ev.Ok || ev.Panic
}

func replay(b *Behaviour, log *zap.Logger) []Event {
	r := &run{b: b, log: log}
	var events []Event
	attempt, rerolls := 0, 0
	for attempt < 3 {
		ok := r.attempt()
		if r.rerolled && rerolls < 40 {
			rerolls++
			continue
		}
		events = r.events
		events[len(events)-1].Retries = attempt
		if ok {
			break
		}
		attempt++
	}
	return events
}

func main() {
	in := flag.String("in", "", "behaviours (ndjson)")
	out := flag.String("out", "", "trace output (ndjson)")
	par := flag.Int("par", 8, "behaviours replayed concurrently")
	timed := flag.Bool("timed", false, "input is a list of ChannelTime cases")
	crafted := flag.Bool("crafted", false, "input is a list of ChannelCrafted cases")
	flag.Parse()
	if *crafted {
		craftedMain(*in, *out)
		return
	}
	if *timed {
		timedMain(*in, *out)
		return
	}
	f, err := os.Open(*in)
	if err != nil {
		fmt.Fprintln(os.Stderr, err)
		os.Exit(2)
	}
	defer f.Close()
	w, err := trace.Create(*out)
	if err != nil {
		fmt.Fprintln(os.Stderr, err)
		os.Exit(2)
	}
	var behs []*Behaviour
	sc := bufio.NewScanner(f)
	sc.Buffer(make([]byte, 1<<20), 1<<28)
	for sc.Scan() {
		var b Behaviour
		if err := json.Unmarshal(sc.Bytes(), &b); err != nil {
			fmt.Fprintln(os.Stderr, "bad behaviour:", err)
			os.Exit(2)
		}
		behs = append(behs, &b)
	}
	log := zap.NewNop()
	results := make([][]Event, len(behs))
	var wg sync.WaitGroup
	sem := make(chan struct{}, *par)
	for i := range behs {
		wg.Add(1)
		sem <- struct{}{}
		go func(i int) {
			defer wg.Done()
			defer func() { <-sem }()
			results[i] = replay(behs[i], log)
		}(i)
	}
	wg.Wait()
	sort.SliceStable(results, func(i, j int) bool { return false })
	n := 0
	for _, evs := range results {
		for _, ev := range evs {
			w.Emit(ev)
			n++
		}
	}
	if err := w.Close(); err != nil {
		fmt.Fprintln(os.Stderr, err)
		os.Exit(2)
	}
	fmt.Printf("replayed=%d events=%d\n", len(behs), n)
}
