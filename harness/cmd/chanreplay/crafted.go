package main

import (
	"bufio"
	"context"
	"encoding/json"
	"fmt"
	"os"
	"sync"
	"time"

	"go.brendoncarroll.net/p2p"
	"go.brendoncarroll.net/p2p/f/x509"
	"go.brendoncarroll.net/p2p/p/p2pke"
	"go.uber.org/zap"
	"verifharness/attacker"
	"verifharness/trace"
)

// CraftedCase is one case of spec/ChannelCrafted.tla: what a hand-crafted party holding only key M sends, after a
// valid RespHello under its own key, to a real channel that accepts only key B.
type CraftedCase struct {
	ID  int      `json:"id"`
	Sit string   `json:"sit"` // "fresh" | "bound"
	Seq []string `json:"seq"`
}

type CraftedEvent struct {
	Ev      string   `json:"ev"`
	Beh     int      `json:"beh"`
	Sit     string   `json:"sit"`
	Seq     []string `json:"seq"`
	Engaged bool     `json:"engaged"`   // the channel consumed M's RespHello (it answered with an InitDone)
	Handed  int      `json:"handed"`    // plaintexts crafted by M that the channel handed to the application
	RkWrong bool     `json:"rk_wrong"`  // RemoteKey() is M (fresh: anything but unset; bound: anything but B)
	SentToM int      `json:"sent_to_m"` // application data the channel sealed under the session with M
	Panic   bool     `json:"panic"`
	PanicV  string   `json:"panicv"`
}

func runCrafted(c *CraftedCase) (ev CraftedEvent) {
	ev = CraftedEvent{Ev: "crafted", Beh: c.ID, Sit: c.Sit, Seq: c.Seq}
	defer func() {
		if x := recover(); x != nil {
			ev.Panic, ev.PanicV = true, fmt.Sprint(x)
		}
	}()
	keyA, keyB, keyM := attacker.TestKey(0), attacker.TestKey(1), attacker.TestKey(7)
	pubB, pubM := attacker.X509Public(keyB), attacker.X509Public(keyM)
	var mu sync.Mutex
	var outA [][]byte // everything channel a emitted, in order
	var chB *p2pke.Channel
	linked := true
	chA := p2pke.NewChannel(p2pke.ChannelConfig{
		PrivateKey: attacker.X509Private(keyA),
		AcceptKey:  func(pk *x509.PublicKey) bool { return x509.EqualPublicKeys(pk, &pubB) },
		Logger:     zap.NewNop(),
		Send: func(x []byte) {
			x = append([]byte{}, x...)
			mu.Lock()
			outA = append(outA, x)
			b, l := chB, linked
			mu.Unlock()
			if b != nil && l {
				go b.Deliver(nil, x)
			}
		},
		HandshakeBackoff: 20 * time.Millisecond,
		KeepAliveTimeout: time.Hour,
		RekeyAfterTime:   time.Hour,
		RejectAfterTime:  2 * time.Hour,
	})
	defer chA.Close()
	mark := 0 // outA index from which the handshake with M starts
	if c.Sit == "bound" {
		b := p2pke.NewChannel(p2pke.ChannelConfig{
			PrivateKey: attacker.X509Private(keyB),
			AcceptKey:  func(*x509.PublicKey) bool { return true },
			Logger:     zap.NewNop(),
			Send: func(x []byte) {
				x = append([]byte{}, x...)
				mu.Lock()
				l := linked
				mu.Unlock()
				if l {
					go chA.Deliver(nil, x)
				}
			},
			HandshakeBackoff: 20 * time.Millisecond,
			KeepAliveTimeout: time.Hour,
			RekeyAfterTime:   time.Hour,
			RejectAfterTime:  2 * time.Hour,
		})
		defer b.Close()
		mu.Lock()
		chB = b
		mu.Unlock()
		ctx, cf := context.WithTimeout(context.Background(), 3*time.Second)
		err := chA.Send(ctx, p2p.IOVec{[]byte("establish")})
		cf()
		if err != nil {
			return ev // not engaged: reported as drift
		}
		time.Sleep(30 * time.Millisecond)
		mu.Lock()
		linked = false // B is gone; M answers from now on
		mark = len(outA)
		mu.Unlock()
		chA.VerifOnRekey() // the rekey timer fires: a starts a new handshake
	} else {
		go func() {
			ctx, cf := context.WithTimeout(context.Background(), 400*time.Millisecond)
			defer cf()
			chA.Send(ctx, p2p.IOVec{[]byte("first")})
		}()
	}
	// wait for a's InitHello
	var ih []byte
	for i := 0; i < 100 && ih == nil; i++ {
		mu.Lock()
		for _, x := range outA[mark:] {
			if typeOf(x) == "IH" {
				ih = x
			}
		}
		mu.Unlock()
		if ih == nil {
			time.Sleep(5 * time.Millisecond)
		}
	}
	if ih == nil {
		return ev
	}
	adv := attacker.New(keyM, []byte("attacker-ephemeral-seed-32-bytes"))
	rh, ciph, err := adv.RespHello(ih, attacker.X509PublicBytes(keyM), true, nil)
	if err != nil {
		return ev
	}
	crafted := map[string]bool{}
	deliver := func(x []byte) {
		out, _ := chA.Deliver(nil, x)
		if out != nil && crafted[string(out)] {
			ev.Handed++
		}
	}
	deliver(rh)
	time.Sleep(5 * time.Millisecond)
	mu.Lock()
	for _, x := range outA[mark:] {
		if typeOf(x) == "ID" {
			ev.Engaged = true
		}
	}
	mu.Unlock()
	data := func(n uint32, k int) []byte {
		pt := []byte(fmt.Sprintf("CRAFTED:%d:%d:%d:0123456789", c.ID, k, n))
		crafted[string(pt)] = true
		return attacker.Data(ciph, false, n, pt)
	}
	for k, sym := range c.Seq {
		switch sym {
		case "RD":
			deliver(attacker.RespDone(ciph))
		case "D16":
			deliver(data(16, k))
		case "D17":
			deliver(data(17, k))
		case "Dmax":
			deliver(data(0xFFFFFFFE, k))
		case "Dmax1":
			deliver(data(0xFFFFFFFF, k))
		case "D3":
			deliver(data(3, k))
		case "D15":
			deliver(data(15, k))
		case "RHdup":
			deliver(rh)
		}
	}
	// ordinary records afterwards: whatever the sequence did to the channel, M's data must not come up
	deliver(data(40, 100))
	deliver(data(41, 101))
	// and the channel must not seal application data for M
	mu.Lock()
	mark2 := len(outA)
	mu.Unlock()
	ctx, cf := context.WithTimeout(context.Background(), 120*time.Millisecond)
	chA.Send(ctx, p2p.IOVec{[]byte("secret-for-B")})
	cf()
	mu.Lock()
	for _, x := range outA[mark2:] {
		if typeOf(x) == "DATA" && len(x) > 4 {
			n := uint64(x[0])<<24 | uint64(x[1])<<16 | uint64(x[2])<<8 | uint64(x[3])
			if _, err := ciph.I2R.Decrypt(nil, n, x[:4], x[4:]); err == nil {
				ev.SentToM++
			}
		}
	}
	mu.Unlock()
	rk := chA.RemoteKey()
	if c.Sit == "bound" {
		ev.RkWrong = !x509.EqualPublicKeys(&rk, &pubB)
	} else {
		ev.RkWrong = !rk.IsZero()
	}
	_ = pubM
	return ev
}

func craftedMain(in, out string) {
	f, err := os.Open(in)
	if err != nil {
		fmt.Fprintln(os.Stderr, err)
		os.Exit(2)
	}
	defer f.Close()
	w, err := trace.Create(out)
	if err != nil {
		fmt.Fprintln(os.Stderr, err)
		os.Exit(2)
	}
	var cases []*CraftedCase
	sc := bufio.NewScanner(f)
	for sc.Scan() {
		var c CraftedCase
		if err := json.Unmarshal(sc.Bytes(), &c); err != nil {
			fmt.Fprintln(os.Stderr, "bad case:", err)
			os.Exit(2)
		}
		cases = append(cases, &c)
	}
	results := make([]CraftedEvent, len(cases))
	var wg sync.WaitGroup
	sem := make(chan struct{}, 12)
	for i := range cases {
		wg.Add(1)
		sem <- struct{}{}
		go func(i int) {
			defer wg.Done()
			defer func() { <-sem }()
			ev := runCrafted(cases[i])
			for try := 0; try < 2 && !ev.Panic && !ev.Engaged; try++ {
				ev = runCrafted(cases[i]) // the channel did not get as far as answering M: try again
			}
			results[i] = ev
		}(i)
	}
	wg.Wait()
	for _, ev := range results {
		if ev.Seq == nil {
			ev.Seq = []string{}
		}
		w.Emit(ev)
	}
	if err := w.Close(); err != nil {
		fmt.Fprintln(os.Stderr, err)
		os.Exit(2)
	}
	fmt.Printf("replayed=%d events=%d\n", len(cases), len(results))
}
