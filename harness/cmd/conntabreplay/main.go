// conntabreplay executes TLC-generated schedules of spec/ConnTableGen.tla on REAL quicswarm nodes (over a
// harness-owned in-memory packet swarm) and REAL sshswarm nodes (loopback TCP through harness-owned
// forwarders) and records what can be observed from outside: the result of every Tell / Ask, what every
// node received and from which claimed source, and after every step the contents of each node's
// connection table (read-only projections VerifSessions / VerifConns, build tag verif) together with the
// ground truth about open connections (quic: goroutines inside quic-go's connection.run; ssh: the
// forwarders' open TCP connections).
//
// A schedule is a sequence of groups; the operations of one group are released together from racing
// goroutines, the next group starts when all of them have returned and the observation has settled.
// Goroutine scheduling is not controlled: each schedule is repeated (-reps) and spec/ConnTableTrace.tla
// judges the OBSERVED outcome only.
//
//	conntabreplay -in schedules.ndjson -out trace.ndjson [-reps 3]
package main

import (
	"bufio"
	"bytes"
	"context"
	"encoding/json"
	"flag"
	"fmt"
	"os"
	"runtime"
	"sort"
	"strconv"
	"strings"
	"sync"
	"sync/atomic"
	"time"

	"verifharness/trace"
)

// Op is one operation of a group.
//
//	tell / ask   From -> To, addressed to identity ID (ID != To: an identity that does not live at that
//	             address); Via "pub": To's public address, "src": the source address of the last message
//	             From received from To
//	kill         every connection between A and B dies (quic: the application closes them; ssh: the
//	             forwarder closes the TCP connections)
//	restart      node N is closed (Crash: without a word to its peers) and a new node with the same key
//	             starts on the same address
//	expire       node N's connections to peers that no longer exist run into their idle timeout
//	close        Swarm.Close on node N
type Op struct {
	Op    string `json:"op"`
	From  int    `json:"from"`
	To    int    `json:"to"`
	ID    int    `json:"id"`
	Via   string `json:"via"`
	A     int    `json:"a"`
	B     int    `json:"b"`
	N     int    `json:"n"`
	Crash bool   `json:"crash"`
}

type Schedule struct {
	ID     int    `json:"id"`
	Tr     string `json:"tr"`
	Nodes  int    `json:"nodes"`
	Groups [][]Op `json:"groups"`
}

// OpRes is what one operation of a group was observed to do.
type OpRes struct {
	Op    string `json:"op"`
	From  int    `json:"from"`
	To    int    `json:"to"`
	ID    int    `json:"id"`
	Via   string `json:"via"`
	A     int    `json:"a"`
	B     int    `json:"b"`
	N     int    `json:"n"`
	Crash bool   `json:"crash"`
	K     int    `json:"k"`     // number of the operation within the run (payloads carry it)
	Pre   bool   `json:"pre"`   // at the call, From's table held an entry under exactly the address used
	Res   string `json:"res"`   // ok err skip (no source address known) - (environment operation)
	Err   string `json:"err"`   // error text, shortened
	By    int    `json:"by"`    // ask: node that answered (0: none / unparsable)
	ByInc int    `json:"byinc"` // ask: its incarnation
	C0    uint64 `json:"c0"`    // global counter at call
	C1    uint64 `json:"c1"`    // global counter at return
	Ms    int    `json:"ms"`
}

// Entry is one connection-table entry, projected.
type Entry struct {
	N     int    `json:"n"`     // node that holds the table
	Kid   int    `json:"kid"`   // node whose identity is in the key (0: nobody's)
	Kad   int    `json:"kad"`   // node that lives at the address in the key (0: unknown)
	Dir   string `json:"dir"`   // out: this node dialled; in: it accepted
	Rid   int    `json:"rid"`   // node whose identity the connection authenticated (0: nobody's)
	Alive bool   `json:"alive"` // the connection has not ended
	Stale bool   `json:"stale"` // the peer it was established with may no longer exist (restart / close since)
	H     int    `json:"h"`     // harness number of the connection object
}

type NodeSt struct {
	N      int  `json:"n"`
	Inc    int  `json:"inc"`
	Closed bool `json:"closed"` // Swarm.Close has returned on the current incarnation
}

type Dlv struct {
	K     int  `json:"k"`
	At    int  `json:"at"`
	Inc   int  `json:"inc"`
	Src   int  `json:"src"`   // node whose identity the message's Src claims
	SrcAd int  `json:"srcad"` // node at the message's Src address (ssh: the client of the TCP connection)
	DstOk bool `json:"dstok"` // Dst names the receiving node
	Ask   bool `json:"ask"`
}

type Event struct {
	Ev      string   `json:"ev"` // grp | end
	Beh     int      `json:"beh"`
	Rep     int      `json:"rep"`
	I       int      `json:"i"` // group index, from 1
	Tr      string   `json:"tr"`
	Ops     []OpRes  `json:"ops"`
	Nodes   []NodeSt `json:"nodes"`
	Ents    []Entry  `json:"ents"`
	Orph    int      `json:"orph"`  // open connection ends that are in no table
	NLive   int      `json:"nlive"` // open connection ends
	Dl      []Dlv    `json:"dl"`    // everything delivered so far in this run
	Settled bool     `json:"settled"`
	Panic   string   `json:"panic"`
}

// world is a set of real nodes of one transport.
type world interface {
	start(n int) error
	tell(ctx context.Context, from, to, id int, via string, payload []byte) (skip, pre bool, err error)
	ask(ctx context.Context, from, to, id int, via string, payload []byte) (resp []byte, skip, pre bool, err error)
	kill(a, b int)
	restart(n int, crash bool) error
	expire(n int)
	closeNode(n int) error
	snapshot() (nodes []NodeSt, ents []Entry, orph, nlive int)
	endGroup()
	shutdown()
}

// sink collects deliveries of one run.
type sink struct {
	mu  sync.Mutex
	beh int
	rep int
	dl  []Dlv
}

func (s *sink) payload(k, id int) []byte {
	return []byte(fmt.Sprintf("%d|%d|%d|%d", s.beh, s.rep, k, id))
}

func (s *sink) parse(p []byte) (k int, ok bool) {
	parts := strings.Split(string(p), "|")
	if len(parts) != 4 {
		return 0, false
	}
	b, _ := strconv.Atoi(parts[0])
	r, _ := strconv.Atoi(parts[1])
	k, err := strconv.Atoi(parts[2])
	return k, err == nil && b == s.beh && r == s.rep
}

func (s *sink) got(at, inc int, p []byte, src, srcad int, dstok, ask bool) {
	k, ok := s.parse(p)
	if !ok {
		k = -1
	}
	s.mu.Lock()
	s.dl = append(s.dl, Dlv{K: k, At: at, Inc: inc, Src: src, SrcAd: srcad, DstOk: dstok, Ask: ask})
	s.mu.Unlock()
}

func (s *sink) snapshot() []Dlv {
	s.mu.Lock()
	defer s.mu.Unlock()
	out := append([]Dlv{}, s.dl...)
	sort.SliceStable(out, func(i, j int) bool { return out[i].K < out[j].K })
	return out
}

func (s *sink) delivered(k int) bool {
	s.mu.Lock()
	defer s.mu.Unlock()
	for _, d := range s.dl {
		if d.K == k && !d.Ask {
			return true
		}
	}
	return false
}

func answer(n, inc int, req []byte) []byte {
	return []byte(fmt.Sprintf("re|%d|%d|%s", n, inc, req))
}

func parseAnswer(resp []byte, req []byte) (by, inc int) {
	parts := strings.SplitN(string(resp), "|", 4)
	if len(parts) != 4 || parts[0] != "re" || parts[3] != string(req) {
		return 0, 0
	}
	by, _ = strconv.Atoi(parts[1])
	inc, _ = strconv.Atoi(parts[2])
	return by, inc
}

const opTimeout = 8 * time.Second

var seq atomic.Uint64

func short(err error) string {
	if err == nil {
		return ""
	}
	s := err.Error()
	if len(s) > 90 {
		s = s[:90]
	}
	return s
}

func newWorld(tr string, n int, sk *sink) (world, error) {
	switch tr {
	case "quic":
		return newQuicWorld(n, sk)
	case "ssh":
		return newSSHWorld(n, sk)
	}
	return nil, fmt.Errorf("unknown transport %q", tr)
}

func digest(nodes []NodeSt, ents []Entry, orph, nlive, ndl int) string {
	b, _ := json.Marshal([]any{nodes, ents, orph, nlive, ndl})
	return string(b)
}

// settle waits until the observation has been the same for a few polls and every Tell of a group without
// environment operations that returned nil has been delivered (or patience has run out).
//
// halfOpen >= 0: a node of this group was closed while it was dialling.  The peer may be left with a
// connection whose handshake will never complete; quic-go gives it up after its handshake timeout (5 s).
// That is not a connection of the swarm: wait until the number of open ends outside the tables is back at
// what it was (halfOpen) before judging.
//
// A table entry whose connection has ended is waited for as well (its handler goroutine has to run): only an
// entry that is still there after patience has run out is reported.
func settle(w world, sk *sink, expect, maybe []int, halfOpen, orphBefore int, patience time.Duration) (nodes []NodeSt, ents []Entry, orph, nlive int, ok bool) {
	deadline := time.Now().Add(patience)
	last, same := "", 0
	for {
		nodes, ents, orph, nlive = w.snapshot()
		if halfOpen >= 0 && orph > halfOpen && time.Now().Before(deadline) {
			time.Sleep(50 * time.Millisecond)
			continue
		}
		d := digest(nodes, ents, orph, nlive, len(sk.snapshot()))
		if d == last {
			same++
		} else {
			last, same = d, 0
		}
		all := true
		for _, k := range expect {
			if !sk.delivered(k) {
				all = false
			}
		}
		closedNode := map[int]bool{}
		for _, n := range nodes {
			closedNode[n.N] = n.Closed
		}
		for _, e := range ents {
			if !e.Alive || closedNode[e.N] {
				all = false // a handler goroutine still has to run its removal
			}
		}
		need := 3
		for _, k := range maybe {
			if !sk.delivered(k) {
				need = 25 // a Tell that returned nil beside an environment operation may still be on its way
			}
		}
		if orph > orphBefore {
			need = 25 // an end outside the tables may be one that is just being closed or registered: look longer
		}
		if same >= need && all {
			return nodes, ents, orph, nlive, true
		}
		if time.Now().After(deadline) {
			return nodes, ents, orph, nlive, same >= 3
		}
		time.Sleep(12 * time.Millisecond)
	}
}

func runGroup(w world, sk *sink, grp []Op, k0 int) []OpRes {
	res := make([]OpRes, len(grp))
	start := make(chan struct{})
	var wg sync.WaitGroup
	for i, op := range grp {
		res[i] = OpRes{Op: op.Op, From: op.From, To: op.To, ID: op.ID, Via: op.Via, A: op.A, B: op.B, N: op.N, Crash: op.Crash, K: k0 + i, Res: "-"}
		wg.Add(1)
		go func(i int, op Op) {
			defer wg.Done()
			r := &res[i]
			<-start
			t0 := time.Now()
			r.C0 = seq.Add(1)
			defer func() {
				r.C1 = seq.Add(1)
				r.Ms = int(time.Since(t0) / time.Millisecond)
			}()
			ctx, cf := context.WithTimeout(context.Background(), opTimeout)
			defer cf()
			switch op.Op {
			case "tell":
				skip, pre, err := w.tell(ctx, op.From, op.To, op.ID, op.Via, sk.payload(r.K, op.ID))
				r.Res, r.Err, r.Pre = "ok", short(err), pre
				if skip {
					r.Res = "skip"
				} else if err != nil {
					r.Res = "err"
				}
			case "ask":
				req := sk.payload(r.K, op.ID)
				resp, skip, pre, err := w.ask(ctx, op.From, op.To, op.ID, op.Via, req)
				r.Res, r.Err, r.Pre = "ok", short(err), pre
				if skip {
					r.Res = "skip"
				} else if err != nil {
					r.Res = "err"
				} else {
					r.By, r.ByInc = parseAnswer(resp, req)
				}
			case "kill":
				w.kill(op.A, op.B)
			case "restart":
				r.Err = short(w.restart(op.N, op.Crash))
			case "expire":
				w.expire(op.N)
			case "close":
				r.Err = short(w.closeNode(op.N))
			default:
				r.Err = "unknown operation"
			}
		}(i, op)
	}
	close(start)
	wg.Wait()
	return res
}

func emit(tw *trace.Writer, e Event) {
	if e.Ops == nil {
		e.Ops = []OpRes{}
	}
	if e.Nodes == nil {
		e.Nodes = []NodeSt{}
	}
	if e.Ents == nil {
		e.Ents = []Entry{}
	}
	if e.Dl == nil {
		e.Dl = []Dlv{}
	}
	tw.Emit(e)
}

func runSchedule(tw *trace.Writer, sc Schedule, rep int) {
	sk := &sink{beh: sc.ID, rep: rep}
	ev := func(kind string, i int) Event {
		return Event{Ev: kind, Beh: sc.ID, Rep: rep, I: i, Tr: sc.Tr, Ops: []OpRes{}, Nodes: []NodeSt{}, Ents: []Entry{}, Dl: []Dlv{}}
	}
	w, err := newWorld(sc.Tr, sc.Nodes, sk)
	if err != nil {
		e := ev("grp", 1)
		e.Panic = "world: " + err.Error()
		emit(tw, e)
		return
	}
	k, orphBefore, patience := 1, 0, 10*time.Second
	for gi, grp := range sc.Groups {
		e := ev("grp", gi+1)
		func() {
			defer func() {
				if p := recover(); p != nil {
					e.Panic = fmt.Sprint(p)
				}
			}()
			e.Ops = runGroup(w, sk, grp, k)
			k += len(grp)
			env := false
			for _, op := range grp {
				if op.Op != "tell" && op.Op != "ask" {
					env = true
				}
			}
			var expect, maybe []int
			for _, r := range e.Ops {
				if r.Op == "tell" && r.Res == "ok" {
					if env {
						maybe = append(maybe, r.K)
					} else {
						expect = append(expect, r.K)
					}
				}
			}
			halfOpen := -1
			if sc.Tr == "quic" {
				for _, c := range grp {
					for _, o := range grp {
						if (c.Op == "close" || c.Op == "restart") && (o.Op == "tell" || o.Op == "ask") && o.From == c.N {
							halfOpen = orphBefore
						}
					}
				}
			}
			t0 := time.Now()
			e.Nodes, e.Ents, e.Orph, e.NLive, e.Settled = settle(w, sk, expect, maybe, halfOpen, orphBefore, patience)
			if time.Since(t0) >= patience {
				patience = 1500 * time.Millisecond // something is stuck in this run: do not wait as long again
			}
			orphBefore = e.Orph
			e.Dl = sk.snapshot()
			w.endGroup()
		}()
		emit(tw, e)
	}
	// the end of the run: every node is closed; nothing may stay open
	e := ev("end", len(sc.Groups)+1)
	func() {
		defer func() {
			if p := recover(); p != nil {
				e.Panic = fmt.Sprint(p)
			}
		}()
		for n := 1; n <= sc.Nodes; n++ {
			w.closeNode(n)
		}
		e.Nodes, e.Ents, e.Orph, e.NLive, e.Settled = settle(w, sk, nil, nil, -1, orphBefore, 1500*time.Millisecond)
		e.Dl = sk.snapshot()
	}()
	emit(tw, e)
	w.shutdown()
}

// countGoroutines counts goroutines whose stack contains the given function.
func countGoroutines(fn string) int {
	buf := make([]byte, 1<<20)
	for {
		n := runtime.Stack(buf, true)
		if n < len(buf) {
			buf = buf[:n]
			break
		}
		buf = make([]byte, 2*len(buf))
	}
	return bytes.Count(buf, []byte(fn))
}

func main() {
	in := flag.String("in", "", "schedules (ndjson)")
	out := flag.String("out", "", "trace (ndjson)")
	reps := flag.Int("reps", 3, "executions of every schedule")
	flag.Parse()
	f, err := os.Open(*in)
	if err != nil {
		fmt.Fprintln(os.Stderr, err)
		os.Exit(2)
	}
	var scs []Schedule
	s := bufio.NewScanner(f)
	s.Buffer(make([]byte, 1<<20), 1<<24)
	for s.Scan() {
		if len(bytes.TrimSpace(s.Bytes())) == 0 {
			continue
		}
		var sc Schedule
		if err := json.Unmarshal(s.Bytes(), &sc); err != nil {
			fmt.Fprintln(os.Stderr, "schedule:", err)
			os.Exit(2)
		}
		scs = append(scs, sc)
	}
	f.Close()
	tw, err := trace.Create(*out)
	if err != nil {
		fmt.Fprintln(os.Stderr, err)
		os.Exit(2)
	}
	t0 := time.Now()
	// one run at a time: the ground truth about open quic connections is a count of goroutines
	for _, sc := range scs {
		for rep := 1; rep <= *reps; rep++ {
			runSchedule(tw, sc, rep)
		}
	}
	if err := tw.Close(); err != nil {
		fmt.Fprintln(os.Stderr, err)
		os.Exit(2)
	}
	fmt.Printf("schedules=%d reps=%d events=%d wall=%.1fs\n", len(scs), *reps, tw.Count(), time.Since(t0).Seconds())
}
