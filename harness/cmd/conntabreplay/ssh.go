package main

import (
	"context"
	"fmt"
	"io"
	"net"
	"net/netip"
	"sync"
	"sync/atomic"

	"go.brendoncarroll.net/p2p"
	"go.brendoncarroll.net/p2p/s/sshswarm"
	"golang.org/x/crypto/ssh"

	"verifharness/stacks"
)

// Every ordered pair of nodes (x, y) has a forwarder: x reaches y at the forwarder's port.  The forwarders
// know every TCP connection between the nodes (who dialled whom, the port numbers each side sees, whether
// it is still open), can cut them, and can point to a new listener when a node restarts "on the same
// address".

type tcpConn struct {
	id      int
	x, y    int
	cliPort int // the dialling socket's port: the local port of x's connection
	srvPort int // the forwarder's outgoing port: the remote port of y's connection
	a, b    net.Conn
	open    atomic.Bool
}

func (c *tcpConn) cut() {
	c.open.Store(false)
	c.a.Close()
	if c.b != nil {
		c.b.Close()
	}
}

type fwd struct {
	w    *sshWorld
	x, y int
	l    net.Listener
	port int
}

type snode struct {
	sw     *sshswarm.Swarm
	inc    int
	closed bool
	stop   context.CancelFunc
	port   int
}

type sshWorld struct {
	mu      sync.Mutex
	n       int
	sk      *sink
	nodes   map[int]*snode
	fps     map[int]string
	fpOf    map[string]int
	fwds    map[[2]int]*fwd
	byPort  map[int]*fwd
	conns   []*tcpConn
	handles map[*sshswarm.Conn]int
	lastSrc map[[2]int]sshswarm.Addr
}

func sshSigner(i int) ssh.Signer {
	s, err := ssh.NewSignerFromSigner(stacks.TestKey(200 + i))
	if err != nil {
		panic(err)
	}
	return s
}

func newSSHWorld(n int, sk *sink) (*sshWorld, error) {
	w := &sshWorld{n: n, sk: sk, nodes: map[int]*snode{}, fps: map[int]string{}, fpOf: map[string]int{}, fwds: map[[2]int]*fwd{},
		byPort: map[int]*fwd{}, handles: map[*sshswarm.Conn]int{}, lastSrc: map[[2]int]sshswarm.Addr{}}
	for i := 1; i <= 3; i++ {
		w.fps[i] = ssh.FingerprintSHA256(sshSigner(i).PublicKey())
		w.fpOf[w.fps[i]] = i
	}
	for x := 1; x <= n; x++ {
		for y := 1; y <= n; y++ {
			if x == y {
				continue
			}
			l, err := net.Listen("tcp", "127.0.0.1:0")
			if err != nil {
				w.shutdown()
				return nil, err
			}
			f := &fwd{w: w, x: x, y: y, l: l, port: l.Addr().(*net.TCPAddr).Port}
			w.fwds[[2]int{x, y}] = f
			w.byPort[f.port] = f
			go f.serve()
		}
	}
	for i := 1; i <= n; i++ {
		if err := w.start(i); err != nil {
			w.shutdown()
			return nil, err
		}
	}
	return w, nil
}

func (f *fwd) serve() {
	for {
		a, err := f.l.Accept()
		if err != nil {
			return
		}
		go f.handle(a)
	}
}

func (f *fwd) handle(a net.Conn) {
	w := f.w
	w.mu.Lock()
	target := w.nodes[f.y]
	port := 0
	if target != nil {
		port = target.port
	}
	w.mu.Unlock()
	if port == 0 {
		a.Close()
		return
	}
	b, err := net.Dial("tcp", fmt.Sprintf("127.0.0.1:%d", port))
	if err != nil {
		a.Close()
		return
	}
	c := &tcpConn{x: f.x, y: f.y, a: a, b: b, cliPort: a.RemoteAddr().(*net.TCPAddr).Port, srvPort: b.LocalAddr().(*net.TCPAddr).Port}
	c.open.Store(true)
	w.mu.Lock()
	c.id = len(w.conns) + 1
	w.conns = append(w.conns, c)
	w.mu.Unlock()
	go func() { io.Copy(b, a); c.cut() }()
	go func() { io.Copy(a, b); c.cut() }()
}

func (w *sshWorld) start(n int) error {
	sw, err := sshswarm.New("127.0.0.1:0", sshSigner(n))
	if err != nil {
		return err
	}
	ctx, cf := context.WithCancel(context.Background())
	w.mu.Lock()
	inc := 0
	if old := w.nodes[n]; old != nil {
		inc = old.inc + 1
	}
	w.nodes[n] = &snode{sw: sw, inc: inc, stop: cf, port: int(sw.LocalAddrs()[0].Port)}
	w.mu.Unlock()
	go func() {
		for {
			if err := sw.Receive(ctx, func(m p2p.Message[sshswarm.Addr]) {
				src, srcad := w.fpOf[m.Src.Fingerprint], w.clientOfPort(int(m.Src.Port), n)
				if srcad != 0 {
					w.mu.Lock()
					w.lastSrc[[2]int{n, srcad}] = m.Src
					w.mu.Unlock()
				}
				w.sk.got(n, inc, m.Payload, src, srcad, m.Dst.Fingerprint == w.fps[n], false)
			}); err != nil {
				return
			}
		}
	}()
	go func() {
		for {
			if err := sw.ServeAsk(ctx, func(ctx context.Context, resp []byte, m p2p.Message[sshswarm.Addr]) int {
				src, srcad := w.fpOf[m.Src.Fingerprint], w.clientOfPort(int(m.Src.Port), n)
				w.sk.got(n, inc, m.Payload, src, srcad, m.Dst.Fingerprint == w.fps[n], true)
				return copy(resp, answer(n, inc, m.Payload))
			}); err != nil {
				return
			}
		}
	}()
	return nil
}

// clientOfPort: the node that dialled the TCP connection which node y sees coming from this port; a
// message received over a connection y dialled itself carries the forwarder's port instead.
func (w *sshWorld) clientOfPort(port, y int) int {
	w.mu.Lock()
	defer w.mu.Unlock()
	for _, c := range w.conns {
		if c.y == y && c.srvPort == port {
			return c.x
		}
	}
	if f := w.byPort[port]; f != nil && f.x == y {
		return f.y
	}
	return 0
}

func (w *sshWorld) node(n int) *snode {
	w.mu.Lock()
	defer w.mu.Unlock()
	return w.nodes[n]
}

func (w *sshWorld) addr(from, to, id int, via string) (sshswarm.Addr, bool) {
	if via == "src" {
		w.mu.Lock()
		a, ok := w.lastSrc[[2]int{from, to}]
		w.mu.Unlock()
		if !ok {
			return sshswarm.Addr{}, false
		}
		a.Fingerprint = w.fps[id]
		return a, true
	}
	return sshswarm.Addr{Fingerprint: w.fps[id], IP: netip.MustParseAddr("127.0.0.1"), Port: uint16(w.fwds[[2]int{from, to}].port)}, true
}

func (w *sshWorld) has(from int, dst sshswarm.Addr) bool {
	for _, v := range w.node(from).sw.VerifConns() {
		if v.Key == dst.Key() {
			return true
		}
	}
	return false
}

func (w *sshWorld) tell(ctx context.Context, from, to, id int, via string, payload []byte) (bool, bool, error) {
	dst, ok := w.addr(from, to, id, via)
	if !ok {
		return true, false, nil
	}
	pre := w.has(from, dst)
	return false, pre, w.node(from).sw.Tell(ctx, dst, p2p.IOVec{payload})
}

func (w *sshWorld) ask(ctx context.Context, from, to, id int, via string, payload []byte) ([]byte, bool, bool, error) {
	dst, ok := w.addr(from, to, id, via)
	if !ok {
		return nil, true, false, nil
	}
	pre := w.has(from, dst)
	resp := make([]byte, 1<<12)
	n, err := w.node(from).sw.Ask(ctx, resp, dst, p2p.IOVec{payload})
	if err != nil {
		return nil, false, pre, err
	}
	return resp[:n], false, pre, nil
}

func (w *sshWorld) cutWhere(pred func(c *tcpConn) bool) {
	w.mu.Lock()
	var victims []*tcpConn
	for _, c := range w.conns {
		if c.open.Load() && pred(c) {
			victims = append(victims, c)
		}
	}
	w.mu.Unlock()
	for _, c := range victims {
		c.cut()
	}
}

func (w *sshWorld) kill(a, b int) {
	w.cutWhere(func(c *tcpConn) bool { return (c.x == a && c.y == b) || (c.x == b && c.y == a) })
}

func (w *sshWorld) closeNode(n int) error {
	nd := w.node(n)
	if nd == nil || nd.closed {
		return nil
	}
	err := nd.sw.Close()
	w.mu.Lock()
	nd.closed = true
	w.mu.Unlock()
	return err
}

// restart: the process behind node n goes away (the kernel closes its sockets: the forwarders cut every
// TCP connection of n) and a new one with the same key listens behind the same forwarder ports.
func (w *sshWorld) restart(n int, crash bool) error {
	w.closeNode(n)
	w.node(n).stop()
	w.mu.Lock()
	w.nodes[n].port = 0
	w.mu.Unlock()
	w.cutWhere(func(c *tcpConn) bool { return c.x == n || c.y == n })
	return w.start(n)
}

func (w *sshWorld) expire(n int) {}
func (w *sshWorld) endGroup()    {}

func (w *sshWorld) snapshot() (nodes []NodeSt, ents []Entry, orph, nlive int) {
	type side struct {
		c      *tcpConn
		client bool
	}
	held := map[side]bool{}
	for n := 1; n <= w.n; n++ {
		nd := w.node(n)
		if nd == nil {
			continue
		}
		vcs := nd.sw.VerifConns()
		w.mu.Lock()
		nodes = append(nodes, NodeSt{N: n, Inc: nd.inc, Closed: nd.closed})
		for _, v := range vcs {
			h := w.handles[v.Conn]
			if h == 0 {
				h = len(w.handles) + 1
				w.handles[v.Conn] = h
			}
			i := len(v.Key) - 1
			for i >= 0 && v.Key[i] != '@' {
				i--
			}
			e := Entry{N: n, Kid: w.fpOf[v.Key[:max(i, 0)]], Rid: w.fpOf[v.RemoteFP], H: h, Dir: "in"}
			port := int(v.RemoteAddr.Port)
			var tc *tcpConn
			if f := w.byPort[port]; f != nil && f.x == n {
				// an address this node dials: the forwarder towards f.y
				e.Dir, e.Kad = "out", f.y
				for _, c := range w.conns {
					if c.x == n && c.y == f.y && c.cliPort == int(v.LocalAddr.Port) {
						tc = c
					}
				}
				if tc != nil {
					held[side{tc, true}] = true
				}
			} else {
				for _, c := range w.conns {
					if c.y == n && c.srvPort == port {
						tc = c
					}
				}
				if tc != nil {
					e.Kad = tc.x
					held[side{tc, false}] = true
				}
			}
			e.Alive = tc != nil && tc.open.Load()
			ents = append(ents, e)
		}
		w.mu.Unlock()
	}
	w.mu.Lock()
	for _, c := range w.conns {
		if c.open.Load() {
			nlive += 2
			if !held[side{c, true}] {
				orph++
			}
			if !held[side{c, false}] {
				orph++
			}
		}
	}
	w.mu.Unlock()
	return nodes, ents, orph, nlive
}

func (w *sshWorld) shutdown() {
	for n := 1; n <= w.n; n++ {
		if nd := w.node(n); nd != nil {
			w.closeNode(n)
			nd.stop()
		}
	}
	w.cutWhere(func(c *tcpConn) bool { return true })
	for _, f := range w.fwds {
		f.l.Close()
	}
}
