package main

import (
	"context"
	"errors"
	"fmt"
	"strconv"
	"strings"
	"sync"

	"github.com/quic-go/quic-go"
	"go.brendoncarroll.net/p2p"
	"go.brendoncarroll.net/p2p/f/x509"
	"go.brendoncarroll.net/p2p/s/quicswarm"

	"verifharness/stacks"
)

// ---------------------------------------------------------------------------------------------------
// The packet swarm under the quic nodes.  s/memswarm cannot be used for this: a vswarm realm never
// frees an address, and these runs restart a node on the address it had.

type haddr struct{ N int }

func (a haddr) MarshalText() ([]byte, error) { return []byte("h" + strconv.Itoa(a.N)), nil }
func (a haddr) String() string               { return "h" + strconv.Itoa(a.N) }

func parseHaddr(x []byte) (haddr, error) {
	if len(x) < 2 || x[0] != 'h' {
		return haddr{}, errors.New("not an haddr")
	}
	n, err := strconv.Atoi(string(x[1:]))
	return haddr{N: n}, err
}

type inet struct {
	mu    sync.Mutex
	nodes map[int]*inode
	muted map[int]bool
}

type inode struct {
	net    *inet
	addr   haddr
	ch     chan p2p.Message[haddr]
	closed chan struct{}
	once   sync.Once
}

func (nt *inet) create(n int) *inode {
	nd := &inode{net: nt, addr: haddr{n}, ch: make(chan p2p.Message[haddr], 4096), closed: make(chan struct{})}
	nt.mu.Lock()
	nt.nodes[n] = nd
	nt.mu.Unlock()
	return nd
}

func (nt *inet) mute(n int, on bool) {
	nt.mu.Lock()
	nt.muted[n] = on
	nt.mu.Unlock()
}

func (nd *inode) Tell(ctx context.Context, dst haddr, v p2p.IOVec) error {
	select {
	case <-nd.closed:
		return p2p.ErrClosed
	default:
	}
	nd.net.mu.Lock()
	to, muted := nd.net.nodes[dst.N], nd.net.muted[nd.addr.N]
	nd.net.mu.Unlock()
	if to == nil || muted {
		return nil
	}
	m := p2p.Message[haddr]{Src: nd.addr, Dst: dst, Payload: p2p.VecBytes(nil, v)}
	select {
	case <-to.closed:
	case to.ch <- m:
	default: // full: a datagram network may drop
	}
	return nil
}

func (nd *inode) Receive(ctx context.Context, fn func(p2p.Message[haddr])) error {
	select {
	case <-ctx.Done():
		return ctx.Err()
	case <-nd.closed:
		return p2p.ErrClosed
	case m := <-nd.ch:
		fn(m)
		return nil
	}
}

func (nd *inode) LocalAddrs() []haddr { return []haddr{nd.addr} }
func (nd *inode) MTU() int            { return 1 << 16 }
func (nd *inode) Close() error {
	nd.once.Do(func() { close(nd.closed) })
	return nil
}
func (nd *inode) ParseAddr(x []byte) (haddr, error) { return parseHaddr(x) }

// ---------------------------------------------------------------------------------------------------

type qAddr = quicswarm.Addr[haddr]

type qnode struct {
	sw     *quicswarm.Swarm[haddr]
	inc    int
	closed bool
	stop   context.CancelFunc
}

type hinfo struct {
	h      int
	n      int // node that holds it
	peer   int // node at the address in the key
	pinc   int // the peer's incarnation when the harness first saw the connection
	unsure bool
}

type quicWorld struct {
	mu        sync.Mutex
	n         int
	sk        *sink
	net       *inet
	nodes     map[int]*qnode
	ids       map[int]p2p.PeerID // identities 1..n and one that lives nowhere (n+1 .. 3)
	idOf      map[string]int
	handles   map[quic.Connection]*hinfo
	lastSrc   map[[2]int]qAddr
	snapNo    int
	changedAt map[int]int // node -> snapshot number when it was last closed / restarted
}

func quicID(i int) p2p.PeerID {
	priv := stacks.X509Key(100 + i)
	pub, err := x509.DefaultRegistry().PublicFromPrivate(&priv)
	if err != nil {
		panic(err)
	}
	return quicswarm.DefaultFingerprinter(pub)
}

func newQuicWorld(n int, sk *sink) (*quicWorld, error) {
	w := &quicWorld{n: n, sk: sk, net: &inet{nodes: map[int]*inode{}, muted: map[int]bool{}}, nodes: map[int]*qnode{},
		ids: map[int]p2p.PeerID{}, idOf: map[string]int{}, handles: map[quic.Connection]*hinfo{}, lastSrc: map[[2]int]qAddr{},
		changedAt: map[int]int{}}
	for i := 1; i <= 3; i++ {
		w.ids[i] = quicID(i)
		w.idOf[w.ids[i].String()] = i
	}
	for i := 1; i <= n; i++ {
		if err := w.start(i); err != nil {
			w.shutdown()
			return nil, err
		}
	}
	return w, nil
}

func (w *quicWorld) start(n int) error {
	inner := w.net.create(n)
	sw, err := quicswarm.New[haddr](inner, stacks.X509Key(100+n))
	if err != nil {
		return err
	}
	w.mu.Lock()
	inc := 0
	if old := w.nodes[n]; old != nil {
		inc = old.inc + 1
	}
	ctx, cf := context.WithCancel(context.Background())
	w.nodes[n] = &qnode{sw: sw, inc: inc, stop: cf}
	w.mu.Unlock()
	go func() {
		for {
			if err := sw.Receive(ctx, func(m p2p.Message[qAddr]) {
				src := w.idOf[m.Src.ID.String()]
				w.mu.Lock()
				w.lastSrc[[2]int{n, m.Src.Addr.N}] = m.Src
				w.mu.Unlock()
				w.sk.got(n, inc, m.Payload, src, m.Src.Addr.N, m.Dst.ID == w.ids[n] && m.Dst.Addr.N == n, false)
			}); err != nil {
				return
			}
		}
	}()
	go func() {
		for {
			if err := sw.ServeAsk(ctx, func(ctx context.Context, resp []byte, m p2p.Message[qAddr]) int {
				src := w.idOf[m.Src.ID.String()]
				w.sk.got(n, inc, m.Payload, src, m.Src.Addr.N, m.Dst.ID == w.ids[n] && m.Dst.Addr.N == n, true)
				return copy(resp, answer(n, inc, m.Payload))
			}); err != nil {
				return
			}
		}
	}()
	return nil
}

func (w *quicWorld) node(n int) *qnode {
	w.mu.Lock()
	defer w.mu.Unlock()
	return w.nodes[n]
}

func (w *quicWorld) addr(from, to, id int, via string) (qAddr, bool) {
	if via == "src" {
		w.mu.Lock()
		a, ok := w.lastSrc[[2]int{from, to}]
		w.mu.Unlock()
		if !ok {
			return qAddr{}, false
		}
		a.ID = w.ids[id]
		return a, true
	}
	return qAddr{ID: w.ids[id], Addr: haddr{to}}, true
}

func (w *quicWorld) has(from int, dst qAddr) bool {
	for _, s := range w.node(from).sw.VerifSessions() {
		if s.Key == dst.Key() && !s.Closed {
			return true
		}
	}
	return false
}

func (w *quicWorld) tell(ctx context.Context, from, to, id int, via string, payload []byte) (bool, bool, error) {
	dst, ok := w.addr(from, to, id, via)
	if !ok {
		return true, false, nil
	}
	pre := w.has(from, dst)
	return false, pre, w.node(from).sw.Tell(ctx, dst, p2p.IOVec{payload})
}

func (w *quicWorld) ask(ctx context.Context, from, to, id int, via string, payload []byte) ([]byte, bool, bool, error) {
	dst, ok := w.addr(from, to, id, via)
	if !ok {
		return nil, true, false, nil
	}
	pre := w.has(from, dst)
	resp := make([]byte, 1<<12)
	n, err := w.node(from).sw.Ask(ctx, resp, dst, p2p.IOVec{payload})
	if err != nil {
		return nil, false, pre, err
	}
	return resp[:n], false, pre, nil
}

// splitKey maps a cache key "<id>@h<N>" to (node whose identity it is, node at that address).
func (w *quicWorld) splitKey(key string) (kid, kad int) {
	i := strings.LastIndex(key, "@")
	if i < 0 {
		return 0, 0
	}
	kid = w.idOf[key[:i]]
	if a, err := parseHaddr([]byte(key[i+1:])); err == nil {
		kad = a.N
	}
	return kid, kad
}

func (w *quicWorld) kill(a, b int) {
	for _, pair := range [][2]int{{a, b}, {b, a}} {
		nd := w.node(pair[0])
		if nd == nil {
			continue
		}
		for _, s := range nd.sw.VerifSessions() {
			if _, kad := w.splitKey(s.Key); kad == pair[1] {
				s.Conn.CloseWithError(0x77, "killed by the harness")
			}
		}
	}
}

func (w *quicWorld) markChanged(n int) {
	w.mu.Lock()
	w.changedAt[n] = w.snapNo + 1
	w.mu.Unlock()
}

func (w *quicWorld) closeNode(n int) error {
	nd := w.node(n)
	if nd == nil || nd.closed {
		return nil
	}
	w.markChanged(n)
	err := nd.sw.Close()
	w.mu.Lock()
	nd.closed = true
	w.changedAt[n] = w.snapNo + 1
	w.mu.Unlock()
	return err
}

func (w *quicWorld) restart(n int, crash bool) error {
	w.markChanged(n)
	if crash {
		w.net.mute(n, true)
	}
	w.closeNode(n)
	w.node(n).stop()
	w.net.mute(n, false)
	err := w.start(n)
	w.markChanged(n)
	return err
}

func (w *quicWorld) stale(hi *hinfo) bool {
	p := w.nodes[hi.peer]
	return hi.unsure || p == nil || p.closed || hi.pinc < p.inc
}

func (w *quicWorld) expire(n int) {
	w.mu.Lock()
	var victims []quic.Connection
	for c, hi := range w.handles {
		if hi.n == n && w.stale(hi) {
			victims = append(victims, c)
		}
	}
	w.mu.Unlock()
	for _, c := range victims {
		c.CloseWithError(0x78, "idle timeout (harness)")
	}
}

func (w *quicWorld) snapshot() (nodes []NodeSt, ents []Entry, orph, nlive int) {
	nlive = countGoroutines("quic-go.(*connection).run(")
	alive := 0
	for n := 1; n <= w.n; n++ {
		nd := w.node(n)
		if nd == nil {
			continue
		}
		sess := nd.sw.VerifSessions()
		w.mu.Lock()
		nodes = append(nodes, NodeSt{N: n, Inc: nd.inc, Closed: nd.closed})
		for _, s := range sess {
			kid, kad := w.splitKey(s.Key)
			hi := w.handles[s.Conn]
			if hi == nil {
				hi = &hinfo{h: len(w.handles) + 1, n: n, peer: kad}
				if p := w.nodes[kad]; p != nil {
					hi.pinc = p.inc
					hi.unsure = w.changedAt[kad] > w.snapNo || p.closed
				} else {
					hi.unsure = true
				}
				w.handles[s.Conn] = hi
			}
			rid := 0
			if s.HasID {
				rid = w.idOf[s.RemoteID.String()]
			}
			dir := "in"
			if s.IsClient {
				dir = "out"
			}
			if !s.Closed {
				alive++
			}
			ents = append(ents, Entry{N: n, Kid: kid, Kad: kad, Dir: dir, Rid: rid, Alive: !s.Closed, Stale: w.stale(hi), H: hi.h})
		}
		w.mu.Unlock()
	}
	return nodes, ents, nlive - alive, nlive
}

// settled is called by the executor through snapshot numbering: a connection first seen in the same
// settle phase as a restart of its peer is of unknown age.
func (w *quicWorld) endGroup() {
	w.mu.Lock()
	w.snapNo++
	w.mu.Unlock()
}

func (w *quicWorld) shutdown() {
	for n := 1; n <= w.n; n++ {
		if nd := w.node(n); nd != nil {
			w.closeNode(n)
			nd.stop()
		}
	}
}

var _ = fmt.Sprint
