// Package trace writes ndjson event traces that the TLA+ trace specifications read.
package trace

import (
	"bufio"
	"encoding/json"
	"os"
	"sync"
	"sync/atomic"
)

// Writer is a concurrency-safe ndjson writer with one global sequence counter.
type Writer struct {
	mu  sync.Mutex
	f   *os.File
	bw  *bufio.Writer
	seq atomic.Uint64
	n   int
}

func Create(path string) (*Writer, error) {
	f, err := os.Create(path)
	if err != nil {
		return nil, err
	}
	return &Writer{f: f, bw: bufio.NewWriterSize(f, 1<<20)}, nil
}

// Seq returns the next global sequence number.
func (w *Writer) Seq() uint64 { return w.seq.Add(1) }

// Emit writes one event. ev must marshal to a JSON object.
func (w *Writer) Emit(ev any) {
	data, err := json.Marshal(ev)
	if err != nil {
		panic(err)
	}
	w.mu.Lock()
	w.bw.Write(data)
	w.bw.WriteByte('\n')
	w.n++
	w.mu.Unlock()
}

func (w *Writer) Count() int {
	w.mu.Lock()
	defer w.mu.Unlock()
	return w.n
}

func (w *Writer) Close() error {
	w.mu.Lock()
	defer w.mu.Unlock()
	if err := w.bw.Flush(); err != nil {
		return err
	}
	return w.f.Close()
}
