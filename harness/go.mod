module verifharness

go 1.21

require go.brendoncarroll.net/p2p v0.0.0

require (
	go.brendoncarroll.net/tai64 v0.0.0-20241118171318-6e12d283d5e4 // indirect
	golang.org/x/exp v0.0.0-20230522175609-2e198f4a06a1 // indirect
)

replace go.brendoncarroll.net/p2p => /repo
