// Package stacks builds clusters of real swarm nodes of every stack kind the library offers (and
// nestings of them) behind one address-type-free interface, for the concurrent drivers of C01 and C14.
package stacks

import (
	"context"
	"crypto/ed25519"
	"encoding/binary"
	"fmt"
	"math/rand"
	"sync"
	"time"

	"go.brendoncarroll.net/exp/crypto/sign/sig_ed25519"
	"golang.org/x/crypto/ssh"

	"go.brendoncarroll.net/p2p"
	"go.brendoncarroll.net/p2p/f/x509"
	"go.brendoncarroll.net/p2p/p/mbapp"
	"go.brendoncarroll.net/p2p/p/p2pmux"
	"go.brendoncarroll.net/p2p/s/fragswarm"
	"go.brendoncarroll.net/p2p/s/mapswarm"
	"go.brendoncarroll.net/p2p/s/memswarm"
	"go.brendoncarroll.net/p2p/s/multiswarm"
	"go.brendoncarroll.net/p2p/s/p2pkeswarm"
	"go.brendoncarroll.net/p2p/s/quicswarm"
	"go.brendoncarroll.net/p2p/s/sshswarm"
	"go.brendoncarroll.net/p2p/s/udpswarm"
	"go.brendoncarroll.net/p2p/s/wlswarm"
)

// Node is one swarm of a cluster. Addresses are exchanged as text (MarshalText).
type Node struct {
	Index      int
	Addr       string
	Tell       func(ctx context.Context, to int, payload []byte) error
	TellVec    func(ctx context.Context, to int, v p2p.IOVec) error
	Ask        func(ctx context.Context, to int, req, resp []byte) (int, error) // nil: not an ask swarm
	Receive    func(ctx context.Context, fn func(src, dst string, payload []byte)) error
	ServeAsk   func(ctx context.Context, fn func(src, dst string, req, resp []byte) int) error // nil: no ask support
	LocalAddrs func() []string
	MTU        func() int
	Lookup     func(ctx context.Context, of int) error // LookupPublicKey(address of node `of`); nil: not a secure swarm
	Close      func() error
}

// Cluster is n nodes of one stack kind that can reach each other.
type Cluster struct {
	Kind    string
	Nodes   []*Node
	Cleanup func() // closes whatever the nodes' Close does not own (inner swarms of multiplexers)
}

// Kinds lists every stack kind NewCluster can build.
var Kinds = []string{"mem", "udp", "frag/mem64", "frag/dup/mem64", "mbapp/dup/mem128", "p2pke/dup/mem", "mbapp/mem128", "strmux/mem", "u16mux/mem", "u32mux/mem", "u64mux/mem", "varmux/mem",
	"multi/mem", "map/mem", "p2pke/mem", "p2pke/udp", "wl/p2pke/mem", "frag/p2pke/mem", "mbapp/p2pke/mem", "strmux/mbapp/mem128",
	"quic/mem", "ssh"}

func text[A p2p.Addr](a A) string {
	b, err := a.MarshalText()
	if err != nil {
		return "!" + err.Error()
	}
	return string(b)
}

type secure[A p2p.Addr, Pub any] interface {
	LookupPublicKey(ctx context.Context, target A) (Pub, error)
}

// fromSwarms wraps n swarms of one address type.
func fromSwarms[A p2p.Addr](kind string, sws []p2p.Swarm[A], lookups []func(ctx context.Context, a A) error, cleanup func()) *Cluster {
	c := &Cluster{Kind: kind, Cleanup: cleanup}
	addrs := make([]A, len(sws))
	for i, s := range sws {
		addrs[i] = s.LocalAddrs()[0]
	}
	for i, s := range sws {
		s := s
		n := &Node{Index: i, Addr: text(addrs[i]), Close: s.Close, MTU: s.MTU}
		n.Tell = func(ctx context.Context, to int, payload []byte) error {
			return s.Tell(ctx, addrs[to], p2p.IOVec{payload})
		}
		n.TellVec = func(ctx context.Context, to int, v p2p.IOVec) error { return s.Tell(ctx, addrs[to], v) }
		n.Receive = func(ctx context.Context, fn func(src, dst string, payload []byte)) error {
			return s.Receive(ctx, func(m p2p.Message[A]) { fn(text(m.Src), text(m.Dst), m.Payload) })
		}
		n.LocalAddrs = func() (out []string) {
			for _, a := range s.LocalAddrs() {
				out = append(out, text(a))
			}
			return out
		}
		if as, ok := s.(p2p.AskSwarm[A]); ok {
			n.Ask = func(ctx context.Context, to int, req, resp []byte) (int, error) {
				return as.Ask(ctx, resp, addrs[to], p2p.IOVec{req})
			}
			n.ServeAsk = func(ctx context.Context, fn func(src, dst string, req, resp []byte) int) error {
				return as.ServeAsk(ctx, func(_ context.Context, resp []byte, req p2p.Message[A]) int {
					return fn(text(req.Src), text(req.Dst), req.Payload, resp)
				})
			}
		}
		if lookups != nil && lookups[i] != nil {
			lk := lookups[i]
			n.Lookup = func(ctx context.Context, of int) error { return lk(ctx, addrs[of]) }
		}
		c.Nodes = append(c.Nodes, n)
	}
	return c
}

func lookupOf[A p2p.Addr, Pub any](s secure[A, Pub]) func(ctx context.Context, a A) error {
	return func(ctx context.Context, a A) error { _, err := s.LookupPublicKey(ctx, a); return err }
}

// TestKey is a deterministic ed25519 key.
func TestKey(i int) ed25519.PrivateKey {
	seed := make([]byte, 32)
	binary.BigEndian.PutUint64(seed[24:], uint64(i))
	return ed25519.NewKeyFromSeed(seed)
}

func X509Key(i int) x509.PrivateKey {
	k := TestKey(i)
	sch := sig_ed25519.New()
	data := make([]byte, sch.PrivateKeySize())
	priv := sig_ed25519.PrivateKeyFromStandard(k)
	sch.MarshalPrivate(data, &priv)
	return x509.PrivateKey{Algorithm: x509.Algo_Ed25519, Data: data}
}

func closeAll(fs ...func() error) func() {
	return func() {
		done := make(chan struct{})
		go func() {
			defer close(done)
			defer func() { recover() }()
			for _, f := range fs {
				f()
			}
		}()
		select {
		case <-done:
		case <-time.After(2 * time.Second):
		}
	}
}

// dupSwarm is a harness-owned faulty transport: it duplicates packets and delivers a held-back copy
// after later packets (duplication + reordering), as an unreliable network may.
type dupSwarm[A p2p.Addr] struct {
	p2p.Swarm[A]
	mu   sync.Mutex
	rng  *rand.Rand
	held []heldPacket[A]
}

type heldPacket[A p2p.Addr] struct {
	dst  A
	data []byte
}

func newDup[A p2p.Addr](x p2p.Swarm[A], seed int64) *dupSwarm[A] {
	return &dupSwarm[A]{Swarm: x, rng: rand.New(rand.NewSource(seed))}
}

func (d *dupSwarm[A]) Tell(ctx context.Context, dst A, v p2p.IOVec) error {
	data := p2p.VecBytes(nil, v)
	d.mu.Lock()
	r := d.rng.Intn(100)
	var release []heldPacket[A]
	if len(d.held) > 0 && d.rng.Intn(3) == 0 {
		release, d.held = d.held, nil
	}
	if r < 25 {
		d.held = append(d.held, heldPacket[A]{dst, append([]byte{}, data...)}) // a copy arrives later
	}
	d.mu.Unlock()
	if r >= 25 && r < 40 {
		d.Swarm.Tell(ctx, dst, p2p.IOVec{data}) // an immediate duplicate
	}
	err := d.Swarm.Tell(ctx, dst, p2p.IOVec{data})
	for _, h := range release {
		d.Swarm.Tell(ctx, h.dst, p2p.IOVec{h.data})
	}
	return err
}

type dupSecure[A p2p.Addr, Pub any] struct {
	*dupSwarm[A]
	sec p2p.SecureSwarm[A, Pub]
}

func (d dupSecure[A, Pub]) PublicKey() Pub { return d.sec.PublicKey() }
func (d dupSecure[A, Pub]) LookupPublicKey(ctx context.Context, a A) (Pub, error) {
	return d.sec.LookupPublicKey(ctx, a)
}

type mapAddr struct{ memswarm.Addr }

func (a mapAddr) MarshalText() ([]byte, error) {
	b, err := a.Addr.MarshalText()
	return append([]byte("m-"), b...), err
}
func (a mapAddr) String() string { return "m-" + a.Addr.String() }

// NewCluster builds n nodes of the given kind.
var quicRealm = memswarm.NewRealm(memswarm.WithQueueLen(256))

func NewCluster(kind string, n int) (*Cluster, error) {
	type M = memswarm.Addr
	switch kind {
	case "mem":
		r := memswarm.NewRealm(memswarm.WithQueueLen(64))
		var sws []p2p.Swarm[M]
		for i := 0; i < n; i++ {
			sws = append(sws, r.NewSwarm())
		}
		return fromSwarms(kind, sws, nil, func() {}), nil
	case "udp":
		var sws []p2p.Swarm[udpswarm.Addr]
		for i := 0; i < n; i++ {
			s, err := udpswarm.New("127.0.0.1:")
			if err != nil {
				return nil, err
			}
			sws = append(sws, s)
		}
		return fromSwarms(kind, sws, nil, func() {}), nil
	case "frag/mem64", "frag/dup/mem64":
		r := memswarm.NewRealm(memswarm.WithQueueLen(1024), memswarm.WithMTU(64))
		var sws []p2p.Swarm[M]
		for i := 0; i < n; i++ {
			var in p2p.Swarm[M] = r.NewSwarm()
			if kind == "frag/dup/mem64" {
				in = newDup[M](in, int64(1000+i))
			}
			sws = append(sws, fragswarm.New[M](in, 4096))
		}
		return fromSwarms(kind, sws, nil, func() {}), nil
	case "mbapp/dup/mem128":
		r := memswarm.NewSecureRealm[struct{}](memswarm.WithQueueLen(1024), memswarm.WithMTU(128))
		var sws []p2p.Swarm[M]
		for i := 0; i < n; i++ {
			in := r.NewSwarm(struct{}{})
			ds := dupSecure[M, struct{}]{newDup[M](in, int64(2000+i)), in}
			sws = append(sws, p2p.Swarm[M](mbapp.New[M, struct{}](ds, 1<<14)))
		}
		return fromSwarms(kind, sws, nil, func() {}), nil
	case "p2pke/dup/mem":
		r := memswarm.NewRealm(memswarm.WithQueueLen(1024), memswarm.WithMTU(1<<12))
		type PA = p2pkeswarm.Addr[M]
		var sws []p2p.Swarm[PA]
		for i := 0; i < n; i++ {
			sws = append(sws, p2p.Swarm[PA](p2pkeswarm.New[M](newDup[M](r.NewSwarm(), int64(3000+i)), X509Key(100+i))))
		}
		return fromSwarms(kind, sws, nil, func() {}), nil
	case "mbapp/mem128", "strmux/mbapp/mem128":
		r := memswarm.NewSecureRealm[struct{}](memswarm.WithQueueLen(256), memswarm.WithMTU(128))
		var sws []p2p.Swarm[M]
		var lks []func(context.Context, M) error
		var inner []func() error
		for i := 0; i < n; i++ {
			mb := mbapp.New[M, struct{}](r.NewSwarm(struct{}{}), 1<<14)
			if kind == "mbapp/mem128" {
				sws = append(sws, p2p.Swarm[M](mb))
				lks = append(lks, lookupOf[M, struct{}](mb))
			} else {
				mx := p2pmux.NewStringSecureAskMux[M, struct{}](mb).Open("ledger")
				sws = append(sws, p2p.Swarm[M](mx))
				lks = append(lks, lookupOf[M, struct{}](mx))
				inner = append(inner, mb.Close)
			}
		}
		return fromSwarms(kind, sws, lks, closeAll(inner...)), nil
	case "strmux/mem", "u16mux/mem", "u32mux/mem", "u64mux/mem", "varmux/mem":
		r := memswarm.NewSecureRealm[struct{}](memswarm.WithQueueLen(64))
		var sws []p2p.Swarm[M]
		var lks []func(context.Context, M) error
		var inner []func() error
		for i := 0; i < n; i++ {
			in := r.NewSwarm(struct{}{})
			inner = append(inner, in.Close)
			var s p2p.SecureAskSwarm[M, struct{}]
			switch kind {
			case "strmux/mem":
				m := p2pmux.NewStringSecureAskMux[M, struct{}](in)
				m.Open("other") // a second open channel on every node
				s = m.Open("ledger")
			case "u16mux/mem":
				m := p2pmux.NewUint16SecureAskMux[M, struct{}](in)
				m.Open(7)
				s = m.Open(65535)
			case "u32mux/mem":
				m := p2pmux.NewUint32SecureAskMux[M, struct{}](in)
				m.Open(7)
				s = m.Open(1 << 31)
			case "u64mux/mem":
				m := p2pmux.NewUint64SecureAskMux[M, struct{}](in)
				m.Open(7)
				s = m.Open(1 << 63)
			default:
				m := p2pmux.NewVarintSecureAskMux[M, struct{}](in)
				m.Open(127)
				s = m.Open(128)
			}
			sws = append(sws, p2p.Swarm[M](s))
			lks = append(lks, lookupOf[M, struct{}](s))
		}
		return fromSwarms(kind, sws, lks, closeAll(inner...)), nil
	case "multi/mem":
		r := memswarm.NewSecureRealm[struct{}](memswarm.WithQueueLen(64))
		var sws []p2p.Swarm[multiswarm.Addr]
		var lks []func(context.Context, multiswarm.Addr) error
		for i := 0; i < n; i++ {
			s := multiswarm.NewSecureAsk[struct{}](map[string]multiswarm.DynSecureAskSwarm[struct{}]{
				"mem": multiswarm.WrapSecureAskSwarm[M, struct{}](r.NewSwarm(struct{}{})),
			})
			sws = append(sws, p2p.Swarm[multiswarm.Addr](s))
			lks = append(lks, lookupOf[multiswarm.Addr, struct{}](s))
		}
		return fromSwarms(kind, sws, lks, func() {}), nil
	case "map/mem":
		r := memswarm.NewRealm(memswarm.WithQueueLen(64))
		var sws []p2p.Swarm[mapAddr]
		for i := 0; i < n; i++ {
			s := mapswarm.New[mapAddr, M](r.NewSwarm(),
				func(a mapAddr) M { return a.Addr },
				func(b M) mapAddr { return mapAddr{b} },
				func(x []byte) (mapAddr, error) {
					if len(x) < 2 {
						return mapAddr{}, fmt.Errorf("short")
					}
					a, err := memswarm.ParseAddr(x[2:])
					return mapAddr{a}, err
				})
			sws = append(sws, s)
		}
		return fromSwarms(kind, sws, nil, func() {}), nil
	case "p2pke/mem", "wl/p2pke/mem", "frag/p2pke/mem", "mbapp/p2pke/mem":
		r := memswarm.NewRealm(memswarm.WithQueueLen(256), memswarm.WithMTU(1<<12))
		type PA = p2pkeswarm.Addr[M]
		var sws []p2p.Swarm[PA]
		var lks []func(context.Context, PA) error
		for i := 0; i < n; i++ {
			ps := p2pkeswarm.New[M](r.NewSwarm(), X509Key(100+i))
			switch kind {
			case "p2pke/mem":
				sws = append(sws, p2p.Swarm[PA](ps))
				lks = append(lks, lookupOf[PA, x509.PublicKey](ps))
			case "wl/p2pke/mem":
				w := wlswarm.WrapSecure[PA, x509.PublicKey](ps, func(PA) bool { return true })
				sws = append(sws, p2p.Swarm[PA](w))
				lks = append(lks, lookupOf[PA, x509.PublicKey](w))
			case "frag/p2pke/mem":
				f := fragswarm.NewSecure[PA, x509.PublicKey](ps, 1<<15)
				sws = append(sws, p2p.Swarm[PA](f))
				lks = append(lks, lookupOf[PA, x509.PublicKey](f))
			default:
				mb := mbapp.New[PA, x509.PublicKey](ps, 1<<15)
				sws = append(sws, p2p.Swarm[PA](mb))
				lks = append(lks, lookupOf[PA, x509.PublicKey](mb))
			}
		}
		return fromSwarms(kind, sws, lks, func() {}), nil
	case "p2pke/udp":
		type PA = p2pkeswarm.Addr[udpswarm.Addr]
		var sws []p2p.Swarm[PA]
		var lks []func(context.Context, PA) error
		for i := 0; i < n; i++ {
			u, err := udpswarm.New("127.0.0.1:")
			if err != nil {
				return nil, err
			}
			ps := p2pkeswarm.New[udpswarm.Addr](u, X509Key(100+i))
			sws = append(sws, p2p.Swarm[PA](ps))
			lks = append(lks, lookupOf[PA, x509.PublicKey](ps))
		}
		return fromSwarms(kind, sws, lks, func() {}), nil
	case "quic/mem":
		// quic-go keeps a process-wide table of packet connections keyed by their local address TEXT: two live
		// clusters in two realms would both own address "0". One shared realm keeps the addresses distinct.
		r := quicRealm
		type QA = quicswarm.Addr[M]
		var sws []p2p.Swarm[QA]
		var lks []func(context.Context, QA) error
		for i := 0; i < n; i++ {
			q, err := quicswarm.New[M](r.NewSwarm(), X509Key(100+i))
			if err != nil {
				return nil, err
			}
			sws = append(sws, p2p.Swarm[QA](q))
			lks = append(lks, lookupOf[QA, x509.PublicKey](q))
		}
		return fromSwarms(kind, sws, lks, func() {}), nil
	case "ssh":
		var sws []p2p.Swarm[sshswarm.Addr]
		for i := 0; i < n; i++ {
			signer, err := ssh.NewSignerFromSigner(TestKey(100 + i))
			if err != nil {
				return nil, err
			}
			s, err := sshswarm.New("127.0.0.1:", signer)
			if err != nil {
				return nil, err
			}
			sws = append(sws, p2p.Swarm[sshswarm.Addr](s))
		}
		return fromSwarms(kind, sws, nil, func() {}), nil
	}
	return nil, fmt.Errorf("unknown stack kind %q", kind)
}
