// Package attacker is an independent implementation of the P2PKE wire protocol built only from
// public APIs (flynn/noise, the exported protobuf types, x509, blake2b). It lets the harness act as
// the Dolev-Yao adversary of spec/Session.tla: forge every term the attacker can compose, with real
// cryptography, holding only its own signing key and its own ephemeral key.
package attacker

import (
	"bytes"
	"crypto/ed25519"
	"encoding/binary"
	"errors"
	"time"

	"github.com/flynn/noise"
	"go.brendoncarroll.net/p2p/f/x509"
	"go.brendoncarroll.net/p2p/p/p2pke"
	"go.brendoncarroll.net/tai64"
	"golang.org/x/crypto/blake2b"
	"google.golang.org/protobuf/proto"
)

var Suite = noise.NewCipherSuite(noise.DH25519, noise.CipherChaChaPoly, noise.HashBLAKE2b)

const (
	PurposeChannelBinding = "p2pke/channel-binding"
	PurposeTimestamp      = "p2pke/timestamp"
)

// PreSig is the purpose-tagged pre-hash that P2PKE signs.
func PreSig(purpose string, msg []byte) []byte {
	h, _ := blake2b.NewXOF(64, nil)
	h.Write([]byte{uint8(len(purpose))})
	h.Write([]byte(purpose))
	h.Write(msg)
	out := make([]byte, 64)
	h.Read(out)
	return out
}

func Hdr(n uint32) []byte { b := make([]byte, 4); binary.BigEndian.PutUint32(b, n); return b }

// TestKey is a deterministic ed25519 key (same derivation as p2ptest.NewTestKey).
func TestKey(i int) ed25519.PrivateKey {
	seed := make([]byte, 32)
	binary.BigEndian.PutUint64(seed[24:], uint64(i))
	return ed25519.NewKeyFromSeed(seed)
}

func X509Private(k ed25519.PrivateKey) x509.PrivateKey {
	reg := x509.DefaultRegistry()
	algoID, signer := x509.SignerFromStandard(k)
	priv, err := reg.StoreSigner(algoID, signer)
	if err != nil {
		panic(err)
	}
	return priv
}

func X509Public(k ed25519.PrivateKey) x509.PublicKey {
	return x509.PublicKey{Algorithm: x509.Algo_Ed25519, Data: []byte(k.Public().(ed25519.PublicKey))}
}

func X509PublicBytes(k ed25519.PrivateKey) []byte {
	pk := X509Public(k)
	return x509.MarshalPublicKey(nil, &pk)
}

// Ciphers are the two directions of one handshake's transport keys.
type Ciphers struct {
	I2R, R2I noise.Cipher
	CB       []byte // channel binding after the second handshake message
}

// Adv is the attacker: one signing key, one (fixed) ephemeral key.
type Adv struct {
	Priv    ed25519.PrivateKey
	ephSeed []byte
}

func New(priv ed25519.PrivateKey, ephSeed []byte) *Adv {
	return &Adv{Priv: priv, ephSeed: append([]byte{}, ephSeed...)}
}

func (a *Adv) handshake(initiator bool) *noise.HandshakeState {
	hs, err := noise.NewHandshakeState(noise.Config{Initiator: initiator, Pattern: noise.HandshakeNN, CipherSuite: Suite,
		Random: bytes.NewReader(bytes.Repeat(a.ephSeed, 4))})
	if err != nil {
		panic(err)
	}
	return hs
}

// OwnClaim returns the attacker's own (key, timestamp, signature) triple.
func (a *Adv) OwnClaim(now time.Time) (keyX509, ts, sig []byte) {
	t := tai64.FromGoTime(now).Marshal()
	return X509PublicBytes(a.Priv), t[:], ed25519.Sign(a.Priv, PreSig(PurposeTimestamp, t[:]))
}

func helloPayload(keyX509, ts, sig []byte) []byte {
	pb, _ := proto.Marshal(&p2pke.InitHello{Version: 1, TimestampTai64N: ts, KeyX509: keyX509, Sig: sig})
	return append(pb, byte(len(pb)>>8), byte(len(pb)))
}

// InitHello builds an InitHello with the attacker's ephemeral and arbitrary identity fields.
// The returned handshake state can later process the RespHello.
func (a *Adv) InitHello(keyX509, ts, sig []byte) ([]byte, *noise.HandshakeState) {
	hs := a.handshake(true)
	msg, _, _, err := hs.WriteMessage(Hdr(0), helloPayload(keyX509, ts, sig))
	if err != nil {
		panic(err)
	}
	return msg, hs
}

// InitHelloWithEph builds InitHello bytes around somebody else's ephemeral public key (first
// message of Noise NN: header, e, cleartext payload). The attacker cannot continue this handshake.
func InitHelloWithEph(ephPub, keyX509, ts, sig []byte) []byte {
	out := append(Hdr(0), ephPub...)
	return append(out, helloPayload(keyX509, ts, sig)...)
}

// ParseInitHello extracts the ephemeral public key and the identity triple from InitHello bytes.
func ParseInitHello(m []byte) (ephPub, keyX509, ts, sig []byte, err error) {
	if len(m) < 4+32+2 {
		return nil, nil, nil, nil, errors.New("short")
	}
	body := m[4:]
	l := int(binary.BigEndian.Uint16(body[len(body)-2:]))
	start := len(body) - 2 - l
	if start < 32 {
		return nil, nil, nil, nil, errors.New("bad length")
	}
	var ih p2pke.InitHello
	if err := proto.Unmarshal(body[start:len(body)-2], &ih); err != nil {
		return nil, nil, nil, nil, err
	}
	return body[:32], ih.KeyX509, ih.TimestampTai64N, ih.Sig, nil
}

// RespHello answers the given InitHello as responder with the attacker's ephemeral; sig is made
// with the attacker's key when own is true, garbage otherwise; keyX509 is the claimed key.
func (a *Adv) RespHello(initHello []byte, keyX509 []byte, own bool, garbage []byte) ([]byte, *Ciphers, error) {
	hs := a.handshake(false)
	if _, _, _, err := hs.ReadMessage(nil, initHello[4:]); err != nil {
		return nil, nil, err
	}
	cb := append([]byte{}, hs.ChannelBinding()...)
	sig := garbage
	if own {
		sig = ed25519.Sign(a.Priv, PreSig(PurposeChannelBinding, cb))
	}
	pb, _ := proto.Marshal(&p2pke.RespHello{KeyX509: keyX509, Sig: sig})
	msg, cs1, cs2, err := hs.WriteMessage(Hdr(1), pb)
	if err != nil {
		return nil, nil, err
	}
	return msg, &Ciphers{I2R: cs1.Cipher(), R2I: cs2.Cipher(), CB: append([]byte{}, hs.ChannelBinding()...)}, nil
}

// ReadRespHello processes a RespHello with an initiator state created by InitHello.
func ReadRespHello(hs *noise.HandshakeState, m []byte) (*Ciphers, []byte, error) {
	c, key, _, err := OpenRespHello(hs, m)
	return c, key, err
}

// OpenRespHello is ReadRespHello which also returns the responder's signature: whoever owns the
// initiator ephemeral can read it, and may try to pass it off elsewhere (signature reflection).
func OpenRespHello(hs *noise.HandshakeState, m []byte) (*Ciphers, []byte, []byte, error) {
	payload, cs1, cs2, err := hs.ReadMessage(nil, m[4:])
	if err != nil {
		return nil, nil, nil, err
	}
	var rh p2pke.RespHello
	if err := proto.Unmarshal(payload, &rh); err != nil {
		return nil, nil, nil, err
	}
	if cs1 == nil || cs2 == nil {
		return nil, nil, nil, errors.New("no cipher states")
	}
	return &Ciphers{I2R: cs1.Cipher(), R2I: cs2.Cipher(), CB: append([]byte{}, hs.ChannelBinding()...)}, rh.KeyX509, rh.Sig, nil
}

// InitDone seals an InitDone whose signature is the attacker's (own) or garbage.
func (a *Adv) InitDone(c *Ciphers, own bool, garbage []byte) []byte {
	sig := garbage
	if own {
		sig = ed25519.Sign(a.Priv, PreSig(PurposeChannelBinding, c.CB))
	}
	pb, _ := proto.Marshal(&p2pke.InitDone{Sig: sig})
	h := Hdr(2)
	return c.I2R.Encrypt(h, 2, h, pb)
}

// InitDoneSig seals an InitDone carrying the given signature bytes.
func InitDoneSig(c *Ciphers, sig []byte) []byte {
	pb, _ := proto.Marshal(&p2pke.InitDone{Sig: sig})
	h := Hdr(2)
	return c.I2R.Encrypt(h, 2, h, pb)
}

func RespDone(c *Ciphers) []byte {
	h := Hdr(3)
	return c.R2I.Encrypt(h, 3, h, nil)
}

// Data seals pt in the given direction with counter n.
func Data(c *Ciphers, i2r bool, n uint32, pt []byte) []byte {
	h := Hdr(n)
	if i2r {
		return c.I2R.Encrypt(h, uint64(n), h, pt)
	}
	return c.R2I.Encrypt(h, uint64(n), h, pt)
}
