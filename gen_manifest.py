#!/usr/bin/env python3
"""Regenerates MANIFEST.json from the table below (single source of truth for the interface)."""
import json, os
ROOT = os.path.dirname(os.path.abspath(__file__))
BASELINE = ("cd /repo && export GOFLAGS=-mod=mod GOPROXY=off GOSUMDB=off GOTOOLCHAIN=local && "
            "go build ./... && go test -vet=off -count=1 -timeout 25m ./...")
import importlib, pkgutil, sys
sys.path.insert(0, ROOT)
import vlib
CHECKS = {}
GROWTH = []
for _m in pkgutil.iter_modules(vlib.__path__):
    if _m.name != "core":
        try:
            _mod = importlib.import_module("vlib." + _m.name)
            CHECKS.update(getattr(_mod, "MANIFEST", {}))
            for g in getattr(_mod, "EXTRA", []):
                GROWTH.append(dict(name="growth-" + g, path="/verif/check %s [--tier quick|thorough]" % g,
                                   serves_properties=sorted(getattr(_mod, "SERVES", [])),
                                   kind_free_text=" ".join((_mod.__doc__ or "").strip().split("\n\n")[0].split())[:600]))
        except Exception as e:
            print("warning: cannot import vlib.%s: %s" % (_m.name, e))
CHECKS = dict(sorted(CHECKS.items()))
PENDING = {}
def main():
    props = [json.loads(l) for l in open(os.path.join(ROOT, "properties.jsonl"))]
    checks = []
    for pid, c in CHECKS.items():
        checks.append(dict(property_id=pid, quick_cmd="./check %s --tier quick" % pid, thorough_cmd="./check %s --tier thorough" % pid,
                           evidence_file="/verif/evidence/%s.json" % pid, replay_cmd_template="./check %s --replay {path}" % pid,
                           engine="tlc+go-harness", level_claimed=dict(category=c["level"], text=c["text"], design_ref="DESIGN.md section " + c["ref"]),
                           level_note=c["note"], technique=c["technique"]))
    na = []
    for p in props:
        if p["id"] not in CHECKS:
            na.append(dict(property_id=p["id"], reason=PENDING.get(p["id"], "check not built yet in this round (planned, see DESIGN.md section 10); not claimed")))
    hooks = [l.split()[0] for l in os.popen("git -C /repo log --format='%h %s' | grep 'verif hook'").read().splitlines()]
    m = dict(version=1,
             setup_cmd="./setup.sh",
             hooks=dict(guard="verif", enable="go build -tags verif (the harness module resolves go.brendoncarroll.net/p2p through a replace directive to /repo)",
                        baseline_off_cmd=BASELINE, source_commits=hooks, add_only=True),
             engines=[dict(name="tlc+go-harness", path="/verif/check", serves_properties=sorted(CHECKS),
                           kind_free_text="TLA+ specifications in /verif/spec checked by TLC; Go replayers/recorders in /verif/harness bound to /repo; TLC trace validation")]
                     + sorted(GROWTH, key=lambda g: g["name"]),
             checks=checks, not_applicable=na,
             notes="Exit 2 + INCONCLUSIVE means infrastructure failure (never a verdict). Known findings: /verif/known_findings.json. The growth-G0x engines are specification growth beyond the listed properties (same ./check interface, never exit 1 for a listed property).")
    with open(os.path.join(ROOT, "MANIFEST.json"), "w") as f:
        json.dump(m, f, indent=1)
        f.write("\n")
main()
