#!/usr/bin/env python3
"""Regenerates MANIFEST.json from the table below (single source of truth for the interface)."""
import json, os
ROOT = os.path.dirname(os.path.abspath(__file__))
BASELINE = ("cd /repo && export GOFLAGS=-mod=mod GOPROXY=off GOSUMDB=off GOTOOLCHAIN=local && "
            "go build ./... && go test -vet=off -count=1 -timeout 25m ./...")
CHECKS = {
 "C18": dict(level="model_checking", technique="TLA+ spec (KadCache.tla) model-checked with TLC; TLC-generated behaviours replayed on the real Cache; traces validated by TLC against KadCacheTrace.tla",
   text="TLC exhaustively checks every property operator of C18 on KadCache.tla (three key/locus families, every constructor configuration in the family, all operation sequences up to the depth bound) and then evaluates the same operators on traces recorded from the real kademlia.Cache executing TLC-generated behaviours (1-, 2- and 32-byte keys). A VIOLATION is printed only when an operator is false on real observations.",
   note="Bounded: <= 8-11 keys per family, depth 3-4 exhaustively, depth 8-40 in simulation. Trusts TLC, the CommunityModules Json/IOUtils modules, the Go toolchain and the add-only VerifDump hook (p/kademlia/verif_export.go).",
   ref="5 (C18), 3.9"),
 "C19": dict(level="model_checking", technique="TLA+ spec (KadCache.tla, KadDist.tla) model-checked with TLC; behaviours and all distance triples replayed on the real code; traces validated by TLC",
   text="TLC checks ForEachSorted/ClosestIsMin/CloserExact/MatchingExact on every reachable cache content of KadCache.tla for every query key of the family (including keys shorter and longer than the locus), and the distance-comparison laws on all 9261 triples of byte strings of length <= 2 over {0,1,128,255}; the same operators are evaluated on what the real ForEach/Closest/ForEachCloser/ForEachMatching/DistanceCmp/... returned.",
   note="As C18; entry keys have the locus' length, query keys any length. ForEachMatching is exercised at prefix lengths {0,1,2,5,7,8,9,15,16,17,24} only.",
   ref="5 (C19), 3.9"),
}
PENDING = {}
def main():
    props = [json.loads(l) for l in open(os.path.join(ROOT, "properties.jsonl"))]
    checks = []
    for pid, c in CHECKS.items():
        checks.append(dict(property_id=pid, quick_cmd="./check %s --tier quick" % pid, thorough_cmd="./check %s --tier thorough" % pid,
                           evidence_file="/verif/evidence/%s.json" % pid, replay_cmd_template="./check %s --replay {path}" % pid,
                           engine="tlc+go-harness", level_claimed=dict(category=c["level"], text=c["text"], design_ref="DESIGN.md section " + c["ref"]),
                           level_note=c["note"], technique=c["technique"]))
    na = []
    for p in props:
        if p["id"] not in CHECKS:
            na.append(dict(property_id=p["id"], reason=PENDING.get(p["id"], "check not built yet in this round (planned, see DESIGN.md section 10); not claimed")))
    hooks = [l.split()[0] for l in os.popen("git -C /repo log --format='%h %s' | grep 'verif hook'").read().splitlines()]
    m = dict(version=1,
             setup_cmd="./setup.sh",
             hooks=dict(guard="verif", enable="go build -tags verif (the harness module resolves go.brendoncarroll.net/p2p through a replace directive to /repo)",
                        baseline_off_cmd=BASELINE, source_commits=hooks, add_only=True),
             engines=[dict(name="tlc+go-harness", path="/verif/check", serves_properties=sorted(CHECKS),
                           kind_free_text="TLA+ specifications in /verif/spec checked by TLC; Go replayers/recorders in /verif/harness bound to /repo; TLC trace validation")],
             checks=checks, not_applicable=na,
             notes="Exit 2 + INCONCLUSIVE means infrastructure failure (never a verdict). Known findings: /verif/known_findings.json.")
    with open(os.path.join(ROOT, "MANIFEST.json"), "w") as f:
        json.dump(m, f, indent=1)
        f.write("\n")
main()
