"""G04 (growth: connection tables): spec/ConnTable.tla models, one action per critical section, how
quicswarm (sessCache: withSession, putSession, serve, handleSession, Close) and sshswarm (conns: getConn,
addConn, deleteConn, serveLoop, Conn.loop, Close) manage per-peer connections. TLC checks the laws and
generates schedules (racing Tells/Asks, kills, restarts, Close); harness/cmd/conntabreplay runs them on
real nodes; spec/ConnTableTrace.tla judges the recorded tables, results and deliveries.

Pipeline: (1) TLC model-checks ConnTable for both transports (free environment, bounded), in the thorough
tier also the liveness property and the variants without each of the five repairs (each must violate its
law: the model shows the defect) and the recorded finding; (2) TLC generates schedules: the Core
scenarios of ConnTableGen, random schedules (simulation, seeded by VERIF_SEED) and, thorough, the edge
cover (quiescent abstract state x group); (3) TLC (ConnTableGen!OutSpec) computes for every group of every
schedule ALL observable outcomes over all interleavings; (4) conntabreplay executes every schedule several
times on real nodes: the operations of a group are released together from racing goroutines; (5)
ConnTableTrace evaluates the law operators on what was observed (VIOL) and compares the outcome with the
predicted set (DRIFT).

Verdict policy (BUILDING.md): VIOLATION only when the REAL code falsifies a law operator evaluated by TLC in
the trace specification; DRIFT when the observation is merely not among the model's outcomes; a
counterexample in the model alone, a build error or a timeout is INCONCLUSIVE.  Recorded findings have keys
"G04:..." in known_findings.json.
"""
import json
import os
import time
from concurrent.futures import ThreadPoolExecutor

from . import core

EXTRA = ["G04"]
PID = "G04"
TRANSPORTS = ["quic", "ssh"]

TIERS = {
    "quick": dict(mc=["ConnTable_quic_q.cfg", "ConnTable_ssh_q.cfg", "ConnTable_quic_e.cfg", "ConnTable_ssh_e.cfg"], live=[], expect=[], sim=12, groups=4,
                  cover=None, slow=False, reps=3, procs=5, three=False),
    "thorough": dict(mc=["ConnTable_quic_q.cfg", "ConnTable_ssh_q.cfg", "ConnTable_quic_e.cfg", "ConnTable_ssh_e.cfg", "ConnTable_quic.cfg", "ConnTable_ssh.cfg", "ConnTable_quic3.cfg", "ConnTable_ssh3.cfg"],
                     live=["ConnTable_quic_live.cfg", "ConnTable_ssh_live.cfg"],
                     expect=[("old_removeOwn", "NoOrphan"), ("old_closeMismatch", "NoOrphan"), ("old_sshRemoveDead", "DeadRemoved"),
                             ("old_sshCloseLoser", "NoOrphan"), ("kf_replace", "NoOrphanStrict"), ("old_sshclose", "AfterClose")],
                     sim=60, groups=4, cover=2, slow=True, reps=4, procs=8, three=True),
}

GEN_CONSTANTS = """SPECIFICATION %(spec)s
CONSTANTS
  Nodes = %(nodes)s
  Ids = {1, 2, 3}
  Transport = "%(tr)s"
  MaxConn = 14
  MaxOps = 100
  MaxEnv = 100
  Fixes <- AllFixes
  MaxGroups = %(groups)d
  Slow = %(slow)s
CHECK_DEADLOCK FALSE
%(extra)s
"""


def _tla(v):
    if isinstance(v, bool):
        return "TRUE" if v else "FALSE"
    if isinstance(v, int):
        return str(v)
    if isinstance(v, str):
        return '"%s"' % v
    if isinstance(v, list):
        return "<<" + ", ".join(_tla(x) for x in v) + ">>"
    if isinstance(v, dict):
        return "[" + ", ".join("%s |-> %s" % (k, _tla(x)) for k, x in v.items()) + "]"
    raise core.Inconclusive("cannot render %r as TLA+" % (v,))


def _umodule(scripts, allowed=None):
    a = "<<>>"
    if allowed is not None:
        a = "<<\n" + ",\n".join("<<" + ", ".join("{" + ", ".join(sorted(g)) + "}" for g in groups) + ">>" for groups in allowed) + "\n>>"
    return ("----------------------------- MODULE ConnTableU -----------------------------\n"
            "Scripts == <<\n%s\n>>\nAllowed == %s\n=============================================================================\n"
            % (",\n".join(_tla(s) for s in scripts), a))


def _sig(group):
    def one(o):
        if o["op"] in ("tell", "ask"):
            return "%s%d%d%s%s" % (o["op"][0], o["from"], o["to"], "w" if o["id"] != o["to"] else "", "s" if o["via"] == "src" else "")
        if o["op"] == "kill":
            return "kill"
        return "%s%d%s" % (o["op"], o["n"], "c" if o.get("crash") else "")
    return "|".join(one(o) for o in group)


class Stats:
    def __init__(self):
        self.mc = {}
        self.expected = {}
        self.sched = {}
        self.outcomes = {}
        self.events = {}
        self.trace_states = {}
        self.drift = []
        self.samples = []
        self.observed_outcomes = {}
        self.replay_wall = {}
        self.core3 = {}


def _mc(stats, cfg, workers=3):
    res = core.tlc("MC_ConnTable", cfg, workers=workers, timeout=1500, label="mc-" + cfg[:-4], short=cfg.endswith("_q.cfg"))
    core.tlc_ok_or_inconclusive(res, "MC " + cfg)
    stats.mc[cfg] = dict(states=res.distinct, transitions=res.generated, depth=res.depth, wall=round(res.wall, 1))


def _expect(stats, name, prop):
    """A variant of the model without one of the repairs (or a recorded finding stated strictly) must violate
    its law: the model shows the defect.  If TLC no longer finds the counterexample the model changed."""
    res = core.tlc("MC_ConnTable", "ConnTable_%s.cfg" % name, workers=2, timeout=1500, label="kf-" + name)
    if prop not in res.violated:
        raise core.Inconclusive("ConnTable_%s.cfg: the model was expected to violate %s and does not:\n%s" % (name, prop, res.out[-2000:]))
    stats.expected[name] = prop


def _gen_cfg(tr, spec, groups, slow, extra="", nodes=2):
    return GEN_CONSTANTS % dict(spec=spec, tr=tr, groups=groups, slow="TRUE" if slow else "FALSE", extra=extra,
                                nodes="{1, 2, 3}" if nodes == 3 else "{1, 2}")


def _schedules(tr, T, stats):
    """TLC-generated schedules: Core + random simulation (+ edge cover in the thorough tier)."""
    files = {"Gsim.cfg": _gen_cfg(tr, "SimSpec", T["groups"], T["slow"])}
    res = core.tlc("ConnTableSim", "Gsim.cfg", workers=1, simulate=T["sim"], depth=400, tlc_seed=core.seed() * 1000 + TRANSPORTS.index(tr),
                   timeout=900, short=True, label="sim-" + tr, files=files)
    core.tlc_ok_or_inconclusive(res, "ConnTableSim " + tr)
    core_s = [x[1] for x in res.printed("CORE")]
    rnd = [x[1] for x in res.printed("SCHED")]
    if not core_s or len(rnd) < T["sim"]:
        raise core.Inconclusive("ConnTableSim %s: %d core lists, %d of %d random schedules" % (tr, len(core_s), len(rnd), T["sim"]))
    core3 = [x[1] for x in res.printed("CORE3")]
    stats.core3[tr] = core3[0] if core3 else []
    scheds = [("core", s) for s in core_s[0]] + [("random", s) for s in rnd]
    if T["cover"]:
        files = {"Gcov.cfg": _gen_cfg(tr, "SchedSpec", T["cover"], False, "VIEW schedview\nINVARIANTS GenLaws\nACTION_CONSTRAINT SchedDump")}
        res = core.tlc("ConnTableGen", "Gcov.cfg", workers=4, timeout=1500, label="cover-" + tr, files=files)
        core.tlc_ok_or_inconclusive(res, "ConnTableGen cover " + tr)
        cov = [x[1] for x in res.printed("SCHED")]
        full = [s for s in cov if len(s) == T["cover"]]
        stats.mc["cover/" + tr] = dict(states=res.distinct, transitions=res.generated, depth=res.depth, wall=round(res.wall, 1))
        # every edge (state reached by one group, second group): the two-group schedules; a seeded half of them
        scheds += [("cover", s) for i, s in enumerate(full) if (i + core.seed()) % 2 == 0]
    seen, out = set(), []
    for fam, s in scheds:
        k = json.dumps(s, sort_keys=True)
        if k not in seen:
            seen.add(k)
            out.append((fam, s))
    stats.sched[tr] = dict(core=sum(1 for f, _ in out if f == "core"), random=sum(1 for f, _ in out if f == "random"),
                           cover=sum(1 for f, _ in out if f == "cover"))
    return out


def _predict(tr, scheds, T, stats, nodes=2):
    """All observable outcomes of every group of every schedule, over all interleavings."""
    files = {"ConnTableU.tla": _umodule([s for _, s in scheds]),
             "Gout.cfg": _gen_cfg(tr, "OutSpec", 100, T["slow"], "INVARIANTS NotStuck GenLaws\nACTION_CONSTRAINT OutDump", nodes)}
    tag = tr + ("3" if nodes == 3 else "")
    res = core.tlc("ConnTableGen", "Gout.cfg", workers=4, timeout=2400, label="out-" + tag, files=files, short=len(scheds) < 40)
    core.tlc_ok_or_inconclusive(res, "ConnTableGen outcomes " + tr)
    allowed = [[set() for _ in s] for _, s in scheds]
    for _t, si, gi, text in res.printed("OUT"):
        allowed[si - 1][gi - 1].add(text)
    for i, groups in enumerate(allowed):
        for j, g in enumerate(groups):
            if not g:
                raise core.Inconclusive("ConnTableGen %s: no outcome predicted for schedule %d group %d (%s)" % (tr, i + 1, j + 1, _sig(scheds[i][1][j])))
    stats.mc["outcomes/" + tag] = dict(states=res.distinct, transitions=res.generated, depth=res.depth, wall=round(res.wall, 1))
    stats.outcomes[tag] = sum(len(g) for groups in allowed for g in groups)
    return allowed


def _replay(binp, d, tr, scheds, T, stats, nodes=2):
    """Execute the schedules on real nodes, in a few processes side by side (one run at a time per process:
    the ground truth about open quic connections is a count of goroutines)."""
    t0 = time.time()
    chunks = [[] for _ in range(T["procs"])]
    for i, (_fam, s) in enumerate(scheds):
        chunks[i % T["procs"]].append(dict(id=i + 1, tr=tr, nodes=nodes, groups=s))
    chunks = [c for c in chunks if c]

    def run(ci, chunk):
        cp, tp = os.path.join(d, "%s%d-%d.sched" % (tr, nodes, ci)), os.path.join(d, "%s%d-%d.trace" % (tr, nodes, ci))
        with open(cp, "w") as f:
            for s in chunk:
                f.write(json.dumps(s) + "\n")
        out = core.run([binp, "-in", cp, "-out", tp, "-reps", str(T["reps"])], timeout=2400)
        return tp, out.strip().splitlines()[-1]
    with ThreadPoolExecutor(max_workers=len(chunks)) as ex:
        outs = list(ex.map(lambda a: run(*a), enumerate(chunks)))
    tr_path = os.path.join(d, "%s%d.trace" % (tr, nodes))
    with open(tr_path, "w") as f:
        for tp, _ in outs:
            f.write(open(tp).read())
    stats.replay_wall["%s/%d-nodes" % (tr, nodes)] = round(time.time() - t0, 1)
    core.log("conntabreplay %s: %d schedules x %d in %d processes, %.1fs" % (tr, len(scheds), T["reps"], len(chunks), time.time() - t0))
    return tr_path


TRACE_CFG = """SPECIFICATION TraceSpec
CONSTANTS
  Nodes = {1, 2}
  Ids = {1, 2, 3}
  Transport = "%s"
  MaxConn = 1
  MaxOps = 1
  MaxEnv = 1
  Fixes <- AllFixes
POSTCONDITION AllConsumed
CHECK_DEADLOCK FALSE
"""


def run_transport(tr, tier, binp, d, stats, only=None, nodes=2):
    T = TIERS[tier]
    if only:
        scheds = [("replay", only)]
    elif nodes == 3:
        while tr not in stats.core3:       # printed by the 2-node schedule generation of the same transport
            time.sleep(0.5)
        scheds = [("core3", s) for s in stats.core3[tr]]
    else:
        scheds = _schedules(tr, T, stats)
    tag = tr + ("3" if nodes == 3 else "")
    allowed = _predict(tr, scheds, T, stats, nodes)
    trace = _replay(binp, d, tr, scheds, T, stats, nodes)
    files = {"ConnTableU.tla": _umodule([], allowed), "Gtrace.cfg": TRACE_CFG % tr}
    tv = core.validate_trace("ConnTableTrace", "Gtrace.cfg", trace, nshards=1, files=files, timeout=2400)
    stats.events[tag] = tv["events"]
    stats.trace_states[tag] = tv["states"]
    lines = open(trace).readlines()
    stats.observed_outcomes[tag] = len({(e["beh"], e["i"], json.dumps([[o["res"] for o in e["ops"]], sorted(json.dumps([x[k] for k in ("n", "kid", "kad", "dir", "alive")]) for x in e["ents"]), e["orph"]]))
                                       for e in map(json.loads, lines) if e["ev"] == "grp"})
    viol = []
    for _t, ln, bid, ops in tv["viol"]:
        ev = json.loads(lines[ln - 1])
        fam, sched = scheds[bid - 1]
        for op in ops:
            if op == "NoOrphanReplaced":
                key = "G04:NoOrphan:quicswarm/replaced-session"
            else:
                ctx = "end" if ev["ev"] == "end" else "+".join(sorted(o["op"] + ("-wrong-id" if o["op"] in ("tell", "ask") and o["id"] != o["to"] else "")
                                                                      + ("-src" if o.get("via") == "src" and o["op"] in ("tell", "ask") else "") for o in ev["ops"]))
                key = "G04:%s:%sswarm/%s" % (op, tr, ctx)
            what = ("%s false on real %sswarm nodes: schedule %s (%s), run %d, group %d: results %s; tables %s; open connection ends outside the tables: %d of %d; delivered %s%s"
                    % (op, tr, " ; ".join(_sig(g) for g in sched), fam, ev["rep"], ev["i"],
                       [(o["op"], o["res"], o["err"][:60]) for o in ev["ops"]],
                       [(e["n"], "%d@%d" % (e["kid"], e["kad"]), e["dir"], "auth=%d" % e["rid"], "alive" if e["alive"] else "ENDED", "stale" if e["stale"] else "") for e in ev["ents"]],
                       ev["orph"], ev["nlive"], [(x["k"], "at %d from %d" % (x["at"], x["src"])) for x in ev["dl"]],
                       (" panic: " + ev["panic"]) if ev["panic"] else ""))
            viol.append((key, what, dict(tr=tr, nodes=nodes, schedule=sched, event=ev, operator=op)))
    for _t, ln, bid, what in tv["drift"]:
        ev = json.loads(lines[ln - 1])
        stats.drift.append(dict(tr=tr, schedule=" ; ".join(_sig(g) for g in scheds[bid - 1][1]), group=ev["i"], run=ev["rep"], what=what,
                                results=[o["res"] for o in ev["ops"]], orph=ev["orph"], delivered=[x["k"] for x in ev["dl"] if not x["ask"]],
                                ents=[[e["n"], e["kid"], e["kad"], e["dir"], e["alive"]] for e in ev["ents"]]))
    stats.samples.append(dict(tr=tr, schedule=[_sig(g) for g in scheds[0][1]], first_event=json.loads(lines[0])))
    return viol


def _verdict(violations):
    """As core.verdict; this component's recorded findings are matched by key."""
    kf = {k["key"]: k for k in core.known_findings() if k.get("key", "").startswith("G04:") and k.get("status", "open") == "open"}
    rc, seen = 0, set()
    for v in violations:
        if v.key in seen:
            continue
        seen.add(v.key)
        if v.key in kf:
            print("KNOWN-FINDING: property=%s %s [%s]" % (PID, kf[v.key]["what"], v.key))
            continue
        rc = 1
        print("VIOLATION property=%s replay=%s" % (PID, v.replay or "-"))
        print("  what: %s [%s]" % (v.what, v.key))
    return rc


def check(pid, tier, replay=None):
    t0 = time.time()
    T = TIERS[tier]
    stats = Stats()
    d = core.scratch("g04")
    binp = core.go_build("conntabreplay")
    only = {}
    if replay:
        with open(replay) as f:
            p = json.load(f)["payload"]
        only[p["tr"]] = (p["schedule"], p.get("nodes", 2))
    found, errs = [], []
    with ThreadPoolExecutor(max_workers=8) as ex:
        futs = {}
        for tr in TRANSPORTS:
            if not replay or tr in only:
                o = only.get(tr)
                futs["replay/" + tr] = ex.submit(run_transport, tr, tier, binp, d, stats, o[0] if o else None, o[1] if o else 2)
                if not replay and T["three"]:
                    futs["replay/" + tr + "3"] = ex.submit(run_transport, tr, tier, binp, d, stats, None, 3)
        if not replay:
            for cfg in T["mc"] + T["live"]:
                futs["mc/" + cfg] = ex.submit(_mc, stats, cfg)
            for name, prop in T["expect"]:
                futs["expect/" + name] = ex.submit(_expect, stats, name, prop)
        for name, f in futs.items():
            try:
                r = f.result()
                if name.startswith("replay/"):
                    found += r
            except core.Inconclusive as e:
                errs.append("%s: %s" % (name, e))
    if errs:
        raise core.Inconclusive("\n".join(errs))
    mine, seen = [], set()
    recorded = {k.get("key") for k in core.known_findings() if k.get("status", "open") == "open"}
    for key, what, payload in found:
        if key in seen:
            continue
        seen.add(key)
        mine.append(core.Violation(PID, key, what, None if key in recorded else core.write_replay(PID, key, payload)))
    if stats.drift:
        print("DRIFT component=G04 groups=%d (the observed outcome is not among the model's; no law is falsified) e.g. %s"
              % (len(stats.drift), json.dumps(stats.drift[:3])[:1800]))
    nsched = (sum(sum(v.values()) for v in stats.sched.values()) + (sum(len(v) for v in stats.core3.values()) if T["three"] else 0)) or len(only)
    coverage = dict(
        states=max(1, sum(v["states"] for v in stats.mc.values())),
        transitions=max(1, sum(v["transitions"] for v in stats.mc.values())),
        traces_validated_against_impl=nsched * T["reps"],
        samples=stats.samples or [dict(note="replay run")],
        evaluations=sum(stats.events.values()),
        distinct_nontrivial=sum(stats.observed_outcomes.values()),
        rule="evaluations = trace events validated by TLC (one per executed group of a schedule: operation results, every node's table, open "
             "connection ends outside the tables, deliveries; plus one per run after every node was closed); distinct_nontrivial = distinct "
             "(schedule, group, observed outcome) triples over all runs",
        model_checking=stats.mc, expected_model_violations=stats.expected, schedules=stats.sched, predicted_outcomes=stats.outcomes,
        events=stats.events, trace_states=stats.trace_states, drift_groups=len(stats.drift), replay_wall_s=stats.replay_wall, exhaustive=False,
        explanation="TLC checks ConnTable.tla (both transports) within the bounds of the listed configs, generates the schedules (Core, random "
                    "simulation, edge cover) and computes every observable outcome of every group over all interleavings; conntabreplay executes "
                    "every schedule %d times on real quicswarm / sshswarm nodes; ConnTableTrace evaluates the law operators on each observation "
                    "and compares it with the predicted outcomes" % T["reps"])
    core.write_evidence(PID, tier, "model_checking", coverage,
                        ["two nodes (identity 3 lives nowhere); no attacker (C04): a connection authenticates the true identities of its ends",
                         "quicswarm runs over a harness-owned in-memory packet swarm (s/memswarm never frees an address, so a node could not restart "
                         "on its address); sshswarm runs over loopback TCP through harness-owned forwarders that know and can cut every connection",
                         "goroutine scheduling is not controlled: the operations of a group are released together, each schedule is repeated, only the "
                         "observed outcome is judged; 'settled' = the observation did not change over 3 polls of 12 ms (at most 10 s)",
                         "open quic connection ends = goroutines inside quic-go's (*connection).run; open ssh connection ends = the forwarders' open TCP connections",
                         "a quic 'kill' is CloseWithError on the sessions that are in a table, 'expire' stands for the 30 s idle timeout of sessions whose peer is gone",
                         "Tell is best effort: delivery is claimed only for operations that start in a quiet state between two open nodes with no "
                         "stale connection and no environment event beside them (ConnTable!HealthyAt)",
                         "TLC, the Json/IOUtils community modules and the Go toolchain are trusted"],
                        time.time() - t0, len(mine))
    return _verdict(mine)
