"""C04: secure swarms attribute every message to the key its sender proved - decided with
spec/SecureSwarm.tla (+ SSHAuth.tla).

 1. TLC model-checks SecureSwarm.tla (the code AFTER the repairs of F13 / F35): swarm kind in {p2pke, quic,
    ssh} x whitelists x who answers at the dialled address x every order/repetition of the adversary's
    authentication steps x every wrong-identity destination, all interleavings of handshake steps with the
    environment; invariants Attribution, DialSafety, Whitelist.  SSHAuth.tla (x/crypto/ssh's PublicKeyCallback
    cache as the library behaves) is checked stand-alone too.  Self-test: the same model with one check
    switched off (the unrepaired designs of F13 and F35, a missing dial comparison, ...) MUST violate the
    corresponding operator, otherwise the run is INCONCLUSIVE.
 2. TLC enumerates scripts (SecureSwarmGen.tla): families pair / auth / answer exhaustively, mixed by simulation.
 3. harness/cmd/secreplay executes them on REAL swarms: p2pkeswarm and quicswarm over memswarm, sshswarm (+wlswarm)
    on 127.0.0.1; the adversary M is the harness with real cryptography and only M's private key.
 4. TLC evaluates Attribution / DialSafety / Whitelist on the log (SecureSwarmTrace.tla).
"""
import json
import os
import time
from concurrent.futures import ThreadPoolExecutor

from . import core

PROPERTIES = ["C04"]

MANIFEST = {
    "C04": dict(level="model_checking",
                technique="TLA+ model of connection establishment and message attribution in the three secure swarms (incl. x/crypto/ssh's public-key callback cache) checked by TLC; TLC-enumerated attack scripts and honest scenarios replayed on real p2pkeswarm / quicswarm / sshswarm instances against an adversary with real cryptography; traces validated by TLC",
                text="SecureSwarm.tla keeps, per connection and side, the key that was PRESENTED, the key whose private half was really USED (ghost) and the key the code RECORDED; TLC checks Attribution (Src.ID and the in-handler lookup are the used key), DialSafety (a payload addressed to identity X only reaches a holder of priv(X)) and Whitelist over every interleaving of dial / answer / dialler check / accept / send / deliver steps for kind in {p2pke, quic, ssh}, every whitelist subset of {A,B,M}, every identity dialled at every transport address and every order and repetition of the adversary's authentication steps (SSH: Query(k)/Signed(k) with the library's cache; P2PKE/QUIC: handshake attempts presenting any key with own / no / captured proof). The scripts TLC enumerates from the same model are executed on real swarms: p2pkeswarm over memswarm against the P2PKE attacker toolkit, quicswarm over memswarm against a quic-go endpoint whose certificate carries any key but whose CertificateVerify is made with M's key (or garbage), sshswarm wrapped in wlswarm on 127.0.0.1 against an x/crypto/ssh client whose scripted ssh.PublicKey objects put exactly the chosen Query/Signed sequence on the wire, plus listeners presenting any host key / certificate / RespHello. TLC then evaluates the three operators on what the Receive/ServeAsk callbacks really saw (Src, LookupPublicKeyInHandler result, which node got which payload) with the harness's ground truth of who holds and used which private key.",
                note="Cryptographic handshakes are atomic 'the presented key is accepted iff its private half was used' in the model (C03 covers P2PKE; TLS and SSH are trusted), except the SSH callback cache. The SSH client is built from the public x/crypto/ssh API: a Signed(k) is always preceded by a Query on the wire (a bare Signed(k) is sent as Query(k),Signed(k): same callback sequence), the user name is fixed per connection. Non-delivery is observed with a bounded settle time.",
                ref="5 (C04), 3.4"),
}

OPS = {"Attribution", "DialSafety", "Whitelist"}

# family -> (cfg, mode)
GEN = {
    "quick": {"pair": ("SecureSwarmGen_pair.cfg", "mc"), "answer": ("SecureSwarmGen_answer_quick.cfg", "mc"),
              "auth": ("SecureSwarmGen_auth_quick.cfg", "mc"), "authwl": ("SecureSwarmGen_authwl_quick.cfg", "mc"),
              "race": ("SecureSwarmGen_race_quick.cfg", "mc"), "cred": ("SecureSwarmGen_cred_quick.cfg", "mc"),
              "mixed": ("SecureSwarmGen_mixed.cfg", "sim")},
    "thorough": {"pair": ("SecureSwarmGen_pair.cfg", "mc"), "answer": ("SecureSwarmGen_answer_thorough.cfg", "mc"),
                 "auth": ("SecureSwarmGen_auth_thorough.cfg", "mc"), "race": ("SecureSwarmGen_race_thorough.cfg", "mc"),
                 "cred": ("SecureSwarmGen_cred_thorough.cfg", "mc"),
                 "mixed": ("SecureSwarmGen_mixed.cfg", "sim")},
}
# how many scripts of each (family, kind) are replayed; None = all
CAP = {
    "quick": {"pair": 25, "answer": 20, "auth": {"ssh": None, "p2pke": 24, "quic": 24}, "authwl": 15, "race": None, "cred": None, "mixed": 25},
    "thorough": {"pair": None, "answer": 400, "auth": {"ssh": None, "p2pke": 500, "quic": 400}, "race": None, "cred": None, "mixed": 400},
}
SIM = {"quick": 40, "thorough": 400}

# (name, module, cfg, workers, expected violated operator or None)
MC = {
    "quick": [("one", "MC_SecureSwarm", "SecureSwarm_one.cfg", 4, None),
              ("wl", "MC_SecureSwarm", "SecureSwarm_wl.cfg", 4, None),
              ("cred", "MC_SecureSwarm", "SecureSwarm_cred.cfg", 2, None),
              ("sshauth", "MC_SSHAuth", "SSHAuth_fixed.cfg", 1, None),
              ("self-cred", "MC_SecureSwarm", "SecureSwarm_weak_cred.cfg", 1, "Attribution"),
              ("self-f13", "MC_SecureSwarm", "SecureSwarm_weak_f13.cfg", 1, "Attribution"),
              ("self-f35", "MC_SecureSwarm", "SecureSwarm_weak_f35.cfg", 1, "Whitelist")],
    "thorough": [("wl_full", "MC_SecureSwarm", "SecureSwarm_wl_full.cfg", 4, None),
                 ("two_quic", "MC_SecureSwarm", "SecureSwarm_two_quic.cfg", 4, None),
                 ("two_p2pke", "MC_SecureSwarm", "SecureSwarm_two_p2pke.cfg", 4, None),
                 ("deep", "MC_SecureSwarm", "SecureSwarm_deep.cfg", 4, None),
                 ("two_ssh", "MC_SecureSwarm", "SecureSwarm_two_ssh.cfg", 4, None),
                 ("two_wl", "MC_SecureSwarm", "SecureSwarm_two_wl.cfg", 4, None),
                 ("cred", "MC_SecureSwarm", "SecureSwarm_cred.cfg", 2, None),
                 ("self-cred", "MC_SecureSwarm", "SecureSwarm_weak_cred.cfg", 1, "Attribution"),
                 ("sshauth", "MC_SSHAuth", "SSHAuth_fixed.cfg", 1, None),
                 ("sshauth-smallcache", "MC_SSHAuth", "SSHAuth_fixed_smallcache.cfg", 1, None),
                 ("self-sshauth-f13", "MC_SSHAuth", "SSHAuth_f13.cfg", 1, "RecordedIsProven"),
                 ("self-f13", "MC_SecureSwarm", "SecureSwarm_weak_f13.cfg", 1, "Attribution"),
                 ("self-f35", "MC_SecureSwarm", "SecureSwarm_weak_f35.cfg", 1, "Whitelist"),
                 ("self-dial", "MC_SecureSwarm", "SecureSwarm_weak_dial.cfg", 1, "DialSafety"),
                 ("self-post", "MC_SecureSwarm", "SecureSwarm_weak_post.cfg", 1, "DialSafety"),
                 ("self-proof", "MC_SecureSwarm", "SecureSwarm_weak_proof.cfg", 1, "Attribution"),
                 ("reach-deliver-from-M", "MC_SecureSwarm", "SecureSwarm_reach.cfg", 2, "NeverDeliveredFromM"),
                 ("reach-saw", "MC_SecureSwarm", "SecureSwarm_reach_saw.cfg", 1, "NeverSaw"),
                 ("reach-dropped", "MC_SecureSwarm", "SecureSwarm_reach_drop.cfg", 2, "NeverDropped")],
}

SWARM = {"p2pke": "p2pkeswarm", "quic": "quicswarm", "ssh": "sshswarm"}


def run_mc(name, module, cfg, workers, expect, stats):
    res = core.tlc(module, cfg, workers=workers, timeout=1500, label="mc-" + name, short=(expect is not None or workers == 1),
                   heap="6g")
    if expect is None:
        core.tlc_ok_or_inconclusive(res, "MC " + name)
        stats["mc"][name] = dict(states=res.distinct, transitions=res.generated, depth=res.depth, wall=round(res.wall, 1))
    else:
        # anti-vacuity: a weakened / unrepaired design, or a reachability target, MUST trip the operator
        if expect not in res.violated:
            raise core.Inconclusive("self-test %s: TLC did not report a violation of %s in the weakened model "
                                    "(the operator would be vacuous)\n%s" % (name, expect, res.out[-1500:]))
        stats["selftest"][name] = dict(violated=expect, states=res.distinct, wall=round(res.wall, 1))


def generate(tier, fam, cfg, mode):
    if mode == "mc":
        res = core.tlc("SecureSwarmGen", cfg, workers=1, timeout=1500, label="gen-" + fam, short=True)
        if not res.completed or res.errors:
            raise core.Inconclusive("generator %s did not complete\n%s" % (fam, res.out[-2000:]))
    else:
        res = core.tlc("SecureSwarmGen", cfg, workers=1, simulate=SIM[tier], depth=80, tlc_seed=core.seed(), timeout=900,
                       label="gen-" + fam, short=True)
        if not res.sim_done or res.errors:
            raise core.Inconclusive("generator %s did not complete\n%s" % (fam, res.out[-2000:]))
    bs = [x[1] for x in res.printed("BEH")]
    if not bs:
        raise core.Inconclusive("generator %s produced nothing" % fam)
    return fam, bs, res.distinct


def pick(tier, fam, bs):
    """Deterministic, seed-dependent sample of a family's scripts, stratified by swarm kind."""
    cap = CAP[tier][fam]
    out = []
    for kind in ("p2pke", "quic", "ssh"):
        ks = [b for b in bs if b["kind"] == kind]
        c = cap[kind] if isinstance(cap, dict) else cap
        if c is None or len(ks) <= c:
            out += ks
            continue
        stride = len(ks) / float(c)
        off = (core.seed() * 7919) % max(1, int(stride))
        idx = sorted({min(len(ks) - 1, int(i * stride) + off) for i in range(c)})
        out += [ks[i] for i in idx]
    return out


def role(k):
    return "own" if k == "M" else ("own-ecdsa" if k == "Me" else "victim")


def cred(st):
    """presentation of a script step: leaf role, proof, and the unproven extra certificate if any"""
    x = st.get("extra", "-")
    return "%s-%s" % (role(st["k"]), st["proof"]) + ("" if x in ("-", "", None) else "+unproven-%s-cert" % role(x))


def scenario(beh, ev, auth_wire, op):
    """A stable, specific name for what the script did (the context part of a violation key)."""
    hist = beh["hist"]
    p = ev.get("p", 0)
    steps = []
    for st in hist:
        a = st["a"]
        if a in ("query", "signed"):
            steps.append(("query" if a == "query" else "sign") + "-" + role(st["k"]))
        elif a == "present":
            steps.append("present-" + cred(st))
    if auth_wire:
        # what really went over the wire (a bare Signed(k) is sent as Query(k), Signed(k))
        steps = [("query" if w[0] == "q" else "sign") + "-" + role(w[1]) for w in auth_wire]
    dedup = [s for i, s in enumerate(steps) if i == 0 or steps[i - 1] != s]
    tells = [st for st in hist if st["a"] == "tell"]
    # a call to (identity, M's address) while M's inbound handshake / connection exists at the caller
    call = next((st for st in hist if st.get("p") == p and st["a"] in ("tell", "lookup") and st.get("t") == "M"), None)
    if call is not None and any(st["a"] == "mdial" for st in hist):
        i = hist.index(call)
        before = [st["a"] for st in hist[:i]]
        pre = "lookup-" if call["a"] == "lookup" else ""
        ident = "wrong-identity" if call["x"] != "M" else "right-identity"
        hello = next((st for st in reversed(hist[:i]) if st["a"] == "hello"), None)
        if hello is not None and not (hello["k"] == "M" and hello["proof"] == "own"):
            # the InitHello was refused, but it left a channel (without any key) for M's transport address behind
            return pre + ident + "-over-unauthenticated-inbound-channel"
        if hello is not None and "finish" not in before:
            return pre + ident + "-during-inbound-handshake"
        if hello is not None:
            return pre + ident + "-after-inbound-handshake"
        if any(a in before for a in ("present", "signed", "query")):
            return pre + ident + "-over-inbound-connection"
    sender = next((st for st in hist if st.get("p") == p and st["a"] in ("tell", "reply", "msend", "lookup")), None)
    if sender is not None and sender["a"] == "msend" and sender.get("role") == "dial" and dedup:
        return "-then-".join(dedup)
    if op == "DialSafety" and sender is not None and sender["a"] == "reply" and dedup:
        return "reply-after-" + "-then-".join(dedup)
    to_m = [st for st in hist if st["a"] in ("tell", "lookup") and st.get("t") == "M"]
    if to_m and (sender is None or sender["a"] == "msend" or sender.get("t") == "M"):
        ml = [st for st in hist if st["a"] == "mlisten"]
        pol = "claim-" + cred(ml[-1]) if ml else "claim-own-own"
        mine = sender if sender is not None and sender["a"] in ("tell", "lookup") else to_m[0]
        return "%sanswer/%s/dialled-%s-identity" % ("lookup-" if ev.get("ev") == "lookup" else "", pol,
                                                     "right" if mine["x"] == "M" else "wrong")
    if op == "DialSafety" and sender is not None and sender["a"] == "tell":
        before = any(st["p"] < p and {st["n"], st.get("t")} == {sender["n"], sender["t"]} for st in tells)
        return "wrong-identity" + ("-existing-connection" if before else "-first-dial")
    # honest pair: did the node that was handed the message dial the sender's address before?
    at = ev.get("at", "")
    if any(st["a"] in ("tell", "reply") and st["n"] == at and st["p"] < p for st in hist):
        return "dialled-first"
    return "inbound"


def binding_demo(d, lines, stats):
    """The trace spec must notice a falsified observation: take one real behaviour with a delivery, (a) rewrite the
    Src of that delivery to another key, (b) remove the send event that announced the payload; TLC must print VIOL for
    (a) and DRIFT for (b). Otherwise the verdict machinery is not bound to the log: INCONCLUSIVE."""
    evs = [json.loads(x) for x in lines]
    if not any(e["ev"] == "deliver" for e in evs):
        raise core.Inconclusive("no delivery at all was observed: the replayer is not exercising the swarms")
    used = {(e["beh"], e["p"]): e["used"] for e in evs if e["ev"] == "send"}
    # a delivery that is attributed correctly, so that the corruption is the only thing wrong with it
    target = next((e for e in evs if e["ev"] == "deliver" and e["p"] > 0 and e["src"] in ("A", "B", "M")
                   and used.get((e["beh"], e["p"])) == e["src"]), None)
    if target is None:
        return      # nothing is attributed correctly: the real violations speak for themselves
    beh = [e for e in evs if e["beh"] == target["beh"]]
    a, b = [], []
    for e in beh:
        if e is target:
            a.append(dict(e, src=("B" if e["src"] != "B" else "A")))
        else:
            a.append(e)
        if not (e["ev"] == "send" and e["p"] == target["p"]):
            b.append(e)
    p = os.path.join(d, "binding.ndjson")
    with open(p, "w") as f:
        for e in a + b:
            f.write(json.dumps(e) + "\n")
    r = core.validate_trace("SecureSwarmTrace", "SecureSwarmTrace.cfg", p, nshards=1)
    va = [v for v in r["viol"] if v[1] <= len(a) and "Attribution" in v[3]]
    db = [x for x in r["drift"] if x[1] > len(a) and "no send" in x[3]]
    if not va or not db:
        raise core.Inconclusive("binding demonstration failed: corrupted Src -> %d VIOL, removed send -> %d DRIFT" % (len(va), len(db)))
    stats["binding_demo"] = dict(corrupted_src_rejected=len(va), removed_send_noticed=len(db))


def run_pipeline(tier, replay_behaviour=None):
    t0 = time.time()
    stats = dict(mc={}, selftest={}, behaviours={}, generated={}, events=0, trace_states=0, drift=0, drift_samples=[],
                 deliveries=0, saw=0)
    d = core.scratch("secure")
    ex = ThreadPoolExecutor(max_workers=(8 if tier == "quick" else 6))
    mcf = []
    if replay_behaviour is None:
        gf = [ex.submit(generate, tier, fam, cfg, mode) for fam, (cfg, mode) in GEN[tier].items()]
        # the big model-checking jobs start after the generators were submitted so that they do not delay them
        mcf = [ex.submit(run_mc, *m, stats) for m in MC[tier]]
    # developer hook for the mutant self-test (mutants/secure_mutants.py): a replayer built against a mutated scratch
    # copy of /repo; never set by a registered command
    binp = os.environ.get("VERIF_SECREPLAY_BIN") or core.go_build("secreplay")
    behs = []
    if replay_behaviour is None:
        for f in gf:
            fam, bs, nstates = f.result()
            stats["generated"][fam] = len(bs)
            sel = pick(tier, fam, bs)
            stats["behaviours"][fam] = len(sel)
            for b in sel:
                b["fam"] = fam
                behs.append(b)
    else:
        behs = [replay_behaviour]
        stats["behaviours"][replay_behaviour.get("fam", "replay")] = 1
    for i, b in enumerate(behs):
        b["id"] = i + 1
    byid = {b["id"]: b for b in behs}
    # several replay processes (sshswarm never closes its connections: descriptors are released at exit)
    nproc = 1 if len(behs) < 60 else 6
    chunks = [behs[i::nproc] for i in range(nproc)]

    def replay(i, chunk):
        p = os.path.join(d, "beh_%d.ndjson" % i)
        with open(p, "w") as f:
            for b in chunk:
                f.write(json.dumps(b) + "\n")
        tr = os.path.join(d, "trace_%d.ndjson" % i)
        out = core.run([binp, "-in", p, "-out", tr, "-par", str(16 if tier == "quick" else 12), "-seed", str(core.seed())], timeout=1500)
        core.log("secreplay[%d]: %s" % (i, out.strip().splitlines()[-1] if out.strip() else ""))
        return tr

    with ThreadPoolExecutor(max_workers=nproc) as ex2:
        traces = list(ex2.map(lambda kv: replay(*kv), enumerate(chunks)))
    trace = os.path.join(d, "trace.ndjson")
    with open(trace, "w") as out:
        for tr in traces:
            with open(tr) as f:
                out.write(f.read())
    lines = open(trace).readlines()
    res = core.validate_trace("SecureSwarmTrace", "SecureSwarmTrace.cfg", trace, nshards=(1 if len(lines) < 8000 else 4))
    stats["events"] = res["events"]
    stats["trace_states"] = res["states"]
    evs = None
    violations = []
    auth_wire = {}
    for ln in lines:
        if '"ev":"auth"' in ln:
            e = json.loads(ln)
            auth_wire[e["beh"]] = e["wire"]
    stats["deliveries"] = sum(1 for ln in lines if '"ev":"deliver"' in ln)
    stats["saw"] = sum(1 for ln in lines if '"ev":"saw"' in ln)
    for v in res["viol"]:
        _tag, lineno, beh, ops = v
        ev = json.loads(lines[lineno - 1])
        b = byid[beh]
        for op in ops:
            if op not in OPS:
                continue
            ctx = scenario(b, ev, auth_wire.get(beh), op)
            key = "C04:%s:%s/%s" % (op, SWARM.get(b["kind"], b["kind"]), ctx)
            if ev["ev"] == "lookup":
                what = "%s false on a real %s: LookupPublicKey of %s for the address (identity %s, transport address of %s) returned the key of %s (script %s, family %s, event line %d)" % (
                    op, SWARM.get(b["kind"]), ev["from"], ev["x"], ev["t"], ev["lk"], ctx, b["fam"], lineno)
            elif ev["ev"] == "deliver":
                what = "%s false on a real %s: payload %d handed to %s's %s callback with Src=%s, in-handler lookup=%s (script %s, family %s, whitelist %s, event line %d)" % (
                    op, SWARM.get(b["kind"]), ev["p"], ev["at"], "ServeAsk" if ev["ask"] else "Receive", ev["src"], ev["lk"], ctx, b["fam"],
                    json.dumps(b["wl"], sort_keys=True), lineno)
            else:
                what = "%s false on a real %s: the adversary's endpoint obtained payload %d, which was addressed to another identity (script %s, family %s, event line %d)" % (
                    op, SWARM.get(b["kind"]), ev["p"], ctx, b["fam"], lineno)
            tr_evs = [json.loads(x) for x in lines if '"beh":%d,' % beh in x]
            violations.append(("C04", key, what, dict(behaviour=b, event=ev, operator=op, trace=tr_evs[:60])))
    if replay_behaviour is None:
        binding_demo(d, lines, stats)
    stats["drift"] = len(res["drift"])
    for dr in res["drift"][:3]:
        b = byid.get(dr[2], {})
        stats["drift_samples"].append(dict(line=dr[1], behaviour=dr[2], family=b.get("fam"), kind=b.get("kind"), what=dr[3]))
    for f in mcf:
        f.result()
    ex.shutdown()
    stats["samples"] = [dict(family=b["fam"], kind=b["kind"], wl=b["wl"], hist=b["hist"]) for b in (behs[:1] + behs[len(behs) // 2:len(behs) // 2 + 1] + behs[-1:])]
    stats["wall"] = time.time() - t0
    return stats, violations


def check(pid, tier, replay=None):
    t0 = time.time()
    rb = None
    if replay:
        with open(replay) as f:
            rb = json.load(f)["payload"]["behaviour"]
    stats, violations = run_pipeline(tier, rb)
    mine, seen = [], set()
    for (p, key, what, payload) in violations:
        if p != pid or key in seen:
            continue
        seen.add(key)
        mine.append(core.Violation(pid, key, what, core.write_replay(pid, key, payload)))
    if stats["drift"]:
        print("DRIFT component=SecureSwarm observations=%d (model prediction and real observation disagree; no listed property is falsified by that alone) e.g. %s"
              % (stats["drift"], json.dumps(stats["drift_samples"][:2])))
    coverage = dict(
        states=max(sum(v["states"] for v in stats["mc"].values()), 1),
        transitions=max(sum(v["transitions"] for v in stats["mc"].values()), 1),
        traces_validated_against_impl=sum(stats["behaviours"].values()),
        samples=stats["samples"] or [dict(note="replay run")],
        evaluations=stats["events"], distinct_nontrivial=stats["deliveries"] + stats["saw"],
        rule="evaluations = events logged while executing TLC-generated scripts on real swarms, each validated by TLC; "
             "distinct_nontrivial = observations the operators are evaluated on: payloads really handed to a Receive/ServeAsk "
             "callback of A or B plus payloads the adversary's endpoint really obtained (counted from the log)",
        model_checking=stats["mc"], self_test=stats["selftest"], scripts_generated=stats["generated"],
        scripts_replayed=stats["behaviours"], deliveries=stats["deliveries"], adversary_reads=stats["saw"],
        binding_demo=stats.get("binding_demo"),
        drift_observations=stats["drift"], exhaustive=False)
    core.write_evidence(pid, tier, "model_checking", coverage,
                        ["P2PKE signatures / TLS 1.3 CertificateVerify / SSH host-key and user-auth signatures prove possession of the presented key (C03 for P2PKE; crypto/tls, quic-go and x/crypto/ssh are trusted) - only the SSH PublicKeyCallback cache is modelled in detail",
                         "honest nodes hold and use only their own private key; the harness (adversary M) uses only M's private key: ground truth about who used which key comes from the harness",
                         "non-delivery is observed for a bounded settle time (120 ms after each step); whitelists are identity-based predicates",
                         "TLC, CommunityModules, Go toolchain, memswarm as inner transport, loopback TCP"],
                        time.time() - t0, len(mine))
    return core.verdict(pid, mine)
