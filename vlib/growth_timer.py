"""G08 (growth: specification coverage beyond the listed properties): the timer the P2PKE channel's
handshake / rekey / keep-alive logic rests on, and the bitmap of mbapp.

 timer   p/p2pke/timer.go     P2pkeTimer.tla (one action per critical section; the runtime timer armed /
         fired / callback in flight as its own variables) model-checked exhaustively for
           (a) NoConcurrentFn      fn never runs twice concurrently
           (b) QuietAfterStopSync  after a StopSync that no Reset overlapped returns, and until the next
                                   Reset starts, fn is not running and does not start
           (c) FnNeedsLiveReset    the callback's isPending test passes only after a Reset section that no
                                   Stop section followed; OncePerReset: at most one fn start per Reset
           (d) StoppedNotPending   isPending is false after a Stop section until the next Reset section
           (e) ResetLeadsToFn / RunsOnceThenRests (fair specification, P2pkeTimer_live.cfg): a Reset that no
                                   Stop follows leads to fn running, after which the timer rests
         P2pkeTimerGen.tla enumerates schedules (sequences of groups of operations released together);
         harness/cmd/timerreplay runs them (-mode replay, each with a fast and a 2 ms fn) and seeded
         random goroutines (-mode hammer) on the real Timer; P2pkeTimerTrace.tla evaluates (a)-(d) on
         the logged call / ret / fs / fe history (interval logic, one atomic counter, no wall clock).
         (e) is only observed as a DRIFT (ResetLeadsToFn: a wait of 80x the delay saw no fn).
 topology p2ptest/topology.go  Topology.tla states the edge sets MakeChain / MakeRing / MakeCluster /
         MakeHubAndSpoke must produce and TLC checks their laws (symmetric, no self-loop, connected for
         n >= 1, edge counts, degrees) for n in 0..6 (0..9 thorough); TopologyTrace.tla compares the
         real adjacency lists (also: no duplicate edge, in range, one row per node).
 bitmap  p/mbapp/bitmap.go    MbappBitmap.tla (bytes and masks as coded) against the set of indices, n in
         0..17; every model state is built on the real bitMap and probed (every get, allSet, len, one
         more set(i, v) for every i in -1..n); MbappBitmapTrace.tla compares.

Mutants of timer.go (applied in a scratch worktree, replayer built with VERIF_REPO; quick-tier inputs,
seed 1) -- all caught:
  M1 StopSync without runMu (Stop; Stop)              QuietAfterStopSync   replay 10 / hammer 51 events
  M2 callback does not re-test isPending              QuietAfterStopSync   hammer 4 (replay: none)
  M3 Stop does not clear isPending                    StoppedNotPending    replay 6 / hammer 50 (+ Quiet.. 2)
  M4 callback does not take runMu                     QuietAfterStopSync   replay 5 / hammer 34
Mutants of the other two pieces -- caught:
  bitmap.go allSet comparing whole bytes with 0xff    AllSetIff / SetThenAllSet (144 events, every n % 8 != 0)
  topology.go Ring without "prev != next"             NoDuplicateEdge (ring, n = 2)
Model observation (not a law, nothing in /repo relies on it): fn can run EARLIER than d after the latest
Reset(d), because a callback already in flight from an earlier Reset consumes the new isPending.

Verdict policy (BUILDING.md): VIOLATION only when the real code falsifies a law operator evaluated by TLC
in a trace specification; DRIFT when it merely differs from the as-coded model; model-only
counterexamples, build errors and timeouts are INCONCLUSIVE.
"""
import json
import os
import time
from concurrent.futures import ThreadPoolExecutor

from . import core

EXTRA = ["G08"]
PID = "G08"

TIERS = {
    "quick": dict(timer_mc=[("P2pkeTimer_q.cfg", 2), ("P2pkeTimer_live.cfg", 1)], gen="P2pkeTimerGen_2.cfg", gen3=0,
                  hammer=dict(behs=4, g=4, ops=60), hammer_runs=1,
                  bm_cases="MbappBitmap_q.cfg", bm_mc=["MbappBitmap_full.cfg"]),
    "thorough": dict(timer_mc=[("P2pkeTimer_q.cfg", 2), ("P2pkeTimer_live.cfg", 1), ("P2pkeTimer_deep.cfg", 2)],
                     gen="P2pkeTimerGen_2.cfg", gen3=400, hammer=dict(behs=8, g=6, ops=80), hammer_runs=3,
                     bm_cases="MbappBitmap_t.cfg", bm_mc=["MbappBitmap_full.cfg", "MbappBitmap_deep.cfg"]),
}


class Stats:
    def __init__(self):
        self.mc, self.cases, self.events, self.trace_states, self.drift, self.samples = {}, {}, {}, {}, [], []


def _mc(stats, name, module, cfg, workers=2, timeout=900, short=True):
    res = core.tlc(module, cfg, workers=workers, timeout=timeout, short=short, label="mc-" + name.replace("/", "-"), heap="2g")
    core.tlc_ok_or_inconclusive(res, "MC " + name)
    stats.mc[name] = dict(states=res.distinct, transitions=res.generated, depth=res.depth, wall=round(res.wall, 1))
    return res


def _timer_trace(stats, name, tr, scheds=None):
    tv = core.validate_trace("P2pkeTimerTrace", "P2pkeTimerTrace.cfg", tr, nshards=1)
    stats.events[name] = tv["events"]
    stats.trace_states[name] = tv["states"]
    viol = []
    lines = open(tr).readlines() if (tv["viol"] or tv["drift"]) else None
    for _t, ln, bid, ops in tv["viol"]:
        ev = json.loads(lines[ln - 1])
        lo = ln - 1
        while lo > 0 and ln - lo < 40 and json.loads(lines[lo - 1])["beh"] == bid:
            lo -= 1
        hist = [json.loads(x) for x in lines[lo:ln]]
        for op in ops:
            ctx = "timer/%s/%s" % (name.split("/")[1].split("-")[0], ev["op"] if ev["ev"] != "fs" else "fn-start")
            viol.append(("G08:%s:%s" % (op, ctx),
                         "%s false on the real p2pke.Timer (%s, behaviour %d, log line %d: %s); the preceding events of the behaviour: %s"
                         % (op, name, bid, ln, json.dumps(ev), json.dumps([[h["seq"], h["ev"], h["op"], h["id"], h["res"]] for h in hist])[:1500]),
                         dict(piece="timer", source=name, schedule=(scheds or {}).get(bid), event=ev, operator=op, history=hist)))
    for _t, ln, bid, what in tv["drift"]:
        stats.drift.append(dict(piece="timer", source=name, behaviour=bid, what=what, event=json.loads(lines[ln - 1])))
    return viol


def run_timer(tier, binp, d, stats):
    T = TIERS[tier]
    viol = []
    with ThreadPoolExecutor(max_workers=3) as ex:
        side = [ex.submit(_mc, stats, "timer/" + cfg, "P2pkeTimer", cfg, w, 900, cfg != "P2pkeTimer_deep.cfg") for cfg, w in T["timer_mc"]]
        gen = _mc(stats, "timer/" + T["gen"], "P2pkeTimerGen", T["gen"], 1)
        groups = [x[1] for x in gen.printed("SCHED")]
        if len(groups) != gen.distinct - 1 or not groups:
            raise core.Inconclusive("P2pkeTimerGen: %d schedules printed for %d states" % (len(groups), gen.distinct))
        if T["gen3"]:
            g3 = _mc(stats, "timer/P2pkeTimerGen_3.cfg", "P2pkeTimerGen", "P2pkeTimerGen_3.cfg", 1)
            long3 = [x[1] for x in g3.printed("SCHED") if len(x[1]) == 3]
            stride = max(1, len(long3) // T["gen3"])
            groups += [g for i, g in enumerate(long3) if (i + core.seed()) % stride == 0]
        scheds = []
        for g in groups:
            for slow in (False, True):
                scheds.append(dict(id=len(scheds) + 1, slow=slow, groups=g))
        stats.cases["timer/schedules"] = len(scheds)
        cp, tr = os.path.join(d, "sched.ndjson"), os.path.join(d, "replay.trace")
        with open(cp, "w") as f:
            for s in scheds:
                f.write(json.dumps(s) + "\n")
        out = core.run([binp, "-mode", "replay", "-in", cp, "-out", tr, "-par", "8"], timeout=900)
        core.log("timerreplay replay: " + out.strip())
        byid = {s["id"]: s for s in scheds}
        futs = [ex.submit(_timer_trace, stats, "timer/replay", tr, byid)]
        H = T["hammer"]
        for k in range(T["hammer_runs"]):
            hs = core.seed() * 10 + k
            htr = os.path.join(d, "hammer%d.trace" % k)
            out = core.run([binp, "-mode", "hammer", "-seed", str(hs), "-behs", str(H["behs"]), "-g", str(H["g"]),
                            "-ops", str(H["ops"]), "-out", htr], timeout=600)
            core.log("timerreplay hammer seed=%d: %s" % (hs, out.strip()))
            stats.cases["timer/hammer-seed=%d-behaviours" % hs] = H["behs"]
            futs.append(ex.submit(_timer_trace, stats, "timer/hammer-seed=%d" % hs, htr))
        for f in futs:
            viol += f.result()
        for f in side:
            f.result()
    stats.samples.append(dict(piece="timer", schedule=scheds[min(40, len(scheds) - 1)]))
    return viol


def run_bitmap(tier, binp, d, stats):
    T = TIERS[tier]
    with ThreadPoolExecutor(max_workers=2) as ex:
        side = [ex.submit(_mc, stats, "bitmap/" + cfg, "MbappBitmap", cfg, 2, 1500, cfg != "MbappBitmap_deep.cfg") for cfg in T["bm_mc"]]
        res = _mc(stats, "bitmap/" + T["bm_cases"], "MbappBitmap", T["bm_cases"], 1)
        seen = {(c[1], tuple(sorted(c[2]))) for c in res.printed("CASE")}
        if not seen:
            raise core.Inconclusive("MbappBitmap: no cases printed")
        stats.cases["bitmap/model-states"] = len(seen)
        for n in range(18):     # the full bitmaps and those that miss one index (allSet at every n)
            seen.add((n, tuple(range(n))))
            for k in range(n):
                seen.add((n, tuple(x for x in range(n) if x != k)))
        cases = [dict(id=i + 1, n=n, s=list(s)) for i, (n, s) in enumerate(sorted(seen))]
        stats.cases["bitmap/cases"] = len(cases)
        cp, tr = os.path.join(d, "bm.ndjson"), os.path.join(d, "bm.trace")
        with open(cp, "w") as f:
            for c in cases:
                f.write(json.dumps(c) + "\n")
        out = core.run([binp, "-mode", "bitmap", "-in", cp, "-out", tr], timeout=600)
        core.log("timerreplay bitmap: " + out.strip())
        tv = core.validate_trace("MbappBitmapTrace", "MbappBitmapTrace.cfg", tr, nshards=1)
        for f in side:
            f.result()
    stats.events["bitmap"] = tv["events"]
    stats.trace_states["bitmap"] = tv["states"]
    viol = []
    lines = open(tr).readlines()
    if len(lines) != len(cases):
        raise core.Inconclusive("bitmap: %d events for %d cases" % (len(lines), len(cases)))
    for _t, ln, _b, ops in tv["viol"]:
        ev = json.loads(lines[ln - 1])
        for op in ops:
            viol.append(("G08:%s:bitmap/n%%8=%d" % (op, ev["n"] % 8),
                         "%s false on the real mbapp.bitMap: n=%d set=%s -> len=%s buf=%s gets=%s allSet=%s outOfRangePanics=%s %s"
                         % (op, ev["n"], ev["s"], ev["len"], ev["buf"], ev["gets"], ev["allSet"], ev["oorPanic"], ev["broken"]),
                         dict(piece="bitmap", case=cases[ln - 1], event=ev, operator=op)))
    for _t, ln, _b, what in tv["drift"]:
        ev = json.loads(lines[ln - 1])
        stats.drift.append(dict(piece="bitmap", what=what, n=ev["n"], s=ev["s"], buf=ev["buf"]))
    stats.samples.append(dict(piece="bitmap", case=cases[len(cases) // 2]))
    return viol


def run_topology(tier, binp, d, stats):
    cfg, maxn = ("Topology_q.cfg", 6) if tier == "quick" else ("Topology_deep.cfg", 9)
    _mc(stats, "topology/" + cfg, "Topology", cfg, 1)
    tr = os.path.join(d, "topo.trace")
    out = core.run([binp, "-mode", "topology", "-maxn", str(maxn), "-out", tr], timeout=300)
    core.log("timerreplay topology: " + out.strip())
    tv = core.validate_trace("TopologyTrace", "TopologyTrace.cfg", tr, nshards=1)
    stats.cases["topology/cases"] = stats.events["topology"] = tv["events"]
    stats.trace_states["topology"] = tv["states"]
    viol = []
    lines = open(tr).readlines()
    for _t, ln, _b, ops in tv["viol"]:
        ev = json.loads(lines[ln - 1])
        for op in ops:
            viol.append(("G08:%s:topology/%s" % (op, ev["kind"]),
                         "%s false on the real p2ptest topology constructor: kind=%s n=%d -> %s%s"
                         % (op, ev["kind"], ev["n"], ev["adj"], " (panic)" if ev["panic"] else ""),
                         dict(piece="topology", event=ev, operator=op)))
    stats.samples.append(dict(piece="topology", event=json.loads(lines[10])))
    return viol


PIECES = {"timer": run_timer, "bitmap": run_bitmap, "topology": run_topology}


def check(pid, tier, replay=None):
    t0 = time.time()
    pieces = list(PIECES)
    if replay:
        with open(replay) as f:
            pieces = [json.load(f)["payload"]["piece"]]
    stats = Stats()
    d = core.scratch("g08")
    binp = core.go_build("timerreplay")
    found, errs = [], []
    with ThreadPoolExecutor(max_workers=3) as ex:
        futs = {p: ex.submit(PIECES[p], tier, binp, d, stats) for p in pieces}
        for p, f in futs.items():
            try:
                found += f.result()
            except core.Inconclusive as e:
                errs.append("%s: %s" % (p, e))
    if errs:
        raise core.Inconclusive("\n".join(errs))
    mine, seen = [], set()
    recorded = {k.get("key") for k in core.known_findings() if k.get("status", "open") == "open"}
    for key, what, payload in found:
        if key in seen:
            continue
        seen.add(key)
        mine.append(core.Violation(PID, key, what, None if key in recorded else core.write_replay(PID, key, payload)))
    if stats.drift:
        print("DRIFT component=G08 steps=%d (model and code disagree on steps that falsify no law) e.g. %s"
              % (len(stats.drift), json.dumps(stats.drift[:2])[:1500]))
    coverage = dict(
        states=max(1, sum(v["states"] for v in stats.mc.values())),
        transitions=max(1, sum(v["transitions"] for v in stats.mc.values())),
        traces_validated_against_impl=sum(v for k, v in stats.cases.items() if k in ("timer/schedules", "bitmap/cases", "topology/cases") or k.startswith("timer/hammer")),
        samples=stats.samples[:4] or [dict(note="replay run")],
        evaluations=sum(stats.events.values()),
        distinct_nontrivial=sum(stats.trace_states.values()),
        rule="evaluations = trace events validated by TLC (a call / ret / fn-start / fn-end event of the real Timer, or one bitmap "
             "state with all its probes); distinct_nontrivial = distinct states of the trace specifications (log position + monitor state)",
        model_checking=stats.mc, cases=stats.cases, events=stats.events, drift_steps=len(stats.drift), pieces=pieces, exhaustive=False,
        explanation="TLC checks P2pkeTimer.tla (safety, and liveness under weak fairness), MbappBitmap.tla and Topology.tla exhaustively within the bounds "
                    "of the listed configs; timerreplay executes TLC-generated schedules and seeded random goroutines on the real p2pke.Timer "
                    "and every bitmap model state on the real mbapp.bitMap; the trace specifications evaluate the law operators on the logs")
    core.write_evidence(PID, tier, "model_checking", coverage,
                        ["timer: 2 caller threads x 3 operations (3 x 3 in the thorough tier) and any number of callback goroutines in the model; "
                         "the real Timer's fields are not observed: laws are evaluated with interval logic (call before / ret after, one atomic counter), "
                         "which is sound but weaker than the model's invariants (a Stop that is not a clean StopSync bounds nothing about a later fn start)",
                         "timer: Reset delays are 1 ms (schedules) and 0-60 us (hammer), fn takes 0 / 2 ms (schedules) or up to 1 ms (hammer); "
                         "liveness (e) is model-checked; on the real code it is only a DRIFT after an 80 ms wait",
                         "topology: n in 0..6 (quick) / 0..9 (thorough); the order of a node's neighbours is not constrained",
                         "bitmap: n in 0..17; negative n is not exercised; a negative index is only required to panic",
                         "TLC, the Json/IOUtils community modules and the Go toolchain are trusted"],
                        time.time() - t0, len(mine))
    return core.verdict(PID, mine)
