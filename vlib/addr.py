"""C16: every address a swarm produces survives marshal and parse (spec/Addr.tla, AddrTrace.tla).

The TLA+ technique applies here in its weaker form (DESIGN section 9): the specification is an
exhaustive, structured CASE GENERATOR plus the law oracle.

 1. TLC enumerates every abstract address of the grammar (Addr.tla: nesting depth <= 3 over token
    classes) and checks the grammar-level laws RoundTripLaw / ParseTotalLaw on Marshal / Parse written
    the way the code does it; every case is printed as JSON together with what the model says.
 2. harness/cmd/codecreplay -mode addr concretises each class with seeded instances (variant 0 is
    the model's own representative), builds the real nested swarm for the address's shape and runs
    the real MarshalText / ParseAddr; seeded text mutations exercise ParseTotal.
    -mode harvest runs real swarm stacks (mem, udp v4/v6/dual-stack, p2pke, quic, ssh, multiswarm and
    nestings) and round-trips LocalAddrs and the Src/Dst of delivered messages in both directions.
 3. TLC evaluates the laws on the observations (AddrTrace.tla).  VIOLATION only for a law that is
    false on what the real code returned; disagreement between model and code is DRIFT.
"""
import json
import os
import time

from . import core, tlcretry

PROPERTIES = ["C16"]

MANIFEST = {
    "C16": dict(level="exploration",
                technique="TLA+ grammar spec (Addr.tla) as exhaustive structured case generator + law oracle; cases concretised and run through the real MarshalText/ParseAddr of real nested swarms; addresses harvested from running swarms; observations evaluated by TLC (AddrTrace.tla)",
                text="TLC enumerates every abstract address (mem | host:port | fp@ip:port | id@inner | scheme://inner, nesting <= 3, boundary token classes) and checks Parse(Marshal(a)) = a on the grammar-level model; each case is concretised with seeded instances and round-tripped through the real (nested) swarm's codec, seeded text mutations check ParseTotal, and LocalAddrs/Src/Dst harvested from running mem/udp/p2pke/quic/ssh/multiswarm stacks (both directions) are round-tripped. A VIOLATION is printed only when a law is false on real observations.",
                note="Exploration, not model checking: the grammar-level law is exhaustive over the class space, byte-level fidelity is sampled per class (seeded). IP validity is modelled at the level of shapes netip accepts. Scheme names containing '://' and empty scheme names, and fingerprints outside ssh.FingerprintSHA256's alphabet, are outside the property's quantifier (ParseTotal only). Trusts TLC, the Json/IOUtils modules, the Go toolchain.",
                ref="5 (C16), 3.11, 9"),
}

TIERS = {
    "quick": dict(cfg="AddrGen.cfg", variants=2, muts=1, shards=1, selftest_model=False),
    "thorough": dict(cfg="AddrGen_rich.cfg", variants=6, muts=2, shards=8, selftest_model=True),
}

TRIVIAL_IPS = {"v4", "v4lo"}


def depth(a):
    return 1 + (depth(a["inner"]) if a.get("inner") else 0)


def class_key(a):
    k = a["k"]
    if k == "mem":
        return "mem[%d]" % a["n"]
    if k == "udp":
        return "udp[%s,%d]" % (a["ip"], a["port"])
    if k == "ssh":
        return "ssh[%s,%s,%d]" % (a["fp"], a["ip"], a["port"])
    if k in ("ke", "quic"):
        return "%s[%s]/%s" % (k, a["id"], class_key(a["inner"]))
    return 'multi["%s"]/%s' % (a["scheme"].replace("\\", "\\\\").replace('"', '\\"'), class_key(a["inner"]))


def nontrivial(a):
    if depth(a) >= 2:
        return True
    if a["k"] == "udp":
        return a["ip"] not in TRIVIAL_IPS
    if a["k"] == "ssh":
        return a["ip"] not in TRIVIAL_IPS or a["fp"] != "alnum"
    return a["n"] not in (0, 1)


def culprit(a, failing):
    """Smallest sub-address of a that fails on its own, named by the token class that matters."""
    cur = a
    while cur.get("inner") and class_key(cur["inner"]) in failing:
        cur = cur["inner"]
    k = cur["k"]
    if k == "udp":
        return "udp/ip=%s" % cur["ip"]
    if k == "ssh":
        base = dict(cur, fp="alnum")
        if cur["fp"] != "alnum" and class_key(base) not in failing:
            return "ssh/fp=%s" % cur["fp"]
        return "ssh/ip=%s" % cur["ip"]
    if k == "mem":
        return "mem/n=%d" % cur["n"]
    if k in ("ke", "quic"):
        return "%s/id=%s" % (k, cur["id"])
    return "multi/scheme=%s" % cur["scheme"]


def generate(tier, d, stats):
    T = TIERS[tier]
    res = tlcretry.tlc("Addr", T["cfg"], workers=4, timeout=900, label="addr-gen", short=(tier == "quick"))
    core.tlc_ok_or_inconclusive(res, "Addr.tla (laws + case generation)")
    cases = []
    for i, v in enumerate(res.printed("CASE")):
        cases.append(dict(id=i + 1, a=v[1], reach=v[2], mrt=v[3], mtext=v[4]))
    if len(cases) != res.distinct or not cases:
        raise core.Inconclusive("Addr generator printed %d cases for %d states" % (len(cases), res.distinct))
    stats["model"] = dict(states=res.distinct, transitions=res.generated, wall=round(res.wall, 1), cfg=T["cfg"])
    if T["selftest_model"]:
        # anti-vacuity: the pinned design (no brackets, no '+') must violate the law in the model
        r2 = tlcretry.tlc("Addr", "Addr_orig.cfg", workers=2, timeout=300, label="addr-orig", short=True)
        if "RoundTripLaw" not in r2.violated:
            raise core.Inconclusive("self-test: Addr_orig.cfg (pinned design) does not violate RoundTripLaw")
        stats["model_selftest"] = "pinned design (F14/F15) violates RoundTripLaw in the model, as expected"
    return cases


def run_pipeline(tier, cases=None, harvest=True, seed=None):
    t0 = time.time()
    T = TIERS[tier]
    seed = core.seed() if seed is None else seed
    stats = dict(events=0, drift=0, drift_samples=[])
    d = core.scratch("addr")
    # developer override used by the mutant self-test: a codecreplay binary built against a scratch copy of /repo
    binp = os.environ.get("VERIF_PREBUILT_CODECREPLAY") or core.go_build("codecreplay")
    if cases is None:
        cases = generate(tier, d, stats)
        variants, muts = T["variants"], T["muts"]
    else:
        variants, muts = max(T["variants"], 2), T["muts"]
    by_id = {c["id"]: c for c in cases}
    trace = os.path.join(d, "trace.ndjson")
    with open(trace, "w") as out:
        if cases:
            cp = os.path.join(d, "cases.ndjson")
            with open(cp, "w") as f:
                for c in cases:
                    f.write(json.dumps(c) + "\n")
            tr = os.path.join(d, "gen.ndjson")
            o = core.run([binp, "-mode", "addr", "-in", cp, "-out", tr, "-seed", str(seed),
                          "-variants", str(variants), "-muts", str(muts)], timeout=1500)
            core.log("codecreplay addr:", o.strip().splitlines()[-1])
            out.write(open(tr).read())
        if harvest:
            tr = os.path.join(d, "harvest.ndjson")
            o = core.run([binp, "-mode", "harvest", "-out", tr, "-fpout", os.path.join(d, "fp.ndjson")], timeout=600)
            core.log("codecreplay harvest:", o.strip().splitlines()[-1])
            out.write(open(tr).read())
    lines = open(trace).read().splitlines()
    events = [json.loads(l) for l in lines]
    # binding demonstration (DESIGN section 8): corrupted copies of real events must be rejected
    selftest_lines = {}
    with open(trace, "a") as out:
        for want, pred, mut in (("RoundTrip", lambda e: e["ev"] == "rt" and e["reach"] and e["eq"], dict(eq=False)),
                                ("ParseTotal", lambda e: not e.get("perr") and e.get("eq2"), dict(eq2=False)),
                                ("NoPanic", lambda e: e["ev"] in ("rt", "pt"), dict(panic=True))):
            src = next((e for e in events if pred(e)), None)
            if src is None:
                continue
            e2 = dict(src, **mut)
            e2["src"] = "selftest"
            lines.append(json.dumps(e2))
            out.write(lines[-1] + "\n")
            selftest_lines[len(lines)] = want
    res = tlcretry.validate_trace("AddrTrace", "AddrTrace.cfg", trace, nshards=T["shards"], timeout=1500)
    stats["events"] = len(events)
    stats["trace_states"] = res["states"]
    seen_selftest = set()
    viol = []
    for _tag, lineno, _case, ops in res["viol"]:
        if lineno in selftest_lines:
            if selftest_lines[lineno] in ops:
                seen_selftest.add(lineno)
            continue
        viol.append((lineno, ops))
    if len(seen_selftest) != len(selftest_lines):
        raise core.Inconclusive("binding self-test: AddrTrace did not reject the corrupted events %s" % sorted(set(selftest_lines) - seen_selftest))
    stats["binding_selftest"] = "%d corrupted events rejected" % len(selftest_lines)
    for dr in res["drift"]:
        if dr[1] in selftest_lines:
            continue
        stats["drift"] += 1
        if len(stats["drift_samples"]) < 3:
            e = events[dr[1] - 1]
            stats["drift_samples"].append(dict(line=dr[1], what=dr[3], classes=e.get("classes"), text=e.get("text"), mtext=e.get("mtext")))
    # which class-level sub-addresses fail on their own (for naming the culprit)
    failing = set()
    for e in events:
        if e["ev"] == "rt" and e["src"] == "gen" and (e["merr"] or e["perr"] or not e["eq"]):
            failing.add(e["classes"])
    violations = []
    for lineno, ops in viol:
        e = events[lineno - 1]
        for op in ops:
            if e["src"] == "harvest":
                site = e["site"] + ("(reply)" if "reply" in e["dir"] and e["site"] == "Dst" else "")
                key = "C16:%s:harvest/%s/%s" % (op, e["stack"].split("/")[0], site)
                what = "%s false for the %s (%s) of a message/swarm on stack %s: text %r, parse error %r" % (
                    op, e["site"], e["dir"], e["stack"], e["text"], e["perrmsg"])
                payload = dict(mode="harvest", event=e)
            else:
                c = by_id[e["case"]]
                if op == "RoundTrip":
                    key = "C16:RoundTrip:" + culprit(c["a"], failing)
                else:
                    key = "C16:%s:%s" % (op, e["shape"])
                what = "%s false on the real %s codec: classes %s, text %r%s" % (
                    op, e["shape"], e["classes"], e["text"],
                    (", panic: " + e["panicv"]) if e["panic"] else (", parse error: " + e["perrmsg"]) if e["perr"] else "")
                payload = dict(mode="gen", case=c, seed=seed, variants=variants, event=e)
            violations.append((key, what, payload))
    skips = [e for e in events if e["ev"] == "skip"]
    stats["harvest_skipped"] = [e["stack"] + ": " + e["perrmsg"] for e in skips]
    harvested = [e for e in events if e["src"] == "harvest" and e["ev"] == "rt"]
    if harvest and len(harvested) < 40:
        raise core.Inconclusive("harvest produced only %d addresses (%s)" % (len(harvested), stats["harvest_skipped"]))
    texts = set()
    for e in events:
        if e["ev"] == "skip":
            continue
        if e["src"] == "harvest" or e["ev"] == "pt" or nontrivial(by_id[e["case"]]["a"]):
            texts.add(e["text"])
    stats["distinct_nontrivial"] = len(texts)
    stats["harvested"] = len(harvested)
    stats["cases"] = len(cases)
    stats["shapes"] = len({e["shape"] for e in events if e.get("shape")})
    stats["samples"] = [dict(abstract=c["a"], model_text=c["mtext"], reachable=c["reach"]) for c in cases[:: max(1, len(cases) // 3)][:3]] + \
                       [dict(harvested=e["text"], stack=e["stack"], site=e["site"], dir=e["dir"]) for e in harvested[:: max(1, len(harvested) // 2)][:2]]
    stats["wall"] = time.time() - t0
    return stats, violations


def check(pid, tier, replay=None):
    t0 = time.time()
    if replay:
        with open(replay) as f:
            rp = json.load(f)["payload"]
        if rp.get("mode") == "gen":
            stats, violations = run_pipeline(tier, cases=[rp["case"]], harvest=False, seed=rp.get("seed"))
        else:
            stats, violations = run_pipeline(tier, cases=[], harvest=True)
    else:
        stats, violations = run_pipeline(tier)
    mine = []
    for key, what, payload in violations:
        mine.append(core.Violation(pid, key, what, core.write_replay(pid, key, payload)))
    if stats["drift"]:
        print("DRIFT component=Addr events=%d (model and code disagree without falsifying a law) e.g. %s"
              % (stats["drift"], json.dumps(stats["drift_samples"][:2])))
    m = stats.get("model", dict(states=0, transitions=0))
    coverage = dict(
        evaluations=stats["events"], distinct_nontrivial=max(stats["distinct_nontrivial"], 0),
        rule="evaluations = marshal/parse round trips executed on real swarm codecs (TLC cases x seeded instances, "
             "mutated texts, harvested addresses); distinct_nontrivial = distinct texts among them that are harvested, mutated, "
             "nested (depth >= 2) or use a non-baseline token class (anything but IPv4 / alphanumeric fingerprint / mem 0,1)",
        samples=stats.get("samples") or [dict(note="replay run")],
        states=m["states"], transitions=m["transitions"], traces_validated_against_impl=stats["events"],
        abstract_cases=stats.get("cases", 0), shapes=stats.get("shapes", 0), harvested=stats.get("harvested", 0),
        harvest_skipped=stats.get("harvest_skipped", []), drift_events=stats["drift"],
        model=stats.get("model", {}), model_selftest=stats.get("model_selftest", "not run in this tier"),
        binding_selftest=stats.get("binding_selftest", ""), exhaustive=False,
        explanation="exhaustive over the abstract class space of Addr.tla within nesting depth 3 (grammar-level law checked by TLC); "
                    "concrete byte strings are sampled per class")
    core.write_evidence(pid, tier, "exploration", coverage,
                        ["netip/net/regexp/strconv are modelled at grammar level only",
                         "equality oracle: reflect.DeepEqual on the address values (interface-typed inner addresses compare dynamically)",
                         "harvest needs loopback IPv4/IPv6 UDP and TCP; stacks that cannot be set up are listed, not failed",
                         "TLC, the Json/IOUtils community modules and the Go toolchain are trusted"],
                        time.time() - t0, len(mine))
    return core.verdict(pid, mine)
