"""Shared machinery for the /verif checks: TLC runs, Go builds, trace validation,
evidence files, known findings and the final verdict."""
import atexit
import hashlib
import json
import os
import re
import shutil
import subprocess
import sys
import tempfile
import time
from concurrent.futures import ThreadPoolExecutor

ROOT = os.path.dirname(os.path.dirname(os.path.abspath(__file__)))
SPEC = os.path.join(ROOT, "spec")
HARNESS = os.path.join(ROOT, "harness")
EVIDENCE = os.environ.get("VERIF_EVIDENCE_DIR", os.path.join(ROOT, "evidence"))
REPLAYS = os.path.join(ROOT, "replays") if "VERIF_EVIDENCE_DIR" not in os.environ else os.path.join(os.environ["VERIF_EVIDENCE_DIR"], "replays")
REPO = os.environ.get("VERIF_REPO", "/repo")
TLA_CP = "/opt/veriftools/tla/tla2tools.jar:/opt/veriftools/tla/CommunityModules-deps.jar"
NCPU = os.cpu_count() or 4


class Inconclusive(Exception):
    """Infrastructure failure: exit 2, never a violation."""


def goenv():
    env = dict(os.environ)
    env.update(GOFLAGS="-mod=mod", GOPROXY="off", GOSUMDB="off", GOTOOLCHAIN="local")
    env.setdefault("GOCACHE", os.path.expanduser("~/.cache/go-build"))
    return env


_scratch_root = None


def scratch(name=""):
    """A fresh scratch directory outside /repo and /verif, removed at exit."""
    global _scratch_root
    if _scratch_root is None:
        base = os.environ.get("VERIF_TMP", tempfile.gettempdir())
        _scratch_root = tempfile.mkdtemp(prefix="verif-", dir=base)
        atexit.register(lambda: shutil.rmtree(_scratch_root, ignore_errors=True))
    d = tempfile.mkdtemp(prefix=(name + "-") if name else "d-", dir=_scratch_root)
    return d


def seed():
    try:
        return int(os.environ.get("VERIF_SEED", "1"))
    except ValueError:
        return 1


_T0 = time.time()


def log(*a):
    print("[%6.1fs]" % (time.time() - _T0), *a, file=sys.stderr, flush=True)


# ----------------------------------------------------------------------------
# TLC

class TLCResult:
    def __init__(self, out, rc, wall):
        self.out = out
        self.rc = rc
        self.wall = wall
        self.generated = 0
        self.distinct = 0
        self.depth = 0
        m = re.search(r"(\d+) states generated, (\d+) distinct states found", out)
        if m:
            self.generated, self.distinct = int(m.group(1)), int(m.group(2))
        m = re.search(r"The number of states generated: (\d+)", out)
        if m and not self.generated:
            self.generated = int(m.group(1))
        m = re.search(r"depth of the complete state graph search is (\d+)", out)
        if m:
            self.depth = int(m.group(1))
        self.completed = "Model checking completed. No error has been found." in out
        self.sim_done = "Simulation using seed" in out or "traces generated" in out
        self.violated = re.findall(r"Invariant (\S+) is violated", out)
        self.violated += re.findall(r"Action property (\S+) is violated", out)
        if "Temporal properties were violated" in out:
            self.violated.append("<temporal>")
        self.post_failed = "POSTCONDITION" in out.upper() and "violated" in out and "ostcondition" in out
        self.errors = [l for l in out.splitlines() if l.startswith("Error:")]

    def printed(self, tag):
        """Values printed as PrintT(ToJson(<<tag, ...>>)) -> list of python lists."""
        res = []
        for line in self.out.splitlines():
            line = line.strip()
            if not line.startswith('"[\\"' + tag + '\\"'):
                continue
            try:
                res.append(json.loads(json.loads(line)))
            except Exception:
                raise Inconclusive("unparsable TLC output line: " + line[:200])
        return res


def tlc(module, cfg, *, workers=1, simulate=None, depth=None, tlc_seed=None, env=None,
        timeout=600, extra=(), heap="4g", coverage=False, label=None, short=False, young="256m", files=None):
    """Run TLC on a copy of the spec directory in scratch space."""
    d = scratch(label or module)
    for f in os.listdir(SPEC):
        if f.endswith(".tla") or f.endswith(".cfg"):
            shutil.copy(os.path.join(SPEC, f), d)
    for name, content in (files or {}).items():
        with open(os.path.join(d, name), "w") as f:
            f.write(content)
    # Page faults are slow and globally serialized in this sandbox: keep the young generation small
    # (eden pages are then reused instead of freshly touched) and JIT cheaply for short jobs.
    if short:
        jvm = ["-XX:+UseSerialGC", "-XX:TieredStopAtLevel=1", "-Xmn64m"]
    else:
        jvm = ["-XX:+UseParallelGC", "-XX:ParallelGCThreads=4", "-Xmn" + young]
    cmd = ["java"] + jvm + ["-Xss64m", "-Xmx" + heap, "-cp", TLA_CP, "tlc2.TLC", "-workers", str(workers), "-metadir", os.path.join(d, "meta"),
           "-config", cfg]
    if simulate is not None:
        cmd += ["-simulate", "num=%d" % simulate]
    if depth is not None:
        cmd += ["-depth", str(depth)]
    if tlc_seed is not None:
        cmd += ["-seed", str(tlc_seed)]
    if coverage:
        cmd += ["-coverage", "1"]
    cmd += list(extra)
    cmd.append(module if module.endswith(".tla") else module + ".tla")
    e = dict(os.environ)
    if env:
        e.update(env)
    t0 = time.time()
    for attempt in range(3):
        try:
            p = subprocess.run(cmd, cwd=d, env=e, stdout=subprocess.PIPE, stderr=subprocess.STDOUT,
                               timeout=timeout, text=True, errors="replace")
        except subprocess.TimeoutExpired:
            raise Inconclusive("TLC timeout after %ds: %s %s" % (timeout, module, cfg))
        # a JVM killed from outside (SIGTERM/SIGKILL by another job on this machine) is simply run again
        if p.returncode in (-15, -9, 137, 143, 144) and "Finished in" not in p.stdout:
            log("tlc %s %s was killed from outside (rc=%d), retrying" % (module, cfg, p.returncode))
            shutil.rmtree(os.path.join(d, "meta"), ignore_errors=True)
            continue
        break
    res = TLCResult(p.stdout, p.returncode, time.time() - t0)
    log("tlc %s %s%s: %.1fs gen=%d distinct=%d" % (module, cfg, (" [" + label + "]") if label else "", res.wall, res.generated, res.distinct))
    shutil.rmtree(d, ignore_errors=True)
    return res


def tlc_ok_or_inconclusive(res, what):
    """A model-checking run of the specification itself must complete cleanly."""
    if res.violated:
        raise Inconclusive("%s: the MODEL violates %s (model-only counterexample, not a verdict on the code)\n%s"
                           % (what, res.violated, res.out[-3000:]))
    if not (res.completed or res.sim_done) or res.errors:
        raise Inconclusive("%s: TLC did not complete cleanly\n%s" % (what, res.out[-3000:]))


# ----------------------------------------------------------------------------
# Go

_harness_copy = None


def harness_dir():
    """The harness module. Checks always build against /repo (the replace directive in harness/go.mod).
    For evaluating a seeded change in a scratch worktree without touching /repo, VERIF_REPO=<dir> builds a
    scratch copy of the harness whose replace directive points there (developer use only)."""
    global _harness_copy
    if REPO == "/repo":
        return HARNESS
    if _harness_copy is None:
        d = os.path.join(scratch("harness"), "harness")
        shutil.copytree(HARNESS, d)
        gm = open(os.path.join(d, "go.mod")).read().replace("=> /repo", "=> " + REPO)
        open(os.path.join(d, "go.mod"), "w").write(gm)
        _harness_copy = d
    return _harness_copy


def go_build(pkg, race=False, tags="verif"):
    """Build harness command ./cmd/<pkg> against the repository's current working tree."""
    out = os.path.join(scratch("bin"), pkg + ("-race" if race else ""))
    hd = harness_dir()
    shutil.copy(os.path.join(REPO, "go.sum"), os.path.join(hd, "go.sum"))
    cmd = ["go", "build", "-tags", tags]
    if race:
        cmd.append("-race")
    cmd += ["-o", out, "./cmd/" + pkg]
    p = subprocess.run(cmd, cwd=hd, env=goenv(), stdout=subprocess.PIPE, stderr=subprocess.STDOUT, text=True)
    if p.returncode != 0:
        raise Inconclusive("go build %s failed:\n%s" % (pkg, p.stdout[-4000:]))
    return out


def run(cmd, timeout=600, env=None, cwd=None, ok_codes=(0,)):
    try:
        p = subprocess.run(cmd, stdout=subprocess.PIPE, stderr=subprocess.STDOUT, text=True, errors="replace",
                           timeout=timeout, env=env, cwd=cwd)
    except subprocess.TimeoutExpired:
        raise Inconclusive("timeout: " + " ".join(cmd[:3]))
    if p.returncode not in ok_codes:
        raise Inconclusive("command failed (%d): %s\n%s" % (p.returncode, " ".join(cmd[:4]), p.stdout[-3000:]))
    return p.stdout


# ----------------------------------------------------------------------------
# Trace validation: one TLC process; the trace spec splits the log into NSHARDS chains
# (each starting at a reset event) which TLC's workers validate in parallel.

def validate_trace(module, cfg, trace_path, nshards=None, timeout=1800, heap="4g", files=None, chunk=None):
    """Run the trace spec over the trace. Returns dict(viol=[...], drift=[...], events=n, states=n).
    Each viol/drift item is the list the spec printed: [tag, line, behaviour, what].
    chunk=N: a trace of more than N lines is cut at behaviour boundaries (the "beh" field changes; only for
    traces whose behaviours are not interleaved and each start with their reset event) into pieces of about N
    lines which are validated one after the other, so that the deserialised log always fits the heap."""
    nshards = nshards or min(NCPU, 8)
    n = sum(1 for _ in open(trace_path))
    if n == 0:
        return dict(viol=[], drift=[], events=0, states=0)
    if chunk and n > chunk:
        pieces, cur, curbeh, start = [], [], None, 0
        with open(trace_path) as f:
            for i, line in enumerate(f):
                beh = json.loads(line).get("beh")
                if len(cur) >= chunk and beh != curbeh:
                    pieces.append((start, cur))
                    cur, start = [], i
                cur.append(line)
                curbeh = beh
        pieces.append((start, cur))
        tot = dict(viol=[], drift=[], events=0, states=0)
        for k, (off, lines) in enumerate(pieces):
            pp = "%s.part%d" % (trace_path, k)
            with open(pp, "w") as f:
                f.writelines(lines)
            r = validate_trace(module, cfg, pp, nshards=nshards, timeout=timeout, heap=heap, files=files)
            os.remove(pp)
            for tag in ("viol", "drift"):
                for item in r[tag]:
                    if isinstance(item, list) and len(item) > 1 and isinstance(item[1], int):
                        item[1] += off
                    tot[tag].append(item)
            tot["events"] += r["events"]
            tot["states"] += r["states"]
        return tot
    res = tlc(module, cfg, workers=nshards, env={"TRACE": trace_path, "NSHARDS": str(nshards)},
              timeout=timeout, heap=heap, label="tv", short=(n < 20000), young="128m", files=files)
    if not res.completed or res.errors or res.violated:
        raise Inconclusive("trace validation did not complete for %s:\n%s" % (trace_path, res.out[-3000:]))
    if res.distinct < n + 1:
        raise Inconclusive("trace validation consumed %d of %d lines of %s" % (res.distinct - 1, n, trace_path))
    return dict(viol=res.printed("VIOL"), drift=res.printed("DRIFT"), events=n, states=res.distinct)


# ----------------------------------------------------------------------------
# Evidence, known findings, verdict

def write_evidence(pid, tier, level, coverage, assumptions, wall_s, violations):
    os.makedirs(EVIDENCE, exist_ok=True)
    ev = dict(property_id=pid, tier=tier, seed=seed(), level=level, coverage=coverage,
              assumptions=assumptions, wall_s=round(wall_s, 2), violations=violations)
    with open(os.path.join(EVIDENCE, pid + ".json"), "w") as f:
        json.dump(ev, f, indent=1, sort_keys=True)
        f.write("\n")


def known_findings():
    p = os.path.join(ROOT, "known_findings.json")
    if not os.path.exists(p):
        return []
    with open(p) as f:
        return json.load(f).get("findings", [])


class Violation:
    def __init__(self, pid, key, what, replay=None):
        self.pid, self.key, self.what, self.replay = pid, key, what, replay


def write_replay(pid, key, payload):
    os.makedirs(REPLAYS, exist_ok=True)
    h = hashlib.sha1((key + json.dumps(payload, sort_keys=True)).encode()).hexdigest()[:12]
    path = os.path.join(REPLAYS, "%s-%s.json" % (pid, h))
    with open(path, "w") as f:
        json.dump(dict(property=pid, key=key, payload=payload), f, indent=1)
    return path


def verdict(pid, violations):
    """Print KNOWN-FINDING / VIOLATION lines; return exit code."""
    kf = [k for k in known_findings() if k.get("property") == pid and k.get("status", "open") == "open"]
    kf_keys = {k["key"]: k for k in kf}
    rc = 0
    seen_known = set()
    reported = set()
    for v in violations:
        if v.key in kf_keys:
            if v.key not in seen_known:
                seen_known.add(v.key)
                print("KNOWN-FINDING: property=%s %s [%s]" % (pid, kf_keys[v.key]["what"], v.key))
            continue
        if v.key in reported:
            continue
        reported.add(v.key)
        rc = 1
        if len(reported) > 12:
            continue
        print("VIOLATION property=%s replay=%s" % (pid, v.replay or "-"))
        print("  what: %s [%s]" % (v.what, v.key))
    if len(reported) > 12:
        print("  (... %d further distinct violation kinds not listed)" % (len(reported) - 12))
    return rc
