"""G05 (growth): the DHT node's server side (p/kademlia/dht_node.go: peer and data caches, TTL stamps from the
injected clock, HandlePut/HandleGet/HandleFindNode, closerNodes) and chord ring distances (p/chord).
spec/DHTNode.tla and spec/Chord.tla are model-checked by TLC; TLC-generated behaviours (state and edge covers,
simulation) run on a real kademlia.NewDHTNode through its public API, ring pairs on the real functions; TLC
evaluates the laws on the logs.

The client side (dht.go) is C20 (spec/DHT.tla, scripted responders); this component supplies what a REAL node
answers.  Pieces:

 node   spec/DHTNodeOps.tla   kademlia.Cache's Update/Delete/Expire as functions of a cache value with explicit
                              (max, minPerBucket); DHTNodeTie_*.cfg: they ARE KadCache's actions (TieProp)
        spec/DHTNode.tla      AddPeer / RemovePeer / Put / HandlePut / Tick at clock values t (current or next); the
                              read-only methods as state functions.  AS CODED nothing expires (KF_NeverExpires: Cache.Get
                              ignores `now`, DHTNode never calls Expire): the recorded finding
                              G05:TTLHonoured:dhtnode/never-expires.  DHTNode_purge.cfg: the INTENDED variant (every
                              method purges first) satisfies every law including TTLHonoured; DHTNode_kf_ttl.cfg: the
                              as-coded model violates TTLHonoured.  All other laws treat an entry past its implied expiry
                              as a don't-care (it may stay or vanish).
                              Families: l0 (PeerCacheSize < 8: the locus is cut to nothing, one bucket), l1 (8..15:
                              1-byte locus, empty and one-peer-per-bucket starts, eviction with minPerBucket 1), l2
                              (16: 2-byte locus, 12 peers, HandleFindNode's cap of 10).  DHTNode_orig_*.cfg: the model
                              of the code BEFORE each repair must violate the laws (anti-vacuity of the laws).
        laws (ObsLaws / NodeStepLaws, evaluated by TLC on the model and on real observations)
          TTLHonoured (KNOWN FINDING) OnlyExpiredVanish   nothing is served past ExpiresAt; only expired entries vanish
          ExpiryStamp CreatedStamp DumpIsObserved  ExpiresAt / CreatedAt of every entry come from DHTNodeParams.Now and the
                                                   TTL rules (read through the hook DHTNode.VerifCaches + Cache.VerifDump)
          PeerLegalDisappear PeerOnlyAdds AddPeerReturn AddPeerStores PeerInfoLatest RemoveExact PeerVictim
          DataLegalDisappear DataOnlyAdds ValueLatest PutReturn PutStores DataVictim WouldAddSound
          AcceptedIffStored HandlePutCloser        Accepted <=> a Get at the same instant returns the value
          CountIsData Bounded SelfNeverPeer HasIsGetPeer ListPeers HandleGetIsGet
          CloserSound CloserComplete CloserInfo    all and only the peers strictly closer than LocalID, nearest first
          FindNode FindNodeCap ListNodeInfos WouldAddAbsentOnly
 chord  spec/Chord.tla        DistanceForward = (to - from) mod 2^(8n), DistanceAbsolute = |to - from| as coded;
                              laws FwdBwdZero Identity FwdAdditive AbsSymmetric AbsOneDirection AbsTriangle
                              AbsIsLinear OutLen NoPanic PanicsOnMismatch InputsUntouched; AbsIsRingMin is NOT a
                              law of the code (Chord_ringmin.cfg must be violated).

Verdict policy (BUILDING.md): VIOLATION only when the REAL code falsifies a law operator evaluated by TLC in a trace
specification; DRIFT when it merely differs from the as-coded model; a counterexample in a model alone, a build error
or a timeout is INCONCLUSIVE.  Recorded findings: known_findings.json entries whose key starts with "G05:".
"""
import json
import os
import random
import time
from concurrent.futures import ThreadPoolExecutor

from . import core

EXTRA = ["G05"]

PID = "G05"

# cover / edge: family -> (cfg, stride): the quick tier executes every stride-th behaviour of the cover (seeded offset)
TIERS = {
    # (every first-reaching path of a state cover is also an edge: the quick tier runs the edge covers only)
    "quick": dict(
        cover={"l1full": ("DHTNodeCover_l1full_q.cfg", 1)},
        edge={"l0": ("DHTNodeEdge_l0.cfg", 16), "l1": ("DHTNodeEdge_l1.cfg", 6)},
        sim={"l0": 40, "l1": 40, "l2": 16},
        mc=[("tie/boundary", "DHTNodeTie", "DHTNodeTie_boundary.cfg", 2)],
        orig=[], intended=False, ringmin=False, part=1200),
    "thorough": dict(
        cover={"l1": ("DHTNodeCover_l1.cfg", 2), "l1full": ("DHTNodeCover_l1full.cfg", 1), "l2": ("DHTNodeCover_l2.cfg", 1)},
        edge={"l0": ("DHTNodeEdge_l0.cfg", 1), "l1": ("DHTNodeEdge_l1.cfg", 1), "l1full": ("DHTNodeEdge_l1full.cfg", 1)},
        sim={"l0": 400, "l1": 400, "l2": 100},
        mc=[("tie/boundary", "DHTNodeTie", "DHTNodeTie_boundary.cfg", 2), ("tie/small", "DHTNodeTie", "DHTNodeTie_small.cfg", 4),
            ("node/l0-deep", "MC_DHTNode", "DHTNode_l0_deep.cfg", 4), ("node/l1-deep", "MC_DHTNode", "DHTNode_l1_deep.cfg", 4),
            ("node/l1full-deep", "MC_DHTNode", "DHTNode_l1full_deep.cfg", 4)],
        orig=["closer", "remove", "accept0", "ttlovf"], intended=True, ringmin=True, part=2000),
}
# which trace universe (= truncated locus) a family belongs to
GROUP = {"l0": "l0", "l1": "l1", "l1full": "l1", "l2": "l2"}
ORIG_PROP = {"closer": "ObsLawsHold", "remove": "NodeStepLawsProp", "accept0": "NodeStepLawsProp", "ttlovf": "NodeStepLawsProp"}
# the one law the code is known to violate, under one key whatever call exposes it
KNOWN_LAW_KEYS = {"TTLHonoured": "G05:TTLHonoured:dhtnode/never-expires"}


PROBE_TEXT = {
    "cachedel": "Delete of a key that is not in the cache (its bucket exists: %(acc)s) returned a non-nil *Entry: %(ret)s",
}


class Stats:
    def __init__(self):
        self.mc = {}
        self.expected_violations = {}
        self.cases = {}
        self.events = {}
        self.trace_states = {}
        self.drift = []
        self.samples = []


def _mc(stats, name, module, cfg, workers=2, timeout=1500, short=True):
    res = core.tlc(module, cfg, workers=workers, timeout=timeout, short=short, label="mc-" + name.replace("/", "-"))
    core.tlc_ok_or_inconclusive(res, "MC " + name)
    stats.mc[name] = dict(states=res.distinct, transitions=res.generated, depth=res.depth, wall=round(res.wall, 1))
    return res


def _expect_violation(stats, name, module, cfg, prop, files=None):
    """A law that a model is expected to violate (a model of the code before a repair, or a statement that is
    documented not to be a law of the code).  If TLC finds no counterexample the model changed: inconclusive."""
    res = core.tlc(module, cfg, workers=1, timeout=600, short=True, label="kf-" + name.replace("/", "-"), files=files)
    if prop not in res.violated:
        raise core.Inconclusive("%s: the model was expected to violate %s (%s) and does not:\n%s" % (name, prop, cfg, res.out[-2000:]))
    stats.expected_violations[name] = prop


# ----------------------------------------------------------------------------
# node

def _seq(k):
    return "<<" + ", ".join(str(x) for x in k) + ">>"


def _set(ks):
    return "{" + ", ".join(_seq(k) for k in sorted(ks)) + "}"


def _uniq(lists):
    out = {}
    for l in lists:
        for k in l:
            out[tuple(k)] = k
    return list(out.values())


def _universe_module(behs):
    b0 = behs[0]
    locus = max((b["local"][: b["pmax"] // 8] for b in behs), key=len)
    limits = sorted({n for b in behs for n in b["limits"]})
    return ("---- MODULE DHTNodeTraceU ----\nEXTENDS Integers\nTLocal == %s\nTLocus == %s\nTPeers == %s\nTDataKeys == %s\nTTargets == %s\n"
            "TLimits == {%s}\nTPeerTTL == %d\nTMaxDataTTL == %d\n====\n"
            % (_seq(b0["local"]), _seq(locus), _set(_uniq(b["peers"] for b in behs)), _set(_uniq(b["keys"] for b in behs)),
               _set(_uniq(b["targets"] for b in behs)), ", ".join(map(str, limits)), b0["peerTTL"], b0["maxDataTTL"]))


def _behaviour(bid, fam, h, silent):
    init = h[0]
    ops = [dict(op=o["op"], key=o["key"], v=o["v"], ttl=o["ttl"], t=o["t"]) for o in h[1:]]
    return dict(id=bid, fam=fam, local=init["local"], pmax=init["pmax"], dmax=init["dmax"], peerTTL=init["peerTTL"],
                maxDataTTL=init["maxDataTTL"], epoch=("past" if (bid + core.seed()) % 2 == 0 else "future"),
                prefill=sorted(init["prefill"]), peers=sorted(init["peers"]), keys=sorted(init["keys"]),
                targets=sorted(init["targets"]), limits=sorted(init["limits"]), ops=ops, silent=min(silent, len(ops)))


def _group(b):
    """Behaviours validated together share the constants of the trace specification: locus and TTL parameters."""
    return "%s-ttl%d.%d" % (GROUP[b["fam"]], b["peerTTL"], b["maxDataTTL"])


def _split(lines, part):
    """Cut a trace into pieces of about `part` events at behaviour boundaries (every behaviour starts with its
    init event); returns [(offset, [lines])]."""
    pieces, cur, start = [], [], 0
    for i, line in enumerate(lines):
        if len(cur) >= part and line.startswith('{"ev":"init"'):
            pieces.append((start, cur))
            cur, start = [], i
        cur.append(line)
    if cur:
        pieces.append((start, cur))
    return pieces


def _replay_validate(group, behs, binp, d, part, probes=False):
    bp, tr = os.path.join(d, "beh_%s.ndjson" % group), os.path.join(d, "trace_%s.ndjson" % group)
    with open(bp, "w") as f:
        for b in behs:
            f.write(json.dumps(b) + "\n")
    out = core.run([binp, "-in", bp, "-out", tr] + (["-probes"] if probes else []), timeout=1200)
    core.log("dhtnodereplay[%s]: %s" % (group, out.strip()))
    lines = open(tr).readlines()
    if sum(1 for l in lines if l.startswith('{"ev":"init"')) != len(behs):
        raise core.Inconclusive("dhtnodereplay[%s]: %d init events for %d behaviours" % (group, sum(1 for l in lines if l.startswith('{"ev":"init"')), len(behs)))
    u = _universe_module(behs)
    tot = dict(viol=[], drift=[], events=0, states=0)

    def one(k, off, ls):
        pp = "%s.part%d" % (tr, k)
        with open(pp, "w") as f:
            f.writelines(ls)
        r = core.validate_trace("DHTNodeTrace", "DHTNodeTrace.cfg", pp, nshards=1, files={"DHTNodeTraceU.tla": u})
        os.remove(pp)
        return off, r

    with ThreadPoolExecutor(max_workers=6) as ex:
        for off, r in [f.result() for f in [ex.submit(one, k, off, ls) for k, (off, ls) in enumerate(_split(lines, part))]]:
            for tag in ("viol", "drift"):
                for item in r[tag]:
                    item[1] += off
                    tot[tag].append(item)
            tot["events"] += r["events"]
            tot["states"] += r["states"]
    return lines, tot


def _context(ev):
    """The stable part of a violation key: which call, and the configuration corner it was made in."""
    corner = []
    if ev["dmax"] == 0 and ev["ev"] in ("put", "hput"):
        corner.append("cap0")
    if ev["ev"] == "hput" and ev["ttl"] == 99:
        corner.append("huge-ttl")
    return "node/" + ev["ev"] + ("".join("," + c for c in corner))


def run_node(tier, binp, d, stats, only=None):
    T = TIERS[tier]
    groups, allb = {}, {}
    with ThreadPoolExecutor(max_workers=8) as ex:
        side = []
        if only is None:
            side += [ex.submit(_mc, stats, nm, mod, cfg, w, 2400, False) for nm, mod, cfg, w in T["mc"]]
            side += [ex.submit(_expect_violation, stats, "node/selftest-orig-" + o, "MC_DHTNode", "DHTNode_orig_%s.cfg" % o, ORIG_PROP[o]) for o in T["orig"]]
            if T["intended"]:
                # the recorded finding in the model: the as-coded model violates TTLHonoured, the purging variant satisfies it
                side.append(ex.submit(_expect_violation, stats, "node/as-coded-never-expires", "MC_DHTNode", "DHTNode_kf_ttl.cfg", "TTLHonouredProp"))
                side.append(ex.submit(_mc, stats, "node/intended-purge", "MC_DHTNode", "DHTNode_purge.cfg", 4, 2400, False))

        def cover(fam, cfg, stride):
            # exhaustive model checking of the family (laws as invariants / action property) and its state cover in one run
            res = _mc(stats, "node/" + cfg, "DHTNodeGen", cfg, 4, 2400, False)
            hs = [x[1] for x in res.printed("BEH")]
            if len(hs) < res.distinct - 8:
                raise core.Inconclusive("DHTNode cover %s: %d behaviours for %d states" % (cfg, len(hs), res.distinct))
            stats.cases["node/cover-%s-total" % fam] = len(hs)
            return fam, [(h, 0) for i, h in enumerate(hs) if (i + core.seed()) % stride == 0]

        def edge(fam, cfg, stride):
            # every transition of the model: the BFS-shortest path to its source (executed silently) + the transition
            # (the same run model-checks the family: laws as invariants and as the action property)
            res = core.tlc("DHTNodeGen", cfg, workers=4, timeout=2400, label="edge-" + fam, heap="6g")
            core.tlc_ok_or_inconclusive(res, "Edge " + fam)
            hs = [x[1] for x in res.printed("BEH")]
            if not hs:
                raise core.Inconclusive("DHTNode edge cover %s: no behaviours" % cfg)
            stats.cases["node/edges-%s-total" % fam] = len(hs)
            stats.mc["node/" + cfg] = dict(states=res.distinct, transitions=res.generated, depth=res.depth, wall=round(res.wall, 1))
            return fam, [(h, len(h) - 2) for i, h in enumerate(hs) if (i + core.seed()) % stride == 0]

        def sim(fam, n):
            res = core.tlc("DHTNodeGen", "DHTNodeGen_%s.cfg" % fam, workers=1, simulate=n, depth=100,
                           tlc_seed=core.seed() * 100 + len(fam), timeout=1200, short=(n <= 200), label="gen-" + fam)
            core.tlc_ok_or_inconclusive(res, "Gen DHTNode " + fam)
            hs = [x[1] for x in res.printed("BEH")]
            if len(hs) < n:
                raise core.Inconclusive("DHTNodeGen %s produced %d of %d behaviours" % (fam, len(hs), n))
            return fam, [(h, 0) for h in hs]

        if only is None:
            gens = [ex.submit(cover, fam, cfg, st) for fam, (cfg, st) in T["cover"].items()]
            gens += [ex.submit(edge, fam, cfg, st) for fam, (cfg, st) in T["edge"].items()]
            gens += [ex.submit(sim, fam, n) for fam, n in T["sim"].items()]
            for f in gens:
                fam, hs = f.result()
                for h, silent in hs:
                    bid = len(allb) + 1
                    allb[bid] = _behaviour(bid, fam, h, silent)
                    groups.setdefault(_group(allb[bid]), []).append(allb[bid])
        else:
            for b in only:
                allb[b["id"]] = b
                groups.setdefault(_group(b), []).append(b)
        first = min(groups) if only is None else None     # the kademlia.Cache probes travel with the first trace
        results = {g: f.result() for g, f in {g: ex.submit(_replay_validate, g, bl, binp, d, T["part"], g == first) for g, bl in groups.items()}.items()}
        for f in side:
            f.result()
    viol = []
    for g, (lines, tv) in results.items():
        stats.cases["node/behaviours-" + g] = len(groups[g])
        stats.events["node/" + g] = tv["events"]
        stats.trace_states["node/" + g] = tv["states"]
        for _t, ln, bid, ops in tv["viol"]:
            ev = json.loads(lines[ln - 1])
            if ev["ev"].startswith("cache"):
                for op in ops:
                    viol.append(("G05:%s:cache" % op, "%s false on the real kademlia.Cache: %s" % (op, PROBE_TEXT[ev["ev"]] % ev),
                                 dict(piece="probe", event=ev, operator=op)))
                continue
            short = {k: v for k, v in ev.items() if k in ("ev", "key", "v", "ttl", "t", "ret", "acc", "closer", "pmax", "dmax", "peers", "data", "count", "panicv") and v not in ("", [], 0, False)}
            for op in ops:
                viol.append((KNOWN_LAW_KEYS.get(op) or "G05:%s:%s" % (op, _context(ev)),
                             "%s false on the real kademlia.DHTNode (family %s, behaviour %d %s, event line %d): %s"
                             % (op, allb[bid]["fam"], bid, json.dumps([[o["op"], o["key"], o["v"], o["ttl"], o["t"]] for o in allb[bid]["ops"]]), ln, json.dumps(short)),
                             dict(piece="node", behaviour=allb[bid], event=ev, operator=op)))
        for _t, ln, bid, what in tv["drift"]:
            stats.drift.append(dict(piece="node", family=allb[bid]["fam"], behaviour=bid, what=what, line=ln))
        stats.samples.append(dict(piece="node", behaviour=groups[g][0]))
    return viol


# ----------------------------------------------------------------------------
# chord

P32 = {"zero": [0] * 32, "ones": [255] * 32, "half": [128] + [0] * 31, "half-1": [127] + [255] * 31, "one": [0] * 31 + [1],
       "ones-1": [255] * 31 + [254], "top": [1] + [0] * 31, "mid": [0] * 16 + [128] + [0] * 15, "lowhalf": [0] * 16 + [255] * 16}
B2 = [0, 1, 2, 127, 128, 255, 256, 257, 511, 32767, 32768, 32769, 65279, 65280, 65281, 65534, 65535]


def _chord_sets(tier):
    if tier == "quick":
        a1 = list(range(256))
        b1 = sorted({0, 1, 2, 63, 64, 127, 128, 129, 191, 254, 255} | {(37 * i + core.seed()) % 256 for i in range(24)})
        a2 = sorted(set(B2) | {(257 * i + 101 * core.seed()) % 65536 for i in range(0, 256, 8)})
        b2 = sorted(set(B2) | {(263 * i + 7 * core.seed()) % 65536 for i in range(0, 256, 16)})
    else:
        a1 = b1 = list(range(256))
        a2 = sorted(set(B2) | {(257 * i + 101 * core.seed()) % 65536 for i in range(256)})
        b2 = sorted(set(B2) | {(263 * i + 7 * core.seed()) % 65536 for i in range(256)})
    return a1, b1, a2, b2


def _ints(xs):
    return "{" + ", ".join(str(x) for x in xs) + "}"


def run_chord(tier, binp, d, stats, only=None):
    a1, b1, a2, b2 = _chord_sets(tier)
    rng = random.Random(core.seed())
    p32 = dict(P32)
    for i in range(4):
        p32["rnd%d" % i] = [rng.randrange(256) for _ in range(32)]
    r0 = p32["rnd0"]
    p32["rnd0+1"] = r0[:31] + [(r0[31] + 1) % 256] if r0[31] != 255 else r0[:30] + [(r0[30] + 1) % 256, 0]
    cases = []
    if only is None:
        for a in a1:
            cases.append(dict(id=len(cases) + 1, a=[a], bs=[[b] for b in b1], lens=[]))
        for a in a2:
            cases.append(dict(id=len(cases) + 1, a=[a // 256, a % 256], bs=[[b // 256, b % 256] for b in b2], lens=[]))
        for a in p32.values():
            cases.append(dict(id=len(cases) + 1, a=a, bs=list(p32.values()), lens=[]))
        cases.append(dict(id=len(cases) + 1, a=[], bs=[[]], lens=[]))          # the empty ring (M = 1)
        for lo in (0, 1, 2, 32):
            for lt in (0, 1, 2, 32):
                for lf in (0, 1, 2, 32):
                    cases.append(dict(id=len(cases) + 1, a=[], bs=[], lens=[lo, lt, lf]))
    else:
        cases = only
    u = ("---- MODULE ChordU ----\nEXTENDS Integers\nU1As == %s\nU1Bs == %s\nU1Cs == {0, 1, 127, 128, 255}\nU2As == %s\nU2Bs == %s\nU2Cs == {0, 1, 32768, 65535}\n====\n"
         % (_ints(a1), _ints(b1), _ints(a2), _ints(b2)))
    with ThreadPoolExecutor(max_workers=4) as ex:
        side = []
        if only is None:
            def mc(n):
                res = core.tlc("MC_Chord", "Chord_%d.cfg" % n, workers=2, timeout=1200, short=True, label="mc-chord%d" % n, files={"ChordU.tla": u})
                core.tlc_ok_or_inconclusive(res, "MC Chord %d-byte" % n)
                stats.mc["chord/%d-byte" % n] = dict(states=res.distinct, transitions=res.generated, depth=res.depth, wall=round(res.wall, 1))
            side = [ex.submit(mc, 1), ex.submit(mc, 2)]
            if TIERS[tier]["ringmin"]:
                side.append(ex.submit(_expect_violation, stats, "chord/absolute-is-not-the-ring-metric", "MC_Chord", "Chord_ringmin.cfg",
                                      "AbsIsRingMin", {"ChordU.tla": u}))
        cp, tr = os.path.join(d, "chord.ndjson"), os.path.join(d, "chord.trace")
        with open(cp, "w") as f:
            for c in cases:
                f.write(json.dumps(c) + "\n")
        out = core.run([binp, "-chord", "-in", cp, "-out", tr], timeout=900)
        core.log("dhtnodereplay -chord: " + out.strip())
        tv = core.validate_trace("ChordTrace", "ChordTrace.cfg", tr, nshards=1)
        for f in side:
            f.result()
    lines = open(tr).readlines()
    if len(lines) != len(cases):
        raise core.Inconclusive("chord: %d events for %d cases" % (len(lines), len(cases)))
    stats.cases["chord/pairs"] = sum(len(c["bs"]) for c in cases)
    stats.cases["chord/length-cases"] = sum(1 for c in cases if c["lens"])
    stats.cases["chord/events"] = len(cases)
    stats.events["chord"] = tv["events"]
    stats.trace_states["chord"] = tv["states"]
    viol = []
    for item in tv["viol"]:
        _t, ln, cid, ops = item[:4]
        wit = item[4] if len(item) > 4 else []
        ev = json.loads(lines[ln - 1])
        for op in ops:
            if ev["ev"] == "lens":
                ctx, detail = "chord/lens", "buffer lengths (out, to, from) = %s: DistanceForward panicked=%s DistanceAbsolute panicked=%s %s" % (ev["lens"], ev["panicf"], ev["panica"], ev["panicv"])
            else:
                row = next((r for r in ev["rows"] if r["b"] == wit), None)
                ctx = "chord/%d-byte" % len(ev["a"])
                detail = "from a=%s, to b=%s: forward=%s backward=%s absolute=%s absolute(b,a)=%s %s" % (
                    ev["a"], wit, row and row["fwd"], row and row["bwd"], row and row["abs"], row and row["absba"], ev["panicv"])
            viol.append(("G05:%s:%s" % (op, ctx), "%s false on the real chord functions: %s" % (op, detail),
                         dict(piece="chord", case=cases[ln - 1], operator=op)))
    stats.samples.append(dict(piece="chord", case=dict(cases[1], bs=cases[1]["bs"][:4]), event=json.loads(lines[1])["rows"][:2] if len(lines) > 1 and json.loads(lines[1])["rows"] else None))
    return viol


# ----------------------------------------------------------------------------

def _verdict(violations):
    """As core.verdict; recorded findings of this component are matched by their key ("G05:...") whatever listed
    property they are filed under."""
    kf = {k["key"]: k for k in core.known_findings() if k.get("key", "").startswith("G05:") and k.get("status", "open") == "open"}
    rc, seen, shown = 0, set(), 0
    for v in violations:
        if v.key in seen:
            continue
        seen.add(v.key)
        if v.key in kf:
            print("KNOWN-FINDING: property=%s (recorded under %s) %s [%s]" % (PID, kf[v.key].get("property"), kf[v.key]["what"], v.key))
            continue
        rc = 1
        shown += 1
        if shown > 14:
            continue
        print("VIOLATION property=%s replay=%s" % (PID, v.replay or "-"))
        print("  what: %s [%s]" % (v.what, v.key))
    if shown > 14:
        print("  (... %d further distinct violation kinds not listed)" % (shown - 14))
    return rc


def check(pid, tier, replay=None):
    t0 = time.time()
    only_node = only_chord = None
    pieces = ["node", "chord"]
    if replay:
        with open(replay) as f:
            rp = json.load(f)["payload"]
        pieces = [rp["piece"]]
        if rp["piece"] == "node":
            only_node = [rp["behaviour"]]
        else:
            only_chord = [rp["case"]]
    stats = Stats()
    d = core.scratch("g05")
    binp = core.go_build("dhtnodereplay")
    found, errs = [], []
    with ThreadPoolExecutor(max_workers=2) as ex:
        futs = {}
        if "node" in pieces:
            futs["node"] = ex.submit(run_node, tier, binp, d, stats, only_node)
        if "chord" in pieces:
            futs["chord"] = ex.submit(run_chord, tier, binp, d, stats, only_chord)
        for p, f in futs.items():
            try:
                found += f.result()
            except core.Inconclusive as e:
                errs.append("%s: %s" % (p, e))
    if errs:
        raise core.Inconclusive("\n".join(errs))
    mine, seen = [], set()
    recorded = {k.get("key") for k in core.known_findings() if k.get("status", "open") == "open"}
    for key, what, payload in found:
        if key in seen:
            continue
        seen.add(key)
        mine.append(core.Violation(PID, key, what, None if key in recorded else core.write_replay(PID, key, payload)))
    if stats.drift:
        print("DRIFT component=G05 steps=%d (model and code disagree on steps that falsify no law) e.g. %s"
              % (len(stats.drift), json.dumps(stats.drift[:3])[:1200]))
    nbeh = sum(v for k, v in stats.cases.items() if k.startswith("node/behaviours-")) + stats.cases.get("chord/events", 0)
    coverage = dict(
        states=max(1, sum(v["states"] for v in stats.mc.values())),
        transitions=max(1, sum(v["transitions"] for v in stats.mc.values())),
        traces_validated_against_impl=nbeh,
        samples=stats.samples[:4] or [dict(note="replay run")],
        evaluations=sum(stats.events.values()) + stats.cases.get("chord/pairs", 0),
        distinct_nontrivial=sum(stats.trace_states.values()),
        rule="evaluations = DHTNode trace events validated by TLC (one per executed call, each with the full observation of the node) "
             "+ chord (a, b) pairs; distinct_nontrivial = distinct states of the trace specifications (log position + carried model state)",
        model_checking=stats.mc, expected_model_violations=stats.expected_violations, cases=stats.cases, events=stats.events,
        drift_steps=len(stats.drift), pieces=pieces, exhaustive=False,
        explanation="TLC checks DHTNode.tla (three locus families), the tie DHTNodeOps = KadCache, and Chord.tla exhaustively within the bounds "
                    "of the listed configs and generates the behaviours (state cover, edge cover, simulation); dhtnodereplay executes them on "
                    "a real kademlia.NewDHTNode with an injected clock / on the real chord functions; DHTNodeTrace / ChordTrace evaluate the "
                    "law operators on what was observed")
    core.write_evidence(PID, tier, "model_checking", coverage,
                        ["the node is modelled AS CODED: nothing expires (recorded finding G05:TTLHonoured:dhtnode/never-expires); an entry past "
                         "its implied expiry may stay or vanish without falsifying any other law",
                         "ids and keys are 2-byte strings, ids padded with zero bytes to 32 (no XOR distance or comparison changes); "
                         "PeerCacheSize 0..3, 8, 9, 15, 16 (locus of 0, 1, 2 bytes), DataCacheSize 0..3",
                         "the clock is DHTNodeParams.Now at 1970 (even behaviours) or 2100 (odd ones), one unit = 1 s; TTLs 0..3 units and a "
                         "TTLms that overflows time.Duration; every buffer passed to the node is overwritten after the call",
                         "the public API plus the read-only hook DHTNode.VerifCaches (p/kademlia/verif_export_dhtnode.go, build tag verif) for the "
                         "CreatedAt / ExpiresAt stamps; len(buckets) / minExpiresAt are carried from the model (drift only); KadCache itself is bound by C18/C19",
                         "chord: the whole 1-byte ring in the thorough tier (256 x 35 pairs in the quick tier), boundary and strided samples "
                         "of the 2-byte ring, 14 32-byte patterns pairwise, buffer lengths {0,1,2,32}^3",
                         "TLC, the Json/IOUtils community modules and the Go toolchain are trusted"],
                        time.time() - t0, len(mine))
    return _verdict(mine)
