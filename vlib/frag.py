"""C10: reassembly never invents or mixes messages (s/fragswarm, p/mbapp), decided with spec/Frag.tla.

 1. TLC model-checks Frag.tla exhaustively for both layers (2 sources x 2 messages x <= 3 parts, two
    receive workers with the coded lock structure, cleanup loop, network = set): NoInvention, NoPartial.
 2. TLC (simulation of FragGen.tla) generates schedules of fragment deliveries with repetitions,
    omissions and bursts that race on several receive workers; TLC (FragWide.tla, a second family) enumerates
    one wide message per case whose part count sits on a bitmap-byte / header-width boundary (7..65, 127..129,
    ... parts) with a withheld suffix / prefix / byte-aligned group / all-but-one loss pattern, and checks the
    coded completion test on every prefix of the schedule.
 3. harness/cmd/fragreplay tells every message to the REAL sender-side layer (netsim captures the real
    fragments) and feeds the schedule to the REAL receiver-side layer; every delivered payload is decoded
    into blocks (content encodes source, message, offset).
 4. TLC validates the log against FragTrace.tla: NoInventionP / NoPartialP / NoHoleP false on a real
    delivery is a VIOLATION; a disagreement with the coded arithmetic of the model is DRIFT.
"""
import hashlib
import json
import os
import time
from concurrent.futures import ThreadPoolExecutor

from . import core

PROPERTIES = ["C10"]

MANIFEST = {
    "C10": dict(level="model_checking",
                technique="TLA+ spec (Frag.tla: fragswarm aggregator and mbapp collector as coded, two receive workers, "
                          "set-network) model-checked with TLC; TLC-generated fragment schedules replayed on the real layers "
                          "with the harness as inner transport (netsim); deliveries validated by TLC against FragTrace.tla",
                text="TLC exhaustively checks NoInvention and NoPartial on Frag.tla for both reassembly layers (2 sources x 2 "
                     "messages x <= 3 parts, every interleaving of two receive workers and the cleanup loop, duplication, "
                     "loss and reordering for free) and evaluates the same operators on every payload the real fragswarm / "
                     "mbapp receivers delivered when fed TLC-generated schedules of the real fragments (repetitions, "
                     "omissions, concurrent bursts). A VIOLATION is printed only when an operator is false on a real delivery.",
                note="Bounded: model 2x2x<=3 parts; replay 3 sources x 2 messages, <= 4 parts (quick) / <= 40 parts plus "
                     "254..300-part messages (thorough), 1-5 blocks per inner packet; wide family: part counts "
                     "7,8,9,15,16,17,24,32,63,64,65 (mbapp) / 7..64,127,128,129 (fragswarm), thorough up to 257 / 255, "
                     "withheld last/first k (k in 1,7,8,9), a middle group of 8, the last bitmap byte, all but one. Message ids never wrap and senders do "
                     "not restart within a behaviour. The cleanup loops cannot be triggered from the public API and are "
                     "covered by the model only. Trusts TLC, the Json/IOUtils community modules, the Go toolchain.",
                ref="5 (C10), 3.5"),
}

LAYER_NAME = {"frag": "fragswarm", "mbapp": "mbapp"}

TIERS = {
    "quick": dict(mc=["Frag_frag_cap2_nc.cfg", "Frag_mbapp_cap2_nc.cfg"], gen="FragGen_quick.cfg", sim=450, parts=1, depth=120, wide="FragWide_quick.cfg"),
    "thorough": dict(mc=["Frag_frag_cap2.cfg", "Frag_mbapp_cap2.cfg", "Frag_frag_deep.cfg", "Frag_mbapp_deep.cfg"],
                     gen="FragGen_thorough.cfg", sim=2400, parts=4, depth=500,
                     extra=("FragGen_quick.cfg", 3000), wide="FragWide_thorough.cfg"),
}


def generate(tier, stats):
    T = TIERS[tier]
    ex = ThreadPoolExecutor(max_workers=8)

    def mc(cfg):
        res = core.tlc("MC_Frag", cfg, workers=6, timeout=1500, label="mc-" + cfg[:-4], young="1g", heap="6g")
        core.tlc_ok_or_inconclusive(res, "MC Frag/" + cfg)
        stats["mc"][cfg[:-4]] = dict(states=res.distinct, transitions=res.generated, depth=res.depth, wall=round(res.wall, 1))

    def gen(cfg, n, sd, depth):
        res = core.tlc("FragGen", cfg, workers=1, simulate=n, depth=depth, tlc_seed=sd, timeout=1500,
                       label="gen-" + cfg[:-4], short=(n <= 1000))
        core.tlc_ok_or_inconclusive(res, "FragGen " + cfg)
        hs = [x[1] for x in res.printed("BEH")]
        if len(hs) < n:
            raise core.Inconclusive("FragGen %s produced %d of %d behaviours" % (cfg, len(hs), n))
        return hs

    def gen_wide(cfg):
        # second family: one wide message with a part count on a bitmap / header-width boundary and a loss pattern
        # that withholds a prefix, a suffix, a byte-aligned group or all but one part (FragWide.tla); TLC checks
        # the coded completion test on every prefix of the schedule and prints the schedule
        res = core.tlc("MC_FragWide", cfg, workers=1, timeout=1500, label="wide-" + cfg[:-4], short=True)
        core.tlc_ok_or_inconclusive(res, "FragWide " + cfg)
        hs = [x[1] for x in res.printed("BEH")]
        if len(hs) < 100:
            raise core.Inconclusive("FragWide %s produced only %d schedules" % (cfg, len(hs)))
        stats["mc"][cfg[:-4]] = dict(states=res.distinct, transitions=res.generated, depth=1, wall=round(res.wall, 1))
        for h in hs:
            h["lost"] = sorted(h["lost"])
        return hs

    side = [ex.submit(mc, cfg) for cfg in T["mc"]]
    futs = []
    per = T["sim"] // T["parts"]
    for i in range(T["parts"]):
        futs.append(ex.submit(gen, T["gen"], per, core.seed() * 1000 + i, T["depth"]))
    if T.get("extra"):
        futs.append(ex.submit(gen, T["extra"][0], T["extra"][1], core.seed() * 1000 + 77, 120))
    fw = ex.submit(gen_wide, T["wide"])
    behs = list(fw.result())
    stats["wide_behaviours"] = len(behs)
    for f in futs:
        behs.extend(f.result())
    for i, b in enumerate(behs):
        b["id"] = i + 1
    return behs, side, ex


def beh_hash(b):
    return hashlib.sha1(json.dumps([b["layer"], b["cap"], b["lens"], b["steps"]], sort_keys=True).encode()).hexdigest()


def beh_sample(b):
    d = dict(layer=b["layer"], cap=b["cap"], lens=b["lens"], lost=b["lost"], steps=b["steps"][:12])
    if "wide" in b:
        d["wide"] = dict(n=b["wide"]["n"], withheld=sorted(b["wide"]["withheld"]), order=b["wide"]["order"])
    return d


def run_pipeline(tier, behs=None):
    stats = dict(mc={}, events=0, trace_states=0, drift=0, drift_samples=[], wide_behaviours=0)
    d = core.scratch("frag")
    binp = core.go_build("fragreplay")
    side, ex = [], None
    if behs is None:
        behs, side, ex = generate(tier, stats)
    byid = {b["id"]: b for b in behs}
    # chunks of ~400 behaviours: one replay process + one TLC trace validation each
    chunk = (len(behs) + 1) // 2 if tier == "quick" else 250
    chunks = [behs[i:i + chunk] for i in range(0, len(behs), chunk)]

    def replay_validate(ci, bl):
        p = os.path.join(d, "beh_%d.ndjson" % ci)
        with open(p, "w") as f:
            for b in bl:
                f.write(json.dumps(b) + "\n")
        tr = os.path.join(d, "trace_%d.ndjson" % ci)
        out = core.run([binp, "-in", p, "-out", tr], timeout=1200)
        core.log("fragreplay[%d]: %s" % (ci, out.strip().splitlines()[-1] if out.strip() else ""))
        return tr, core.validate_trace("FragTrace", "FragTrace.cfg", tr, nshards=1)

    violations = []
    multi = set()
    ndeliv = ndup = 0
    with ThreadPoolExecutor(max_workers=3) as tex:
        results = list(tex.map(lambda a: replay_validate(*a), list(enumerate(chunks))))
    for tr, res in results:
        stats["events"] += res["events"]
        stats["trace_states"] += res["states"]
        lines = open(tr).readlines()
        # measured anti-vacuity: behaviours in which a multi-fragment message was really reassembled
        nfr, seen = {}, set()
        for ln in lines:
            e = json.loads(ln)
            if e["ev"] == "init":
                nfr, seen = {}, set()
            elif e["ev"] == "tell":
                nfr[(e["s"], e["m"])] = e["nfrag"]
            elif e["ev"] == "deliver":
                ndeliv += 1
                k = (e["runs"][0][0], e["runs"][0][1]) if e["runs"] else None
                if k in seen:
                    ndup += 1
                seen.add(k)
                if nfr.get(k, 0) > 1:
                    multi.add(beh_hash(byid[e["beh"]]))
        for v in res["viol"]:
            _tag, lineno, beh, ops = v
            e = json.loads(lines[lineno - 1])
            b = byid.get(beh, {})
            for op in ops:
                key = "C10:%s:%s" % (op, LAYER_NAME.get(b.get("layer"), "?"))
                what = ("%s false on a payload delivered by the real %s receiver: attributed to source %s, content runs "
                        "[src,msg,offset,count]=%s (behaviour %d, trace line %d)"
                        % (op, LAYER_NAME.get(b.get("layer"), "?"), e.get("src"), json.dumps(e.get("runs"))[:300], beh, lineno))
                violations.append((key, what, dict(behaviour=b, event=e, operator=op)))
        stats["drift"] += len(res["drift"])
        for dr in res["drift"][:3]:
            stats["drift_samples"].append(dict(line=dr[1], behaviour=dr[2], what=dr[3]))
    for f in side:
        f.result()
    if ex:
        ex.shutdown()
    stats.update(behaviours=len(behs), deliveries=ndeliv, duplicate_deliveries=ndup, multi=len(multi),
                 samples=[beh_sample(b) for b in (behs[:1] + behs[len(behs) // 3:len(behs) // 3 + 1] + behs[-1:])])
    return stats, violations


def check(pid, tier, replay=None):
    t0 = time.time()
    behs = None
    if replay:
        with open(replay) as f:
            b = json.load(f)["payload"]["behaviour"]
        b.setdefault("id", 1)
        behs = [b]
    stats, violations = run_pipeline(tier, behs)
    if not replay and stats["multi"] < 20:
        raise core.Inconclusive("vacuous run: only %d schedules reassembled a multi-fragment message" % stats["multi"])
    mine = []
    for key, what, payload in violations:
        mine.append(core.Violation(pid, key, what, core.write_replay(pid, key, payload)))
    if stats["drift"]:
        print("DRIFT component=Frag steps=%d (model and code disagree on steps that falsify no listed property) e.g. %s"
              % (stats["drift"], json.dumps(stats["drift_samples"][:2])))
    mc_states = sum(v["states"] for v in stats["mc"].values())
    mc_trans = sum(v["transitions"] for v in stats["mc"].values())
    coverage = dict(
        states=max(mc_states, 1), transitions=max(mc_trans, 1),
        traces_validated_against_impl=stats["behaviours"],
        samples=stats["samples"] or [dict(note="replay run")],
        evaluations=stats["events"],
        distinct_nontrivial=stats["multi"],
        rule="evaluations = trace events validated by TLC (tell / feed / deliver / end of every replayed schedule); "
             "distinct_nontrivial = distinct schedules (hash of layer, sizes and steps) in which the real receiver "
             "reassembled and delivered at least one multi-fragment message",
        model_checking=stats["mc"], wide_schedules=stats.get("wide_behaviours", 0), deliveries=stats["deliveries"], duplicate_deliveries=stats["duplicate_deliveries"],
        drift_steps=stats["drift"], exhaustive=False,
        explanation="TLC exhaustively checks NoInvention/NoPartial on Frag.tla within the bounds of the listed configs and "
                    "generates fragment schedules that are executed on the real fragswarm/mbapp layers (netsim as inner "
                    "transport); FragTrace.tla evaluates the operators on every real delivery")
    core.write_evidence(pid, tier, "model_checking", coverage,
                        ["fragments are captured from the real sender-side layer; the harness never builds a header",
                         "a burst of fragments is logged as fed before any of them is handed over (Call-before rule)",
                         "duplicate delivery of a complete message is allowed by the property and only counted",
                         "TLC, the Json/IOUtils community modules and the Go toolchain are trusted"],
                        time.time() - t0, len(mine))
    return core.verdict(pid, mine)
