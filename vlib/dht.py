"""C20: iterative DHT operations (p/kademlia/dht.go, dht_node.go), decided with spec/DHT.tla.

Pipeline (quick and thorough differ in bounds only):
 1. TLC model-checks DHT.tla exhaustively (every operation, every initial list of <= 3 peers with
    duplicates, every adversarial answer of every contacted node over a small universe): the coded
    design satisfies AtMostOnce, Terminates, ClosestTruthful, ValueFromContacted, AcceptedDistinct,
    ErrIffBelowMin and NoPanic.  Thorough tier: the same operators must FAIL on the model of the
    unrepaired code (Orig = TRUE), otherwise the run is inconclusive (anti-vacuity).
 2. TLC generates cases (DHTGen.tla): random stateless adversarial topologies, descriptors of
    honest networks, and the exhaustive family over a 3-node universe.
 3. harness/cmd/dhtreplay runs every case against the real DHTFindNode / DHTJoin / DHTGet / DHTPut
    built from /repo's working tree with a counting Ask callback (adversarial family) or with real
    kademlia.DHTNode handlers as responders (honest family) and logs one event per case.
 4. TLC validates the log against DHTTrace.tla: a property operator that is false on the real
    observations is a VIOLATION; a difference from the model's prediction is DRIFT only.
"""
import hashlib
import json
import os
import time
from concurrent.futures import ThreadPoolExecutor

from . import core

PROPERTIES = ["C20"]

MANIFEST = {
    "C20": dict(level="model_checking",
                technique="TLA+ spec (DHT.tla) of dhtIterate and the four operations model-checked with TLC; TLC-generated "
                          "adversarial topologies and honest-network descriptors replayed on the real code; logs validated by "
                          "TLC against DHTTrace.tla",
                text="TLC exhaustively checks AtMostOnce, Terminates (step bound + no deadlock), ClosestTruthful, "
                     "ValueFromContacted, AcceptedDistinct, ErrIffBelowMin and NoPanic on DHT.tla for find-node, join, get and put "
                     "over a 4-node (quick) / 5-node (thorough) universe, with the identity distance (32-byte key) and, for get/put, a "
                     "distance function in which distinct peers tie (key shorter than a peer id), with every initial list of <= 3 peers (duplicates "
                     "included) and every answer (any peer list incl. cyclic, self-referential, duplicated, fabricated; fail / "
                     "accept flags; value classes nil / well-formed / malformed / empty-but-non-nil against the caller's Validate chosen by the case) of every contacted node, then evaluates the same operators on what the real "
                     "DHTFindNode/DHTJoin/DHTGet/DHTPut did on TLC-generated cases (exhaustive 3-node family, random 6-10 node "
                     "topologies, networks of real DHTNode handlers with dead and adversarial members). A VIOLATION is printed "
                     "only when an operator is false on real observations.",
                note="Bounded: universes of 3-10 abstract nodes, key lengths {1, 2, 31, 32} bytes in the replayed cases (the queue order under ties is modelled as Go's stable insertion sort, exact up to 12 queued peers) (honest networks of 3-24 nodes quick, up to 600 thorough); the "
                     "adversary is stateless per case (what a node answers depends on its id only) in the replayed cases, stateful "
                     "in the model. 'Closest' is accepted if it is the nearest among asked, answering or (put) accepting nodes. "
                     "A get value counts as validated only if the case's Validate accepts the exact returned bytes (evaluated by the harness). Responder caps (HandleFindNode limit, closerNodes) and contact-set differences are compared as drift only. Trusts TLC, the Json/IOUtils "
                     "community modules and the Go toolchain.",
                ref="5 (C20), 3.10"),
}

OPERATORS = ["AtMostOnce", "Terminates", "ClosestTruthful", "ValueFromContacted", "AcceptedDistinct", "ErrIffBelowMin", "NoPanic"]

TIERS = {
    # sim: [(gen cfg, traces, depth)] -> traces*depth cases each; small: exhaustive 3-node family
    "quick": dict(mc="DHT_quick.cfg", mc_workers=4, sim=[("DHTGen_sim.cfg", 30, 100)], small=True, selftest=False),
    "thorough": dict(mc="DHT_deep.cfg", mc_workers=8,
                     sim=[("DHTGen_sim.cfg", 200, 100), ("DHTGen_sim.cfg", 200, 100), ("DHTGen_big.cfg", 60, 100)],
                     small=True, selftest=True),
}

EMBEDDINGS = ["hi", "lo", "hi", "mid"]


def tlc(*a, **kw):
    """core.tlc, repeated (twice at most) when the JVM was killed from outside (exit by SIGTERM/SIGKILL:
    other jobs on this machine clean up TLC processes by name)."""
    for attempt in range(3):
        res = core.tlc(*a, **kw)
        if res.rc not in (137, 143, -9, -15) or attempt == 2:
            return res
        core.log("TLC was killed from outside (rc=%d); running it again" % res.rc)
    return res


def model_check(tier, stats):
    T = TIERS[tier]
    res = tlc("MC_DHT", T["mc"], workers=T["mc_workers"], timeout=1500, label="mc-dht")
    core.tlc_ok_or_inconclusive(res, "MC DHT")
    stats["mc"] = dict(cfg=T["mc"], states=res.distinct, transitions=res.generated, depth=res.depth, wall=round(res.wall, 1))


def selftest_orig(stats):
    """Anti-vacuity: the model of the unrepaired code (Orig = TRUE) must violate the operators."""
    with open(os.path.join(core.SPEC, "DHT_orig.cfg")) as f:
        base = f.read()
    out = {}

    def one(inv):
        cfg = "\n".join(("INVARIANTS " + inv) if l.startswith("INVARIANTS") else l for l in base.splitlines()) + "\n"
        name = "DHT_orig_%s.cfg" % inv
        res = tlc("MC_DHT", name, workers=2, timeout=600, label="orig-" + inv, short=True, files={name: cfg})
        if inv not in res.violated:
            raise core.Inconclusive("anti-vacuity self-test: %s is not violated by the model of the unrepaired code\n%s"
                                    % (inv, res.out[-2000:]))
        out[inv] = dict(violated=True, states=res.distinct)

    with ThreadPoolExecutor(max_workers=2) as ex:
        for f in [ex.submit(one, inv) for inv in ("AtMostOnce", "NoPanic", "ClosestTruthful", "AcceptedDistinct")]:
            f.result()
    stats["orig_selftest"] = out


def generate(tier, stats):
    """All generator jobs concurrently; returns futures of (family name, [case dict])."""
    T = TIERS[tier]

    def sim(i, cfg, traces, depth):
        res = tlc("DHTGen", cfg, workers=1, simulate=traces, depth=depth, tlc_seed=core.seed() * 1000 + i,
                       timeout=1500, label="gen-%d" % i, short=(traces * depth <= 5000))
        core.tlc_ok_or_inconclusive(res, "DHTGen " + cfg)
        cs = [x[1] for x in res.printed("CASE")]
        if len(cs) < traces * depth:
            raise core.Inconclusive("generator %s produced %d of %d cases" % (cfg, len(cs), traces * depth))
        return "sim%d" % i, cs

    def small():
        res = tlc("DHTGen", "DHTGen_small.cfg", workers=1, timeout=900, label="gen-small")
        core.tlc_ok_or_inconclusive(res, "DHTGen small")
        cs = [x[1] for x in res.printed("CASE")]
        if len(cs) != res.distinct or not cs:
            raise core.Inconclusive("exhaustive generator printed %d cases for %d states" % (len(cs), res.distinct))
        return "small", cs

    ex = ThreadPoolExecutor(max_workers=6)
    futs = [ex.submit(sim, i, *s) for i, s in enumerate(T["sim"])]
    if T["small"]:
        futs.append(ex.submit(small))
    ex.shutdown(wait=False)
    return futs


def number_cases(stats, name, cases, base):
    """Case ids are unique over the run and do not depend on scheduling: family sim<k> starts at k * 1 000 000, small at 9 000 000."""
    for k, c in enumerate(cases):
        c["id"] = base + k + 1
        if c["fam"] == "adv":
            c["emb"] = EMBEDDINGS[c["id"] % len(EMBEDDINGS)]
            c["tseed"] = core.seed() * 1000003 + c["id"]
    stats["cases"][name] = len(cases)


def case_hash(c):
    d = {k: v for k, v in c.items() if k not in ("id", "emb", "tseed")}
    return hashlib.sha1(json.dumps(d, sort_keys=True).encode()).hexdigest()


def describe(ev):
    return "%s family, %s, initial %s, contacts %s, result %s, err=%s%s" % (
        ev["fam"], ev["op"], ev["init"], ev["contacts"][:40], json.dumps(ev["res"], sort_keys=True), ev["err"],
        (", panic: " + ev["panicv"]) if ev.get("panic") else "")


def replay_validate(binp, d, name, cases, stats, violations, seen):
    tr = os.path.join(d, "trace_%s.ndjson" % name)
    byid = {c["id"]: c for c in cases}
    # the replayer is run as several processes on consecutive chunks (honest networks take a while to build)
    nchunks = max(1, min(8, len(cases) // 400))
    size = (len(cases) + nchunks - 1) // nchunks
    chunks = [cases[i:i + size] for i in range(0, len(cases), size)]

    def one(i, chunk):
        cp = os.path.join(d, "cases_%s_%d.ndjson" % (name, i))
        tp = os.path.join(d, "trace_%s_%d.ndjson" % (name, i))
        with open(cp, "w") as f:
            for c in chunk:
                f.write(json.dumps(c) + "\n")
        out = core.run([binp, "-in", cp, "-out", tp], timeout=1500)
        return tp, out.strip()

    with ThreadPoolExecutor(max_workers=8) as ex:
        outs = [f.result() for f in [ex.submit(one, i, ch) for i, ch in enumerate(chunks)]]
    with open(tr, "w") as f:
        for tp, out in outs:
            with open(tp) as g:
                f.write(g.read())
            if "skipped=0" not in out:
                core.log("dhtreplay[%s]: a case hung; the remaining cases of its chunk were not run: %s" % (name, out))
    core.log("dhtreplay[%s]: %d cases in %d processes" % (name, len(cases), len(chunks)))
    try:
        res = core.validate_trace("DHTTrace", "DHTTrace.cfg", tr, nshards=1)
    except core.Inconclusive as e:
        core.log("trace validation did not complete (%s); running it once more" % str(e)[:80])
        res = core.validate_trace("DHTTrace", "DHTTrace.cfg", tr, nshards=1)
    lines = open(tr).readlines()
    nontrivial = 0
    for ln in lines:
        ev = json.loads(ln)
        if len(ev["contacts"]) >= 2:
            h = case_hash(byid[ev["id"]])
            if h not in seen:
                seen.add(h)
                nontrivial += 1
    stats["events"] += res["events"]
    stats["trace_states"] += res["states"]
    stats["nontrivial"] += nontrivial
    for v in res["viol"]:
        _tag, lineno, cid, ops = v
        ev = json.loads(lines[lineno - 1])
        for op in ops:
            if op not in OPERATORS:
                raise core.Inconclusive("trace spec printed an unknown operator " + op)
            key = "C20:%s:%s" % (op, ev["op"])
            what = "%s false on the real %s (%s; case %d, event line %d)" % (op, ev["op"], describe(ev), cid, lineno)
            violations.append((key, what, dict(case=byid.get(cid), event=ev, operator=op)))
    drift_ids = set()
    for dr in res["drift"]:
        drift_ids.add(dr[2])
        if len(stats["drift_samples"]) < 4:
            ev = json.loads(lines[dr[1] - 1])
            stats["drift_samples"].append(dict(family=name, case=dr[2], what=dr[3], op=ev["op"], init=ev["init"],
                                               contacts=ev["contacts"][:20], res=ev["res"]))
    stats["drift"] += len(drift_ids)
    if len(stats["samples"]) < 3 and lines:
        ev = json.loads(lines[min(len(lines) - 1, 7)])
        stats["samples"].append(dict(case=byid[ev["id"]], contacts=ev["contacts"], res=ev["res"], err=ev["err"]))


def run_pipeline(tier, replay_case=None):
    t0 = time.time()
    stats = dict(mc={}, cases={}, events=0, trace_states=0, nontrivial=0, drift=0, drift_samples=[], samples=[])
    d = core.scratch("dht")
    violations, seen = [], set()
    side = ThreadPoolExecutor(max_workers=3)
    side_futs = []
    if replay_case is None:
        side_futs.append(side.submit(model_check, tier, stats))
        if TIERS[tier]["selftest"]:
            side_futs.append(side.submit(selftest_orig, stats))
        fbin = side.submit(core.go_build, "dhtreplay")
        gen_futs = generate(tier, stats)
        binp = fbin.result()
        # replay + validation of each family as soon as it is generated, one after the other (one JVM at
        # a time is fastest here); the model-checking jobs run alongside
        from concurrent.futures import as_completed
        for f in as_completed(gen_futs):
            name, cases = f.result()
            number_cases(stats, name, cases, (9 if name == "small" else int(name[3:])) * 1000000)
            replay_validate(binp, d, name, cases, stats, violations, seen)
    else:
        binp = core.go_build("dhtreplay")
        stats["cases"]["replay"] = 1
        replay_validate(binp, d, "replay", [replay_case], stats, violations, seen)
    for f in side_futs:
        f.result()
    side.shutdown()
    stats["wall"] = time.time() - t0
    return stats, violations


def check(pid, tier, replay=None):
    t0 = time.time()
    replay_case = None
    if replay:
        with open(replay) as f:
            rp = json.load(f)["payload"]
        replay_case = rp.get("case")
        if not replay_case:
            raise core.Inconclusive("replay file holds no case")
    stats, violations = run_pipeline(tier, replay_case)
    mine, per_key = [], {}
    for (key, what, payload) in violations:
        per_key[key] = per_key.get(key, 0) + 1
        if per_key[key] > 1:
            continue        # one replay file per violation kind (the first case that showed it)
        path = core.write_replay(pid, key, payload)
        mine.append(core.Violation(pid, key, what, path))
    for v in mine:
        if per_key[v.key] > 1:
            v.what += " (+%d further cases)" % (per_key[v.key] - 1)
    if stats["drift"]:
        print("DRIFT component=DHT cases=%d (the real contacts/result differ from the model's prediction; no listed "
              "property is falsified by that alone) e.g. %s" % (stats["drift"], json.dumps(stats["drift_samples"][:2])))
    if replay_case is None:
        ncases = sum(stats["cases"].values())
        coverage = dict(
            states=stats["mc"]["states"], transitions=stats["mc"]["transitions"],
            traces_validated_against_impl=max(stats["events"] - stats["drift"], 0),
            samples=stats["samples"][:3],
            evaluations=stats["events"],
            distinct_nontrivial=stats["nontrivial"],
            rule="evaluations = cases executed on the real DHTFindNode/DHTJoin/DHTGet/DHTPut and validated by TLC (one log "
                 "event each); distinct_nontrivial = cases with pairwise different content (operation, initial list, "
                 "topology / network descriptor) in which the real operation invoked Ask at least twice",
            model_checking=stats["mc"], cases=stats["cases"], cases_generated=ncases, drift_cases=stats["drift"],
            orig_selftest=stats.get("orig_selftest", "thorough tier only"), trace_states=stats["trace_states"],
            exhaustive=False,
            explanation="TLC exhaustively checks DHT.tla within the bounds of %s, generates cases (DHTGen.tla), which are "
                        "executed on the real code and validated by DHTTrace.tla" % stats["mc"]["cfg"])
        core.write_evidence(pid, tier, "model_checking", coverage,
                            ["node ids are abstracted to their rank by XOR distance to the target (the operations depend on "
                             "ids only through DistanceLt to the target/key and equality)",
                             "replayed adversaries are stateless per case; AddPeer in join reports first sight of an id",
                             "TLC, the Json/IOUtils community modules and the Go toolchain are trusted"],
                            time.time() - t0, len({v.key for v in mine}))
    return core.verdict(pid, mine)
