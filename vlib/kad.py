"""C18 / C19: kademlia.Cache and distance.go, decided with spec/KadCache.tla.

Pipeline (quick and thorough differ in bounds only):
 1. TLC model-checks KadCache (three key/locus families) and KadDist exhaustively: the coded
    design satisfies every property operator within the bounds.
 2. TLC generates behaviours of KadCache (random simulation with a history variable; in the
    thorough tier also the BFS state cover of the exhaustive model) and all KadDist triples.
 3. harness/cmd/kadreplay executes every behaviour on the real kademlia.Cache built from
    /repo's working tree (-tags verif) and logs arguments, results and the projected state.
 4. TLC validates the logs against KadCacheTrace / KadDistTrace: a property operator that is
    false on the real observations is a VIOLATION; a step the model cannot explain is DRIFT.
"""
import json
import os
import time
from concurrent.futures import ThreadPoolExecutor

from . import core

PROPERTIES = ["C18", "C19"]

MANIFEST = {
    "C18": dict(level="model_checking",
                technique="TLA+ spec (KadCache.tla) model-checked with TLC; TLC-generated behaviours replayed on the real Cache; traces validated by TLC against KadCacheTrace.tla",
                text="TLC exhaustively checks every property operator of C18 on KadCache.tla (three key/locus families, every constructor configuration in the family, all operation sequences up to the depth bound) and then evaluates the same operators on traces recorded from the real kademlia.Cache executing TLC-generated behaviours (1-, 2- and 32-byte keys). A VIOLATION is printed only when an operator is false on real observations.",
                note="Bounded: <= 8-11 keys per family, depth 3-4 exhaustively, depth 8-40 in simulation. Trusts TLC, the CommunityModules Json/IOUtils modules, the Go toolchain and the add-only VerifDump hook (p/kademlia/verif_export.go).",
                ref="5 (C18), 3.9"),
    "C19": dict(level="model_checking",
                technique="TLA+ spec (KadCache.tla, KadDist.tla) model-checked with TLC; behaviours and all distance triples replayed on the real code; traces validated by TLC",
                text="TLC checks ForEachSorted/ClosestIsMin/CloserExact/MatchingExact on every reachable cache content of KadCache.tla for every query key of the family (including keys shorter and longer than the locus), and the distance-comparison laws on all 9261 triples of byte strings of length <= 2 over {0,1,128,255}; the same operators are evaluated on what the real ForEach/Closest/ForEachCloser/ForEachMatching/DistanceCmp/... returned.",
                note="As C18; entry keys have the locus' length, query keys any length. ForEachMatching is exercised at prefix lengths {0,1,2,5,7,8,9,15,16,17,24} only.",
                ref="5 (C19), 3.9"),
}

C18_OPS = {"CountExact", "Bounded", "NoPanic", "LegalDisappear", "OnlyAddsKey", "UnrelatedUntouched",
           "NoCloserVictim", "VictimUnprotected", "ReportedVictimGone", "EvictOnlyWhenFull", "ExpireExact", "DeleteExact",
           "PutStores", "GetFaithful"}
C19_OPS = {"ForEachSorted", "ClosestIsMin", "CloserExact", "MatchingExact",
           "AgreesWithBytesCompare", "Antisymmetric", "ZeroIffEqual", "LtGtConsistent", "DistanceIsXor",
           "DistSymmetric", "LeadingZeros", "HasPrefix", "NoPanicDist"}
# NoPanicRead is attributed by the method that panicked (Get/WouldPut -> C18, enumerations -> C19)

FAMILIES = {
    # name: (mc cfg, deep cfg, gen cfg, cover cfg, trace cfg)
    "small": ("KadCache_small.cfg", "KadCache_small_deep.cfg", "KadCacheGen_small.cfg", "KadCacheCover_small.cfg", "KadCacheTrace_small.cfg"),
    "boundary": ("KadCache_boundary.cfg", "KadCache_boundary_deep.cfg", "KadCacheGen_boundary.cfg", "KadCacheCover_boundary.cfg", "KadCacheTrace_boundary.cfg"),
    "wide": ("KadCache_wide.cfg", "KadCache_wide_deep.cfg", "KadCacheGen_wide.cfg", "KadCacheCover_wide.cfg", "KadCacheTrace_wide.cfg"),
    "k32": (None, None, "KadCacheGen_k32.cfg", None, "KadCacheTrace_k32.cfg"),
    # focus: tiny universe; EVERY transition of its model (edge cover) is executed on the real cache
    "focus": ("KadCache_focus.cfg", "KadCache_focus.cfg", "KadCacheGen_focus.cfg", None, "KadCacheTrace_focus.cfg"),
}
EDGE = {"focus": "KadCacheEdge_focus.cfg"}

TIERS = {
    "quick": dict(sim={"small": 600, "boundary": 150, "wide": 200, "k32": 24, "focus": 1200}, deep=False, cover=[], edge_stride=40),
    "thorough": dict(sim={"small": 6000, "boundary": 1500, "wide": 2500, "k32": 600, "focus": 6000}, deep=True, cover=["small", "boundary"],
                     gen_parts={"k32": 6, "small": 2}, edge_stride=1),
}


def hist_to_behaviour(i, hist, silent=0):
    init = hist[0]
    ops = []
    for o in hist[1:]:
        ops.append(dict(op=o["op"], key=o.get("key", []), v=o.get("v", 0), t=o.get("t", 0), e=o.get("e", 0)))
    return dict(id=i, locus=init["locus"], max=init["max"], min=init["min"], prefill=sorted(init["prefill"]),
                keys=sorted(init["keys"]), queries=sorted(init["queries"]), ops=ops, silent=min(silent, len(ops)))


def model_check_and_generate(tier, d, stats):
    """Stage 1 (all TLC jobs run concurrently): exhaustive model checking of every family and
    of KadDist; behaviour generation.  Returns ({family: behaviours_path}, dist_cases_path, {id: behaviour})."""
    T = TIERS[tier]

    def mc(fam, cfg):
        res = core.tlc("MC_KadCache", cfg, workers=4, timeout=3000, label="mc-" + fam)
        core.tlc_ok_or_inconclusive(res, "MC KadCache/" + fam)
        stats["mc"][fam] = dict(states=res.distinct, transitions=res.generated, depth=res.depth, wall=round(res.wall, 1))

    def mc_dist():
        res = core.tlc("KadDist", "KadDist.cfg", workers=2, timeout=600, short=True)
        core.tlc_ok_or_inconclusive(res, "MC KadDist")
        stats["mc"]["dist"] = dict(states=res.distinct, transitions=res.generated, depth=res.depth, wall=round(res.wall, 1))

    def gen_sim(fam, n, sd):
        res = core.tlc("KadCacheGen", FAMILIES[fam][2], workers=1, simulate=n, depth=100,
                       tlc_seed=sd, timeout=1800, label="gen-" + fam, short=(n <= 1000))
        core.tlc_ok_or_inconclusive(res, "Gen " + fam)
        hs = [x[1] for x in res.printed("BEH")]
        if len(hs) < n:
            raise core.Inconclusive("generator %s produced %d of %d behaviours" % (fam, len(hs), n))
        return fam, hs

    def gen_cover(fam):
        res = core.tlc("KadCacheGen", FAMILIES[fam][3], workers=1, timeout=1800, label="cover-" + fam)
        core.tlc_ok_or_inconclusive(res, "Cover " + fam)
        return fam, [x[1] for x in res.printed("BEH")]

    def gen_edge(fam):
        """Every transition of the family's model: TLC prints, per generated transition, the BFS-shortest
        path to its source state followed by the transition. The prefix is executed silently (its own
        transitions are other edges); the quick tier takes a seeded sample, but always every edge whose
        operation removes entries (expire / delete) or evicts."""
        res = core.tlc("KadCacheGen", EDGE[fam], workers=1, timeout=3000, label="edge-" + fam, heap="6g")
        core.tlc_ok_or_inconclusive(res, "Edge " + fam)
        hs = [x[1] for x in res.printed("BEH")]
        stride = T["edge_stride"]
        keep = []
        for i, h in enumerate(hs):
            if stride == 1 or (i + core.seed()) % stride == 0:
                keep.append(h)
        stats.setdefault("edges", {})[fam] = dict(total=len(hs), executed=len(keep))
        return fam, keep

    def gen_dist():
        rd = core.tlc("KadDist", "KadDistGen.cfg", workers=1, timeout=600, short=True)
        core.tlc_ok_or_inconclusive(rd, "KadDistGen")
        return rd.printed("CASE")

    ex = ThreadPoolExecutor(max_workers=10)
    if True:
        side = []
        for fam, (mcfg, deep, _g, _c, _t) in FAMILIES.items():
            if mcfg:
                side.append(ex.submit(mc, fam, deep if T["deep"] else mcfg))
        side.append(ex.submit(mc_dist))
        futs = []
        edge_futs = [ex.submit(gen_edge, fam) for fam in EDGE]
        for fam in FAMILIES:
            if FAMILIES[fam][2] is None:
                continue
            n = T["sim"][fam]
            parts = T.get("gen_parts", {}).get(fam, 1)
            for i in range(parts):
                futs.append(ex.submit(gen_sim, fam, n // parts, core.seed() * 1000 + i))
        futs += [ex.submit(gen_cover, fam) for fam in T["cover"]]
        fdist = ex.submit(gen_dist)
        beh = {}
        for f in futs:
            fam, hs = f.result()
            beh.setdefault(fam, []).extend(hs)
        cases = fdist.result()
        edges = dict(f.result() for f in edge_futs)
    dist_path = os.path.join(d, "dist_cases.ndjson")
    with open(dist_path, "w") as f:
        for c in cases:
            f.write(json.dumps(dict(x=c[1], a=c[2], b=c[3])) + "\n")
    stats["dist_cases"] = len(cases)
    out, allb, bid = {}, {}, 0
    for fam, hs in edges.items():
        beh.setdefault(fam, [])
    for fam, hs in beh.items():
        p = os.path.join(d, "beh_%s.ndjson" % fam)
        with open(p, "w") as f:
            for h, silent in [(h, 0) for h in hs] + [(h, len(h) - 2) for h in edges.get(fam, [])]:
                bid += 1
                b = hist_to_behaviour(bid, h, silent=silent)
                allb[bid] = b
                f.write(json.dumps(b) + "\n")
        out[fam] = p
        stats["behaviours"][fam] = len(hs) + len(edges.get(fam, []))
    return out, dist_path, allb, side, ex


def tla_seq(k):
    return "<<" + ", ".join(str(x) for x in k) + ">>"


def universe_module(keys, queries):
    return ("---- MODULE KadCacheTraceU ----\nTKeys == {%s}\nTQueries == {%s}\n====\n"
            % (", ".join(tla_seq(k) for k in keys), ", ".join(tla_seq(q) for q in queries)))


def is_reset(line):
    return line.startswith('{"ev":"init"')


def classify(op, event):
    if op in C18_OPS:
        return "C18"
    if op in C19_OPS:
        return "C19"
    if op == "NoPanicRead":
        pv = event.get("panicv", "")
        return "C18" if pv.startswith("Get/WouldPut") else "C19"
    return None  # e.g. WouldPutSound: not part of a listed property -> drift only


def run_pipeline(tier, replay_behaviours=None):
    t0 = time.time()
    stats = dict(mc={}, behaviours={}, events=0, trace_states=0, drift=0, drift_samples=[])
    d = core.scratch("kad")
    binp = core.go_build("kadreplay")
    violations = []
    allb = {}
    mc_futs, mc_ex = [], None
    if replay_behaviours is None:
        behs, dist_path, allb, mc_futs, mc_ex = model_check_and_generate(tier, d, stats)
    else:
        behs, dist_path = {}, None
        for fam, bl in replay_behaviours.items():
            p = os.path.join(d, "beh_%s.ndjson" % fam)
            with open(p, "w") as f:
                for b in bl:
                    allb[b["id"]] = b
                    f.write(json.dumps(b) + "\n")
            behs[fam] = p
            stats["behaviours"][fam] = len(bl)

    samples = []

    def replay_validate(fam, p):
        tr = os.path.join(d, "trace_%s.ndjson" % fam)
        out = core.run([binp, "-in", p, "-out", tr], timeout=1200)
        core.log("kadreplay[%s]: %s" % (fam, out.strip()))
        with open(p) as f:
            b0 = json.loads(f.readline())
        return fam, tr, core.validate_trace("KadCacheTrace", FAMILIES[fam][4], tr, nshards=1, chunk=(3000 if fam == "k32" else 30000),
                                            files={"KadCacheTraceU.tla": universe_module(b0["keys"], b0["queries"])})

    def dist_validate():
        tr = os.path.join(d, "trace_dist.ndjson")
        core.run([binp, "-dist", "-in", dist_path, "-out", tr], timeout=600)
        return tr, core.validate_trace("KadDistTrace", "KadDistTrace.cfg", tr, nshards=1)

    with ThreadPoolExecutor(max_workers=8) as ex:
        futs = [ex.submit(replay_validate, fam, p) for fam, p in behs.items()]
        fd = ex.submit(dist_validate) if dist_path else None
        results = [f.result() for f in futs]
        dres = fd.result() if fd else None
    for fam, tr, res in results:
        stats["events"] += res["events"]
        stats["trace_states"] += res["states"]
        lines = None
        for v in res["viol"]:
            if lines is None:
                lines = open(tr).readlines()
            _tag, lineno, beh, ops = v
            ev = json.loads(lines[lineno - 1])
            for op in ops:
                pid = classify(op, ev)
                if pid is None:
                    stats["drift"] += 1
                    continue
                key = "%s:%s:%s" % (pid, op, ev["ev"])
                what = "%s false after %s on the real Cache (family %s, behaviour %d, event line %d%s)" % (
                    op, ev["ev"], fam, beh, lineno, (", panic: " + ev["panicv"]) if (ev.get("panic") and op.startswith("NoPanic")) else "")
                violations.append((pid, key, what, dict(family=fam, behaviour=allb.get(beh), event=ev, operator=op)))
        stats["drift"] += len(res["drift"])
        for dr in res["drift"][:3]:
            stats["drift_samples"].append(dict(family=fam, line=dr[1], behaviour=dr[2], what=dr[3]))
        if len(samples) < 3:
            with open(behs[fam]) as f:
                samples.append(json.loads(f.readline()))
    if dres:
        tr, res = dres
        stats["events"] += res["events"]
        stats["trace_states"] += res["states"]
        stats["dist_events"] = res["events"]
        lines = None
        for v in res["viol"]:
            if lines is None:
                lines = open(tr).readlines()
            _tag, lineno, _b, ops = v
            ev = json.loads(lines[lineno - 1])
            for op in ops:
                key = "C19:%s:dist" % op
                what = "%s false for x=%s a=%s b=%s on the real distance functions" % (op, ev["x"], ev["a"], ev["b"])
                violations.append(("C19", key, what, dict(family="dist", event=ev, operator=op)))
    for f in mc_futs:
        f.result()      # model-checking jobs ran concurrently with replay and validation
    if mc_ex:
        mc_ex.shutdown()
    stats["wall"] = time.time() - t0
    stats["samples"] = samples
    return stats, violations


def check(pid, tier, replay=None):
    t0 = time.time()
    replay_behaviours = None
    if replay:
        with open(replay) as f:
            rp = json.load(f)["payload"]
        if rp.get("behaviour"):
            replay_behaviours = {rp["family"]: [rp["behaviour"]]}
        else:
            replay_behaviours = {}
    stats, violations = run_pipeline(tier, replay_behaviours)
    mine, seen = [], set()
    for (p, key, what, payload) in violations:
        if p != pid or key in seen:
            continue
        seen.add(key)
        path = core.write_replay(pid, key, payload)
        mine.append(core.Violation(pid, key, what, path))
    nbeh = sum(stats["behaviours"].values())
    mc_states = sum(v["states"] for v in stats["mc"].values())
    mc_trans = sum(v["transitions"] for v in stats["mc"].values())
    if stats["drift"]:
        print("DRIFT component=KadCache steps=%d (model and code disagree on steps that falsify no listed property) e.g. %s"
              % (stats["drift"], json.dumps(stats["drift_samples"][:2])))
    distinct = len({json.dumps(b.get("ops"), sort_keys=True) + str(b.get("max")) for b in []})
    coverage = dict(
        states=max(mc_states, 1), transitions=max(mc_trans, 1),
        traces_validated_against_impl=nbeh + stats.get("dist_events", 0),
        samples=stats["samples"][:2] or [dict(note="replay run")],
        evaluations=stats["events"],
        distinct_nontrivial=stats["trace_states"],
        rule="evaluations = trace events (one per executed Cache operation or distance triple) validated by TLC; "
             "distinct_nontrivial = distinct states of the trace specifications (log position + bound projection)",
        model_checking=stats["mc"], behaviours=stats["behaviours"], dist_cases=stats.get("dist_cases", 0),
        drift_steps=stats["drift"], exhaustive=False,
        explanation="TLC exhaustively checks KadCache.tla/KadDist.tla within the bounds of the listed configs, "
                    "generates behaviours, which are executed on the real Cache and validated by KadCacheTrace.tla")
    core.write_evidence(pid, tier, "model_checking", coverage,
                        ["entry keys have the locus' length; times are small naturals mapped to time.Time (0 = zero time)",
                         "Update is exercised with Put's closure and with DHTNode.AddPeer's closure shape",
                         "TLC, the Json/IOUtils community modules and the Go toolchain are trusted"],
                        time.time() - t0, len(mine))
    return core.verdict(pid, mine)
