"""C08: no bytes from the network can crash a node (spec/PacketClasses.tla, PacketTrace.tla).

This is the property for which the TLA+ technique is weakest (DESIGN sections 5 C08 and 9): the
specification is a structured, exhaustive CASE GENERATOR over malformed-input CLASSES and their
sequences, plus a design-level model of the three index computations that depend on earlier packets.
It is claimed at level "exploration", not model checking.

 1. TLC enumerates, per packet-facing layer, all sequences of <= 3 packets over the layer's boundary
    classes (PacketClasses.tla) and checks NoModelPanic on the repaired design.
 2. harness/cmd/crashreplay concretises every sequence (seeded filler bytes; variants > 0 add a seeded
    byte mutation: bit flips, truncation, splice, extension) and delivers it to a fresh instance of the
    REAL layer inside a child process; the parent inspects exit status / stderr ("panic:", "fatal
    error:"), attributes the crash to a single sequence (progress marker, re-run alone, bisection) and
    continues.  After every sequence a valid message must still be served.
 3. TLC evaluates NoCrash / StillServes per abstract sequence (PacketTrace.tla) and names the abstract
    class of a violating sequence from the pinned-design model (e.g. fragswarm/part>=total-after-first).
"""
import json
import os
import re
import time

from . import core, tlcretry

PROPERTIES = ["C08"]

MANIFEST = {
    "C08": dict(level="exploration",
                technique="TLA+ spec (PacketClasses.tla) as exhaustive generator of malformed packet-class sequences (<= 3 packets per layer) + design-level index model; sequences concretised (seeded filler + byte mutation) and delivered to the real layers in child processes with crash attribution; NoCrash/StillServes evaluated by TLC (PacketTrace.tla)",
                text="For 31 layer/path combinations (fragswarm, mbapp tell+ask, five p2pmux demultiplexers x tell/ask, P2PKE Session as responder and initiator, Channel, p2pkeswarm, six address parsers, PeerID text, x509 parse/LoadVerifier, quicswarm frames over a real QUIC connection, DHT handlers under three node configurations, kademlia Cache with three locus lengths) TLC enumerates every sequence of up to 3 packets over boundary-valued header classes; each is concretised, mutated and delivered to the real code in a child process; a panic, fatal error, process exit, hang or a valid message no longer served afterwards is a VIOLATION.",
                note="Covers classes of malformed input and their sequences, not every byte string (DESIGN section 9). The adversary on the P2PKE layers is a full protocol participant with its own key (real noise/ed25519), not a key-less forger only. Layers whose crash budget (24 crashing sequences) is exhausted are not executed further in that run (reported as skipped). Timing-based observations (valid message not served within seconds, hang) are re-measured alone twice and discarded as transient when they do not reproduce. QUIC/TLS/SSH library internals are out of scope. Trusts TLC, the Json/IOUtils modules, the Go toolchain.",
                ref="5 (C08), 3.11, 9"),
}

TIERS = {
    "quick": dict(cfg="PacketClasses.cfg", variants=2, shards=1, selftest_model=False, timeout=600),
    "thorough": dict(cfg="PacketClasses_rich.cfg", variants=4, shards=8, selftest_model=True, timeout=3000),
}

VALID_NAMES = {"valid", "p0/t1", "tell/single", "ask/single", "ih/valid", "id/valid", "data/valid", "rh/valid", "rd/valid", "open/data", "open",
               "len=chan/data", "ask/valid", "tell/valid", "put/key32", "get/key32", "find/limit0", "act/node-initiates"}


def crash_site(detail):
    """First frame of the library under test in the crashing goroutine, e.g. s/fragswarm.(*aggregator).addPart."""
    m = re.search(r"go\.brendoncarroll\.net/p2p/(\S+?)\((?:0x|\{|\)|\.\.\.|\w+\?)", detail)
    return re.sub(r"\[\.\.\.\]", "", m.group(1)) if m else ""


def generate(tier, stats):
    T = TIERS[tier]
    res = tlcretry.tlc("PacketClasses", T["cfg"], workers=4 if tier == "quick" else 8, timeout=1200, label="pc-gen", short=False)
    core.tlc_ok_or_inconclusive(res, "PacketClasses.tla (NoModelPanic + case generation)")
    cases = [dict(id=i + 1, layer=v[1], seq=v[2]) for i, v in enumerate(res.printed("PCASE"))]
    if len(cases) != res.distinct or not cases:
        raise core.Inconclusive("PacketClasses generator printed %d cases for %d states" % (len(cases), res.distinct))
    stats["model"] = dict(states=res.distinct, transitions=res.generated, wall=round(res.wall, 1), cfg=T["cfg"])
    if T["selftest_model"]:
        r2 = tlcretry.tlc("PacketClasses", "PacketClasses_orig.cfg", workers=2, timeout=600, label="pc-orig", short=True)
        if "NoModelPanic" not in r2.violated:
            raise core.Inconclusive("self-test: PacketClasses_orig.cfg (pinned indexing) does not violate NoModelPanic")
        stats["model_selftest"] = "pinned indexing (F05/F06/F07) violates NoModelPanic in the model, as expected"
    return cases


def run_pipeline(tier, cases=None, seed=None, variants=None):
    t0 = time.time()
    T = TIERS[tier]
    seed = core.seed() if seed is None else seed
    variants = variants or T["variants"]
    stats = dict(drift=0)
    d = core.scratch("crash")
    binp = os.environ.get("VERIF_PREBUILT_CRASHREPLAY") or core.go_build("crashreplay")
    # the crash detector itself must work (DESIGN section 8): exit 2 otherwise
    sd = os.path.join(d, "selftest")
    os.makedirs(sd)
    o = core.run([binp, "-selftest", "-scratch", sd], timeout=300)
    if "selftest ok" not in o:
        raise core.Inconclusive("crashreplay self-test failed:\n" + o[-2000:])
    stats["detector_selftest"] = o.strip().splitlines()[-1]
    if cases is None:
        cases = generate(tier, stats)
    by_id = {c["id"]: c for c in cases}
    cp = os.path.join(d, "cases.ndjson")
    with open(cp, "w") as f:
        for c in cases:
            f.write(json.dumps(c) + "\n")
    evp = os.path.join(d, "events.ndjson")
    wd = os.path.join(d, "work")
    os.makedirs(wd)
    o = core.run([binp, "-in", cp, "-out", evp, "-seed", str(seed), "-variants", str(variants), "-scratch", wd], timeout=T["timeout"])
    core.log("crashreplay:", o.strip().splitlines()[-1])
    # aggregate the per-sequence events per abstract case (what TLC evaluates)
    agg = {}
    nexec = nskipped = 0
    distinct = set()
    samples = []
    with open(evp) as f:
        for line in f:
            e = json.loads(line)
            a = agg.setdefault(e["case"], dict(case=e["case"], layer=e["layer"], seq=e["seq"], runs=0, outcomes=set(), served=set(), plainbad=False, bad=[]))
            a["runs"] += 1
            a["outcomes"].add(e["outcome"])
            a["served"].add(e["served"])
            if e["outcome"] == "skipped":
                nskipped += 1
                continue
            nexec += 1
            bad = e["outcome"] in ("panic", "hang") or e["served"] == "no"
            if bad:
                if e["variant"] == 0:
                    a["plainbad"] = True
                if len(a["bad"]) < 2:
                    a["bad"].append(e)
            if e["variant"] > 0 or not all(n in VALID_NAMES for n in e["seq"]):
                distinct.add((e["layer"], tuple(e["hex"] or [])))
            if len(samples) < 4 and e["variant"] == 1 and len(e["seq"]) == 3 and e["layer"] not in {s["layer"] for s in samples}:
                samples.append(dict(layer=e["layer"], abstract_sequence=e["seq"], mutation=e["mut"], hex=e["hex"], outcome=e["outcome"], served=e["served"]))
    if len(agg) != len(cases):
        raise core.Inconclusive("events cover %d of %d abstract cases" % (len(agg), len(cases)))
    order = sorted(agg)
    trace = os.path.join(d, "trace.ndjson")
    selftest = {}
    with open(trace, "w") as f:
        for cid in order:
            a = agg[cid]
            f.write(json.dumps(dict(case=a["case"], layer=a["layer"], seq=a["seq"], runs=a["runs"], outcomes=sorted(a["outcomes"]),
                                    served=sorted(a["served"]), plainbad=a["plainbad"])) + "\n")
        # binding demonstration: synthetic lines that must be rejected, with the right abstract class
        n = len(order)
        f.write(json.dumps(dict(case=0, layer="fragswarm", seq=["p0/t2", "p2/t3"], runs=1, outcomes=["panic"], served=["no"], plainbad=True)) + "\n")
        selftest[n + 1] = ("NoCrash", "part>=total-after-first")
        f.write(json.dumps(dict(case=0, layer="mbapp", seq=["tell/single"], runs=1, outcomes=["ok"], served=["no"], plainbad=True)) + "\n")
        selftest[n + 2] = ("StillServes", "")
    res = tlcretry.validate_trace("PacketTrace", "PacketTrace.cfg", trace, nshards=T["shards"], timeout=1500)
    seen = set()
    violations = []
    for v in res["viol"]:
        _tag, lineno, cid, ops, hazard = v
        if lineno in selftest:
            if selftest[lineno][0] in ops and hazard == selftest[lineno][1]:
                seen.add(lineno)
            continue
        a = agg[cid]
        plain = a["plainbad"]
        for op in ops:
            b = a["bad"][0] if a["bad"] else {}
            site = crash_site(b.get("detail") or "")
            if hazard and plain:
                cls = hazard                     # the abstract class named by the design-level model
            elif site:
                cls = "at:" + site               # mutated bytes / unmodelled layer: the crashing function
            else:
                cls = ">".join(a["seq"])
            if "hang" in a["outcomes"] and op == "StillServes":
                cls += "/hang"
            key = "C08:%s:%s/%s" % (op, a["layer"], cls)
            what = "%s false on the real %s layer for the packet sequence %s%s: outcome %s, served %s; bytes %s; %s" % (
                op, a["layer"], a["seq"], "" if plain else " (after byte mutation %s)" % b.get("mut"), b.get("outcome"), b.get("served"),
                b.get("hex"), (b.get("detail") or "")[:300])
            violations.append((key, what, dict(case=by_id[cid], seed=seed, variants=variants, events=a["bad"])))
    if len(seen) != len(selftest):
        raise core.Inconclusive("binding self-test: PacketTrace did not reject / name the synthetic lines %s" % sorted(set(selftest) - seen))
    stats["binding_selftest"] = "%d synthetic violating lines rejected and named" % len(selftest)
    stats["drift"] = len([x for x in res["drift"] if x[1] not in selftest])
    stats.update(cases=len(cases), executed=nexec, skipped=nskipped, distinct_nontrivial=len(distinct), samples=samples,
                 layers=len({c["layer"] for c in cases}), crashreplay=o.strip().splitlines()[-1], wall=time.time() - t0)
    return stats, violations


def check(pid, tier, replay=None):
    t0 = time.time()
    if replay:
        with open(replay) as f:
            rp = json.load(f)["payload"]
        stats, violations = run_pipeline(tier, cases=[rp["case"]], seed=rp.get("seed"), variants=rp.get("variants"))
    else:
        stats, violations = run_pipeline(tier)
    mine = [core.Violation(pid, key, what, core.write_replay(pid, key, payload)) for key, what, payload in violations]
    if stats["drift"]:
        print("DRIFT component=PacketClasses lines=%d (a crash of an unmutated sequence that the design-level index model does not explain)" % stats["drift"])
    if stats.get("skipped"):
        print("NOTE property=C08 %d sequences not executed (crash budget of a layer exhausted); the verdict above stands for the executed ones" % stats["skipped"])
    m = stats.get("model", dict(states=0, transitions=0))
    coverage = dict(
        evaluations=stats["executed"], distinct_nontrivial=stats["distinct_nontrivial"],
        rule="evaluations = concrete packet sequences delivered to a real layer in a child process (abstract TLC sequences x variants, "
             "skipped ones excluded); distinct_nontrivial = distinct byte sequences among them that are mutated or contain at least one "
             "malformed / boundary class (sequences made only of well-formed packets are not counted)",
        samples=stats["samples"] or [dict(note="replay run")],
        states=m["states"], transitions=m["transitions"], traces_validated_against_impl=stats["cases"],
        abstract_sequences=stats["cases"], layers=stats["layers"], skipped=stats["skipped"], drift_lines=stats["drift"],
        detector_selftest=stats["detector_selftest"], binding_selftest=stats["binding_selftest"],
        model=stats.get("model", {}), model_selftest=stats.get("model_selftest", "not run in this tier"),
        crashreplay=stats["crashreplay"], exhaustive=False,
        explanation="exhaustive over the abstract packet-class sequences of PacketClasses.tla (<= 3 packets per layer); the byte strings of "
                    "each class are sampled (seeded filler + seeded mutation), not enumerated")
    core.write_evidence(pid, tier, "exploration", coverage,
                        ["the harness is the inner transport (netsim): packets are handed to the layer's own Receive/ServeAsk workers one at a time",
                         "a panic on a direct call (parsers, Session/Channel.Deliver, DHT handlers) is recorded in-process; a panic in a layer goroutine kills the child and is attributed by the parent",
                         "the P2PKE adversary owns a key and completes real handshakes; it cannot forge other parties' signatures",
                         "QUIC frames travel over a real quic-go connection on loopback UDP",
                         "TLC, the Json/IOUtils community modules and the Go toolchain are trusted"],
                        time.time() - t0, len(mine))
    return core.verdict(pid, mine)
