"""TLC runs that survive being killed from outside.

Several checks run concurrently on this machine and a stray `pkill -f tlc2.TLC` (or the OOM killer)
ends every TLC process, not only its own.  A TLC run that was KILLED says nothing about the model:
it is repeated (twice at most) before the caller sees a result.  A run that terminated by itself,
whatever it reported, is never repeated.  (Helper for addr.py / keys.py / crash.py; no check of its own.)
"""
import time

from . import core


def _killed(res):
    # killed by a signal: negative return code (subprocess) or 128+signal (shell); TLC itself exits 0, 10..13, 75..77, 150..153
    return res.rc < 0 or res.rc in (129, 130, 137, 143) or ("Finished in" not in res.out and "Error:" not in res.out and res.rc != 0)


def tlc(*a, **kw):
    res = None
    for attempt in range(3):
        res = core.tlc(*a, **kw)
        if not _killed(res):
            return res
        core.log("TLC was killed from outside (rc=%s); repeating the run" % res.rc)
        time.sleep(1 + attempt)
    return res


def validate_trace(*a, **kw):
    last = None
    for attempt in range(3):
        try:
            return core.validate_trace(*a, **kw)
        except core.Inconclusive as e:
            msg = str(e)
            # a run that ended by itself prints its summary or an error; a killed one prints neither
            if "did not complete" in msg and "Finished in" not in msg and "Error:" not in msg:
                last = e
                core.log("trace validation was killed from outside; repeating the run")
                time.sleep(1 + attempt)
                continue
            raise
    raise last
