"""G02 (growth: specification coverage beyond the listed properties): four small self-contained
pieces of /repo, each transcribed into TLA+ AS CODED, model-checked exhaustively over a scaled-down
domain and bound to the real functions by replaying every model case (harness/cmd/funcreplay) and
validating the logged results with a trace specification.

 phasetime   p/mbapp/phasetime.go          PhaseTime.tla / MC_PhaseTime / PhaseTimeTrace
             PhaseTime32 over a scaled period P: RoundTrip for every receiver clock within P/4
             (inclusive) of the instant, OddEvenChoice, DecodeNear, the exact skew region, the epoch
             helpers; every (instant, clock) pair of the model is executed on the real functions with
             units = 1 ms (and the interesting skews with 1 us, 2 ms, 250 ms).
 retry       s/swarmutil/retry/retry.go    Retry.tla / RetryBackoff.tla / RetryTrace
             Retry's loop with a discrete clock (every complete behaviour of the model is replayed
             through a Waiter the harness controls, no real time), the backoff constructors as
             integer functions (every (kind, n) case), and four real-time scenarios with
             millisecond delays (lower bounds, and upper bounds >= 10x healthy).
 packetconn  p2pconn/packetconn.go         PacketConn.tla / PacketConnGen / PacketConnTrace
             the net.PacketConn adapter over s/memswarm as a state machine (deadline kinds, queue,
             blocked reader, Close); random behaviours of the model executed on the real adapter,
             followed by a monitor.
 would       p/kademlia/cache.go           KadWould.tla (EXTENDS KadCache) / KadWouldGen / KadWouldTrace
             WouldPut / WouldAdd / AcceptingPrefixLen versus what Put then does (the repaired WouldPut).

Verdict policy (BUILDING.md): VIOLATION only when the REAL code falsifies a law operator evaluated by
TLC in a trace specification; DRIFT when it merely differs from the as-coded model; a counterexample
in a model alone, a build error or a timeout is INCONCLUSIVE.  Genuine defects that are recorded
rather than repaired are listed in known_findings.json with property "G02" and keys "G02:..." (this
module matches them by key); the repaired ones are in its "fixed" list.
"""
import json
import os
import time
from concurrent.futures import ThreadPoolExecutor

from . import core

EXTRA = ["G02"]

PID = "G02"

TIERS = {
    "quick": dict(pt=[("PhaseTime_q.cfg", 16)], pt_mc=[], retry_mc=[], retry_kf=False,
                  pc_cover="PacketConnCover_q.cfg", pc_sim=0, pc_kf=False,
                  would_cover={"small": ("KadWouldCover_small.cfg", 12), "boundary": ("KadWouldCover_boundary.cfg", 1)},
                  would_mc=[], would_kf=False, would_sim={}, bf_extra=[]),
    "thorough": dict(pt=[("PhaseTime_q.cfg", 16), ("PhaseTime_t.cfg", 64)], pt_mc=["PhaseTime_res.cfg"],
                     retry_mc=["Retry_live.cfg"], retry_kf=True,
                     pc_cover="PacketConnCover_t.cfg", pc_sim=600, pc_kf=True,
                     would_cover={"small": ("KadWouldCover_small.cfg", 3), "boundary": ("KadWouldCover_boundary.cfg", 1)},
                     would_mc=["KadWould_small_deep.cfg", "KadWould_boundary.cfg"], would_kf=True,
                     would_sim={"small": 300, "boundary": 100}, bf_extra=["RetryBackoff_e3.cfg"]),
}

BF_PARAMS = dict(expInit=100, expEvery=2, capAt=3000, linM=30, linB=100, floorAt=250)     # = RetryBackoff.cfg
RT_CASES = ["gaps", "default", "cancel-in-wait", "deadline-in-wait"]
BIG_N = list(range(14, 22)) + list(range(60, 84)) + [100, 127, 128, 500, 1023, 1024, 2000, 5000, 1 << 20]


class Stats:
    def __init__(self):
        self.mc = {}
        self.expected_violations = {}
        self.cases = {}
        self.events = {}
        self.trace_states = {}
        self.drift = []
        self.samples = []


def _mc(stats, name, module, cfg, workers=2, timeout=900, short=True, heap="4g"):
    res = core.tlc(module, cfg, workers=workers, timeout=timeout, short=short, label="mc-" + name.replace("/", "-"), heap=heap)
    core.tlc_ok_or_inconclusive(res, "MC " + name)
    stats.mc[name] = dict(states=res.distinct, transitions=res.generated, depth=res.depth, wall=round(res.wall, 1))
    return res


def _expect_violation(stats, name, module, cfg, prop):
    """A law that the AS-CODED model is expected to violate (the witness of a recorded finding or of a
    documented limitation).  If TLC no longer finds the counterexample the model changed: inconclusive."""
    res = core.tlc(module, cfg, workers=1, timeout=600, short=True, label="kf-" + name.replace("/", "-"))
    if prop not in res.violated:
        raise core.Inconclusive("%s: the model was expected to violate %s (%s) and does not:\n%s"
                                % (name, prop, cfg, res.out[-2000:]))
    stats.expected_violations[name] = prop


# ----------------------------------------------------------------------------
# phasetime

def _skew_class(ev, P):
    s, q = ev["now"] - ev["x"], P // 4
    if ev["x"] < 0 or ev["now"] < 0:
        return "pre1970"
    for v, n in ((0, "0"), (q, "P/4"), (-q, "-P/4"), (q - 1, "P/4-1"), (-q + 1, "-P/4+1")):
        if s == v:
            return n
    return "|s|<P/4" if abs(s) < q else "|s|>P/4"


def run_phasetime(tier, binp, d, stats):
    T = TIERS[tier]
    viol = []
    with ThreadPoolExecutor(max_workers=4) as ex:
        extra = [ex.submit(_mc, stats, "phasetime/" + cfg, "MC_PhaseTime", cfg, 2) for cfg in T["pt_mc"]]

        def one(cfg, P):
            res = _mc(stats, "phasetime/" + cfg, "MC_PhaseTime", cfg, 4, short=(P <= 16))
            cases = res.printed("CASE")
            if len(cases) != res.distinct or not cases:
                raise core.Inconclusive("PhaseTime %s: %d cases printed for %d states" % (cfg, len(cases), res.distinct))
            cp, tr = os.path.join(d, "pt%d.ndjson" % P), os.path.join(d, "pt%d.trace" % P)
            with open(cp, "w") as f:
                for c in cases:
                    f.write(json.dumps(dict(x=c[1], now=c[2])) + "\n")
            out = core.run([binp, "-mode", "phasetime", "-P", str(P), "-in", cp, "-out", tr], timeout=600)
            core.log("funcreplay phasetime P=%d: %s" % (P, out.strip()))
            u = "---- MODULE PhaseTimeU ----\nTP == %d\n====\n" % P
            tv = core.validate_trace("PhaseTimeTrace", "PhaseTimeTrace.cfg", tr, nshards=1, files={"PhaseTimeU.tla": u})
            return P, len(cases), tr, tv

        for P, ncases, tr, tv in [f.result() for f in [ex.submit(one, cfg, P) for cfg, P in T["pt"]]]:
            stats.cases["phasetime/P=%d" % P] = ncases
            stats.events["phasetime/P=%d" % P] = tv["events"]
            stats.trace_states["phasetime/P=%d" % P] = tv["states"]
            lines = open(tr).readlines() if (tv["viol"] or tv["drift"]) else None
            for _t, ln, _b, ops in tv["viol"]:
                ev = json.loads(lines[ln - 1])
                for op in ops:
                    ctx = "phasetime/units=%s,skew=%s" % (ev["u"], _skew_class(ev, P))
                    viol.append(("G02:%s:%s" % (op, ctx),
                                 "%s false on the real PhaseTime32: units=%s, period scaled to P=%d ticks, instant x=%d, receiver clock now=%d -> odd=%s d=%s decoded=%s%s"
                                 % (op, ev["u"], P, ev["x"], ev["now"], ev["odd"], ev["d"], ev["dec"], (" panic: " + ev["what"]) if ev["panic"] else ""),
                                 dict(piece="phasetime", P=P, event=ev, operator=op)))
            for _t, ln, _b, what in tv["drift"]:
                stats.drift.append(dict(piece="phasetime", P=P, what=what, event=json.loads(lines[ln - 1])))
            with open(tr) as f:
                stats.samples.append(dict(piece="phasetime", P=P, event=json.loads(f.readline())))
        for f in extra:
            f.result()
    return viol


# ----------------------------------------------------------------------------
# retry

def _loop_script(b):
    """A complete behaviour of Retry.tla -> the script the fake waiter and fn follow."""
    ca = b["cancelAt"]
    done = lambda t: ca != -1 and ca <= t
    calls = [dict(out=c["out"], cancelInside=(not done(c["t0"])) and done(c["t1"])) for c in b["calls"]]
    waits = [dict(fire=w["tmReady"], cancel=w["ctxReady"]) for w in b["waits"]]
    tie = any(w["ctxReady"] and w["tmReady"] for w in b["waits"])
    return dict(kind="loop", cancelBefore=done(0), calls=calls, waits=waits, expRet=b["ret"], expCalls=len(b["calls"]), tie=tie)


def run_retry(tier, binp, d, stats):
    T = TIERS[tier]
    with ThreadPoolExecutor(max_workers=6) as ex:
        f_gen = ex.submit(_mc, stats, "retry/loop", "MC_Retry", "Retry_q.cfg", 1)
        f_bf = ex.submit(_mc, stats, "retry/backoff", "RetryBackoff", "RetryBackoff.cfg", 1)
        side = [ex.submit(_mc, stats, "retry/" + cfg, "MC_Retry", cfg, 1) for cfg in T["retry_mc"]]
        side += [ex.submit(_mc, stats, "retry/" + cfg, "RetryBackoff", cfg, 1) for cfg in T["bf_extra"]]
        if T["retry_kf"]:
            side.append(ex.submit(_expect_violation, stats, "retry/zero-backoff-spins", "MC_Retry", "Retry_zero.cfg", "ZeroBackoffNeverSpins"))
        behs = [x[1] for x in f_gen.result().printed("BEH")]
        bfcases = f_bf.result().printed("CASE")
        for f in side:
            f.result()
    if not behs or not bfcases:
        raise core.Inconclusive("Retry: no behaviours / backoff cases generated")
    scripts, seen = [], set()
    for b in behs:
        s = _loop_script(b)
        k = json.dumps(s, sort_keys=True)
        if k not in seen:
            seen.add(k)
            scripts.append(s)
    cases = []
    for s in scripts:
        cases.append(dict(s, id=len(cases) + 1))
    nloop = len(cases)
    for c in bfcases:
        cases.append(dict(BF_PARAMS, kind="bf", id=len(cases) + 1, k=c[1], n=c[2]))
    for n in BIG_N:
        cases.append(dict(kind="bfbig", id=len(cases) + 1, n=n))
    for name in RT_CASES:
        cases.append(dict(kind="rt", id=len(cases) + 1, name=name))
    stats.cases["retry/loop-behaviours"] = len(behs)
    stats.cases["retry/loop-scripts"] = nloop
    stats.cases["retry/backoff"] = len(bfcases)
    stats.cases["retry/backoff-big"] = len(BIG_N)
    stats.cases["retry/real-time"] = len(RT_CASES)
    cp, tr = os.path.join(d, "retry.ndjson"), os.path.join(d, "retry.trace")
    with open(cp, "w") as f:
        for c in cases:
            f.write(json.dumps(c) + "\n")
    out = core.run([binp, "-mode", "retry", "-in", cp, "-out", tr], timeout=900)
    core.log("funcreplay retry: " + out.strip())
    tv = core.validate_trace("RetryTrace", "RetryTrace.cfg", tr, nshards=1)
    stats.events["retry"] = tv["events"]
    stats.trace_states["retry"] = tv["states"]
    viol = []
    lines = open(tr).readlines()
    if len(lines) != len(cases):
        raise core.Inconclusive("retry: %d events for %d cases" % (len(lines), len(cases)))
    for _t, ln, _b, ops in tv["viol"]:
        ev = json.loads(lines[ln - 1])
        for op in ops:
            if ev["ev"] == "loop":
                ctx, detail = "retry/loop", "script %s -> calls=%s waits=%s ret=%s" % (
                    json.dumps({k: cases[ln - 1][k] for k in ("cancelBefore", "calls", "waits")}), ev["calls"], ev["waits"], ev["ret"])
            elif ev["ev"] == "bf":
                ctx, detail = "retry/backoff-" + ev["k"], "n=%d value=%d next=%d (ns; parameters %s)" % (ev["n"], ev["v"], ev["w"], BF_PARAMS)
            elif ev["ev"] == "bfbig":
                ctx, detail = "retry/default-backoff", "100ms*2^(n/2) capped at 30s, n=%d: %s" % (ev["n"], {k: v for k, v in ev.items() if k not in ("ev", "n")})
            else:
                ctx, detail = "retry/rt-" + ev["name"], json.dumps(ev)
            viol.append(("G02:%s:%s" % (op, ctx), "%s false on the real retry package: %s" % (op, detail),
                         dict(piece="retry", case=cases[ln - 1], event=ev, operator=op)))
    for _t, ln, _b, what in tv["drift"]:
        stats.drift.append(dict(piece="retry", what=what, event=json.loads(lines[ln - 1])))
    stats.samples.append(dict(piece="retry", case=cases[min(7, nloop - 1)], event=json.loads(lines[min(7, nloop - 1)])))
    return viol


# ----------------------------------------------------------------------------
# packetconn

def run_packetconn(tier, binp, d, stats):
    T = TIERS[tier]
    with ThreadPoolExecutor(max_workers=4) as ex:
        side = []
        if T["pc_kf"]:
            side.append(ex.submit(_expect_violation, stats, "packetconn/deadline-not-propagated", "PacketConn", "PacketConn_kf.cfg", "DeadlineWakesBlocked"))

        def sim(n):
            res = core.tlc("PacketConnGen", "PacketConnGen.cfg", workers=1, simulate=n, depth=40, tlc_seed=core.seed(),
                           timeout=900, short=(n <= 300), label="gen-packetconn")
            core.tlc_ok_or_inconclusive(res, "Gen PacketConn")
            hs = [x[1] for x in res.printed("BEH")]
            if len(hs) < n:
                raise core.Inconclusive("PacketConnGen produced %d of %d behaviours" % (len(hs), n))
            return hs

        fsim = ex.submit(sim, T["pc_sim"]) if T["pc_sim"] else None
        # exhaustive model checking and the EDGE cover in one run: for every transition of the model the
        # BFS-shortest path to its source state followed by the transition (a state cover would never execute
        # an operation that leaves the state unchanged, such as WriteTo after Close)
        res = _mc(stats, "packetconn/" + T["pc_cover"], "PacketConnGen", T["pc_cover"], 1)
        hs = [x[1] for x in res.printed("BEH")]
        if len(hs) != res.generated - 1:
            raise core.Inconclusive("PacketConn edge cover: %d behaviours for %d transitions" % (len(hs), res.generated))
        hs = [json.loads(k) for k in sorted({json.dumps(h) for h in hs})]
        stats.cases["packetconn/edge-cover-behaviours"] = len(hs)
        if fsim:
            hs += fsim.result()
        behs = [dict(id=i + 1, ops=[dict(op=o["op"], k=o.get("k", ""), out=o.get("out", ""), wake=o.get("wake", "")) for o in h])
                for i, h in enumerate(hs)]
        cp, tr = os.path.join(d, "pc.ndjson"), os.path.join(d, "pc.trace")
        with open(cp, "w") as f:
            for b in behs:
                f.write(json.dumps(b) + "\n")
        out = core.run([binp, "-mode", "packetconn", "-in", cp, "-out", tr, "-par", "64"], timeout=1200)
        core.log("funcreplay packetconn: " + out.strip())
        tv = core.validate_trace("PacketConnTrace", "PacketConnTrace.cfg", tr, nshards=1)
        for f in side:
            f.result()
    stats.cases["packetconn/behaviours"] = len(behs)
    stats.cases["packetconn/distinct-behaviours"] = len({json.dumps(b["ops"]) for b in behs})
    stats.events["packetconn"] = tv["events"]
    stats.trace_states["packetconn"] = tv["states"]
    viol = []
    lines = open(tr).readlines() if (tv["viol"] or tv["drift"]) else None
    for _t, ln, bid, ops in tv["viol"]:
        ev = json.loads(lines[ln - 1])
        for op in ops:
            ctx = "packetconn/set-while-blocked" if op == "DeadlineWakesBlocked" else "packetconn/" + (ev.get("op") or ev["ev"])
            viol.append(("G02:%s:%s" % (op, ctx),
                         "%s false on the real p2pconn.packetConn over memswarm: behaviour %d, event line %d: %s"
                         % (op, bid, ln, json.dumps({k: v for k, v in ev.items() if v not in ("", False, 0)})),
                         dict(piece="packetconn", behaviour=behs[bid - 1], event=ev, operator=op)))
    for _t, ln, bid, what in tv["drift"]:
        stats.drift.append(dict(piece="packetconn", behaviour=bid, what=what, event=json.loads(lines[ln - 1])))
    stats.samples.append(dict(piece="packetconn", behaviour=behs[0]))
    return viol


# ----------------------------------------------------------------------------
# would

def run_would(tier, binp, d, stats):
    T = TIERS[tier]
    with ThreadPoolExecutor(max_workers=6) as ex:
        side = [ex.submit(_mc, stats, "would/" + cfg, "MC_KadWould", cfg, 4, 1500, False) for cfg in T["would_mc"]]
        if T["would_kf"]:
            # the two recorded corners of the documented law (witnesses in the model), and two anti-vacuity
            # self-tests: the laws over the comparison as it was before the repair must be violated
            for nm, cfg, prop in (("under-min", "KadWould_kf_undermin.cfg", "NoUnderMinGap"), ("zero-cap", "KadWould_kf_zero.cfg", "ZeroCapNo"),
                                  ("selftest-old-comparison-complete", "KadWould_old_no.cfg", "OldComplete"),
                                  ("selftest-old-comparison-sound", "KadWould_old_yes.cfg", "OldSound")):
                side.append(ex.submit(_expect_violation, stats, "would/" + nm, "MC_KadWould", cfg, prop))

        def gen(fam, n):
            res = core.tlc("KadWouldGen", "KadWouldGen_%s.cfg" % fam, workers=1, simulate=n, depth=100,
                           tlc_seed=core.seed() * 100 + len(fam), timeout=900, short=(n <= 200), label="gen-would-" + fam)
            core.tlc_ok_or_inconclusive(res, "Gen KadWould " + fam)
            hs = [x[1] for x in res.printed("BEH")]
            if len(hs) < n:
                raise core.Inconclusive("KadWouldGen %s produced %d of %d behaviours" % (fam, len(hs), n))
            return hs

        def cover(fam, cfg, stride):
            """Exhaustive model checking of the family and its state cover in one run; the quick tier executes
            a seeded sample of the cover (every stride-th behaviour)."""
            res = _mc(stats, "would/" + cfg, "KadWouldGen", cfg, 4, 1500)
            hs = [x[1] for x in res.printed("BEH")]
            if not hs:
                raise core.Inconclusive("KadWould cover %s: no behaviours" % cfg)
            stats.cases["would/cover-%s-total" % fam] = len(hs)
            return [h for i, h in enumerate(hs) if (i + core.seed()) % stride == 0]

        gens = [ex.submit(cover, fam, cfg, stride) for fam, (cfg, stride) in T["would_cover"].items()]
        gens += [ex.submit(gen, fam, n) for fam, n in T["would_sim"].items()]
        behs = []
        for f in gens:
            for h in f.result():
                init = h[0]
                behs.append(dict(id=len(behs) + 1, locus=init["locus"], max=init["max"], min=init["min"],
                                 prefill=sorted(init["prefill"]), keys=sorted(init["keys"]),
                                 ops=[dict(op=o["op"], key=o.get("key", []), v=o.get("v", 0), t=o.get("t", 0), e=o.get("e", 0)) for o in h[1:]]))
        cp, tr = os.path.join(d, "would.ndjson"), os.path.join(d, "would.trace")
        with open(cp, "w") as f:
            for b in behs:
                f.write(json.dumps(b) + "\n")
        out = core.run([binp, "-mode", "would", "-in", cp, "-out", tr], timeout=1200)
        core.log("funcreplay would: " + out.strip())
        tv = core.validate_trace("KadWouldTrace", "KadWouldTrace.cfg", tr, nshards=1, timeout=1800)
        for f in side:
            f.result()
    stats.cases["would/behaviours"] = len(behs)
    stats.events["would"] = tv["events"]
    stats.trace_states["would"] = tv["states"]
    viol = []
    lines = open(tr).readlines() if (tv["viol"] or tv["drift"]) else None
    for _t, ln, bid, ops in tv["viol"]:
        ev = json.loads(lines[ln - 1])
        for op in ops:
            name, _, sub = op.partition("/")
            ctx = "would/" + sub if sub else "would"
            wit = [p for p in ev["probes"] if (name in ("WouldPutComplete", "WouldPutAgrees") and sub != "zero-cap" and not p["w"] and p["new"]["stored"])
                   or ((sub == "zero-cap" or name == "WouldPutYesStores") and p["w"] and not (p["new"]["stored"] and p["old"]["stored"]))][:1]
            viol.append(("G02:%s:%s" % (name, ctx),
                         "%s false on the real kademlia.Cache (behaviour %d after %d operations: max=%d minPerBucket=%d count=%d len(buckets)=%d entries=%s AcceptingPrefixLen=%d%s)"
                         % (op, bid, ev["step"], ev["max"], ev["min"], ev["count"], ev["nb"], [e["k"] for e in ev["ents"]], ev["a"],
                            (" e.g. key %s: WouldPut=%s, Put -> %s" % (wit[0]["k"], wit[0]["w"], wit[0]["new"])) if wit else ""),
                         dict(piece="would", behaviour=behs[bid - 1], event=ev, operator=op)))
    for _t, ln, bid, what in tv["drift"]:
        stats.drift.append(dict(piece="would", behaviour=bid, what=what, step=json.loads(lines[ln - 1])["step"]))
    stats.samples.append(dict(piece="would", behaviour=behs[0]))
    return viol


# ----------------------------------------------------------------------------

PIECES = {"phasetime": run_phasetime, "retry": run_retry, "packetconn": run_packetconn, "would": run_would}


def _verdict(violations):
    """As core.verdict; the recorded findings of this component are matched by their key ("G02:...")."""
    kf = {k["key"]: k for k in core.known_findings() if k.get("key", "").startswith("G02:") and k.get("status", "open") == "open"}
    rc, seen = 0, set()
    for v in violations:
        if v.key in seen:
            continue
        seen.add(v.key)
        if v.key in kf:
            under = kf[v.key].get("property")
            print("KNOWN-FINDING: property=%s%s %s [%s]" % (PID, "" if under == PID else " (recorded under %s)" % under, kf[v.key]["what"], v.key))
            continue
        rc = 1
        print("VIOLATION property=%s replay=%s" % (PID, v.replay or "-"))
        print("  what: %s [%s]" % (v.what, v.key))
    return rc


def check(pid, tier, replay=None):
    t0 = time.time()
    pieces = list(PIECES)
    if replay:
        with open(replay) as f:
            pieces = [json.load(f)["payload"]["piece"]]
    stats = Stats()
    d = core.scratch("g02")
    binp = core.go_build("funcreplay")
    found = []
    with ThreadPoolExecutor(max_workers=4) as ex:
        futs = {p: ex.submit(PIECES[p], tier, binp, d, stats) for p in pieces}
        errs = []
        for p, f in futs.items():
            try:
                found += f.result()
            except core.Inconclusive as e:
                errs.append("%s: %s" % (p, e))
        if errs:
            raise core.Inconclusive("\n".join(errs))
    mine, seen = [], set()
    recorded = {k.get("key") for k in core.known_findings() if k.get("status", "open") == "open"}
    for key, what, payload in found:
        if key in seen:
            continue
        seen.add(key)
        # (no replay file for a recorded finding: it is reproduced by every run)
        mine.append(core.Violation(PID, key, what, None if key in recorded else core.write_replay(PID, key, payload)))
    if stats.drift:
        print("DRIFT component=G02 steps=%d (model and code disagree on steps that falsify no law) e.g. %s"
              % (len(stats.drift), json.dumps(stats.drift[:2])[:1500]))
    events = sum(stats.events.values())
    coverage = dict(
        states=max(1, sum(v["states"] for v in stats.mc.values())),
        transitions=max(1, sum(v["transitions"] for v in stats.mc.values())),
        traces_validated_against_impl=sum(v for k, v in stats.cases.items()
                                          if k.startswith("phasetime/") or k in ("retry/loop-scripts", "retry/backoff", "retry/backoff-big", "retry/real-time",
                                                                                  "packetconn/behaviours", "would/behaviours")),
        samples=stats.samples[:4] or [dict(note="replay run")],
        evaluations=events,
        distinct_nontrivial=sum(stats.trace_states.values()),
        rule="evaluations = trace events validated by TLC (one per executed model case: a phasetime (instant, clock, units) triple, a "
             "Retry script / backoff value / real-time scenario, a packetconn operation, a cache state with one probe per key); "
             "distinct_nontrivial = distinct states of the trace specifications (log position + monitor state)",
        model_checking=stats.mc, expected_model_violations=stats.expected_violations, cases=stats.cases,
        events=stats.events, drift_steps=len(stats.drift), pieces=pieces, exhaustive=False,
        explanation="TLC checks the as-coded TLA+ transcriptions (PhaseTime, Retry, RetryBackoff, PacketConn, KadWould) exhaustively within the "
                    "bounds of the listed configs and generates the cases; funcreplay executes every case on the real functions; the "
                    "trace specifications evaluate the law operators on what they returned")
    core.write_evidence(PID, tier, "model_checking", coverage,
                        ["phasetime: the period is scaled to 16 / 64 ticks; instants are exact multiples of the tick (plus four sub-unit offsets); "
                         "no law is claimed before 1970 (the code's truncated remainder breaks there, model fact NegBroken)",
                         "retry: the loop is driven through retry.VerifWithWaiter (verif build tag); the real backoffWaiter is bound by four "
                         "real-time scenarios with thresholds of 3 s on millisecond delays",
                         "packetconn: over s/memswarm only (queue length 2); 'blocked' means not returned within 40 ms when the model says it "
                         "blocks, within 10 s otherwise; 'soon' deadlines are 200 ms of real time",
                         "would: 1-byte locus, the two key families of KadCache (minPerBucket 0 and 1); Put's outcome is observed on a fresh cache "
                         "built in the observed state",
                         "TLC, the Json/IOUtils community modules and the Go toolchain are trusted"],
                        time.time() - t0, len(mine))
    return _verdict(mine)
