"""C05, C07 and the channel half of C02: p2pke.Channel, decided with spec/Channel.tla.

 1. TLC model-checks Channel.tla: the code's slot invariant, OnlyAccepted, Continuity, Undisturbed,
    AtMostOnce (safety, several acceptance/restart/rekey configurations) and Converges (liveness under
    per-message fairness of the network and weak fairness of the timers; NO VIEW in those configs).
 2. TLC generates behaviours with eager timers: BFS state covers of the small configurations, random
    simulation of restart / rekey / impostor-key configurations.
 3. harness/cmd/chanreplay executes them on two real Channel endpoints (the harness is the network; the
    channels' timers are real), then makes the network reliable and requires every Send to return.
 4. TLC evaluates the property operators on the log (ChannelTrace.tla).
"""
import json
import os
import time
from concurrent.futures import ThreadPoolExecutor

from . import core

PROPERTIES = ["C05", "C07"]

MANIFEST = {
    "C05": dict(level="model_checking",
                technique="TLA+ model of Channel (slots, promotion, tie-break, acceptance, key continuity) checked by TLC; behaviours replayed on two real Channels with an instrumented AcceptKey; traces validated by TLC",
                text="TLC checks OnlyAccepted (ready / data-from / data-to only for an accepted key, both roles), Continuity and Undisturbed for every acceptance predicate of the configurations, both handshake roles, simultaneous initiation, rekeys and a peer that restarts under another key. The model's state covers and random behaviours are executed on real p2pke.Channel endpoints whose AcceptKey answers from the behaviour's predicate; the operators are evaluated by TLC on RemoteKey, VerifSnapshot (slot keys, slot ids), the application data handed up and the key of the session each Send used.",
                note="Two endpoints; keys {A,B,M}; bounded sessions/restarts/rekeys. Hello-id tie-break order is aligned by re-rolling the attempt until the real hashes are ordered as in the behaviour.",
                ref="5 (C05), 3.3"),
    "C07": dict(level="model_checking",
                technique="TLA+ model of Channel with timers and restart; liveness (Converges) checked by TLC under per-message fairness; adversarial prefixes replayed on real Channels followed by a reliable-network phase; traces validated by TLC",
                text="TLC checks that a pending Send always completes once network and timers are fair, after every prefix of loss/duplication/reordering (monotone set network), data overtaking RespDone, simultaneous initiation, rekey-timer expiry and restart of the peer (within the bounds; the states of a recorded known finding excepted). Each generated prefix is applied to two real Channels by message identity; then the harness delivers everything promptly and in order and every Send, including those left pending by the prefix, must return within 1.5 s (healthy: < 60 ms at HandshakeBackoff = 15 ms), re-measured up to three times and discarded if the harness itself stalled.",
                note="Real-time threshold 1.5 s = 100 handshake intervals (healthy <= 4). Expiry by KeepAlive/Reject time and steady-traffic behaviour are exercised by the timed scenarios (evidence.coverage.timed).",
                ref="5 (C07), 3.3"),
}

OPS = {
    "C05": {"OnlyAcceptedReady", "OnlyAcceptedData", "OnlyAcceptedSend", "Continuity", "Undisturbed"},
    "C02": {"AtMostOnce", "Authentic"},
    "C07": {"Converges", "ConvergesKnownHopeless", "NoIdleTeardown", "SendSurvives"},
}

GEN = {
    "cover_base": ("cover", "ChannelCover_base.cfg"),
    "cover_accept": ("cover", "ChannelCover_accept.cfg"),
    "cover_accept2": ("cover", "ChannelCover_accept2.cfg"),
    "cover_impostor": ("cover", "ChannelCover_impostor.cfg"),
    # scripted schedules enumerated as paths (first Sends, adversarial prefix, fault, pump): ChannelScript.tla
    "script_quick": ("script", "ChannelScript_quick.cfg"),
    "script_impostor": ("script", "ChannelScript_impostor.cfg"),
    "script_deep": ("script", "ChannelScript_deep.cfg"),
    "sim_restart": ("sim", "ChannelGen_restart.cfg"),
    "sim_rekey": ("sim", "ChannelGen_rekey.cfg"),
    "sim_impostor": ("sim", "ChannelGen_impostor.cfg"),
    "sim_mixed": ("sim", "ChannelGen_mixed.cfg"),
}

TIERS = {
    "quick": dict(mc=[("base-live", "Channel_base.cfg", 6), ("accept", "Channel_accept.cfg", 2), ("accept2", "Channel_accept2.cfg", 1)],
                  sim=dict(sim_restart=80, sim_rekey=60, sim_impostor=60, sim_mixed=40)),
    "thorough": dict(mc=[("base-live", "Channel_base.cfg", 4), ("accept", "Channel_accept.cfg", 2), ("accept2", "Channel_accept2.cfg", 1),
                         ("restart-safe", "Channel_restart_safe.cfg", 6), ("restart-live", "Channel_restart.cfg", 6)],
                     # Channel_restart_deep.cfg (MaxSendCalls = 2: 866 k states, 10 M transitions, 68 min on 8 workers, passes) is
                     # not part of a tier; run it with: python3 -c "from vlib import core; core.tlc('Channel','Channel_restart_deep.cfg',workers=8,timeout=9000)"
                     sim=dict(sim_restart=800, sim_rekey=600, sim_impostor=600, sim_mixed=500)),
}


# what each property needs from this pipeline (everything, when a property is not listed)
FOCUS = {
    "C05": dict(mc={"accept", "accept2", "restart-safe"},
                gen={"cover_base", "cover_accept", "cover_accept2", "cover_impostor", "script_impostor", "script_quick", "script_deep", "sim_impostor", "sim_mixed"},
                timed=True, timed_cfgs=("ChannelTime_stranger.cfg",)),
    "C07": dict(mc={"base-live", "restart-live", "restart-safe"},
                gen={"cover_base", "script_quick", "script_deep", "sim_restart", "sim_rekey", "sim_mixed"}, timed=True),
    "C02": dict(mc={"accept"}, gen={"script_quick", "script_impostor", "sim_restart", "sim_rekey", "sim_impostor", "sim_mixed"}, timed=True),
}


def stage1(tier, stats, pid=None):
    T = TIERS[tier]
    focus = FOCUS.get(pid)
    ex = ThreadPoolExecutor(max_workers=8)

    def mc(name, cfg, workers):
        res = core.tlc("Channel", cfg, workers=workers, timeout=3400, label="mc-" + name, heap="8g")
        core.tlc_ok_or_inconclusive(res, "MC Channel/" + name)
        stats["mc"][name] = dict(states=res.distinct, transitions=res.generated, depth=res.depth, wall=round(res.wall, 1))

    def gen(fam):
        kind, cfg = GEN[fam]
        if kind == "script":
            if fam == "script_deep" and tier != "thorough":
                return fam, []
            res = core.tlc("ChannelScript", cfg, workers=2, timeout=3000, label="gen-" + fam)
        elif kind == "cover":
            res = core.tlc("ChannelGen", cfg, workers=1, timeout=1800, label="gen-" + fam, short=True)
        else:
            n = T["sim"][fam]
            res = core.tlc("ChannelGen", cfg, workers=1, simulate=n, depth=400, tlc_seed=core.seed(), timeout=1800,
                           label="gen-" + fam, short=(n <= 300))
        core.tlc_ok_or_inconclusive(res, "Gen " + fam)
        bs = [x[1] for x in res.printed("BEH")]
        if kind == "script":
            stats.setdefault("scripts", {})[fam] = dict(paths=len(bs), states=res.distinct)
        if not bs:
            raise core.Inconclusive("generator %s produced nothing" % fam)
        return fam, bs

    mcf = [ex.submit(mc, *m) for m in T["mc"] if not focus or m[0] in focus["mc"]]
    gf = [ex.submit(gen, fam) for fam in GEN if not focus or fam in focus["gen"]]
    behs = {fam: bs for fam, bs in (f.result() for f in gf) if bs}
    return behs, mcf, ex


def classify(op):
    for pid, ops in OPS.items():
        if op in ops:
            return pid
    if op == "NoPanic":
        return "C08"
    return None


def run_pipeline(tier, replay_behaviours=None, pid=None):
    t0 = time.time()
    want_timed = replay_behaviours is None and (pid not in FOCUS or FOCUS[pid]["timed"])
    stats = dict(mc={}, behaviours={}, events=0, trace_states=0, drift=0, drift_samples=[], settle=dict(ok=0, failed=0, max_ms=0, retried=0))
    d = core.scratch("chan")
    binp = core.go_build("chanreplay")
    mcf, ex = [], None
    if replay_behaviours is None:
        behs, mcf, ex = stage1(tier, stats, pid)
    else:
        behs = replay_behaviours
    timed_ex = ThreadPoolExecutor(max_workers=1)
    timed_cfgs = FOCUS.get(pid, {}).get("timed_cfgs", ("ChannelTime.cfg", "ChannelTime_stranger.cfg"))
    timed_fut = timed_ex.submit(run_timed, binp, d, timed_cfgs) if want_timed else None
    want_crafted = replay_behaviours is None and pid in (None, "C05", "C02")
    crafted_fut = timed_ex.submit(run_crafted, binp, d, tier) if want_crafted else None
    allb, bid = {}, 0
    p = os.path.join(d, "beh.ndjson")
    with open(p, "w") as f:
        for fam, bs in behs.items():
            stats["behaviours"][fam] = len(bs)
            for b in bs:
                bid += 1
                rec = dict(id=bid, family=fam, acceptA=b["acceptA"], acceptB=b["acceptB"], hist=b["hist"])
                allb[bid] = rec
                f.write(json.dumps(rec) + "\n")
    tr = os.path.join(d, "trace.ndjson")
    out = core.run([binp, "-in", p, "-out", tr, "-par", "16"], timeout=2400)
    core.log("chanreplay: " + out.strip())
    res = core.validate_trace("ChannelTrace", "ChannelTrace.cfg", tr, nshards=1)
    stats["events"], stats["trace_states"] = res["events"], res["states"]
    lines = open(tr).readlines()
    for ln in lines:
        if '"ev":"settle"' in ln:
            ev = json.loads(ln)
            st = stats["settle"]
            st["ok" if ev["ok"] else "failed"] += 1
            st["retried"] += 1 if ev["retries"] else 0
            if ev["ok"]:
                st["max_ms"] = max(st["max_ms"], ev["elapsed_ms"])
    violations = []
    for v in res["viol"]:
        _tag, lineno, beh, ops = v
        ev = json.loads(lines[lineno - 1])
        fam = allb[beh]["family"]
        for op in ops:
            pid = classify(op)
            if pid is None:
                continue
            if op == "ConvergesKnownHopeless":
                key = "C07:Converges:hopeless-prospective-session"
            else:
                key = "%s:%s:%s" % (pid, op, fam.split("_")[-1])
            what = "%s false on real channels at %s (family %s, behaviour %d, event line %d%s)" % (
                op, ev["ev"], fam, beh, lineno, (", panic: " + ev.get("panicv", "")) if ev.get("panic") else "")
            violations.append((pid, key, what, dict(behaviour=allb[beh], event={k: ev[k] for k in ev if k not in ("expa", "expb")}, operator=op)))
            if op == "OnlyAcceptedData":
                # application data accepted from a key the channel never accepted is also not an authentic peer plaintext (C02)
                violations.append(("C02", "C02:Authentic:unaccepted-key/%s" % fam.split("_")[-1], what,
                                   dict(behaviour=allb[beh], event={k: ev[k] for k in ev if k not in ("expa", "expb")}, operator=op)))
    if crafted_fut is not None:
        cres = crafted_fut.result()
        stats["crafted"] = cres["stats"]
        violations.extend(cres["violations"])
        stats["events"] += cres["stats"]["cases"]
    # timed scenarios (ChannelTime.tla): keep-alive, rekey-by-time, replay across rotation
    if timed_fut is not None:
        tres = timed_fut.result()
        stats["timed"] = tres["stats"]
        violations.extend(tres["violations"])
        stats["events"] += tres["stats"]["cases"]
    stats["drift"] = len(res["drift"])
    for dr in res["drift"][:3]:
        stats["drift_samples"].append(dict(line=dr[1], behaviour=dr[2], family=allb[dr[2]]["family"], what=dr[3]))
    for f in mcf:
        f.result()
    if ex:
        ex.shutdown()
    ids = list(allb)
    stats["samples"] = [dict(family=allb[i]["family"], actions=[s["act"] for s in allb[i]["hist"]][:14]) for i in ids[:1] + ids[-1:]]
    stats["wall"] = time.time() - t0
    return stats, violations


def run_timed(binp, d, cfgs=("ChannelTime.cfg", "ChannelTime_stranger.cfg")):
    """ChannelTime.tla: model-check the timed abstraction, take its cases, run them on real channels.
    ChannelTime.cfg: steady traffic (keep-alive / rekey / reject by time); ChannelTime_stranger.cfg: traffic, then
    silence until every session has expired, then the same peer resumes (C07) or another key takes its place (C05)."""
    cases, nstates = [], 0
    for cfg in cfgs:
        res = core.tlc("ChannelTime", cfg, workers=1, timeout=600, label="mc-time", short=True)
        core.tlc_ok_or_inconclusive(res, "MC ChannelTime " + cfg)
        cs = [x[1] for x in res.printed("CASE")]
        if not cs:
            raise core.Inconclusive("ChannelTime %s produced no cases" % cfg)
        cases += cs
        nstates += res.distinct
    p = os.path.join(d, "timed_cases.ndjson")
    with open(p, "w") as f:
        for i, c in enumerate(cases):
            c["id"] = 100000 + i
            f.write(json.dumps(c) + "\n")
    tr = os.path.join(d, "timed_trace.ndjson")
    core.run([binp, "-timed", "-in", p, "-out", tr], timeout=600)
    tv = core.validate_trace("ChannelTimeTrace", "ChannelTimeTrace.cfg", tr, nshards=1)
    lines = open(tr).readlines()
    violations = []
    for v in tv["viol"]:
        _t, lineno, beh, ops = v
        ev = json.loads(lines[lineno - 1])
        for op in ops:
            pid = classify(op) or "C07"
            key = "%s:%s:timed/%s%s" % (pid, op, ev["pat"], "" if ev.get("post", "none") == "none" else "+" + ev["post"])
            what = "%s false on real channels in timed scenario K=%d R=%d J=%d ticks, pattern %s, then %s: hellos=%d (model bound %d), sends failed %d of %d, dups %d; after total expiry: sends that waited through the outage failed %d of %d, resumed sends failed %d of %d, payloads handed to a stranger key %d, accepted from it %d, RemoteKey changed %s" % (
                op, ev["K"], ev["R"], ev["J"], ev["pat"], ev.get("post", "none"), ev["hellos"], ev["maxhellos"], ev["sendfail"], ev["sends"], ev["dups"],
                ev.get("pending_fail", 0), ev.get("pending_sends", 0), ev.get("resume_fail", 0), ev.get("resume_sends", 0), ev.get("to_stranger", 0), ev.get("from_stranger", 0), ev.get("rk_changed", False))
            violations.append((pid, key, what, dict(timed_case=ev, operator=op)))
    evs = [json.loads(l) for l in lines]
    return dict(stats=dict(cases=len(cases), model_states=nstates, after_expiry=dict(
                               stranger_cases=sum(1 for e in evs if e.get("post") == "stranger"), resume_cases=sum(1 for e in evs if e.get("post") == "resume"), pending_cases=sum(1 for e in evs if e.get("post") == "pending"),
                               pending_sends=sum(e.get("pending_sends", 0) for e in evs), pending_max_ms=max([e.get("pending_ms", 0) for e in evs] + [0]),
                               resume_sends=sum(e.get("resume_sends", 0) for e in evs), stranger_sends_ok=sum(e.get("stranger_sent", 0) for e in evs)), max_stall_ms=max(e["stall_ms"] for e in evs),
                           sends=sum(e["sends"] for e in evs), replayed_old_ciphertexts=sum(e["replayed"] for e in evs)),
                violations=violations)


def run_crafted(binp, d, tier):
    """ChannelCrafted.tla: TLC enumerates what a hand-crafted party under an unaccepted key sends after a valid
    RespHello; each sequence runs against a real channel (fresh, and bound to B)."""
    res = core.tlc("ChannelCrafted", "ChannelCrafted.cfg", workers=1, timeout=600, label="mc-crafted", short=True)
    core.tlc_ok_or_inconclusive(res, "MC ChannelCrafted")
    cases = [x[1] for x in res.printed("CASE")]
    if not cases:
        raise core.Inconclusive("ChannelCrafted produced no cases")
    if tier == "quick":
        # every sequence that contains a counter the replay filter refuses or a handshake-range counter, a third of the rest
        cases = [c for i, c in enumerate(cases) if (i + core.seed()) % 3 == 0 or any(x in ("Dmax", "Dmax1", "D3", "D15") for x in c["seq"])]
    p = os.path.join(d, "crafted_cases.ndjson")
    with open(p, "w") as f:
        for i, c in enumerate(cases):
            c["id"] = 200000 + i
            f.write(json.dumps(c) + "\n")
    tr = os.path.join(d, "crafted_trace.ndjson")
    core.run([binp, "-crafted", "-in", p, "-out", tr], timeout=900)
    tv = core.validate_trace("ChannelCraftedTrace", "ChannelCraftedTrace.cfg", tr, nshards=1)
    lines = open(tr).readlines()
    violations = []
    for v in tv["viol"]:
        _t, lineno, beh, ops = v
        ev = json.loads(lines[lineno - 1])
        for op in ops:
            what = "%s false on a real channel (%s) facing a hand-crafted responder under an unaccepted key that sent %s after its RespHello: handed up %d crafted plaintexts, RemoteKey wrong %s, sealed %d records for it%s" % (
                op, ev["sit"], ev["seq"], ev["handed"], ev["rk_wrong"], ev["sent_to_m"], (", panic: " + ev.get("panicv", "")) if ev.get("panic") else "")
            pid = classify(op) or "C05"
            violations.append((pid, "%s:%s:crafted/%s" % (pid, op, ev["sit"]), what, dict(crafted_case=ev, operator=op)))
            if op == "OnlyAcceptedData":
                violations.append(("C02", "C02:Authentic:unaccepted-key/crafted-%s" % ev["sit"], what, dict(crafted_case=ev, operator=op)))
    evs = [json.loads(l) for l in lines]
    return dict(stats=dict(cases=len(cases), engaged=sum(1 for e in evs if e["engaged"]), not_engaged=len(tv["drift"])), violations=violations)


def check(pid, tier, replay=None):
    t0 = time.time()
    rb = None
    if replay:
        with open(replay) as f:
            payload = json.load(f)["payload"]
        if "behaviour" not in payload:
            # a timed or crafted case: those families are small and fully regenerated by TLC, the whole family is re-run
            stats, violations = run_pipeline(tier, None, pid)
            want = payload.get("operator")
            violations = [v for v in violations if v[3].get("operator") == want and ("timed_case" in v[3] or "crafted_case" in v[3])]
            mine, seen = [], set()
            for (p, key, what, pl) in violations:
                if p == pid and key not in seen:
                    seen.add(key)
                    mine.append(core.Violation(pid, key, what, core.write_replay(pid, key, pl)))
            report(pid, tier, stats, mine, t0)
            return core.verdict(pid, mine)
        rp = payload["behaviour"]
        rb = {rp["family"]: [rp]}
    stats, violations = run_pipeline(tier, rb, pid)
    mine, seen = [], set()
    for (p, key, what, payload) in violations:
        if p != pid or key in seen:
            continue
        seen.add(key)
        mine.append(core.Violation(pid, key, what, core.write_replay(pid, key, payload)))
    report(pid, tier, stats, mine, t0)
    return core.verdict(pid, mine)


def report(pid, tier, stats, mine, t0):
    if stats["drift"]:
        print("DRIFT component=Channel steps=%d (model prediction and real projection disagree; no listed property is falsified by that alone) e.g. %s"
              % (stats["drift"], json.dumps(stats["drift_samples"][:2])))
    coverage = dict(
        states=max(sum(v["states"] for v in stats["mc"].values()), 1),
        transitions=max(sum(v["transitions"] for v in stats["mc"].values()), 1),
        traces_validated_against_impl=sum(stats["behaviours"].values()),
        samples=stats["samples"] or [dict(note="replay run")],
        evaluations=stats["events"], distinct_nontrivial=stats["trace_states"],
        rule="evaluations = environment actions executed on the real channels (each followed by waiting for the real timers), validated by TLC; distinct_nontrivial = distinct states of the trace specification",
        model_checking=stats["mc"], behaviours=stats["behaviours"], drift_steps=stats["drift"], settle=stats["settle"],
        timed=stats.get("timed", {}), crafted=stats.get("crafted", {}), scripts=stats.get("scripts", {}), exhaustive=False)
    core.write_evidence(pid, tier, "model_checking", coverage,
                        ["sessions inside the channel are abstracted (their exact machine is Session.tla)",
                         "real-time threshold of the settle phase: 1.5 s, re-measured, harness stall detector",
                         "TLC liveness checking without VIEW; per-message fairness"],
                        time.time() - t0, len(mine))
