"""C03, C06 and the session half of C02: p2pke.Session, decided with spec/Session.tla.

 1. TLC model-checks Session.tla: genuine-only pair (C06 operators incl. the Settle predicate in every
    reachable state), pair + Dolev-Yao attacker (C03/C02 operators), two crossed handshakes.
 2. TLC generates behaviours: the BFS state cover of the genuine and of the attacker model (every
    reachable model state is the end of one replayed behaviour), random simulation of the larger
    configurations, and simulation of WEAKENED variants of the model (one check switched off each),
    which yields attack scripts that go where only a defective implementation would let them.
 3. harness/cmd/sessreplay executes them on real sessions; the harness is network and attacker
    (real cryptography, only its own key), and logs real results + ground truth about each message.
 4. TLC evaluates the property operators on the log (SessionTrace.tla).
"""
import json
import os
import time
from concurrent.futures import ThreadPoolExecutor

from . import core

PROPERTIES = ["C02", "C03", "C06"]

MANIFEST = {
    "C03": dict(level="model_checking",
                technique="symbolic (Dolev-Yao) TLA+ model of the P2PKE handshake checked by TLC; model behaviours and attack scripts replayed on real Sessions with a real-crypto attacker; traces validated by TLC",
                text="TLC explores every order, duplication and omission of handshake/data messages plus up to 3 (quick) / 4 (thorough) attacker-forged terms (own identity, spliced signed triples, victim's ephemeral, garbage signatures, responder impersonation, data under keys it owns) and checks AuthBeforeUse/Agreement in every state. The state cover of that model, random deeper behaviours and scripts generated from weakened model variants are executed on real p2pke.Session objects against an attacker toolkit that holds only its own key; AuthBeforeUse/Agreement are then evaluated by TLC on the real IsReady/RemoteKey/accept results using the harness's ground truth of who signed what over which transcript.",
                note="Cryptographic primitives (Noise NN, ChaCha20-Poly1305, Ed25519, BLAKE2b) are assumed sound: only their use is checked. One initiator and one responder per honest party; attacker budget bounded.",
                ref="5 (C03), 3.2"),
    "C02": dict(level="model_checking",
                technique="symbolic TLA+ model of sessions (and channels) under a Dolev-Yao network checked by TLC; behaviours and attack scripts replayed on real Sessions/Channels; traces validated by TLC",
                text="TLC checks Authentic, AtMostOnce and NonceUnique on Session.tla for every delivery order/duplication/replay/reflection of all messages of up to four sessions sharing one network, plus forged and cross-fed terms. The replayed behaviours are validated on the real code: every plaintext handed out must be a plaintext given to Send by the authenticated peer of that handshake (byte-identical, right direction), at most once; no two sealed records (handshake records included) of one handshake and direction share a counter; no emitted bytes contain a plaintext.",
                note="Symbolic cryptography. Replay window, counter limit and concurrent Send are exercised at real scale by dedicated cases (see evidence.coverage.real_scale).",
                ref="5 (C02), 3.2"),
    "C06": dict(level="model_checking",
                technique="TLA+ model of the handshake state machine checked exhaustively by TLC; every reachable model state replayed on a real session pair incl. the settle suffix; traces validated by TLC",
                text="In the genuine-only configuration (network = monotone set of genuine messages, so loss, duplication, reordering, delay and reflection are all covered) TLC checks Monotone, NoPermanentFailure (the 4-step settle operator evaluated in EVERY reachable state) and DataFlows. Each of those states is then reached on two real sessions by its BFS-shortest path, Handshake() is called twice (idempotence), the settle suffix is executed and two-way data flow is checked; random long schedules go beyond the depth bound.",
                note="One session pair; real time is frozen (expiry is C07's business).",
                ref="5 (C06), 3.2"),
}

OPS = {
    "C03": {"AuthBeforeUse", "Agreement"},
    "C02": {"Authentic", "AtMostOnce", "NonceUnique", "NoPlaintextOnWire"},
    "C06": {"Monotone", "NoPermanentFailure", "DataFlows", "HandshakeIdempotent", "NoPanic"},
}

SESS = {
    "pair": [dict(name="I", role="init", key="A", eph="eI"), dict(name="R", role="resp", key="B", eph="eR")],
    "cross": [dict(name="I", role="init", key="A", eph="eI"), dict(name="R", role="resp", key="B", eph="eR"),
              dict(name="I2", role="init", key="B", eph="eI2"), dict(name="R2", role="resp", key="A", eph="eR2")],
}
NONE_SHAPES = ["rand", "empty", "zero", "short", "long"]
WEAK = ["ihsig", "rhsig", "idsig", "early", "cansend", "replay", "parity"]

# family -> (kind, cfg, sessions, settle)
GEN = {
    "cover_genuine": ("cover", "SessionCover_genuine.cfg", "pair", True),
    "cover_adv": ("cover", "SessionCover_adv.cfg", "pair", False),
    # every transition of the genuine model (self-loops included: a model no-op may be a code defect)
    "edge_genuine": ("cover", "SessionEdge_genuine.cfg", "pair", True),
    "sim_genuine": ("sim", "SessionGen_genuine.cfg", "pair", True),
    "sim_adv": ("sim", "SessionGen_adv.cfg", "pair", False),
    "sim_cross": ("sim", "SessionGen_cross.cfg", "cross", False),
    # signature reflection: every transition of the reflection scenario (two initiators to splice from, two
    # responders, the attacker reading RespHello signatures and sealing them into InitDones)
    "edge_reflect": ("cover", "SessionEdge_reflect.cfg", "cross", False),
}
for _w in WEAK:
    GEN["weak_" + _w] = ("sim", "SessionGen_weak_%s.cfg" % _w, "pair", False)

TIERS = {
    "quick": dict(mc=[("genuine", "Session_genuine.cfg", 2), ("adv", "Session_adv.cfg", 6), ("cross", "Session_cross.cfg", 2), ("reflect", "Session_reflect.cfg", 2)],
                  sim=dict(sim_genuine=150, sim_adv=250, sim_cross=100, weak=50), cover_stride=dict(cover_genuine=1, cover_adv=3, edge_genuine=1, edge_reflect=60)),
    "thorough": dict(mc=[("genuine", "Session_genuine.cfg", 2), ("adv", "Session_adv_deep.cfg", 10), ("cross", "Session_cross_deep.cfg", 8), ("reflect", "Session_reflect.cfg", 2)],
                     sim=dict(sim_genuine=2000, sim_adv=4000, sim_cross=1500, weak=600), cover_stride=dict(cover_genuine=1, cover_adv=1, edge_genuine=1, edge_reflect=2)),
}


def stage1(tier, stats):
    T = TIERS[tier]
    ex = ThreadPoolExecutor(max_workers=8)

    def mc(name, cfg, workers):
        res = core.tlc("MC_Session", cfg, workers=workers, timeout=6000, label="mc-" + name)
        core.tlc_ok_or_inconclusive(res, "MC Session/" + name)
        stats["mc"][name] = dict(states=res.distinct, transitions=res.generated, depth=res.depth, wall=round(res.wall, 1))

    def gen(fam):
        kind, cfg, _s, _settle = GEN[fam]
        if kind == "cover":
            res = core.tlc("SessionGen", cfg, workers=1, timeout=1800, label="gen-" + fam)
        else:
            n = T["sim"]["weak"] if fam.startswith("weak_") else T["sim"][fam]
            res = core.tlc("SessionGen", cfg, workers=1, simulate=n, depth=200, tlc_seed=core.seed(), timeout=1800,
                           label="gen-" + fam, short=(n <= 500))
        core.tlc_ok_or_inconclusive(res, "Gen " + fam)
        bs = [x[1] for x in res.printed("BEH")]
        if kind == "cover":
            stride = T["cover_stride"][fam]
            if fam == "edge_reflect":
                # every edge that delivers a reflected signature to the responder whose peer key it names; a sample of the rest
                bs = [b for i, b in enumerate(bs) if (i + core.seed()) % stride == 0 or is_reflection(b)]
            else:
                bs = [b for i, b in enumerate(bs) if (i + core.seed()) % stride == 0 or len(b["hist"]) >= 9]
        if not bs:
            raise core.Inconclusive("generator %s produced nothing" % fam)
        return fam, bs

    mcf = [ex.submit(mc, *m) for m in T["mc"]]
    gf = [ex.submit(gen, fam) for fam in GEN]
    behs = dict(f.result() for f in gf)
    return behs, mcf, ex


def is_reflection(b):
    """Edges of the reflection scenario that ARE the attack: a reflected RespHello signature handed to the responder
    whose peer key it names, or a RespHello carrying key K's TIMESTAMP signature handed to an initiator right after
    an honest InitHello of K was verified somewhere (implementations that cache verification results)."""
    h = b["hist"][-1]
    if h["a"] != "deliver":
        return False
    t = b["msgs"][h["m"] - 1]
    if t["t"] == "ID" and t["sig"] == "x" + h["rk"]:
        return True
    if t["t"] == "RH" and t["sig"] == "t" + t["key"] and len(b["hist"]) >= 2:
        p = b["hist"][-2]
        if p["a"] == "deliver" and p.get("res") == "hs":
            pm = b["msgs"][p["m"] - 1]
            return pm["t"] == "IH" and pm["by"] != "M" and pm["key"] == t["key"]
    return False


def classify(op):
    for pid, ops in OPS.items():
        if op in ops:
            return pid
    return None


def run_pipeline(tier, replay_behaviours=None):
    t0 = time.time()
    stats = dict(mc={}, behaviours={}, events=0, trace_states=0, drift=0, drift_samples=[], skipped=0)
    d = core.scratch("sess")
    binp = core.go_build("sessreplay")
    mcf, ex = [], None
    if replay_behaviours is None:
        behs, mcf, ex = stage1(tier, stats)
    else:
        behs = replay_behaviours
    allb, bid = {}, 0
    shaped = {}
    groups = {}
    for fam, bs in behs.items():
        stats["behaviours"][fam] = len(bs)
        for b in bs:
            bid += 1
            kind, _cfg, sessname, settle = GEN[fam] if fam in GEN else ("replay", None, b.get("sessname", "pair"), b.get("settle", False))
            # attack suffix: after an adversarial behaviour the attacker seals data under every handshake it owns and
            # hands it to every session (the monitors judge; no model prediction applies to the suffix)
            probe = b.get("probe", (not settle) and not fam.startswith("weak_"))
            rec = dict(id=bid, family=fam, settle=settle, probe=probe, sess=b.get("sess") or SESS[sessname], hist=b["hist"], msgs=b["msgs"])
            # the symbolic signature term "none" (a field that proves nothing) has several concretisations; a
            # verifier may treat them differently (absent field, zeros, wrong length): the shape rotates over the
            # behaviours, and the scripts of the weakened signature checks (which continue where only a defective
            # verifier lets them) are replayed once per shape
            has_none = any(isinstance(m, dict) and m.get("sig") == "none" for m in b["msgs"])
            if has_none:
                rec["nonesig"] = b.get("nonesig") or NONE_SHAPES[bid % len(NONE_SHAPES)]
            allb[bid] = rec
            # three trace files of similar size so that validation runs as three TLC processes
            groups.setdefault(bid % 3, []).append(rec)
            if has_none and fam in ("weak_ihsig", "weak_rhsig", "weak_idsig") and "nonesig" not in b and shaped.get(fam, 0) < 60:
                shaped[fam] = shaped.get(fam, 0) + 1     # (all of the quick tier's scripts, the first 60 per family beyond)
                for shape in NONE_SHAPES:
                    if shape != rec["nonesig"]:
                        bid += 1
                        rec2 = dict(rec, id=bid, nonesig=shape)
                        allb[bid] = rec2
                        groups.setdefault(bid % 3, []).append(rec2)
                        stats["behaviours"][fam] += 1
    violations = []

    def replay_validate(g, recs):
        p = os.path.join(d, "beh_%d.ndjson" % g)
        with open(p, "w") as f:
            for rec in recs:
                f.write(json.dumps(rec) + "\n")
        tr = os.path.join(d, "trace_%d.ndjson" % g)
        out = core.run([binp, "-in", p, "-out", tr, "-seed", str(core.seed())], timeout=1200)
        core.log("sessreplay[%d]: %s" % (g, out.strip()))
        return tr, core.validate_trace("SessionTrace", "SessionTrace.cfg", tr, nshards=1)

    with ThreadPoolExecutor(max_workers=3) as ex2:
        results = list(ex2.map(lambda kv: replay_validate(*kv), groups.items()))
    for tr, res in results:
        stats["events"] += res["events"]
        stats["trace_states"] += res["states"]
        lines = None
        for v in res["viol"]:
            if lines is None:
                lines = open(tr).readlines()
            _tag, lineno, beh, ops = v
            ev = json.loads(lines[lineno - 1])
            fam = allb[beh]["family"]
            for op in ops:
                pid = classify(op)
                if pid is None:
                    continue
                if op == "NoPanic" and not fam.endswith("genuine"):
                    pid = "C08"      # a panic on adversarial input is C08's business; C06 speaks about genuine messages
                ctx = ev.get("s") or "-"
                kind = "weak" if fam.startswith("weak_") else fam.split("_")[-1]
                key = "%s:%s:%s/%s" % (pid, op, kind, role_of(allb[beh], ctx))
                what = "%s false on real sessions at %s(%s) (family %s, behaviour %d, event line %d%s)" % (
                    op, ev["ev"], ctx, fam, beh, lineno, (", panic: " + ev.get("panicv", "")) if ev.get("panic") else "")
                violations.append((pid, key, what, dict(behaviour=allb[beh], event=ev, operator=op)))
        stats["drift"] += len(res["drift"])
        for dr in res["drift"][:2]:
            stats["drift_samples"].append(dict(line=dr[1], behaviour=dr[2], family=allb[dr[2]]["family"], what=dr[3]))
    if replay_behaviours is None:
        # real-scale cases (replay window, counter limit, concurrent Send on Session and Channel)
        tr = os.path.join(d, "scale.ndjson")
        core.run([binp, "-scale", "-out", tr], timeout=600)
        sres = core.validate_trace("SessionScaleTrace", "SessionScaleTrace.cfg", tr, nshards=1)
        lines = open(tr).readlines()
        stats["real_scale"] = [json.loads(l) for l in lines]
        stats["events"] += sres["events"]
        for v in sres["viol"]:
            ev = json.loads(lines[v[1] - 1])
            for op in v[3]:
                pid = classify(op)
                if pid is None:
                    stats["drift"] += 1
                    continue
                violations.append((pid, "%s:%s:realscale/%s" % (pid, op, ev["case"]),
                                   "%s false in real-scale case %s: %s" % (op, ev["case"], json.dumps(ev)), dict(scale_case=ev, operator=op)))
    for f in mcf:
        f.result()
    if ex:
        ex.shutdown()
    stats["samples"] = [dict(family=b["family"], hist=b["hist"][:12]) for b in list(allb.values())[:1]] + \
                       [dict(family=b["family"], hist=b["hist"][:12]) for b in list(allb.values())[-1:]]
    stats["wall"] = time.time() - t0
    return stats, violations


def role_of(beh, name):
    for s in beh["sess"]:
        if s["name"] == name:
            return s["role"]
    return "-"


def check(pid, tier, replay=None):
    t0 = time.time()
    rb = None
    if replay:
        with open(replay) as f:
            rp = json.load(f)["payload"]["behaviour"]
        rb = {rp["family"]: [dict(hist=rp["hist"], msgs=rp["msgs"], sess=rp["sess"], settle=rp["settle"], probe=rp.get("probe", False), **({"nonesig": rp["nonesig"]} if rp.get("nonesig") else {}))]}
    extra = None
    if pid == "C02" and rb is None:
        # C02 spans session rotation: the channel pipeline runs too (AtMostOnce / Authentic across rekeys and restarts)
        from . import channel
        with ThreadPoolExecutor(max_workers=2) as ex:
            fs = ex.submit(run_pipeline, tier, None)
            fc = ex.submit(channel.run_pipeline, tier, None, "C02")
            stats, violations = fs.result()
            cstats, cviol = fc.result()
        violations = violations + cviol
        extra = dict(channel=dict(model_checking=cstats["mc"], behaviours=cstats["behaviours"], events=cstats["events"],
                                  drift_steps=cstats["drift"], settle=cstats["settle"], timed=cstats.get("timed", {})))
        stats["events"] += cstats["events"]
        stats["trace_states"] += cstats["trace_states"]
        for k, v in cstats["mc"].items():
            stats["mc"]["channel-" + k] = v
        for k, v in cstats["behaviours"].items():
            stats["behaviours"]["channel-" + k] = v
    else:
        stats, violations = run_pipeline(tier, rb)
    mine, seen = [], set()
    for (p, key, what, payload) in violations:
        if p != pid or key in seen:
            continue
        seen.add(key)
        mine.append(core.Violation(pid, key, what, core.write_replay(pid, key, payload)))
    report(pid, tier, stats, mine, t0, extra)
    return core.verdict(pid, mine)


def report(pid, tier, stats, mine, t0, extra=None):
    if stats["drift"]:
        print("DRIFT component=Session steps=%d (model prediction and real observation disagree; no listed property is falsified by that alone) e.g. %s"
              % (stats["drift"], json.dumps(stats["drift_samples"][:2])))
    coverage = dict(
        states=max(sum(v["states"] for v in stats["mc"].values()), 1),
        transitions=max(sum(v["transitions"] for v in stats["mc"].values()), 1),
        traces_validated_against_impl=sum(stats["behaviours"].values()),
        samples=stats["samples"] or [dict(note="replay run")],
        evaluations=stats["events"], distinct_nontrivial=stats["trace_states"],
        rule="evaluations = replayed actions on real sessions, each validated by TLC; distinct_nontrivial = distinct states of the trace specification",
        model_checking=stats["mc"], behaviours=stats["behaviours"], drift_steps=stats["drift"], exhaustive=False)
    if extra:
        coverage.update(extra)
    if stats.get("real_scale"):
        coverage["real_scale"] = stats["real_scale"]
    core.write_evidence(pid, tier, "model_checking", coverage,
                        ["Noise NN / ChaCha20-Poly1305 / Ed25519 / BLAKE2b are sound (symbolic model)",
                         "honest sessions sign with their own key (ground truth of honest messages is derived from real events)",
                         "TLC, CommunityModules, Go toolchain, the add-only VerifState hook"],
                        time.time() - t0, len(mine))
