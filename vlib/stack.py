"""C09: MTU honesty for every swarm and nesting, decided with spec/Stack.tla.

 1. TLC checks Honest on the layer algebra of Stack.tla (LayerMtu / Packets / Joined exactly as coded for
    fragswarm, mbapp, the five p2pmux kinds and p2pkeswarm) for every stack of the case space and every
    boundary size: the coded design is honest within the bounds.
 2. TLC (StackGen) enumerates the stacks (depth <= 2, thorough 3; inner MTU in {64,100,576,1280,65536} plus {25,26} for single layers (thorough: two);
    mux channel ids of every header size; varint / string muxes with 2-3 channels of different header lengths on
    one mux, every order and kind of first use) with BoundarySizes: 0, 1, MTU-1, MTU, MTU+1 and the sizes that
    straddle every layer's part-count and header boundary.
 3. harness/cmd/stackreplay builds both endpoints of every stack from the REAL layers over the real vswarm
    (and over netsim in the thorough tier), reads MTU() from the real top swarm and performs a Tell (and an
    Ask where the stack supports it) per size, recording the error class and what the receiver saw.
 4. TLC evaluates Stack!ObsViol on the observations (StackTrace.tla); the oracle uses the REAL MTU().
"""
import json
import os
import time
from concurrent.futures import ThreadPoolExecutor

from . import core

PROPERTIES = ["C09"]

MANIFEST = {
    "C09": dict(level="exploration",
                technique="TLA+ layer algebra (Stack.tla) checked with TLC and used as case generator (stacks x inner MTUs x channel "
                          "ids x boundary sizes); every case executed on the real nested swarms; observations judged by TLC "
                          "(StackTrace.tla) against the MTU() the real top swarm reports",
                text="For every generated stack of fragswarm / mbapp / p2pmux (5 kinds) / p2pkeswarm layers over vswarm (thorough: also "
                     "over the harness transport), every inner MTU in {64,100,576,1280,65536} and the payload sizes 0, 1, MTU-1, MTU, "
                     "MTU+1 plus those straddling each layer's part-count and header boundaries, a real Tell (and Ask) is executed: "
                     "size <= MTU() rejected with the MTU error, or any payload / request / answer seen during the exchange that "
                     "differs from (or is a proper part of) what was sent, or accepted but not delivered twice on the lossless "
                     "harness transports while a control payload arrives, or size > MTU() accepted or delivered in any form, is "
                     "a VIOLATION.",
                note="Depth <= 2 (thorough: 3 for a reduced layer set), payloads <= 300 kB (thorough 5.3 MB, which reaches the 16-bit "
                     "part-count limit of mbapp for inner MTUs 64 and 100). udpswarm, quicswarm, sshswarm and multiswarm are not "
                     "exercised. A non-delivery of an accepted payload is DRIFT (C01), not a C09 violation. The decisive step is "
                     "execution on the code; the TLC model check of Stack.tla is a design-level cross-check.",
                ref="5 (C09), 3.7"),
}

LAYER_NAME = {"frag": "fragswarm", "mbapp": "mbapp", "str": "stringmux", "var": "varintmux", "u16": "uint16mux",
              "u32": "uint32mux", "u64": "uint64mux", "p2pke": "p2pkeswarm"}

TIERS = {
    # StackGen_small*: base MTUs 25 / 26, where mbapp's 16-bit part count caps MTU() at 65535 / 131070 bytes
    # StackGen_sib*: varint / string mux layers with 2 or 3 channels of different header lengths on the SAME mux, every
    # channel as the one under test, every order and kind of first use (state shared between the channels of a mux)
    "quick": dict(mc=["Stack_quick.cfg", "Stack_sib.cfg"], gen=["StackGen_quick.cfg", "StackGen_small.cfg", "StackGen_sib.cfg"],
                  cap=300000, par=8, remeasure=25, rebudget=90, deadline=360),
    "thorough": dict(mc=["Stack_thorough.cfg", "Stack_sib.cfg"],
                     gen=["StackGen_thorough_d2.cfg", "StackGen_thorough_d3.cfg", "StackGen_small_d2.cfg", "StackGen_sib_d2.cfg"],
                     cap=5300000, par=10, remeasure=100, rebudget=300, deadline=1500),
}


def sig(c):
    return (c["base"], c["inner"], json.dumps(c["layers"], sort_keys=True))


def sub_sig(c, i):
    return (c["base"], c["inner"], json.dumps(c["layers"][i:], sort_keys=True))


def layer_name(x):
    if x.get("chans"):
        return "%s[%d channels,%s-first=%s]" % (LAYER_NAME[x["k"]], len(x["chans"]), x["use"], "".join(str(i) for i in x["ord"]))
    return LAYER_NAME[x["k"]]


def stack_name(c):
    return ">".join(layer_name(x) for x in c["layers"]) + (">" if c["layers"] else "") + c["base"]


def run_pipeline(tier, only=None):
    T = TIERS[tier]
    stats = dict(mc={})
    d = core.scratch("stack")
    binp = core.go_build("stackreplay")
    ex = ThreadPoolExecutor(max_workers=6)

    def mc(cfg):
        res = core.tlc("MC_Stack", cfg, workers=6, timeout=1500, label="mc-" + cfg[:-4], heap="6g")
        core.tlc_ok_or_inconclusive(res, "MC Stack " + cfg)
        stats["mc"][cfg[:-4]] = dict(states=res.distinct, transitions=res.generated, wall=round(res.wall, 1))

    def gen(cfg):
        res = core.tlc("StackGen", cfg, workers=1, timeout=1500, label="gen-" + cfg[:-4])
        core.tlc_ok_or_inconclusive(res, "StackGen " + cfg)
        return [x[1] for x in res.printed("CASE")]

    side = [] if only else [ex.submit(mc, cfg) for cfg in T["mc"]]
    if only:
        cases = only
    else:
        cases, seen = [], set()
        for cs in ex.map(gen, T["gen"]):
            for c in cs:
                if sig(c) not in seen:
                    seen.add(sig(c))
                    cases.append(c)
        if len(cases) < 100:
            raise core.Inconclusive("StackGen produced only %d stacks" % len(cases))
    if not only:
        # mix the families (plain, small-MTU, several-channels) so that an early stop has seen some of each
        import hashlib
        cases.sort(key=lambda c: hashlib.sha1(json.dumps(sig(c)).encode()).hexdigest())
    for i, c in enumerate(cases):
        c["id"] = i + 1
        c["sizes"] = sorted(c["sizes"])
    p = os.path.join(d, "cases.ndjson")
    with open(p, "w") as f:
        for c in cases:
            f.write(json.dumps(c) + "\n")
    tr = os.path.join(d, "trace.ndjson")
    # bounded whatever the tree does: budget for re-measurements, stop after 12 distinct kinds of violation, deadline
    out = core.run([binp, "-in", p, "-out", tr, "-cap", str(T["cap"]), "-par", str(T["par"]), "-remeasure", str(T["remeasure"]),
                    "-rebudget", str(T["rebudget"]), "-deadline", str(T["deadline"]), "-maxkeys", "12"], timeout=T["deadline"] + 240)
    last = out.strip().splitlines()[-1] if out.strip() else ""
    core.log("stackreplay: " + last)
    if not last.startswith("SUMMARY "):
        raise core.Inconclusive("stackreplay did not print its summary:\n" + out[-2000:])
    summary = json.loads(last[len("SUMMARY "):])
    stats["replay"] = summary
    tv = core.validate_trace("StackTrace", "StackTrace.cfg", tr, nshards=1, timeout=1500)
    if os.path.getsize(tr) == 0:
        raise core.Inconclusive("stackreplay executed no stack (%s)" % json.dumps(summary))
    byid = {c["id"]: c for c in cases}
    events = {}
    for ln in open(tr):
        e = json.loads(ln)
        events[e["id"]] = e
    # violations per stack: {(operator, kind)}
    per = {}
    detail = {}
    for v in tv["viol"]:
        _tag, _line, sid, bad = v
        for b in bad:
            per.setdefault(sig(byid[sid]), set()).add((b["op"], b["kind"]))
            detail.setdefault((sid, b["op"], b["kind"]), b)
    violations = []
    for (sid, op, kind), b in sorted(detail.items()):
        c = byid[sid]
        # blame the deepest sub-stack that shows the same violation by itself
        # (an Ask of an upper layer may be carried by Tells of the layers beneath)
        blame = 0
        for i in range(1, len(c["layers"]) + 1):
            sub = per.get(sub_sig(c, i), ())
            if (op, kind) in sub or (op, "tell") in sub:
                blame = i
        layer = LAYER_NAME[c["layers"][blame]["k"]] if blame < len(c["layers"]) else c["base"]
        key = "C09:%s:%s/%s" % (op, layer, kind)
        what = ("%s on the real stack %s (base MTU %d): %s of %d bytes with MTU() = %d; observed %s"
                % (op, stack_name(c), c["inner"], kind, b["size"], b["mtu"],
                   json.dumps([x for x in events[sid]["cases"] if x["size"] == b["size"] and x["op"] == kind][:1])))
        small = dict(c)
        small["sizes"] = [b["size"]]
        violations.append((key, what, dict(stack=small, operator=op, kind=kind, blamed=layer)))
    ncases = sum(len(e["cases"]) for e in events.values())
    nontrivial = len({(sig(byid[i]), x["size"], x["op"]) for i, e in events.items() for x in e["cases"]
                      if x["size"] > 1 and (x["nd"] > 0 or x["err"] == "mtu")})
    for f in side:
        f.result()
    ex.shutdown()
    drift_kinds = {}
    for dr in tv["drift"]:
        for k in dr[3]:
            drift_kinds[k] = drift_kinds.get(k, 0) + 1
    failed = [dict(stack=stack_name(byid[i]), inner=byid[i]["inner"], size=x["size"], op=x["op"], mtu=x["mtu"], err=x["err"],
                   detail=x.get("detail", "")) for i, e in events.items() for x in e["cases"]
              if x["size"] <= x["mtu"] and x["err"] in ("ctx", "other")]
    stats["failed_samples"] = failed[:6]
    stats.update(stacks=len(cases), cases=ncases, nontrivial=nontrivial, events=tv["events"], drift=len(tv["drift"]),
                 drift_kinds=drift_kinds,
                 drift_samples=[dict(stack=stack_name(byid[x[2]]), inner=byid[x[2]]["inner"], what=x[3]) for x in tv["drift"][:4]],
                 samples=[dict(stack=stack_name(c), inner=c["inner"], layers=[{k: (v if k != "c" or len(v) < 20 else "<%d bytes>" % len(v))
                                                                                 for k, v in L.items()} for L in c["layers"]],
                               modelmtu=c["mtu"], sizes=c["sizes"]) for c in (cases[0], cases[len(cases) // 3], cases[-1])])
    return stats, violations


def check(pid, tier, replay=None):
    t0 = time.time()
    only = None
    if replay:
        with open(replay) as f:
            only = [json.load(f)["payload"]["stack"]]
    stats, violations = run_pipeline(tier, only)
    rp = stats.get("replay", {})
    incomplete = rp.get("skipped", 0) + rp.get("cut_short", 0)
    if incomplete:
        print("REPLAY STOPPED EARLY: %s; %d of %d stacks executed, %d cut short, %d skipped"
              % (rp.get("stopped"), rp.get("executed", 0), rp.get("stacks", 0), rp.get("cut_short", 0), rp.get("skipped", 0)))
    if rp.get("not_remeasured_budget"):
        print("not re-measured: budget (%d cases; %d re-measured in %d s): they stay DRIFT"
              % (rp["not_remeasured_budget"], rp.get("remeasured", 0), rp.get("remeasure_s", 0)))
    if incomplete and not violations:
        raise core.Inconclusive("the replay stage stopped early (%s) without a violation: %d stacks not executed"
                                % (rp.get("stopped"), incomplete))
    if not replay and not incomplete and stats["nontrivial"] < stats["cases"] // 4:
        raise core.Inconclusive("vacuous run: only %d of %d cases were delivered or refused with the MTU error"
                                % (stats["nontrivial"], stats["cases"]))
    mine = [core.Violation(pid, key, what, core.write_replay(pid, key, payload)) for key, what, payload in violations]
    if stats["drift"]:
        print("DRIFT component=Stack stacks=%d kinds=%s (model and code disagree, or an accepted payload was not delivered; no "
              "listed property is falsified) e.g. %s" % (stats["drift"], json.dumps(stats["drift_kinds"]), json.dumps(stats["drift_samples"][:2])))
    coverage = dict(
        evaluations=max(stats["cases"], 1), distinct_nontrivial=stats["nontrivial"],
        rule="evaluations = Tell/Ask executions on real stacks (one per stack x boundary size x operation); distinct_nontrivial = "
             "distinct (stack, size, operation) with size > 1 that were either delivered to the other endpoint or refused with the "
             "MTU error",
        samples=stats["samples"], stacks=stats["stacks"], model_checking=stats["mc"],
        states=sum(v["states"] for v in stats["mc"].values()), transitions=sum(v["transitions"] for v in stats["mc"].values()),
        traces_validated_against_impl=stats["stacks"], drift_stacks=stats["drift"], drift_kinds=stats["drift_kinds"],
        failed_in_range=stats["failed_samples"], replay_summary=stats.get("replay", {}), exhaustive=False,
        explanation="stacks and boundary sizes are enumerated by TLC from Stack.tla; each is executed on the real layers and judged "
                    "by StackTrace.tla against the MTU() read from the real top swarm")
    core.write_evidence(pid, tier, "exploration", coverage,
                        ["MTU() is read from the real swarm before every case: the oracle does not depend on the model's arithmetic",
                         "a violation is attributed to the deepest sub-stack that shows it by itself in the same run",
                         "spurious deliveries are waited for only briefly after a refused oversize payload (a late one is attributed "
                         "to the case that caused it when the next case starts)",
                         "TLC, the Json/IOUtils community modules and the Go toolchain are trusted"],
                        time.time() - t0, len(mine))
    return core.verdict(pid, mine)
