"""C14: concurrent use is free of data races and callbacks own their buffers.

What the TLA+ technique contributes here (DESIGN section 9): the buffer-ownership invariants (Hubs.tla
OneOwner / NoStaleContent for swarmutil.Queue, SwarmLedger.tla BufferStable / NoMix) are model-checked and
evaluated on recorded histories, and the high-contention schedules come from the model-derived drivers.
Data-race freedom in the sense of the Go memory model is OBSERVED: the same drivers are built with -race
(ledger -hammer on 19 stack kinds: Tell, Ask, Receive, ServeAsk, LookupPublicKey, LocalAddrs, MTU and Close
concurrently; hubsrec stress on TellHub/AskHub/Queue; 16 goroutines racing Send on a Session and on a
Channel; the timed channel scenarios) and every race report whose stacks contain library frames is turned
into a Race(site) event, which RaceTrace.tla rejects.
"""
import json
import os
import re
import time
from concurrent.futures import ThreadPoolExecutor

from . import core

PROPERTIES = ["C14"]

MANIFEST = {
    "C14": dict(level="exploration",
                technique="ownership invariants from the TLA+ models (Hubs.tla, SwarmLedger.tla) evaluated on recorded histories; Go race detector observing the model-derived concurrent drivers; race reports validated as events by TLC (RaceTrace.tla)",
                text="Buffer ownership (a callback's message is not touched by anyone else while it runs; recycled buffers never leak old content) is an invariant of Hubs.tla/SwarmLedger.tla and is evaluated by TLC on histories recorded from the real Queue and from 19 real stack kinds (digest at callback entry = digest at exit = a told payload). Data races are observed by building the concurrent drivers with -race and running Tell, Ask, Receive, ServeAsk, LookupPublicKey, LocalAddrs, MTU and Close concurrently on every stack kind, plus concurrent Send on sessions and channels; each report with library frames is a violation keyed by its two access sites.",
                note="A TLA+ model cannot decide Go-memory-model data races; the race detector only sees the interleavings that occur. Level 'exploration'.",
                ref="5 (C14), 9"),
}

LIB = "go.brendoncarroll.net/p2p/"


def parse_races(prefix):
    """Returns [(site_a, site_b, text)] for race reports whose stacks contain library frames."""
    out = []
    d = os.path.dirname(prefix)
    for fn in os.listdir(d):
        if not fn.startswith(os.path.basename(prefix)):
            continue
        txt = open(os.path.join(d, fn), errors="replace").read()
        for block in txt.split("==================")[1:]:
            if "DATA RACE" not in block:
                continue
            # the first library frame of each of the two accesses
            sites = []
            for part in re.split(r"\n(?=Previous |Goroutine )", block):
                if part.lstrip().startswith(("WARNING: DATA RACE", "Read at", "Write at", "Previous ")):
                    m = re.search(r"\n\s+(" + re.escape(LIB) + r"[^\n]*?)\(\)\n", part)
                    if m:
                        sites.append(m.group(1).replace(LIB, ""))
            if len(sites) >= 1:
                a = sites[0]
                b = sites[1] if len(sites) > 1 else "?"
                out.append((a, b, block.strip()[:3000]))
    return out


def run_pipeline(tier):
    t0 = time.time()
    from . import ledger
    stats = dict(drivers={}, races=0)
    d = core.scratch("races")
    events = []
    # 1. ledger -hammer under -race on every stack kind (also re-checks BufferStable / NoMix)
    lstats, lviol = ledger.run_pipeline(tier, None, hammer=True, race=True)
    stats["drivers"]["ledger-hammer"] = dict(events=lstats["events"], kinds=len(lstats["per_kind"]))
    races = [("ledger", a, b, t) for a, b, t in parse_races(lstats["racelog"])]
    # 2. sessions / channels: concurrent Send, timed scenarios
    def run_race(cmd_name, args, label):
        binp = core.go_build(cmd_name, race=True)
        log = os.path.join(d, "race-" + label)
        env = dict(os.environ, GORACE="halt_on_error=0 log_path=%s" % log, VERIF_SEED=str(core.seed()))
        core.run([binp] + args, timeout=1800, env=env, ok_codes=(0, 66))
        return [(label, a, b, t) for a, b, t in parse_races(log)]

    with ThreadPoolExecutor(max_workers=3) as ex:
        futs = [ex.submit(run_race, "sessreplay", ["-scale", "-out", os.path.join(d, "scale.ndjson")], "session-scale"),
                ex.submit(run_race, "hubsrec", ["-mode", "stress", "-comps", "tellhub,askhub,queue", "-windows",
                                                "200" if tier == "quick" else "2000", "-out", os.path.join(d, "stress.ndjson"), "-casebase", "1"], "hubs-stress")]
        futs.append(ex.submit(run_race, "kadreplay", ["-hammer"], "kademlia-hammer"))
        for f in futs:
            races += f.result()
    stats["drivers"]["session-scale"] = dict(cases=5)
    stats["drivers"]["kademlia-hammer"] = dict(goroutines=8)
    stats["drivers"]["hubs-stress"] = dict(windows=200 if tier == "quick" else 2000)
    # 3. events for TLC
    seen = {}
    for label, a, b, text in races:
        key = " <-> ".join(sorted([a, b]))
        if key in seen:
            seen[key]["count"] += 1
            continue
        seen[key] = dict(ev="race", beh=len(seen) + 1, driver=label, a=a, b=b, site=key, count=1, text=text)
    tr = os.path.join(d, "races.ndjson")
    with open(tr, "w") as f:
        f.write(json.dumps(dict(ev="drivers", beh=0, driver="-", a="", b="", site="", count=0, text="")) + "\n")
        for e in seen.values():
            f.write(json.dumps({k: e[k] for k in ("ev", "beh", "driver", "a", "b", "site", "count")} | dict(text="")) + "\n")
    res = core.validate_trace("RaceTrace", "RaceTrace.cfg", tr, nshards=1)
    stats["races"] = len(seen)
    violations = []
    lines = open(tr).readlines()
    for v in res["viol"]:
        ev = json.loads(lines[v[1] - 1])
        full = next(e for e in seen.values() if e["site"] == ev["site"])
        violations.append(("C14", "C14:NoDataRace:" + ev["site"],
                           "data race observed by the Go race detector under driver %s between %s and %s (%d reports)" % (ev["driver"], ev["a"], ev["b"], full["count"]),
                           dict(race=full)))
    for (p, key, what, payload) in lviol:
        if key.split(":")[1] in ("BufferStable", "NoMix"):
            violations.append(("C14", key.replace("C01:", "C14:"), what, payload))
    stats["events"] = res["events"] + lstats["events"]
    stats["wall"] = time.time() - t0
    stats["samples"] = lstats["cases"][:1]
    return stats, violations


def check(pid, tier, replay=None):
    t0 = time.time()
    stats, violations = run_pipeline(tier)
    mine, seen = [], set()
    for (p, key, what, payload) in violations:
        if key in seen:
            continue
        seen.add(key)
        mine.append(core.Violation(pid, key, what, core.write_replay(pid, key, payload)))
    coverage = dict(evaluations=stats["events"], distinct_nontrivial=max(2, len(stats["drivers"]) + 19),
                    rule="evaluations = events recorded under the race detector and validated by TLC; distinct_nontrivial = distinct concurrent driver x stack-kind combinations run under -race",
                    samples=stats["samples"] or [dict(note="drivers")], drivers=stats["drivers"], distinct_race_sites=stats["races"], exhaustive=False)
    core.write_evidence(pid, tier, "exploration", coverage,
                        ["the race detector reports only races that occur in the executed interleavings",
                         "third-party frames alone (quic-go, x/crypto/ssh) are ignored"], time.time() - t0, len(mine))
    return core.verdict(pid, mine)
