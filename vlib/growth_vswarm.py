"""G06 (growth: virtual swarm core and wrappers): spec/VSwarm.tla is the realm-level contract of s/vswarm +
s/memswarm (routing, at-most-once, exact loss conditions and what the sender learns, FIFO, Ask errors, Close,
identity, address non-reuse); spec/Wrappers.tla layers wlswarm and mapswarm on it; spec/VSwarmPure.tla holds
laws of p2ptest and swarm.go / ip.go helpers. TLC checks the models and generates behaviours;
harness/cmd/vswarmreplay runs them on real realms; VSwarmTrace judges the logs.

Pipeline: (1) TLC model-checks MC_VSwarm / Wrappers (every group of a bounded alphabet from every reachable
state; the laws are operators over the HISTORY OF OBSERVATIONS and are evaluated on every step of the model);
the configs VSwarm_kf_*.cfg state the two recorded findings as invariants and must be violated; (2) VSwarmGen
generates behaviours per family (realm kind x transform x wrapper x queue length): edge covers (every
transition of the model from every realm state within a small depth, BFS-shortest prefix) and seeded
simulation; a behaviour is a sequence of GROUPS released together (mostly one operation: the harness acts
sequentially; racing pairs for the commit-point races and the blocking cases) and ends with a drain;
(3) vswarmreplay executes them through the public API (queue length, MTU, transform via options), logging
every result, completion, delivery (Src/Dst/payload identity), error class and the read-only methods of every
node; (4) VSwarmTrace evaluates the law operators on the observations (VIOL) and compares each step with the
set of outcomes the as-coded model allows from every model state still consistent with the log (DRIFT).

Verdict policy (BUILDING.md): VIOLATION only when the REAL code falsifies a law operator evaluated by TLC in
the trace specification; DRIFT when it merely differs from the as-coded model; a counterexample in a model
alone, a build error or a timeout is INCONCLUSIVE.  A law that depends on a call returning in time
(TellNeverBlocks, NoLoss, CloseTerminal, CancelPrompt, AskErrors, QueueBound) is re-measured: the behaviour is
executed again with eight times the patience (8 s) and must fail again.  Recorded findings: known_findings.json entries whose
key starts with "G06:".
"""
import json
import os
import time
from concurrent.futures import ThreadPoolExecutor

from . import core

EXTRA = ["G06"]
PID = "G06"

ALLP = ["tt", "tc", "tr", "rc", "ac", "aa", "as", "sc", "cc", "nn", "xc"]
ALLOW_MIXED = [[0, 1], [0], [0, 1, 2, 7]]

# family -> the constants of the model and of the realm the harness builds
FAMILIES = {
    "mem1": dict(kind="mem", tfkind="none", wrap="none", allow="AllowAll", qlen=1, n0=2, secure=True,
                 sizes=["z", "s", "m", "x"], tfs=["pass"], ctxs=["wait", "cancelled"], handlers=["echo", "neg"], pairs=ALLP),
    "mem2": dict(kind="mem", tfkind="none", wrap="none", allow="AllowAll", qlen=2, n0=2, secure=False,
                 sizes=["z", "s", "x"], tfs=["pass"], ctxs=["wait"], handlers=["echo"], pairs=["tt", "tc", "tr", "rc", "nn"]),
    "script": dict(kind="mem", tfkind="script", wrap="none", allow="AllowAll", qlen=1, n0=2, secure=True,
                   sizes=["z", "s", "m"], tfs=["pass", "drop", "grow", "altsrc", "altdst"], ctxs=["wait"], handlers=["echo"], pairs=["tt"]),
    "tuple": dict(kind="mem", tfkind="tuple", wrap="none", allow="AllowAll", qlen=2, n0=2, secure=True,
                  sizes=["s", "x"], tfs=["pass"], ctxs=["wait"], handlers=["echo"], pairs=[]),
    "pair": dict(kind="mem", tfkind="pair", wrap="none", allow="AllowAll", qlen=1, n0=3, secure=True,
                 sizes=["s"], tfs=["pass"], ctxs=["wait"], handlers=["echo"], pairs=[]),
    "vs": dict(kind="vs", tfkind="none", wrap="none", allow="AllowAll", qlen=1, n0=1, secure=True,
               sizes=["s", "x"], tfs=["pass"], ctxs=["wait"], handlers=["echo"], pairs=["nn", "tc", "cc"]),
    "wl": dict(kind="mem", tfkind="none", wrap="wl", allow="AllowMixed", qlen=1, n0=3, secure=True,
               sizes=["s", "x"], tfs=["pass"], ctxs=["wait"], handlers=["echo", "neg"], pairs=["tt", "aa", "as", "tr"]),
    "wl2": dict(kind="mem", tfkind="none", wrap="wl", allow="AllowMixed", qlen=2, n0=3, secure=True,
                sizes=["s"], tfs=["pass"], ctxs=["wait"], handlers=["echo"], pairs=["tt"]),
    "map": dict(kind="mem", tfkind="none", wrap="map", allow="AllowAll", qlen=1, n0=2, secure=True,
                sizes=["z", "s", "m", "x"], tfs=["pass"], ctxs=["wait", "cancelled"], handlers=["echo"], pairs=["tt", "tc", "tr", "rc", "nn"]),
    "mapn": dict(kind="mem", tfkind="script", wrap="map", allow="AllowAll", qlen=2, n0=2, secure=False,
                 sizes=["s", "m"], tfs=["pass", "drop", "altsrc", "altdst"], ctxs=["wait"], handlers=["echo"], pairs=[]),
}

# edge: family -> (depth, stride, racing pairs, sizes) of the edge cover (every transition of the model from every realm
# state reachable in depth - 1 groups); the quick tier executes every stride-th edge (seeded offset)
TIERS = {
    "quick": dict(
        mc=[("MC_VSwarm", "VSwarm_q.cfg", 4), ("MC_VSwarm", "VSwarm_pairs.cfg", 4), ("MC_VSwarm", "VSwarm_vs.cfg", 2),
            ("Wrappers", "Wrappers_wl.cfg", 2), ("Wrappers", "Wrappers_map.cfg", 2)],
        kf=[("VSwarm_kf_closedsend.cfg", "ClosedCannotSendHolds"), ("VSwarm_kf_neverremoved.cfg", "DropRemovesHolds")],
        sim={"mem1": 40, "mem2": 16, "script": 24, "tuple": 12, "pair": 12, "vs": 16, "wl": 30, "wl2": 10, "map": 24, "mapn": 12},
        simdepth=10,
        edge=[("mem1", 2, 6, [], ["s", "x"]), ("wl", 2, 16, ["tt", "as"], ["s"]), ("script", 2, 10, [], ["s"]), ("map", 2, 3, [], ["s", "x"]),
              ("vs", 2, 2, ["nn", "cc"], ["s"])],
        part=1500),
    "thorough": dict(
        mc=[("MC_VSwarm", "VSwarm_q.cfg", 4), ("MC_VSwarm", "VSwarm_pairs.cfg", 4), ("MC_VSwarm", "VSwarm_vs.cfg", 2),
            ("MC_VSwarm", "VSwarm_wl.cfg", 4), ("MC_VSwarm", "VSwarm_script.cfg", 4), ("MC_VSwarm", "VSwarm_deep.cfg", 4),
            ("Wrappers", "Wrappers_wl.cfg", 2), ("Wrappers", "Wrappers_map.cfg", 2), ("Wrappers", "Wrappers_wl_deep.cfg", 4), ("Wrappers", "Wrappers_map_deep.cfg", 4)],
        kf=[("VSwarm_kf_closedsend.cfg", "ClosedCannotSendHolds"), ("VSwarm_kf_neverremoved.cfg", "DropRemovesHolds")],
        sim={"mem1": 300, "mem2": 120, "script": 200, "tuple": 80, "pair": 80, "vs": 120, "wl": 250, "wl2": 80, "map": 200, "mapn": 80},
        simdepth=14,
        edge=[("mem1", 2, 1, ["tt", "tc", "tr", "rc", "ac", "as"], ["s", "x"]), ("mem1", 3, 1, [], ["s"]), ("wl", 2, 1, ["tt", "as", "aa"], ["s", "x"]),
              ("wl", 3, 4, [], ["s"]), ("script", 2, 1, ["tt"], ["s"]), ("map", 2, 1, ["tt", "tr"], ["s", "x"]), ("map", 3, 1, [], ["s"]),
              ("vs", 3, 1, ["nn", "cc"], ["s"]), ("tuple", 3, 1, [], ["s"]), ("pair", 2, 1, [], ["s"]), ("mem2", 3, 1, [], ["s"])],
        part=2500),
}

TIMING_LAWS = {"TellNeverBlocks", "NoLoss", "CloseTerminal", "CancelPrompt", "AskErrors", "QueueBound"}
KNOWN_LAW_KEYS = {"ClosedCannotSend": "G06:ClosedCannotSend:vswarm/closed-swarm-still-sends",
                  "DropRemoves": "G06:DropRemoves:vswarm/never-removed"}


def _set(xs):
    return "{" + ", ".join('"%s"' % x if isinstance(x, str) else str(x) for x in xs) + "}"


def _gen_cfg(F, spec, maxops, extra=""):
    return ("SPECIFICATION %s\nCONSTANTS\n  Addrs = {0, 1, 2}\n  Unknown = 7\n  QLen = %d\n  Kind = \"%s\"\n  TfKind = \"%s\"\n  Wrap = \"%s\"\n"
            "  Allow <- %s\n  N0 = %d\n  Sizes = %s\n  TFs = %s\n  Ctxs = %s\n  Handlers = %s\n  PairKinds = %s\n  MaxOps = %d\n  MaxAsks = 2\n"
            "CHECK_DEADLOCK FALSE\n%s\n"
            % (spec, F["qlen"], F["kind"], F["tfkind"], F["wrap"], F["allow"], F["n0"], _set(F["sizes"]), _set(F["tfs"]), _set(F["ctxs"]),
               _set(F["handlers"]), _set(F["pairs"]), maxops, extra))


def _trace_cfg(F):
    return ("SPECIFICATION TraceSpec\nCONSTANTS\n  Addrs = {0, 1, 2}\n  Unknown = 7\n  QLen = %d\n  Kind = \"%s\"\n  TfKind = \"%s\"\n  Wrap = \"%s\"\n"
            "  Allow <- %s\nPOSTCONDITION AllConsumed\nCHECK_DEADLOCK FALSE\n" % (F["qlen"], F["kind"], F["tfkind"], F["wrap"], F["allow"]))


class Stats:
    def __init__(self):
        self.mc = {}
        self.expected_violations = {}
        self.cases = {}
        self.events = {}
        self.trace_states = {}
        self.drift = []
        self.samples = []
        self.remeasured = []


def _mc(stats, module, cfg, workers):
    res = core.tlc(module, cfg, workers=workers, timeout=1500, short=True, label="mc-" + cfg[:-4])
    core.tlc_ok_or_inconclusive(res, "MC " + cfg)
    stats.mc[cfg] = dict(states=res.distinct, transitions=res.generated, depth=res.depth, wall=round(res.wall, 1))


def _expect_violation(stats, cfg, prop):
    res = core.tlc("MC_VSwarm", cfg, workers=1, timeout=600, short=True, label="kf-" + cfg[:-4])
    if prop not in res.violated:
        raise core.Inconclusive("%s: the as-coded model was expected to violate %s and does not:\n%s" % (cfg, prop, res.out[-2000:]))
    stats.expected_violations[cfg] = prop


def _behaviour(bid, fam, origin, beh):
    F = FAMILIES[fam]
    return dict(id=bid, fam=fam, origin=origin, kind=F["kind"], secure=F["secure"], tfkind=F["tfkind"], wrap=F["wrap"], qlen=F["qlen"],
                n0=beh["n0"], allow=ALLOW_MIXED if F["wrap"] == "wl" else [], groups=beh["groups"])


def _generate(fam, T, stats):
    F = FAMILIES[fam]
    out = []
    n = T["sim"].get(fam, 0)
    if n:
        files = {"Gsim.cfg": _gen_cfg(F, "WGenSpec", T["simdepth"])}
        res = core.tlc("WrappersGen", "Gsim.cfg", workers=1, simulate=n, depth=100, tlc_seed=core.seed() * 1000 + sorted(FAMILIES).index(fam),
                       timeout=900, short=(n <= 100), label="sim-" + fam, files=files)
        core.tlc_ok_or_inconclusive(res, "VSwarmGen sim " + fam)
        hs = [x[1] for x in res.printed("BEH")]
        if len(hs) < n * 0.9:
            raise core.Inconclusive("VSwarmGen %s produced %d of %d behaviours" % (fam, len(hs), n))
        out += [("sim", h) for h in hs]
        cs, seen = [], set()
        for x in res.printed("CORE"):
            k = json.dumps(x[1], sort_keys=True)
            if k not in seen:
                seen.add(k)
                cs.append(x[1])
        if not cs:
            raise core.Inconclusive("WrappersGen %s printed no scenario" % fam)
        stats.cases["core-" + fam] = len(cs)
        out += [("core", h) for h in cs]
    for _f, depth, stride, pairs, sizes in [e for e in T["edge"] if e[0] == fam]:
        files = {"Gedge.cfg": _gen_cfg(dict(F, pairs=pairs, sizes=sizes), "CoverSpec", depth, "VIEW gview\nINVARIANTS TypeOK LawsHold MustIsQueued\nACTION_CONSTRAINT EdgeDump")}
        res = core.tlc("VSwarmGen", "Gedge.cfg", workers=4, timeout=1500, label="edge-%s-%d" % (fam, depth), files=files)
        core.tlc_ok_or_inconclusive(res, "VSwarmGen edge cover " + fam)
        hs = [x[1] for x in res.printed("BEH")]
        if not hs:
            raise core.Inconclusive("VSwarmGen edge cover %s: no behaviours" % fam)
        stats.mc["edge/%s-%d" % (fam, depth)] = dict(states=res.distinct, transitions=res.generated, depth=res.depth, wall=round(res.wall, 1))
        stats.cases["edges-%s-%d-total" % (fam, depth)] = len(hs)
        out += [("edge", h) for i, h in enumerate(hs) if (i + core.seed()) % stride == 0]
    return out


def _split(lines, part):
    pieces, cur, start = [], [], 0
    for i, line in enumerate(lines):
        if len(cur) >= part and line.startswith('{"ev":"init"'):
            pieces.append((start, cur))
            cur, start = [], i
        cur.append(line)
    if cur:
        pieces.append((start, cur))
    return pieces


def _replay_validate(fam, behs, binp, d, part, patience=None, tag=""):
    F = FAMILIES[fam]
    bp, tr = os.path.join(d, "beh_%s%s.ndjson" % (fam, tag)), os.path.join(d, "trace_%s%s.ndjson" % (fam, tag))
    with open(bp, "w") as f:
        for b in behs:
            f.write(json.dumps(b) + "\n")
    out = core.run([binp, "-in", bp, "-out", tr] + (["-patience", str(patience)] if patience else []), timeout=1500)
    core.log("vswarmreplay[%s%s]: %s" % (fam, tag, out.strip().splitlines()[-1] if out.strip() else ""))
    lines = open(tr).readlines()
    if sum(1 for l in lines if l.startswith('{"ev":"init"')) != len(behs):
        raise core.Inconclusive("vswarmreplay[%s]: %d init events for %d behaviours" % (fam, sum(1 for l in lines if l.startswith('{"ev":"init"')), len(behs)))
    tot = dict(viol=[], drift=[], events=0, states=0)

    def one(k, off, ls):
        pp = "%s.part%d" % (tr, k)
        with open(pp, "w") as f:
            f.writelines(ls)
        r = core.validate_trace("VSwarmTrace", "Gtrace.cfg", pp, nshards=1, files={"Gtrace.cfg": _trace_cfg(F)})
        os.remove(pp)
        return off, r

    with ThreadPoolExecutor(max_workers=3) as ex:
        for off, r in [f.result() for f in [ex.submit(one, k, off, ls) for k, (off, ls) in enumerate(_split(lines, part))]]:
            for t in ("viol", "drift"):
                for item in r[t]:
                    item[1] += off
                    tot[t].append(item)
            tot["events"] += r["events"]
            tot["states"] += r["states"]
    return lines, tot


def _sig(g):
    def one(o):
        k = o["op"]
        if k == "tell":
            return "tell %d->%d %s%s" % (o["a"], o["b"], o["sz"], "" if o["tf"] in ("-", "pass") else "/" + o["tf"])
        if k == "ask":
            return "ask %d->%d %s" % (o["a"], o["b"], o["sz"])
        if k == "recv":
            return "recv@%d%s" % (o["a"], "(cancelled)" if o["ctx"] == "cancelled" else "")
        if k == "serve":
            return "serve@%d/%s" % (o["a"], o["h"])
        if k == "close":
            return "close %d" % o["a"]
        if k == "cancel":
            return "cancel #%d" % o["t"]
        if k == "create":
            return "create %d" % o["b"]
        return k
    return " || ".join("#%d %s" % (o["id"], one(o)) for o in g["ops"])


def _context(fam, ev):
    F = FAMILIES[fam]
    ops = "+".join(sorted({o["op"] for o in ev["ops"]})) or ("end" if ev.get("last") else "init")
    return "%s/%s" % ("vswarm" if F["wrap"] == "none" else F["wrap"] + "swarm", ops) + ("" if F["tfkind"] == "none" else "," + F["tfkind"])


def run_families(tier, binp, d, stats, only=None):
    T = TIERS[tier]
    allb, groups = {}, {}
    with ThreadPoolExecutor(max_workers=8) as ex:
        side = []
        if only is None:
            side += [ex.submit(_mc, stats, m, c, w) for m, c, w in T["mc"]]
            side += [ex.submit(_expect_violation, stats, c, p) for c, p in T["kf"]]
            gens = {fam: ex.submit(_generate, fam, T, stats) for fam in FAMILIES if T["sim"].get(fam) or any(e[0] == fam for e in T["edge"])}
            for fam, f in gens.items():
                for origin, h in f.result():
                    bid = len(allb) + 1
                    allb[bid] = _behaviour(bid, fam, origin, h)
                    groups.setdefault(fam, []).append(allb[bid])
        else:
            for b in only:
                allb[b["id"]] = b
                groups.setdefault(b["fam"], []).append(b)
        results = {fam: f.result() for fam, f in {fam: ex.submit(_replay_validate, fam, bl, binp, d, T["part"]) for fam, bl in groups.items()}.items()}
        for f in side:
            f.result()
        viol = []
        for fam, (lines, tv) in results.items():
            stats.cases["behaviours-" + fam] = len(groups[fam])
            stats.events[fam] = tv["events"]
            stats.trace_states[fam] = tv["states"]
            again = {}
            for _t, ln, bid, ops in tv["viol"]:
                ev = json.loads(lines[ln - 1])
                timing = [op for op in ops if op in TIMING_LAWS]
                if timing:
                    again.setdefault(bid, set()).update(timing)
                for op in ops:
                    if op in TIMING_LAWS:
                        continue
                    viol.append(_violation(fam, allb[bid], ev, ln, op))
            if again:
                # re-measurement of the laws that depend on a call returning in time: the behaviour alone, more patience
                rb = [allb[b] for b in sorted(again)]
                lines2, tv2 = _replay_validate(fam, rb, binp, d, T["part"], patience=8000, tag="-again")
                for _t, ln, bid, ops in tv2["viol"]:
                    ev = json.loads(lines2[ln - 1])
                    for op in ops:
                        if op in again.get(bid, ()):
                            viol.append(_violation(fam, allb[bid], ev, ln, op))
                stats.remeasured.append(dict(family=fam, behaviours=sorted(again), laws=sorted(set().union(*again.values()))))
            for _t, ln, bid, what in tv["drift"]:
                ev = json.loads(lines[ln - 1])
                stats.drift.append(dict(family=fam, behaviour=bid, step=ev["i"], group=_sig(ev) if ev["ops"] else "end", what=what,
                                        results=[o["res"] for o in ev["ops"]], done=[(c["id"], c["kind"], c["res"]) for c in ev["done"]]))
            stats.samples.append(dict(family=fam, behaviour=dict(groups[fam][0], groups=groups[fam][0]["groups"][:4])))
    return viol


def _violation(fam, beh, ev, ln, op):
    key = KNOWN_LAW_KEYS.get(op) or "G06:%s:%s" % (op, _context(fam, ev))
    F = FAMILIES[fam]
    what = ("%s false on a real %s realm (family %s: %s, transform %s, wrapper %s, queue length %d; behaviour %d, step %d): schedule %s ; "
            "step results %s ; completions %s%s"
            % (op, "vswarm" if F["kind"] == "vs" else "memswarm", fam, "secure" if F["secure"] else "plain", F["tfkind"], F["wrap"], F["qlen"],
               beh["id"], ev["i"], " ; ".join(_sig(g) for g in beh["groups"][:ev["i"]]),
               [(o["id"], o["res"]) for o in ev["ops"]],
               [(c["id"], c["kind"], c["res"], "pid=%d src=%d dst=%d %s%s" % (c["pid"], c["src"], c["dst"], c["sz"], "" if c["ok"] or c["res"] not in ("msg", "req", "ok") else " CORRUPT")) for c in ev["done"]],
               (" panic: " + ev["panic"]) if ev["panic"] else ""))
    return key, what, dict(piece="realm", behaviour=beh, operator=op, line=ln)


PURE_TEXT = {
    "vec": "VecSize / VecBytes of out=%(out)s v=%(v)s: size %(size)s, bytes %(bytes)s, inputs untouched %(same)s",
    "recvh": "p2p.Receive of a message (src %(s)s, dst %(d)s, payload %(payload)s): caller got (src %(gs)s, dst %(gd)s, payload %(gpayload)s), error %(err)s",
    "lkh": "LookupPublicKeyInHandler: key known %(known)s, panicked %(panicked)s, key %(key)s, context ended %(ctxdone)s",
    "discard": "Discard%(kind)s over %(n)s items then an error: consumed %(consumed)s, returned %(err)s",
    "topo": "p2ptest %(kind)s of %(n)s nodes: %(adj)s",
    "ipf": "ip %(ip)s (given in %(n)s bytes): OnlyGlobal %(og)s NoLinkLocal %(nll)s NoLoopback %(nlb)s",
    "filter": "FilterIPs(%(xs)s, %(preds)s) = %(ys)s",
    "expand": "ExpandUnspecifiedIPs(%(xs)s) on a host with %(nif)s interface addresses = %(ys)s",
}


def run_pure(binp, d, stats):
    tr = os.path.join(d, "pure.ndjson")
    out = core.run([binp, "-pure", "-out", tr], timeout=300)
    core.log("vswarmreplay -pure: " + out.strip())
    tv = core.validate_trace("VSwarmPureTrace", "VSwarmPureTrace.cfg", tr, nshards=1)
    lines = open(tr).readlines()
    stats.cases["pure-cases"] = len(lines)
    stats.events["pure"] = tv["events"]
    stats.trace_states["pure"] = tv["states"]
    viol = []
    for _t, ln, cid, ops in tv["viol"]:
        ev = json.loads(lines[ln - 1])
        for op in ops:
            viol.append(("G06:%s:pure/%s" % (op, ev["ev"]), "%s false on the real helper: %s%s"
                         % (op, PURE_TEXT.get(ev["ev"], "%s") % ev, (" panic: " + ev["panic"]) if ev["panic"] else ""),
                         dict(piece="pure", case=cid, operator=op)))
    stats.samples.append(dict(piece="pure", event={k: v for k, v in json.loads(lines[-1]).items() if v not in ([], "", 0, False)}))
    return viol


def _verdict(violations):
    kf = {k["key"]: k for k in core.known_findings() if k.get("key", "").startswith("G06:") and k.get("status", "open") == "open"}
    rc, seen, shown = 0, set(), 0
    for v in violations:
        if v.key in seen:
            continue
        seen.add(v.key)
        if v.key in kf:
            print("KNOWN-FINDING: property=%s (recorded under %s) %s [%s]" % (PID, kf[v.key].get("property"), kf[v.key]["what"], v.key))
            continue
        rc = 1
        shown += 1
        if shown > 14:
            continue
        print("VIOLATION property=%s replay=%s" % (PID, v.replay or "-"))
        print("  what: %s [%s]" % (v.what, v.key))
    if shown > 14:
        print("  (... %d further distinct violation kinds not listed)" % (shown - 14))
    return rc


def check(pid, tier, replay=None):
    t0 = time.time()
    only, pieces = None, ["realm", "pure"]
    if replay:
        with open(replay) as f:
            rp = json.load(f)["payload"]
        pieces = [rp["piece"]]
        only = [rp["behaviour"]] if rp["piece"] == "realm" else None
    stats = Stats()
    d = core.scratch("g06")
    binp = core.go_build("vswarmreplay")
    found, errs = [], []
    with ThreadPoolExecutor(max_workers=2) as ex:
        futs = {}
        if "pure" in pieces:
            futs["pure"] = ex.submit(run_pure, binp, d, stats)
        if "realm" in pieces:
            futs["realm"] = ex.submit(run_families, tier, binp, d, stats, only)
        for p, f in futs.items():
            try:
                found += f.result()
            except core.Inconclusive as e:
                errs.append("%s: %s" % (p, e))
    if errs:
        raise core.Inconclusive("\n".join(errs))
    mine, seen = [], set()
    recorded = {k.get("key") for k in core.known_findings() if k.get("status", "open") == "open"}
    for key, what, payload in found:
        if key in seen:
            continue
        seen.add(key)
        mine.append(core.Violation(PID, key, what, None if key in recorded else core.write_replay(PID, key, payload)))
    if stats.drift:
        print("DRIFT component=G06 steps=%d (model and code disagree on steps that falsify no law) e.g. %s"
              % (len(stats.drift), json.dumps(stats.drift[:3])[:1500]))
    nbeh = sum(v for k, v in stats.cases.items() if k.startswith("behaviours-")) + stats.cases.get("pure-cases", 0)
    coverage = dict(
        states=max(1, sum(v["states"] for v in stats.mc.values())),
        transitions=max(1, sum(v["transitions"] for v in stats.mc.values())),
        traces_validated_against_impl=nbeh,
        samples=stats.samples[:3] or [dict(note="replay run")],
        evaluations=sum(stats.events.values()),
        distinct_nontrivial=sum(stats.trace_states.values()),
        rule="evaluations = trace events validated by TLC (one per executed group, each with every result, completion and the read-only "
             "observation of every node); distinct_nontrivial = distinct states of the trace specifications",
        model_checking=stats.mc, expected_model_violations=stats.expected_violations, cases=stats.cases, events=stats.events,
        drift_steps=len(stats.drift), remeasured=stats.remeasured, exhaustive=False,
        explanation="TLC checks VSwarm.tla exhaustively within the bounds of the listed configs and generates the behaviours; vswarmreplay "
                    "executes them on real realms; VSwarmTrace evaluates the law operators on what was observed")
    core.write_evidence(PID, tier, "model_checking", coverage,
                        ["realms of 2-3 nodes (addresses 0..2, one address that never exists), queue length 1 or 2, real MTU 24 bytes with the "
                         "payload sizes 0, 6, MTU, MTU+1; every payload carries the number of its tell (an empty one cannot: a behaviour has at "
                         "most one empty tell per sender and destination); keys are the strings k<address>",
                         "one harness goroutine acts at a time except inside a group, whose operations are released together; a group may do "
                         "whatever some order of the commit points of its operations does, plus: a queue slot stays taken while a Receive "
                         "callback is still handling its message (busy), so a tell racing with a delivery at its destination may be dropped",
                         "at most two blocked Receives / ServeAsks per node and two blocked Asks; the hubs and the queue themselves are C12/C13 "
                         "(spec/Hubs.tla), payload integrity end to end is C01, OwnAnswer / FailureIsError of Ask are C11: not redone here",
                         "the laws are evaluated on observations only (results, completions, what callbacks saw, the read-only methods); NoLoss is "
                         "claimed only for a tell that had room even if every earlier tell not known to have left the queue were still in it",
                         "laws that depend on a call returning in time use a patience of 1 s (healthy: microseconds) and are re-measured with 8 s",
                         "the public API only: no hook in /repo; wlswarm through WrapSecureAsk with fixed allow sets (node 0: {0,1}, node 1: {0}, "
                         "node 2: everybody), mapswarm through NewSecure / New with up(a) = a + 100 (an invertible mapping)",
                         "ExpandUnspecifiedIPs is checked against the interface addresses of this host (net.InterfaceAddrs)",
                         "TLC, the Json/IOUtils community modules and the Go toolchain are trusted"],
                        time.time() - t0, len(mine))
    return _verdict(mine)
