"""C12 / C13: the rendezvous primitives swarmutil.TellHub / AskHub / Queue and the Close / cancel
behaviour of every swarm built on them, decided with spec/Hubs.tla, HubsHist.tla, HubsTrace.tla.

Pipeline (quick and thorough differ in bounds only):
 1. TLC model-checks the implementation-shaped spec Hubs.tla (tell hub, ask hub, queue; Go-select
    idiom; every interleaving of deliver / receive / cancel / close with 2+2 ops): safety operators
    and, under weak fairness, CloseEnds / CancelEnds / CloseReturns.
 2. TLC (simulation of HubsGen.tla, a history variable over Hubs.tla) generates the phase scripts of
    the close matrix: how many receive ops are parked and in which phase of an in-flight delivery
    Close is issued, followed by calls after Close returned.
 3. harness/cmd/hubsrec (Direction B) (a) runs every script on every real swarm stack, one child
    process per stack kind, recording Call/Ret/CbBegin/CbEnd/Cancel/Timeout/Leak events, and (b) runs
    seeded stress on the exported hubs and queue.
 4. TLC validates the recorded histories against the abstract history specification (HubsTrace.tla
    folding HubsHist.tla): a property operator falsified by a real event is a VIOLATION; a step the
    specification cannot explain but no property forbids is DRIFT.  The generated model behaviours
    are validated by the same trace spec (no operator may fire), and corrupted copies must be
    rejected (binding demonstration); a failure there is INCONCLUSIVE.
"""
import json
import os
import time
from concurrent.futures import ThreadPoolExecutor

from . import core

PROPERTIES = ["C12", "C13"]

MANIFEST = {
    "C12": dict(level="model_checking",
                technique="TLA+ spec (Hubs.tla, Go-select idiom) model-checked with TLC incl. liveness under weak fairness; TLC-generated "
                          "phase scripts (HubsGen.tla) drive the close matrix on every real swarm stack; recorded concurrent histories "
                          "validated by TLC against the abstract history spec (HubsHist.tla / HubsTrace.tla)",
                text="TLC exhaustively checks CloseEnds, CloseReturns, CloseIdempotent, ErrAfterClose and NoLateCallback on Hubs.tla (tell hub, ask hub, "
                     "bounded queue; 2 deliver x 2 receive ops, close, cancels, every interleaving). The close matrix (b in {0,1,4} calls blocked in "
                     "Receive/ServeAsk with non-expiring contexts; k in {0,1,W,2W} deliveries in flight with W = the stack's worker count (GOMAXPROCS forced to 2, "
                     "and the default in the thorough tier); Close before rendezvous / in the callback / after / after cancels; repeated Close; calls "
                     "and a Tell after Close returned; goroutine-release check; on the wrapping stacks also with an inner swarm whose Close reports an error, "
                     "multiswarm with 3 transports and every subset failing: InnerClosed = every owned inner swarm was closed) is run on memswarm, fragswarm, mbapp, p2pmux, multiswarm, p2pkeswarm, "
                     "quicswarm, sshswarm, udpswarm from TLC-generated scripts, plus seeded close races on the exported hubs; every recorded history is "
                     "decided by TLC against the history specification. A VIOLATION is printed only for an operator falsified by a real event.",
                note="Bounded: 2+2 ops in the exhaustive model (3 deliver ops / 2 closes in the thorough tier); promptness is observed with a 1 s "
                     "threshold (healthy: microseconds; udpswarm <= 25 ms) re-measured on a second run; 'no callback after Close returned' is decided for "
                     "deliveries CALLED after Close RETURNED (DESIGN 4.3). Trusts TLC, the Json/IOUtils community modules, the Go runtime's "
                     "runtime.Stack for the goroutine check. No hooks in /repo are used.",
                ref="5 (C12), 3.1, Appendix B, D"),
    "C13": dict(level="model_checking",
                technique="TLA+ spec (Hubs.tla) model-checked with TLC; seeded concurrent stress on the exported TellHub/AskHub/Queue and cancel scripts on "
                          "real stacks recorded as histories; histories validated by TLC against the abstract rendezvous / bounded-queue spec",
                text="TLC exhaustively checks ExactlyOnce, OkOnlyAfterCallback, ErrOnlyIfUnseen, NotLostByCancel, RetTruthful, OneOwner, NoStaleContent, "
                     "QueueBounded and CancelEnds (Cancel(op) ~> op returned, weak fairness) on Hubs.tla over every interleaving of deliver / receive / "
                     "cancel / close with 2+2 ops. Seeded stress (p producers, r receivers, random cancels and closes, Gosched injection, unique message "
                     "ids, payload digests at callback entry and exit) on the real TellHub, AskHub and Queue is recorded with one atomic counter and "
                     "checked as a concurrent history by TLC (linearisability against the rendezvous specification; commit points are the observed "
                     "callback entries); cancellation promptness of Receive/ServeAsk is driven on every stack incl. udpswarm on a real socket. udpswarm's own "
                     "receive loop (semaphore + 25 ms poll) is modelled in UdpRecv.tla (NotLostByCancel, ExactlyOnce, CancelEnds checked by TLC); TLC-generated "
                     "schedules of the receive / cancel / Tell race (k in {1,2,3} receivers, one or all but one cancelled before / at the same moment as / "
                     "after the Tell, sequentially and from racing goroutines, every schedule repeated) run on real udpswarm sockets and on memswarm; every "
                     "told datagram must reach exactly one callback. A loss in the control phase (no cancellation) is INCONCLUSIVE.",
                note="As C12. Histories are cut into windows (one fresh hub per window) so validation is linear. FIFO order of the queue is not part of the verdict.",
                ref="5 (C13), 3.1, Appendix B"),
}

C12_OPS = {"CloseEnds", "ErrAfterClose", "NoLateCallback", "CloseIdempotent", "CloseReturns", "AllReleased", "InnerClosed"}
C13_OPS = {"ExactlyOnce", "OkOnlyAfterCallback", "ErrOnlyIfUnseen", "NotLostByCancel", "RetTruthful", "CancelPrompt",
           "NoStaleContent", "OnlyDelivered", "QueueBounded"}
TIMING_OPS = {"CloseEnds", "CloseReturns", "CloseIdempotent", "CancelPrompt", "AllReleased"}
# NotLostByCancel on the datagram level waits (1 s) for a delivery: believed only if reproduced as well
KIND_NAME = {"recv": "Receive", "serve": "ServeAsk", "deliver": "Deliver", "qdeliver": "Deliver", "tell": "Tell", "ask": "Ask",
             "close": "Close", "close2": "Close-repeated", "purge": "Purge", "process": "process", "": "-"}
STACKS = ["memswarm", "fragswarm", "mbapp", "p2pmux", "multiswarm", "p2pkeswarm", "quicswarm", "sshswarm", "udpswarm"]
# wrapping stacks that own their inner swarm, run with an inner swarm whose Close reports an error (after really closing);
# multiswarm3: three transports, every non-empty subset of them failing (Go randomises the map order Close iterates in)
VARIANT_STACKS = ["p2pmux+reopened", "fragswarm+innererr", "mbapp+innererr", "p2pkeswarm+innererr", "quicswarm+innererr", "multiswarm3+innererr"]
HUBS = ["tell", "ask"]
BS = [0, 1, 4]
PHASES = ["idle", "pre", "cb", "post", "cancel"]
MODEL_W = 2        # W in spec/HubsGen_*.cfg: the stack's worker count in model units
# every class of phase script the generator must reach: (b, phase, k); k = deliveries in flight when Close is called
CLASSES = ([(b, ph, 1 if ph == "pre" else 0) for b in BS for ph in PHASES if not (b == 0 and ph == "cancel")]
           + [(b, "backlog", k) for b in BS for k in (MODEL_W, 2 * MODEL_W)]
           + [(0, "cbbacklog", k) for k in (1, MODEL_W, 2 * MODEL_W)])
# receive / cancel / Tell race (spec/UdpRecv.tla): stacks whose Receive is its own loop, not a hub
RACE_STACKS = ["udpswarm", "memswarm"]
RACE_CLASSES = ([(k, 0, "control") for k in (1, 2, 3)]
                + [(k, nc, pos) for k in (1, 2, 3) for nc in (1, 2) for pos in ("before", "ct", "tc", "after")
                   if nc <= k and (nc < k or k == 1 or pos != "after") and (pos != "after" or k > 1) and (nc != 2 or k >= 2)])
RACE_PHASE = {"before": "cancel-before-tell", "ct": "cancel-then-tell", "tc": "tell-then-cancel", "after": "cancel-after-delivery",
              "control": "control"}
BACKLOG_PROCS = {"quick": [2], "thorough": [2, 0]}   # GOMAXPROCS of the child running the backlog scripts (0: default)

TIERS = {
    "quick": dict(sims=400, per_class=1,
                  stress={"C12": 400, "C13": 1500}, race_rounds=6, race_sims=300,
                  mc={"C12": ["Hubs_tell.cfg", "Hubs_ask.cfg", "Hubs_queue.cfg"],
                      "C13": ["Hubs_tell.cfg", "Hubs_ask.cfg", "Hubs_queue.cfg"]},
                  bugs=[]),
    "thorough": dict(sims=1500, per_class=4,
                     stress={"C12": 4000, "C13": 12000}, race_rounds=40, race_sims=1000,
                     mc={"C12": ["Hubs_tell_deep12.cfg", "Hubs_ask_deep12.cfg", "Hubs_queue_deep12.cfg"],
                         "C13": ["Hubs_tell_deep13.cfg", "Hubs_ask_deep13.cfg", "Hubs_queue_deep13.cfg",
                                 "Hubs_tell_live.cfg", "Hubs_ask_live.cfg", "Hubs_queue_live.cfg"]},
                     # F01 also lets a stuck Receive take a delivery made after Close returned (NoLateCallback, part of Safety)
                     bugs=[("Hubs_tell_F01.cfg", ("EndsPromptly", "Safety")), ("Hubs_ask_F02.cfg", ("Safety",))]),
}


# ----------------------------------------------------------------------------
# stage 1: model checking (runs in the background while the code is exercised)

def model_check(pid, tier, stats):
    T = TIERS[tier]

    def one(cfg):
        res = core.tlc("UdpRecv" if cfg.startswith("UdpRecv") else "Hubs", cfg, workers=4, timeout=1500, label="mc-" + cfg[:-4],
                       short=cfg.startswith("UdpRecv"))
        core.tlc_ok_or_inconclusive(res, "MC Hubs/" + cfg)
        stats["mc"][cfg] = dict(states=res.distinct, transitions=res.generated, depth=res.depth, wall=round(res.wall, 1))

    def bug(cfg, expect):
        # the properties must tell: with the code as it was before the repair the model violates them
        res = core.tlc("UdpRecv" if cfg.startswith("UdpRecv") else "Hubs", cfg, workers=2, timeout=600, label="mcbug-" + cfg[:-4], short=True)
        hit = res.violated or [e for e in res.errors if "violated" in e]
        if not hit or not any(x in str(h) for h in hit + res.errors for x in expect):
            raise core.Inconclusive("self-test: %s should violate %s in the model but TLC reported %s" % (cfg, expect, res.errors[:2]))
        stats["mc_bug_selftest"][cfg] = [x for x in expect if any(x in str(h) for h in hit + res.errors)]

    par = 3 if tier == "thorough" else 2
    ex = ThreadPoolExecutor(max_workers=par)
    futs = [ex.submit(one, cfg) for cfg in T["mc"][pid] + (["UdpRecv.cfg"] if pid == "C13" else [])]
    futs += [ex.submit(bug, cfg, expect) for cfg, expect in T["bugs"] + ([("UdpRecv_seeded.cfg", ("Safety",))] if pid == "C13" and T["bugs"] else [])]
    return ex, futs


# ----------------------------------------------------------------------------
# stage 2: phase scripts from TLC

def canon(hist):
    ren, key = {}, []
    for s in hist:
        ren.setdefault(s["op"], len(ren))
        key.append((s["a"], ren[s["op"]], s["pc"]))
    return tuple(key)


def generate_scripts(tier, stats):
    T = TIERS[tier]

    def gen(hub):
        behs = []
        for attempt in range(3):
            res = core.tlc("HubsGen", "HubsGen_%s.cfg" % hub, workers=1, simulate=T["sims"], depth=400,
                           tlc_seed=core.seed() + 7919 * attempt, timeout=900, label="gen-" + hub, short=(T["sims"] <= 400))
            core.tlc_ok_or_inconclusive(res, "HubsGen " + hub)
            behs += res.printed("BEH")
            if not set(CLASSES) - {(b[1]["b"], b[1]["ph"], b[1]["k"]) for b in behs}:
                break           # every class reached (a random walk may miss one: walk again with another seed)
        return hub, behs

    with ThreadPoolExecutor(max_workers=2) as ex:
        out = list(ex.map(gen, HUBS))
    scripts, behaviours = [], []
    for hub, behs in out:
        classes = {}
        for b in behs:
            goal, hist = b[1], b[2]
            behaviours.append((hub, goal, hist))
            if goal["b"] == 0 and goal["ph"] == "cancel":
                continue          # nothing is cancelled: the same as idle/0
            k = (goal["b"], goal["ph"], goal["k"])
            d = classes.setdefault(k, {})
            c = canon(hist)
            if c not in d and len(d) < (min(T["per_class"], 2) if goal["ph"] in ("backlog", "cbbacklog") else T["per_class"]):
                d[c] = hist
        missing = [c for c in CLASSES if c not in classes]
        if missing:
            raise core.Inconclusive("HubsGen %s: the simulation reached no behaviour for the classes %s" % (hub, missing))
        for (b, ph, k), d in sorted(classes.items()):
            for hist in d.values():
                steps = [dict(a=s["a"], op=s["op"], pc=s["pc"]) for s in hist]
                if ph in ("backlog", "cbbacklog"):
                    # W = the stack's worker count = GOMAXPROCS of the child process: small and cheap (2), and the default
                    for procs in BACKLOG_PROCS[tier]:
                        scripts.append(dict(id=len(scripts), hub=hub, b=b, ph=ph, k=k, w=MODEL_W, procs=procs, reply=False, steps=steps))
                    continue
                scripts.append(dict(id=len(scripts), hub=hub, b=b, ph=ph, k=k, w=MODEL_W, procs=0, reply=False, steps=steps))
                if hub == "tell" and ph == "cb":
                    # concretisation choice of the stack level: the handler answers its sender
                    scripts.append(dict(id=len(scripts), hub=hub, b=b, ph=ph, k=k, w=MODEL_W, procs=0, reply=True, steps=steps))
        stats["gen"][hub] = dict(behaviours=len(behs), classes=len(classes), distinct=len({canon(b[2]) for b in behs}))
    # the subset also run on the "+innererr" variants: blocked receivers, Close in the callback / after a delivery, a backlog
    seen = set()
    for sc in scripts:
        c = (sc["hub"], sc["b"], sc["ph"], sc["k"])
        want = ((sc["ph"] in ("idle", "cb", "post") and sc["b"] in (1, 4) and not sc["reply"])
                or (sc["ph"] == "backlog" and sc["b"] == 0 and sc["k"] == MODEL_W and sc["procs"] == 2))
        sc["inner"] = bool(want and c not in seen)
        if sc["inner"]:
            seen.add(c)
    return scripts, behaviours


def generate_race_scripts(tier, stats):
    """Schedules of the receive / cancel / Tell race from TLC (simulation of UdpRecvGen.tla).  The model UdpRecv.tla
    itself is model-checked by model_check(); in the thorough tier its seeded variant must violate Safety."""
    T = TIERS[tier]
    behs = []
    for attempt in range(3):
        res = core.tlc("UdpRecvGen", "UdpRecvGen.cfg", workers=1, simulate=T["race_sims"], depth=200,
                       tlc_seed=core.seed() + 104729 * attempt, timeout=900, label="gen-race", short=True)
        core.tlc_ok_or_inconclusive(res, "UdpRecvGen")
        behs += res.printed("RACE")
        if not set(RACE_CLASSES) - {(b[1]["k"], b[1]["nc"], b[1]["pos"]) for b in behs}:
            break
    classes = {}
    for b in behs:
        goal, hist = b[1], b[2]
        # which role the victims have when cancelled (inside the read / waiting for the semaphore / in the callback)
        pcs, roles = {}, []
        for st in hist:
            if st["a"] == "Cancel":
                roles.append(pcs.get(st["op"], "?"))
            elif st["pc"]:
                pcs[st["op"]] = st["pc"]
        order = tuple(st["a"] for st in hist if st["a"] in ("RCall", "Cancel", "Tell"))
        classes.setdefault((goal["k"], goal["nc"], goal["pos"]), {}).setdefault((tuple(roles), order), hist)
    missing = [c for c in RACE_CLASSES if c not in classes]
    if missing:
        raise core.Inconclusive("UdpRecvGen: the simulation reached no behaviour for the classes %s" % missing)
    scripts = []
    for (k, nc, pos), d in sorted(classes.items()):
        for _sig, hist in sorted(d.items())[:(3 if tier == "quick" else 6)]:
            steps = [dict(a=x["a"], op=x["op"], pc=x["pc"]) for x in hist]
            scripts.append(dict(id=len(scripts), k=k, nc=nc, pos=pos, race=False, steps=steps))
            if pos in ("ct", "tc"):
                # "at the same moment": the cancel(s) and the Tell from racing goroutines
                scripts.append(dict(id=len(scripts), k=k, nc=nc, pos=pos, race=True, steps=steps))
    stats["gen"]["race"] = dict(behaviours=len(behs), classes=len(classes), scripts=len(scripts))
    return scripts


# ----------------------------------------------------------------------------
# model behaviours as histories (self-test of the history specification)

RES = {"ok": "ok", "closed": "closed", "ctx": "ctx", "nil": "ok", "true": "true", "false": "false"}


def ev(case, kind_ev, **kw):
    e = dict(seq=0, ev=kind_ev, case=case, op=0, kind="", msg=0, digest=0, res="", n=0, after="", lvl="", comp="", phase="", cap=0, fn="", info="")
    e.update(kw)
    return e


def behaviour_to_history(case, hub, goal, hist, corrupt=None):
    """Events of one model behaviour.  corrupt: None | 'drop-cbend' | 'late-ok'."""
    ids, msgs, kinds, out = {}, {}, {}, []
    rk = "recv" if hub == "tell" else "serve"
    comp = "model" if corrupt is None else "model-corrupt:" + corrupt
    out.append(ev(case, "reset", lvl=hub + "hub", comp=comp, phase=goal["ph"], info="b=%d" % goal["b"]))
    nclose, applied = 0, False

    def oid(name):
        return ids.setdefault(name, len(ids) + 1)

    for s in hist:
        a, op = s["a"], s["op"]
        if a == "RCall":
            kinds[op] = rk
            out.append(ev(case, "Call", op=oid(op), kind=rk))
        elif a == "DCall":
            kinds[op] = "deliver"
            msgs[op] = len(msgs) + 1
            out.append(ev(case, "Call", op=oid(op), kind="deliver", msg=msgs[op], digest=1000 + msgs[op]))
        elif a == "CCall":
            kinds[op] = "close" if nclose == 0 else "close2"
            nclose += 1
            out.append(ev(case, "Call", op=oid(op), kind=kinds[op]))
        elif a == "Cancel":
            out.append(ev(case, "Cancel", op=oid(op), kind=kinds[op]))
        elif a == "CbBegin":
            m = msgs[s["m"]]
            out.append(ev(case, "CbBegin", op=oid(op), kind=rk, msg=m, digest=1000 + m))
        elif a == "CbEnd":
            m = msgs[s["m"]]
            if corrupt == "drop-cbend" and not applied:
                applied = True
            else:
                out.append(ev(case, "CbEnd", op=oid(op), kind=rk, msg=m, digest=1000 + m, n=1 + m))
        for name, res in sorted(s["retd"]):
            r = RES[res]
            if corrupt == "late-ok" and not applied and name in kinds and kinds[name] == rk and r == "closed" and any(
                    h["a"] == "RCall" and h["op"] == name and h["pc"] == "late" for h in hist):
                r, applied = "ok", True
            n = 1 + msgs[name] if (kinds.get(name) == "deliver" and r == "ok") else 0
            out.append(ev(case, "Ret", op=oid(name), kind=kinds.get(name, ""), msg=msgs.get(name, 0), res=r, n=n))
    return out, applied


# ----------------------------------------------------------------------------
# stage 3 + 4: run the recorder, validate, classify

def window_index(events):
    win = {}
    for e in events:
        if e["ev"] == "reset":
            win[e["case"]] = e
    return win


def classify(name, e, w):
    """(property, key, what) for one falsified operator, or None."""
    op, _, phase = name.partition("@")
    comp = w.get("comp", "?")
    kind = KIND_NAME.get(e.get("kind", ""), e.get("kind", ""))
    if op == "NoPanic":
        pid = "C12" if e.get("kind") in ("close", "close2", "process") else "C13"
        return pid, "%s:NoPanic:%s/%s" % (pid, comp, kind), "panic in %s on %s: %s" % (kind, comp, e.get("fn", ""))
    pid = "C12" if op in C12_OPS else "C13" if op in C13_OPS else None
    if pid is None:
        return None
    if op == "InnerClosed":
        return pid, "%s:InnerClosed:%s/%s" % (pid, comp, e["fn"]), (
            "Close of the %s stack returned but its inner swarm %s was never closed (%s)" % (comp, e["fn"], e["info"]))
    if op == "AllReleased":
        return pid, "%s:AllReleased:%s/%s" % (pid, comp, e["fn"]), (
            "%d goroutine(s) in %s still alive after Close of the %s stack and the grace period (%s)" % (e["n"], e["fn"], comp, e["info"]))
    if op in ("CloseReturns", "CloseIdempotent"):
        phase = w.get("phase", "")
    if w.get("lvl") == "dgram":
        base, _, var = w.get("phase", "").partition("+")
        phase = RACE_PHASE.get(base, base) + (("+" + var) if var else "")
        if op == "NotLostByCancel":
            kind = "Receive"
    key = "%s:%s:%s/%s%s" % (pid, op, comp, kind, ("-" + phase) if phase else "")
    descr = {
        "CloseEnds": "%s on %s had not returned 1 s after Close returned (%s)" % (kind, comp, {"blocked": "it was blocked when Close was called", "late": "it was called after Close returned", "racing": "it was called while Close ran"}.get(phase, phase)),
        "CloseReturns": "Close of %s had not returned after 1 s (script phase %s)" % (comp, phase),
        "CloseIdempotent": "a repeated Close of %s did not return / panicked" % comp,
        "ErrAfterClose": "%s on %s reported success (%s) although Close had %s" % (kind, comp, e.get("res"), "returned before the call" if phase == "late" else "been called and no callback ran"),
        "NoLateCallback": "a callback on %s received a message whose delivery was called after Close had returned" % comp,
        "CancelPrompt": "%s on %s had not returned 1 s after its context was cancelled" % (kind, comp),
        "ExactlyOnce": "a message was handed to a second receiver callback on %s" % comp,
        "OkOnlyAfterCallback": "Deliver on %s returned success before/without the callback finishing" % comp,
        "ErrOnlyIfUnseen": "a message whose Deliver on %s returned an error was seen by a callback" % comp,
        "NotLostByCancel": ("a datagram told to %s was seen by no receiver callback although a healthy Receive was waiting (%s, %s)" % (comp, phase, w.get("info", ""))
                            if w.get("lvl") == "dgram" else "a message accepted by %s was never handed to a callback" % comp),
        "RetTruthful": "%s on %s returned %s, which its history does not justify" % (kind, comp, e.get("res")),
        "NoStaleContent": ("a callback on %s was handed a buffer that an earlier callback had already owned and overwritten" % comp
                           if e.get("msg") == -2 else "the payload seen by a callback on %s is not what the deliverer wrote" % comp),
        "OnlyDelivered": "a callback on %s saw a message nobody delivered" % comp,
        "QueueBounded": "Queue.Deliver accepted a message while all its buffers were in use",
    }.get(op, op)
    return pid, key, descr


def record_and_validate(binp, d, tag, stress_windows, scripts, stacks, model_events, stats, comps="tellhub,askhub,queue",
                        race=None):
    """Runs the recorder (stress and/or matrix), validates everything in ONE TLC run.
    Returns (events, viol, drift) where viol/drift are [(name, event, window)]."""
    env = dict(os.environ, VERIF_SEED=str(core.seed()))
    files = []

    def stress():
        p = os.path.join(d, "stress_%s.ndjson" % tag)
        out = core.run([binp, "-mode", "stress", "-comps", comps, "-windows", str(stress_windows), "-out", p, "-casebase", "2000000"],
                       timeout=1500, env=env)
        core.log("hubsrec stress: " + out.strip().splitlines()[-1] if out.strip() else "hubsrec stress done")
        return p

    def matrix():
        sp = os.path.join(d, "scripts_%s.json" % tag)
        with open(sp, "w") as f:
            for s in scripts:
                f.write(json.dumps(s) + "\n")
        p = os.path.join(d, "matrix_%s.ndjson" % tag)
        core.run([binp, "-mode", "matrix", "-scripts", sp, "-stacks", ",".join(stacks), "-out", p], timeout=1500, env=env)
        return p

    def racerun():
        rscripts, rstacks, rounds = race
        sp = os.path.join(d, "race_%s.json" % tag)
        with open(sp, "w") as f:
            for s in rscripts:
                f.write(json.dumps(s) + "\n")
        p = os.path.join(d, "race_%s.ndjson" % tag)
        core.run([binp, "-mode", "race", "-scripts", sp, "-stacks", ",".join(rstacks), "-rounds", str(rounds), "-workers", "8",
                  "-out", p, "-casebase", "5000000"], timeout=1500, env=env)
        return p

    with ThreadPoolExecutor(max_workers=3) as ex:
        fm = ex.submit(matrix) if scripts and stacks else None
        fs = ex.submit(stress) if stress_windows else None
        fr = ex.submit(racerun) if race and race[0] else None
        if fm:
            files.append(fm.result())
        if fs:
            files.append(fs.result())
        if fr:
            files.append(fr.result())
    tr = os.path.join(d, "trace_%s.ndjson" % tag)
    events = []
    with open(tr, "w") as out:
        for e in model_events:
            out.write(json.dumps(e) + "\n")
            events.append(e)
        for p in files:
            with open(p) as f:
                for line in f:
                    out.write(line)
                    events.append(json.loads(line))
    if not events:
        return [], [], []
    res = core.validate_trace("HubsTrace", "HubsTrace.cfg", tr, nshards=1)
    stats["events"] += res["events"]
    stats["trace_states"] += res["states"]
    win = window_index(events)

    def expand(items):
        out = []
        for it in items:
            e = events[it[1] - 1]
            for name in (it[3] if isinstance(it[3], list) else [it[3]]):
                out.append((name, e, win.get(e["case"], {})))
        return out

    return events, expand(res["viol"]), expand(res["drift"])


def selftest_model_histories(behaviours, tier):
    """Model behaviours as histories (must be accepted) and corrupted copies (must be rejected)."""
    evs, expect = [], {}
    case = 9000000
    n_ok = 0
    limit = 60 if tier == "quick" else 400
    for hub, goal, hist in behaviours[:limit]:
        case += 1
        h, _ = behaviour_to_history(case, hub, goal, hist)
        evs += h
        n_ok += 1
    n_bad = 0
    for corrupt, want in (("drop-cbend", "OkOnlyAfterCallback"), ("late-ok", "ErrAfterClose")):
        done = 0
        for hub, goal, hist in behaviours:
            if done >= 3:
                break
            h, applied = behaviour_to_history(case + 1, hub, goal, hist, corrupt)
            if not applied:
                continue
            if corrupt == "drop-cbend" and not any(s["a"] == "DWait" for s in hist):
                continue
            case += 1
            evs += h
            expect[case] = want
            done += 1
            n_bad += 1
    return evs, expect, n_ok, n_bad


def shape(events_of_window):
    return tuple((e["ev"], e["kind"], e["res"], e["after"]) for e in events_of_window)


def run_pipeline(pid, tier, replay=None):
    t0 = time.time()
    T = TIERS[tier]
    stats = dict(mc={}, mc_bug_selftest={}, gen={}, events=0, trace_states=0, drift={}, windows=0, scripts=0,
                 model_histories=0, corrupted_rejected=0, confirmations=[])
    d = core.scratch("hubs")
    binp = core.go_build("hubsrec")
    ex = futs = None
    if replay is None:
        ex, futs = model_check(pid, tier, stats)
        scripts, behaviours = generate_scripts(tier, stats)
        race = None
        if pid == "C13":
            # cancellation promptness on every stack; the full matrix belongs to C12
            scripts = [s for s in scripts if s["ph"] == "cancel"]
            race = (generate_race_scripts(tier, stats), RACE_STACKS, T["race_rounds"])
        stacks = STACKS + (VARIANT_STACKS if pid == "C12" else [])
        stress_windows = T["stress"][pid]
        model_events, expect, n_ok, n_bad = selftest_model_histories(behaviours, tier)
        stats["model_histories"] = n_ok
        comps = "tellhub,askhub,queue"
    else:
        scripts = [replay["script"]] if replay.get("script") else []
        stacks = [replay["stack"]] if replay.get("stack") else []
        stress_windows = replay.get("windows", 0)
        comps = replay.get("comp", "tellhub,askhub,queue")
        model_events, expect = [], {}
        race = ([replay["race_script"]], [replay["stack"]], replay.get("rounds", 20)) if replay.get("race_script") else None
        if race:
            scripts, stacks = [], []
    stats["scripts"] = len(scripts)
    stats["race_scripts"] = len(race[0]) if race else 0
    events, viol, drift = record_and_validate(binp, d, "main", stress_windows, scripts, stacks, model_events, stats, comps, race)
    # the race verdict assumes a lossless transport at these rates: a loss without any cancellation refutes the assumption
    for name, e, w in viol:
        if w.get("lvl") == "dgram" and w.get("phase") == "control" and name == "NotLostByCancel":
            raise core.Inconclusive("control phase of the receive/cancel/Tell race lost a datagram on %s WITHOUT any cancellation (%s): "
                                    "the lossless-transport assumption does not hold on this machine now" % (w.get("comp"), w.get("info")))

    # self-test of the history specification
    real_viol = []
    rejected = set()
    for name, e, w in viol:
        comp = w.get("comp", "")
        if comp == "model":
            raise core.Inconclusive("self-test: the history specification rejects a behaviour of Hubs.tla (%s at %s)" % (name, e))
        if comp.startswith("model-corrupt"):
            if name.partition("@")[0] == expect.get(e["case"]):
                rejected.add(e["case"])
            continue
        real_viol.append((name, e, w))
    if set(expect) - rejected:
        raise core.Inconclusive("self-test: corrupted histories %s were not rejected by HubsTrace" % sorted(set(expect) - rejected))
    stats["corrupted_rejected"] = len(rejected)
    for name, e, w in drift:
        if w.get("comp", "").startswith("model"):
            if w.get("comp") == "model":
                raise core.Inconclusive("self-test: drift on a behaviour of Hubs.tla (%s at %s)" % (name, e))
            continue
        k = "%s/%s" % (w.get("comp", "?"), name)
        stats["drift"][k] = stats["drift"].get(k, 0) + 1

    # windows and shapes of the histories recorded from the real code
    per = {}
    for e in events:
        w = e["case"]
        per.setdefault(w, []).append(e)
    real = {c: evs for c, evs in per.items() if not evs[0].get("comp", "").startswith("model") and evs[0].get("phase") != "skip"}
    stats["windows"] = len(real)
    shapes = {shape(evs) for evs in real.values() if any(x["ev"] in ("CbBegin", "Cancel", "Timeout") or x["kind"] in ("close",) for x in evs)}
    stats["distinct_shapes"] = len(shapes)
    stats["samples"] = []
    for c, evs in list(real.items())[:400]:
        if len(stats["samples"]) >= 2:
            break
        if any(x["ev"] == "CbBegin" for x in evs) and any(x["ev"] == "Cancel" or x["kind"] == "close" for x in evs):
            stats["samples"].append([{k: v for k, v in x.items() if v not in ("", 0) and k != "seq"} for x in evs[:40]])

    # classification, with re-measurement of timing-based observations
    script_by_case = {}
    found = {}
    for name, e, w in real_viol:
        c = classify(name, e, w)
        if c is None:
            continue
        p, key, what = c
        if key in found:
            found[key]["count"] += 1
            continue
        payload = dict(kind="stress" if w.get("lvl") != "stack" else "matrix", operator=name, event=e, window=w)
        if w.get("lvl") == "dgram":
            rid = int(w["info"].split("race=")[1].split()[0])
            payload.update(kind="race", stack=w["comp"], rounds=20, race_script=next((x for x in race[0] if x["id"] == rid), None))
        elif w.get("lvl") == "stack":
            sid = int(w["info"].split("script=")[1].split()[0]) if "script=" in w.get("info", "") else None
            sc = next((s for s in scripts if s["id"] == sid), None)
            payload.update(stack=w["comp"], script=sc)
        else:
            payload.update(comp={"TellHub": "tellhub", "AskHub": "askhub", "Queue": "queue"}.get(w.get("comp"), "tellhub"), windows=300)
        found[key] = dict(pid=p, key=key, what=what, payload=payload, op=name.partition("@")[0], count=1)

    confirmed = []
    confirmed_groups = set()      # (operator, component): one reproduced key vouches for its siblings (other phases)
    for key, v in found.items():
        if v["pid"] != pid:
            continue
        group = (v["op"], v["payload"]["window"].get("comp"))
        if group in confirmed_groups:
            confirmed.append(v)
            continue
        known = {k["key"] for k in core.known_findings() if k.get("status", "open") == "open"}
        if (v["op"] in TIMING_OPS or v["payload"]["kind"] == "race") and replay is None and key not in known:
            pl = v["payload"]
            ok = 0
            for i in range(2):
                st2 = dict(events=0, trace_states=0)
                if pl["kind"] == "race":
                    _, v2, _ = record_and_validate(binp, d, "confirm%d" % i, 0, [], [], [], st2,
                                                   race=([pl["race_script"]], [pl["stack"]], 20))
                elif pl["kind"] == "matrix" and pl.get("script"):
                    _, v2, _ = record_and_validate(binp, d, "confirm%d" % i, 0, [pl["script"]], [pl["stack"]], [], st2)
                else:
                    _, v2, _ = record_and_validate(binp, d, "confirm%d" % i, pl.get("windows", 300), [], [], [], st2, pl.get("comp", "tellhub"))
                keys2 = {c[1] for c in (classify(n2, e2, w2) for n2, e2, w2 in v2) if c}
                if key in keys2:
                    ok += 1
                else:
                    break
            stats["confirmations"].append(dict(key=key, reproduced=ok))
            if ok < 2:
                core.log("timing-based observation %s was not reproduced on re-measurement (%d/2): discarded" % (key, ok))
                stats["drift"]["not-reproduced/" + key] = 1
                continue
            confirmed_groups.add(group)
        confirmed.append(v)
    if futs:
        for f in futs:
            f.result()
        ex.shutdown()
    stats["wall"] = time.time() - t0
    return stats, confirmed


def check(pid, tier, replay=None):
    t0 = time.time()
    rp = None
    if replay:
        with open(replay) as f:
            rp = json.load(f)["payload"]
    stats, found = run_pipeline(pid, tier, rp)
    mine = []
    for v in found:
        path = core.write_replay(pid, v["key"], v["payload"])
        mine.append(core.Violation(pid, v["key"], "%s (observed %d time(s))" % (v["what"], v["count"]), path))
    if stats["drift"]:
        print("DRIFT component=Hubs %s" % json.dumps(stats["drift"], sort_keys=True))
    mc_states = sum(v["states"] for v in stats["mc"].values())
    mc_trans = sum(v["transitions"] for v in stats["mc"].values())
    coverage = dict(
        states=max(mc_states, 1), transitions=max(mc_trans, 1),
        traces_validated_against_impl=stats["windows"],
        samples=stats.get("samples") or [dict(note="replay run")],
        evaluations=stats["events"],
        distinct_nontrivial=stats.get("distinct_shapes", 0),
        rule="evaluations = history events validated by TLC (HubsTrace); traces_validated_against_impl = windows (one fresh hub / queue / "
             "swarm stack each) recorded from the real code; distinct_nontrivial = distinct (event, kind, result) sequences among the windows "
             "that contain a callback, a cancel, a timeout or a Close",
        model_checking=stats["mc"], model_bug_selftest=stats["mc_bug_selftest"], script_generation=stats["gen"],
        scripts_per_stack=stats["scripts"], stacks=STACKS, variant_stacks=VARIANT_STACKS, race_schedules=stats.get("race_scripts", 0), race_stacks=RACE_STACKS, model_histories_accepted=stats["model_histories"],
        corrupted_histories_rejected=stats["corrupted_rejected"], drift=stats["drift"], confirmations=stats["confirmations"],
        exhaustive=False,
        explanation="TLC exhaustively checks Hubs.tla within the bounds of the listed configs (safety + liveness under weak fairness); TLC-generated "
                    "phase scripts and seeded stress are executed on the real code; TLC decides every recorded history against HubsHist.tla")
    core.write_evidence(pid, tier, "model_checking", coverage,
                        ["a callback terminates; weak fairness on every started operation's own steps (nothing is assumed about callers)",
                         "promptness threshold 1 s after Close returned / after the cancel; an observation is believed only if reproduced on two re-runs and "
                         "the harness heartbeat saw no stall",
                         "ordering inferences only from Call-before / Ret-after on one atomic counter",
                         "TLC, the Json/IOUtils community modules, the Go toolchain and runtime.Stack are trusted"],
                        time.time() - t0, len(mine))
    return core.verdict(pid, mine)
