"""C11: an Ask returns its own handler's answer or an error (never another's, never an empty or truncated success).

 1. TLC model-checks spec/Ask.tla: OwnAnswer and FailureIsError over every interleaving of 2 askers x
    2 servers, every handler result class, Close of the destination and context ends at every step, for the
    three transports of the library: the AskHub rendezvous (vswarm and what forwards to it), one stream per
    ask (quicswarm, sshswarm) and mbapp (request / multi-part reply fragments on a set network, in-flight
    table keyed (counter, originTime, dst)); ByDeadline under fairness.  Model self-test: the configurations
    that restore F02 / F09 / F10 / F11, drop the negative-result mapping or weaken the in-flight key must FAIL.
 2. TLC generates scripts (spec/AskGen.tla, seeded simulation with a history variable).
 3. harness/cmd/askreplay executes them on the real stacks (handler gates, scripted Close / context ends,
    for mbapp the driver carries every fragment) plus seeded concurrent workloads, and records the ledger.
    Requests ARRIVE BEFORE anybody serves: the destination has no standing ServeAsk caller in the scripted
    family (`serve` steps issue one ServeAsk call each, after any number of `ask` / `arrive` steps), and in
    every second concurrent workload the applications start serving 30 ms after the askers started; requests
    of equal length / shorter after longer; mbapp nodes with four and with one receive worker.
 4. TLC judges the ledger (spec/AskTrace.tla): VIOL lines are verdicts on the real code, DRIFT lines are not.
"""
import json
import os
import random
import time
from concurrent.futures import ThreadPoolExecutor

from . import core

PROPERTIES = ["C11"]

MANIFEST = {
    "C11": dict(level="model_checking",
                technique="TLA+ model of the three ask transports (AskHub rendezvous, stream per ask, mbapp fragments with the in-flight table) checked by TLC; TLC-generated scripts with handler gates, Close points and context ends replayed on 13 real stacks plus seeded concurrent workloads; ledger judged by TLC",
                text="TLC checks OwnAnswer (a successful Ask returns the bytes its own handler invocation produced; the handler saw this request and the asker's address) and FailureIsError (negative handler result, destination closed before the call, response longer than the buffer, context ended => error, by the deadline) on every interleaving of 2 askers x 2 servers with every handler result class, CloseDst and Timeout at every step, reordered and duplicated multi-part mbapp replies and colliding counters. Scripts generated from the same model drive vswarm/memswarm, wlswarm, multiswarm, the five p2pmux framings, quicswarm on memswarm, sshswarm on 127.0.0.1 and mbapp over a harness-owned datagram network (the driver delivers every fragment in the scripted order, sets colliding counters through a verif hook), with unique request and response payloads, any number of asks committed at a destination before its application serves the first one (requests of equal or decreasing length, mbapp with one and with four receive workers); seeded concurrent workloads (c askers, servers closing mid-run, expiring contexts) exercise the same stacks free-running. TLC evaluates the ledger: every AskRet(ok, n, digest) must match a handler invocation for the same request id.",
                note="Bounds: 2 askers x 2 servers x 2-3 asks in the model. An Ask still blocked 1 s after its context ended is re-measured to 3 s, discarded if the harness' own heartbeat was not scheduled for a third of that, and the behaviour is executed a second time before it is believed (re-observations of a recorded finding excepted). Errors without a cause are DRIFT, not violations (C11 does not promise success).",
                ref="5 (C11), 3.8, Appendix B"),
}

HUB_PAR = ["vswarm", "wlswarm"]
HUB_SER = ["mux-string", "mux-varint", "mux-u16", "mux-u32", "mux-u64", "multiswarm"]
GEN = {
    "hub_par": ("AskGen_hub_par.cfg", HUB_PAR),
    "hub_ser": ("AskGen_hub_ser.cfg", HUB_SER),
    "stream_par": ("AskGen_stream_par.cfg", ["quicswarm"]),
    "stream_ser": ("AskGen_stream_ser.cfg", ["sshswarm"]),
    "mbapp": ("AskGen_mbapp.cfg", ["mbapp", "mbapp-w1"]),   # four receive workers / one receive worker per node
}
CONC_STACKS = ["vswarm", "wlswarm", "multiswarm", "mux-string", "mux-varint", "mux-u16", "mux-u32", "mux-u64",
               "quicswarm", "sshswarm", "mbapp-loop", "mbapp-mem", "mbapp-mem-w1"]
# stacks whose Ask runs the AskHub rendezvous in the asker's goroutine (one root cause for deadline-in-handler)
ASKHUB_STACKS = set(HUB_PAR + HUB_SER)

TIERS = {
    "quick": dict(
        mc=[("hub", "Ask_hub.cfg", 3), ("stream-serial", "Ask_stream_serial.cfg", 3), ("mbapp", "Ask_mbapp.cfg", 4),
            ("mbapp-keys", "Ask_mbapp_keys.cfg", 4)],
        mustfail=[("bugF09", "Ask_mbapp_bugF09.cfg"), ("weakDst", "Ask_mbapp_weakDst.cfg"), ("bugAlias", "Ask_mbapp_bugAlias.cfg")],
        scripted={"vswarm": 60, "wlswarm": 30, "multiswarm": 30, "mux-string": 25, "mux-varint": 25, "mux-u16": 25,
                  "mux-u32": 25, "mux-u64": 25, "quicswarm": 40, "sshswarm": 40, "mbapp": 90, "mbapp-w1": 80},
        conc=dict(reps=2, nodes_a=2, nodes_s=2, askers=6, asks=20), par=12, inhandler=2),
    "thorough": dict(
        mc=[("hub", "Ask_hub.cfg", 3), ("hub-serial", "Ask_hub_serial.cfg", 3), ("stream", "Ask_stream.cfg", 3),
            ("stream-serial", "Ask_stream_serial.cfg", 3), ("mbapp", "Ask_mbapp.cfg", 4), ("mbapp-keys", "Ask_mbapp_keys.cfg", 4),
            ("hub-live", "Ask_hub_live.cfg", 2), ("stream-live", "Ask_stream_live.cfg", 2), ("mbapp-live", "Ask_mbapp_live.cfg", 2),
            ("hub-deep", "Ask_hub_deep.cfg", 4), ("stream-deep", "Ask_stream_deep.cfg", 4),
            ("mbapp-deep", "Ask_mbapp_deep.cfg", 4), ("mbapp-deep3", "Ask_mbapp_deep3.cfg", 4)],
        mustfail=[("bugF02", "Ask_hub_bugF02.cfg"), ("bugF09", "Ask_mbapp_bugF09.cfg"), ("bugF10", "Ask_stream_bugF10.cfg"),
                  ("bugF11", "Ask_stream_bugF11.cfg"), ("bugNeg", "Ask_hub_bugNeg.cfg"), ("weakOT", "Ask_mbapp_weakOT.cfg"), ("bugAlias-mbapp", "Ask_mbapp_bugAlias.cfg"), ("bugAlias-stream", "Ask_stream_bugAlias.cfg"),
                  ("weakDst", "Ask_mbapp_weakDst.cfg")],
        scripted={"vswarm": 300, "wlswarm": 150, "multiswarm": 150, "mux-string": 120, "mux-varint": 120, "mux-u16": 120,
                  "mux-u32": 120, "mux-u64": 120, "quicswarm": 200, "sshswarm": 200, "mbapp": 500, "mbapp-w1": 400},
        conc=dict(reps=4, nodes_a=4, nodes_s=4, askers=16, asks=25), par=12, inhandler=4),
}


def stage1(tier, stats, with_mc=True):
    """model checking, model self-test and script generation, in parallel threads"""
    T = TIERS[tier]
    if not with_mc:      # developer runs (mutants): scripts only
        T = dict(T, mc=[], mustfail=[])
    ex = ThreadPoolExecutor(max_workers=6)

    def mc(name, cfg, workers):
        res = core.tlc("MC_Ask", cfg, workers=workers, timeout=1500, label="mc-" + name, heap="6g")
        core.tlc_ok_or_inconclusive(res, "MC Ask/" + name)
        stats["mc"][name] = dict(states=res.distinct, transitions=res.generated, depth=res.depth, wall=round(res.wall, 1))

    def mustfail(name, cfg):
        res = core.tlc("MC_Ask", cfg, workers=2, timeout=600, label="selftest-" + name, short=True)
        if "Safety" not in res.violated:
            raise core.Inconclusive("model self-test: %s should violate Safety (the operators do not tell)\n%s" % (cfg, res.out[-1500:]))
        stats["model_selftest"].append(name)

    def gen(fam, n):
        cfg, _ = GEN[fam]
        res = core.tlc("AskGen", cfg, workers=1, simulate=n, depth=400, tlc_seed=core.seed(), timeout=900,
                       label="gen-" + fam, short=(n <= 400))
        core.tlc_ok_or_inconclusive(res, "Gen " + fam)
        bs = [x[1] for x in res.printed("BEH")]
        if len(bs) < n // 2:
            raise core.Inconclusive("generator %s produced %d of %d behaviours" % (fam, len(bs), n))
        return fam, bs

    need = {fam: sum(T["scripted"].get(s, 0) for s in stacks) for fam, (_, stacks) in GEN.items()}
    gf = [ex.submit(gen, fam, n + 5) for fam, n in need.items() if n > 0]
    mcf = [ex.submit(mc, *m) for m in T["mc"]] + [ex.submit(mustfail, *m) for m in T["mustfail"]]
    behs = dict(f.result() for f in gf)
    return behs, mcf, ex


def plan(tier, gen_behs):
    """assign generated scripts to stacks; add the concurrent workloads"""
    T = TIERS[tier]
    rnd = random.Random(core.seed())
    out, bid = [], 0
    for fam, (_, stacks) in GEN.items():
        bs = list(gen_behs.get(fam, []))
        pos = 0
        for st in stacks:
            for _ in range(T["scripted"].get(st, 0)):
                if not bs:
                    break
                b = bs[pos % len(bs)]
                pos += 1
                bid += 1
                out.append(dict(id=bid, family="scripted", stack=st, seed=core.seed(), gen=fam, hist=b["hist"]))
    c = T["conc"]
    for rep in range(c["reps"]):
        for st in CONC_STACKS:
            bid += 1
            askers = c["askers"] if st != "sshswarm" else min(c["askers"], 8)
            out.append(dict(id=bid, family="concurrent", stack=st, seed=core.seed() * 100 + rep, gen="concurrent", hist=[],
                            conc=dict(nodes_a=c["nodes_a"], nodes_s=c["nodes_s"], askers=askers, asks=c["asks"],
                                      close=(rep % 2 == 0), cancel_pc=rnd.choice([10, 20]), delay_pc=rnd.choice([20, 40]),
                                      # odd repetitions: the requests ARRIVE BEFORE anybody serves (the applications call
                                      # ServeAsk only 30 ms after the askers started), requests of equal length
                                      serve_delay_ms=(30 if rep % 2 == 1 else 0),
                                      len_policy=("equal" if rep % 2 == 1 else ""))))
    return out


def key_of(stack, opcause):
    op, cause = opcause.split("/", 1)
    if cause == "deadline-in-handler" and stack in ASKHUB_STACKS:
        return "C11:%s:askhub/%s" % (op, cause)
    if cause == "deadline" and stack in HUB_SER:
        # the forwarding layer's serve loop took the request (it is the inner hub's handler) and waits for the
        # application's ServeAsk: the asker is committed although no application handler runs yet
        return "C11:%s:askhub/deadline-forwarded" % op
    return "C11:%s:%s/%s" % (op, stack, cause)


def execute(binp, behs, d, tag, par, inhandler, timeout):
    p = os.path.join(d, "beh-%s.ndjson" % tag)
    with open(p, "w") as f:
        for b in behs:
            f.write(json.dumps(b) + "\n")
    tr = os.path.join(d, "trace-%s.ndjson" % tag)
    out = core.run([binp, "-in", p, "-out", tr, "-par", str(par), "-inhandler", str(inhandler)], timeout=timeout)
    last = [ln for ln in out.strip().splitlines() if ln.startswith("askreplay:")]
    core.log((last[-1] if last else out.strip()[-300:]) + " [" + tag + "]")
    if not last:
        raise core.Inconclusive("askreplay did not finish:\n" + out[-2000:])
    return tr


def judge(tr, behs_by_id):
    """TLC over the ledger -> (viol list of (beh, lineno, ev, opcauses), drift counter, lines)"""
    res = core.validate_trace("AskTrace", "AskTrace.cfg", tr, nshards=4)
    lines = open(tr).readlines()
    viol = []
    res["selftest_rejected"] = set()
    for _tag, lineno, beh, ops in res["viol"]:
        if beh in SELFTEST_BEH:
            if any(o.startswith("OwnAnswer/") for o in ops):
                res["selftest_rejected"].add(beh)
            continue
        ev = json.loads(lines[lineno - 1])
        ops = sorted(ops)
        # a failure cause explains the mismatch: name the violation after it
        if any(o.startswith("FailureIsError/") for o in ops):
            ops = [o for o in ops if o.startswith("FailureIsError/")]
        viol.append((beh, lineno, ev, ops))
    drift = {}
    for _tag, lineno, beh, whats in res["drift"]:
        if beh in SELFTEST_BEH:
            continue
        ev = json.loads(lines[lineno - 1])
        for w in whats:
            k = "%s/%s" % (ev.get("stack", "?"), w)
            drift.setdefault(k, []).append((beh, lineno))
    return viol, drift, lines, res


SELFTEST_BEH = (9000001, 9000002)


def add_binding_selftest(tr):
    """Append two corrupted copies of a recorded behaviour to the trace (a changed digest; a removed handler
    event): the trace spec must reject both (checked in judge)."""
    lines = open(tr).readlines()
    start = None
    for i, ln in enumerate(lines):
        ev = json.loads(ln)
        if ev["ev"] == "reset":
            start = i
        if ev["ev"] == "AskRet" and ev["err"] == "nil" and ev["n"] > 0 and start is not None:
            end = i
            while end + 1 < len(lines) and json.loads(lines[end + 1])["ev"] != "reset":
                end += 1
            seg = [json.loads(x) for x in lines[start:end + 1]]
            seg1 = [dict(x, beh=SELFTEST_BEH[0], d=("1:ffffffffffff" if (x["ev"] == "AskRet" and x["id"] == ev["id"]) else x["d"])) for x in seg]
            seg2 = [dict(x, beh=SELFTEST_BEH[1]) for x in seg if not (x["ev"] == "HEnd" and x["id"] == ev["id"])]
            with open(tr, "a") as f:
                for x in seg1 + seg2:
                    f.write(json.dumps(x) + "\n")
            return
    raise core.Inconclusive("binding self-test: no successful ask in the trace")


def run_pipeline(tier, replay_behaviours=None, binary=None, with_mc=True):
    t0 = time.time()
    T = TIERS[tier]
    stats = dict(mc={}, model_selftest=[], behaviours={}, events=0, trace_states=0, drift={}, asks={}, remeasured=0, discarded=0)
    d = core.scratch("ask")
    binp = binary or core.go_build("askreplay")
    mcf, ex = [], None
    if replay_behaviours is None:
        gen_behs, mcf, ex = stage1(tier, stats, with_mc)
        behs = plan(tier, gen_behs)
    else:
        behs = replay_behaviours
    by_id = {b["id"]: b for b in behs}
    for b in behs:
        k = "%s/%s" % (b["stack"], b["family"])
        stats["behaviours"][k] = stats["behaviours"].get(k, 0) + 1
    tr = execute(binp, behs, d, "main", T["par"], T["inhandler"], timeout=1500 if tier == "thorough" else 400)
    if replay_behaviours is None:
        add_binding_selftest(tr)
    viol, drift, lines, res = judge(tr, by_id)
    if replay_behaviours is None:
        if res["selftest_rejected"] != set(SELFTEST_BEH):
            raise core.Inconclusive("binding self-test: a corrupted digest / a removed handler event was not rejected by AskTrace")
        stats["binding_selftest"] = "a changed response digest and a removed HEnd event were both rejected by AskTrace"
    stats["events"], stats["trace_states"] = res["events"], res["states"]
    # per stack ask statistics + anti-vacuity
    distinct = set()
    for ln in lines:
        ev = json.loads(ln)
        if ev["beh"] in SELFTEST_BEH:
            continue
        if ev["ev"] == "reset" and ev["info"] != "ok":
            raise core.Inconclusive("askreplay could not build stack %s: %s" % (ev["stack"], ev["info"]))
        if ev["ev"] in ("HarnessPanic",):
            raise core.Inconclusive("askreplay: harness panic in behaviour %d: %s" % (ev["beh"], ev["info"]))
        if ev["ev"] == "AskRet":
            s = stats["asks"].setdefault(ev["stack"], dict(ok=0, err=0))
            s["ok" if ev["err"] == "nil" else "err"] += 1
        if ev["ev"] == "HEnd":
            distinct.add((ev["stack"], ev["info"], ev["n"] < 0, ev["n"] == 0))
    if replay_behaviours is None:
        for st in set(b["stack"] for b in behs):
            if stats["asks"].get(st, {}).get("ok", 0) == 0:
                raise core.Inconclusive("no Ask ever succeeded on stack %s: the run shows nothing about OwnAnswer there" % st)
    stats["handler_cases"] = len(distinct)
    # deadline observations are timing based: execute those behaviours once more before believing them
    known = {k["key"] for k in core.known_findings() if k.get("property") == "C11" and k.get("status", "open") == "open"}
    timed = sorted({beh for beh, _, ev, ops in viol
                    if any("deadline" in o and key_of(by_id[beh]["stack"], o) not in known for o in ops)})
    confirmed = {(beh, o) for beh, _, ev, ops in viol for o in ops
                 if "deadline" in o and key_of(by_id[beh]["stack"], o) in known}   # re-observation of a recorded finding
    if timed:
        stats["remeasured"] = len(timed)
        tr2 = execute(binp, [by_id[b] for b in timed], d, "remeasure", 4, 1000, timeout=400)
        viol2, _, _, _ = judge(tr2, by_id)
        for beh, _, ev, ops in viol2:
            for o in ops:
                if "deadline" in o:
                    confirmed.add((beh, o))
    violations = []
    for beh, lineno, ev, ops in viol:
        b = by_id[beh]
        for o in ops:
            if "deadline" in o and (beh, o) not in confirmed:
                stats["discarded"] += 1
                continue
            key = key_of(b["stack"], o)
            what = "%s false on %s (%s family, behaviour %d, ask %d, event line %d: %s n=%d err=%s%s)" % (
                o, b["stack"], b["family"], beh, ev["id"], lineno, ev["ev"], ev["n"], ev["err"],
                (", " + str(ev["ms"]) + " ms after the context ended") if ev["ev"] == "Timeout" else "")
            violations.append(("C11", key, what, dict(behaviour=b, event=ev, operator=o)))
    for k, v in drift.items():
        stats["drift"][k] = len(v)
    for f in mcf:
        f.result()
    if ex:
        ex.shutdown()
    ids = [b["id"] for b in behs]
    stats["samples"] = [dict(stack=by_id[i]["stack"], family=by_id[i]["family"],
                             script=[" ".join(str(s[k]) for k in ("op", "k", "a", "s", "cls", "p", "exp") if k in s) for s in by_id[i]["hist"]][:24],
                             conc=by_id[i].get("conc"))
                        for i in ids[:1] + ids[len(ids) // 2:len(ids) // 2 + 1] + ids[-1:]]
    stats["wall"] = time.time() - t0
    return stats, violations


def check(pid, tier, replay=None):
    t0 = time.time()
    rb = None
    if replay:
        with open(replay) as f:
            rb = [json.load(f)["payload"]["behaviour"]]
    stats, violations = run_pipeline(tier, rb)
    mine, seen = [], set()
    known = {k["key"] for k in core.known_findings() if k.get("property") == pid}
    for (p, key, what, payload) in violations:
        if p != pid or key in seen:
            continue
        seen.add(key)
        # re-observations of a recorded finding are reported without a new replay file every run
        mine.append(core.Violation(pid, key, what, None if key in known else core.write_replay(pid, key, payload)))
    report(pid, tier, stats, mine, t0)
    return core.verdict(pid, mine)


def report(pid, tier, stats, mine, t0):
    if stats["drift"]:
        print("DRIFT component=Ask %s (steps Ask.tla does not predict; no listed property is falsified by them)"
              % json.dumps(dict(sorted(stats["drift"].items())[:12])))
    n_asks = sum(v["ok"] + v["err"] for v in stats["asks"].values())
    coverage = dict(
        states=max(sum(v["states"] for v in stats["mc"].values()), 1),
        transitions=max(sum(v["transitions"] for v in stats["mc"].values()), 1),
        traces_validated_against_impl=sum(stats["behaviours"].values()),
        samples=stats["samples"] or [dict(note="replay run")],
        evaluations=n_asks, distinct_nontrivial=stats["handler_cases"],
        rule="evaluations = Ask calls executed on real swarms and judged by TLC; distinct_nontrivial = distinct (stack, handler class, sign of n) combinations whose handler actually ran",
        model_checking=stats["mc"], model_selftest=stats["model_selftest"], behaviours=stats["behaviours"],
        asks=stats["asks"], events=stats["events"], trace_states=stats["trace_states"], drift=stats["drift"],
        deadline_remeasured=stats["remeasured"], deadline_discarded=stats["discarded"],
        binding_selftest=stats.get("binding_selftest", "replay run"), exhaustive=False)
    core.write_evidence(pid, tier, "model_checking", coverage,
                        ["unique request and response payloads: crossed or truncated answers are distinguishable by digest",
                         "the handler is honest: it reports failure (n < 0) when its answer does not fit the buffer it was given",
                         "mbapp: the network does not duplicate REQUESTS (two handler invocations could legitimately mix their reply parts); one asker never reuses (counter, originTime, dst)",
                         "promptness threshold 1 s (healthy: < 1 ms), re-measured to 3 s, harness heartbeat, behaviour executed twice; at most a few such measurements per stack kind and run",
                         "TLC, the Json/IOUtils community modules and the Go toolchain are trusted"],
                        time.time() - t0, len(mine))
